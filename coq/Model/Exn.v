(* Exception signatures of the CPython primitives the typed value getters call, and the
   computation of what can ESCAPE a getter given the handlers around each primitive (C04). *)
From DV Require Import Prelude.Base Model.Wire.

Inductive prim : Set :=
| PStructUnpack      (* struct.unpack(fmt, payload[...]) : struct.error on a wrong size *)
| PDecodeUtf8        (* bytes.decode("utf-8")            : UnicodeDecodeError *)
| PInetNtop          (* socket.inet_ntop(family, bytes)  : ValueError on a wrong size (OSError for a bad family) *)
| PFromTimestamp     (* datetime.fromtimestamp(n), n from a 32-bit field + era offset: always in range *)
| PFromUnpacker      (* Avp.from_unpacker(unpacker)      : ConversionError *)
| PValueGetter.      (* self.value inside __str__        : AvpDecodeError only (by the rows above) *)

Inductive exn : Set :=
| EStructError | EValueError | EUnicodeDecodeError | EOSError | EOverflowError | ETypeError
| EAttributeError | EConversionError | EAvpDecodeError | EException.

Definition exn_eqb (a b : exn) : bool :=
  match a, b with
  | EStructError, EStructError | EValueError, EValueError | EUnicodeDecodeError, EUnicodeDecodeError
  | EOSError, EOSError | EOverflowError, EOverflowError | ETypeError, ETypeError
  | EAttributeError, EAttributeError | EConversionError, EConversionError
  | EAvpDecodeError, EAvpDecodeError | EException, EException => true
  | _, _ => false
  end.

(* what each primitive can raise on arbitrary payload bytes *)
Definition raises (p : prim) : list exn :=
  match p with
  | PStructUnpack => [EStructError]
  | PDecodeUtf8 => [EUnicodeDecodeError]
  | PInetNtop => [EValueError; EOSError]
  | PFromTimestamp => []
  | PFromUnpacker => [EConversionError]
  | PValueGetter => [EAvpDecodeError]
  end.

(* `except C` catches e: class hierarchy of the builtins involved *)
Definition covers (c e : exn) : bool :=
  exn_eqb c e ||
  match c, e with
  | EException, _ => true
  | EValueError, EUnicodeDecodeError => true
  | _, _ => false
  end.

Definition escapes (row : ty * prim * list exn) : list exn :=
  let '(_, p, caught) := row in
  List.filter (fun e => negb (List.existsb (fun c => covers c e) caught)) (raises p).

Definition getters_closed (rows : list (ty * prim * list exn)) : bool :=
  List.forallb (fun r => match escapes r with [] => true | _ => false end) rows.
