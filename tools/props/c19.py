"""C19 — per-transaction and per-connection state is released; nothing grows with use."""
from __future__ import annotations

import collections
import copy
import queue as _q
import random

import nodesim as NS
import nodegen
import nodecheck
import vlib

FILES = ["Props/C19.v"]
PRE = nodecheck.PRE
OK = nodecheck.OK


def cfg2():
    c = NS.default_cfg()
    c["peers"] = [
        dict(name="cli0.example.net", realm="example.net", addr=False, persistent=False, always=False,
             cea=None, cer=None, dwa=None, idle=None, rwait=30, apps=[0], default=False),
        dict(name="cli1.example.net", realm="example.net", addr=True, persistent=False, always=False,
             cea=None, cer=None, dwa=None, idle=None, rwait=6, apps=[0], default=False)]
    return c


# ---------------------------------------------------------------------------------------------
# structural measurement (read-only)
# ---------------------------------------------------------------------------------------------
def measure(r):
    """sizes of every container reachable from the node / its applications / peers / connections, live threads by role,
    sockets created and not closed.  Containers with a maxlen (documented fixed windows) are checked against the bound
    and reported as '<=maxlen'."""
    sim, node = r.sim, r.node
    sizes, over = {}, []
    seen = set()

    todo = collections.deque()      # breadth first: every object is reported under its SHORTEST path, so that the depth
    #                                 limit does not cut off what hangs below an object that is also reachable the long way

    def walk(o, path, depth):
        todo.append((o, path, depth))

    def visit(o, path, depth):
        if id(o) in seen or depth > 8:
            return
        seen.add(id(o))
        if hasattr(o, "_maxage") and isinstance(getattr(o, "_slots", None), dict):
            # a per-second statistics counter: one slot per second of the last `maxage` seconds (documented fixed window)
            if len(o._slots) > o._maxage + 1:
                over.append(path)
            sizes[path] = "<=%d slots" % (o._maxage + 1)
            return
        if isinstance(o, collections.deque):
            if o.maxlen is not None:
                if len(o) > o.maxlen:
                    over.append(path)
                sizes[path] = "<=%d" % o.maxlen
            else:
                sizes[path] = len(o)
            return
        if isinstance(o, dict):
            sizes[path] = len(o)
            for k in sorted(o, key=repr):
                v = o[k]
                if isinstance(v, (dict, list, set, collections.deque)) or _is_node_obj(v):
                    walk(v, f"{path}[{_key(k)}]", depth + 1)
            return
        if isinstance(o, (list, set, tuple, frozenset)):
            sizes[path] = len(o)
            if isinstance(o, (list, tuple)):
                for i, v in enumerate(o):
                    if isinstance(v, (dict, list, set, collections.deque)) or _is_node_obj(v):
                        walk(v, f"{path}[{i}]", depth + 1)
            return
        if hasattr(o, "qsize") and hasattr(o, "put"):
            sizes[path] = o.qsize()
            return
        if _is_node_obj(o):
            for k, v in sorted(vars(o).items()):
                if isinstance(v, (dict, list, set, tuple, collections.deque)) or (hasattr(v, "qsize") and hasattr(v, "put")) \
                        or _is_node_obj(v):
                    walk(v, f"{path}.{k}", depth + 1)

    def _key(k):
        return k.decode() if isinstance(k, bytes) else str(getattr(k, "__class__", type(k)).__name__ if _is_node_obj(k) else k)

    def _is_node_obj(v):
        m = any((getattr(k, "__module__", "") or "").startswith("diameter.node") for k in type(v).__mro__)
        return m and not isinstance(v, type) and hasattr(v, "__dict__") \
            and type(v).__name__ not in ("StoppableThread", "PeerLogAdapter", "MessageDumpLogAdapter", "SequenceGenerator",
                                         "SessionGenerator")
    walk(node, "node", 0)
    while todo:
        visit(*todo.popleft())
    threads = dict(sim.live_threads_by_role())
    threads.pop("spawn", None)
    open_socks = sum(1 for s in sim.sockets if not getattr(s, "closed", False) and s not in sim.listeners)
    return dict(sizes=sizes, over=over, threads=threads, open_sockets=open_socks)


# ---------------------------------------------------------------------------------------------
# histories
# ---------------------------------------------------------------------------------------------
class Hist:
    def __init__(self, cfg):
        self.cfg = cfg
        self.r = NS.Run(cfg, seed=1)
        self.events, self.obs = [], []
        self.hb = 1000
        self.ncid = 0
        self.do(dict(ev="start"))

    def do(self, ev):
        o = self.r.apply(ev)
        self.events.append(ev)
        self.obs.append(o)
        return o

    def ids(self):
        self.hb += 1
        return self.hb, self.hb + 500000

    def accept(self):
        self.do(dict(ev="accept", hbh0=5000 + 13 * self.ncid))
        self.ncid += 1
        return self.ncid - 1

    def recv(self, cid, spec):
        h, e = (spec.get("hbh"), spec.get("e2e")) if "hbh" in spec else self.ids()
        spec = dict(spec, hbh=h, e2e=e)
        return self.do(dict(ev="recv", cid=cid, frames=[NS.build_message(spec)])), spec

    def established(self, host="cli0.example.net"):
        cid = self.accept()
        self.recv(cid, dict(kind="cer", host=host))
        return cid

    def tick(self, dt, dials=()):
        return self.do(dict(ev="tick", dt=dt, dials=list(dials)))

    def end_all(self):
        # every connection ends: the remote side closes whatever is still open
        for cid, rem in enumerate(self.r.remotes):
            if not rem.closed_by_node and not getattr(rem, "closed", False):
                try:
                    self.do(dict(ev="close", cid=cid))
                except Exception:   # noqa
                    pass
        fd = getattr(self, "final_dials", [])
        self.tick(7, dials=fd)
        self.tick(7, dials=fd)


def h_inbound(n):
    h = Hist(cfg2())
    cid = h.established()
    g = nodegen.Gen(random.Random(0), h.cfg, {})
    for _ in range(n):
        o, spec = h.recv(cid, dict(kind="req", host="cli0.example.net"))
        wire = h.events[-1]["frames"][0]
        for (app, _hh, _ee) in o["delivered"]:
            h.do(dict(ev="app_answer", app=app, msg=g.make_answer(wire)))
    return h


def h_outbound(n):
    from diameter.message.commands import CreditControlRequest
    h = Hist(cfg2())
    cid = h.established()
    for i in range(n):
        m = CreditControlRequest()
        m.session_id = "out;%d" % i
        m.origin_host = b"srv.example.net"
        m.origin_realm = b"example.net"
        m.destination_realm = b"example.net"
        m.service_context_id = "ctx"
        m.cc_request_type = 1
        m.cc_request_number = 0
        o = h.do(dict(ev="app_request", app=0, msg=m, pick=0, timeout=30))
        for c, ms in o["sends"].items():
            for x in ms:
                if x["req"] and x["cmd"].startswith("App"):
                    h.do(dict(ev="recv", cid=c, frames=[NS.build_message(dict(kind="ans", hbh=x["hbh"], e2e=x["e2e"]))]))
    return h


def h_retransmissions(n):
    """each request is answered by the application, then repeated with the T flag (rejected 5012 by the node)"""
    h = Hist(cfg2())
    cid = h.established()
    g = nodegen.Gen(random.Random(0), h.cfg, {})
    from diameter.message import Message
    for _ in range(n):
        o, spec = h.recv(cid, dict(kind="req", host="cli0.example.net"))
        wire = h.events[-1]["frames"][0]
        for (app, _hh, _ee) in o["delivered"]:
            h.do(dict(ev="app_answer", app=app, msg=g.make_answer(wire)))
        m = Message.from_bytes(wire)
        m.header.is_retransmit = True
        m.header.hop_by_hop_identifier = h.ids()[0]
        h.do(dict(ev="recv", cid=cid, frames=[m.as_bytes()]))
    return h


def h_outbound_late(n):
    """outbound requests whose answer arrives only after the caller's timeout"""
    return _outbound_late(n, False)


def _outbound_late(n, raising):
    from diameter.message.commands import CreditControlRequest
    h = Hist(cfg2())
    cid = h.established()
    if raising:
        def bad_handler(message, _app=h.r.apps[0]):
            h.r.unexpected.append((_app.idx, message))
            raise RuntimeError("handle_answer failed")
        h.r.apps[0].handle_answer = bad_handler
    for i in range(n):
        m = CreditControlRequest()
        m.session_id = "late;%d" % i
        m.origin_host = b"srv.example.net"
        m.origin_realm = b"example.net"
        m.destination_realm = b"example.net"
        m.service_context_id = "ctx"
        m.cc_request_type = 1
        m.cc_request_number = 0
        o = h.do(dict(ev="app_request", app=0, msg=m, pick=0, timeout=2))
        sent = [(c, x) for c, ms in o["sends"].items() for x in ms if x["req"] and x["cmd"].startswith("App")]
        h.tick(3)
        for c, x in sent:
            h.do(dict(ev="recv", cid=c, frames=[NS.build_message(dict(kind="ans", hbh=x["hbh"], e2e=x["e2e"]))]))
    return h


def h_self_closing_pairs(n):
    """two connections close themselves (garbage instead of a header) in the same instant, N times"""
    h = Hist(cfg2())
    for _ in range(n):
        a = h.accept()
        b = h.accept()
        h.r.remotes[a].feed(bytes(40))
        h.r.remotes[b].feed(bytes(40))
        h.r.sim.run()
        h.r.sim.advance(1)
    return h


def h_self_closing_with_output(n):
    """an established connection whose socket takes nothing has an answer waiting to be written when bytes arrive that
    cannot be a Diameter header: it closes itself with unsent output, N times"""
    h = Hist(cfg2())
    for _ in range(n):
        cid = h.established()
        h.do(dict(ev="stall", cid=cid, on=True))
        h.recv(cid, dict(kind="dwr", host="cli0.example.net"))
        h.r.remotes[cid].feed(bytes(40))
        h.r.sim.run()
        h.r.sim.advance(1)
    return h


def h_outbound_late_raising(n):
    """like h_outbound_late, but the application's unexpected-answer handler raises"""
    h = h_outbound_late.__wrapped__(n, raising=True) if hasattr(h_outbound_late, "__wrapped__") else _outbound_late(n, True)
    return h


def h_handler_raises(n):
    """requests whose (synchronous) application handler raises: the node answers 5012 itself"""
    h = Hist(cfg2())
    cid = h.established()
    for _ in range(n):
        h.recv(cid, dict(kind="req", host="cli0.example.net", raises=True))
    return h


class THist:
    """histories on a node with a THREADING application (tools/props/c14.TRun)"""
    def __init__(self, limit):
        from props import c14
        self.r = c14.TRun(5, limit)
        self.r.shutdown = self.r.sim.shutdown
        self.cfg, self.events, self.obs = None, [], []

    def end_all(self):
        for rem in self.r.remotes:
            if not rem.closed_by_node and not getattr(rem, "closed", False):
                try:
                    rem.close()
                except Exception:   # noqa
                    pass
        self.r.sim.run()
        self.r.sim.advance(7)
        self.r.sim.advance(7)


def h_threading_unroutable(n):
    """the requester goes away while the handler still works on its request: the answer cannot be routed (N times)"""
    h = THist(limit=0)
    hbh = 100
    for k in range(n):
        cid, _ = h.r.connect("cli0.example.net")
        hbh += 1
        h.r.request(cid, hbh, "slow:answer")
        h.r.remotes[cid].close()
        h.r.sim.run()
        h.r.release[hbh].set()
        h.r.sim.run()
        h.r.sim.advance(1)
    return h


def h_threading_outcomes(n):
    """handlers that answer, answer nothing, raise - on typed and untyped commands"""
    h = THist(limit=2)
    cid, _ = h.r.connect("cli0.example.net")
    hbh = 100
    for k in range(n):
        hbh += 1
        h.r.request(cid, hbh, ["answer", "none", "raise", "raise!u", "none!u"][k % 5])
        h.r.sim.advance(1)
    return h


def h_dwr_in(n):
    h = Hist(cfg2())
    cid = h.established()
    for _ in range(n):
        h.recv(cid, dict(kind="dwr", host="cli0.example.net"))
    return h


def h_dwr_out(n):
    h = Hist(cfg2())
    cid = h.established()
    for _ in range(n):
        o = h.tick(31)
        for c, ms in o["sends"].items():
            for x in ms:
                if x["req"] and x["cmd"] == "DW":
                    h.do(dict(ev="recv", cid=c, frames=[NS.build_message(dict(kind="dwa", hbh=x["hbh"], e2e=x["e2e"]))]))
    return h


def h_rejected(n):
    h = Hist(cfg2())
    cid = h.established()
    for i in range(n):
        k = i % 3
        if k == 0:
            h.recv(cid, dict(kind="req", host="cli0.example.net", app=99))             # unsupported application
        elif k == 1:
            h.recv(cid, dict(kind="req", host="cli0.example.net", no_type=True))       # missing mandatory AVP
        else:
            h.recv(cid, dict(kind="req", host="cli0.example.net", drealm="nowhere.example.com"))   # realm not served
    return h


def h_conn_peer_closes(n):
    h = Hist(cfg2())
    for _ in range(n):
        cid = h.established()
        h.recv(cid, dict(kind="req", host="cli0.example.net", app=99))
        h.do(dict(ev="close", cid=cid))
    return h


def h_conn_dpr(n):
    h = Hist(cfg2())
    for _ in range(n):
        cid = h.established()
        h.recv(cid, dict(kind="dpr", host="cli0.example.net"))
        h.tick(1)
        if not h.r.remotes[cid].closed_by_node:
            h.do(dict(ev="close", cid=cid))
    return h


def h_conn_watchdog(n):
    c = cfg2()
    c["idle"], c["dwa"] = 6, 6
    h = Hist(c)
    for _ in range(n):
        cid = h.established()
        h.tick(7)
        h.tick(7)
        h.tick(7)
    return h


def _persistent_cfg():
    c = cfg2()
    c["peers"][1]["persistent"] = True
    c["peers"][1]["rwait"] = 6
    return c


def h_conn_refused(n):
    c = _persistent_cfg()
    h = Hist.__new__(Hist)
    h.cfg, h.r, h.events, h.obs, h.hb, h.ncid = c, NS.Run(c, seed=1), [], [], 1000, 0
    h.do(dict(ev="start", dials=[(7000, "DialRefused")]))
    for i in range(n):
        h.tick(7, dials=[(7001 + i, "DialRefused")] * 2)
    h.final_dials = [(9001, "DialRefused")] * 2
    return h


def h_conn_async_fail(n):
    c = _persistent_cfg()
    h = Hist.__new__(Hist)
    h.cfg, h.r, h.events, h.obs, h.hb, h.ncid = c, NS.Run(c, seed=1), [], [], 1000, 0
    h.do(dict(ev="start", dials=[(7000, "DialInProgress")]))
    for i in range(n):
        pend = [cid for cid, rem in enumerate(h.r.remotes) if not rem.closed_by_node and rem in h.r.sim.outbound]
        for cid in pend:
            try:
                h.do(dict(ev="conndone", cid=cid, ok=False))
            except Exception:   # noqa
                pass
        h.tick(7, dials=[(7001 + i, "DialInProgress")] * 2)
    pend = [cid for cid, rem in enumerate(h.r.remotes) if not rem.closed_by_node and rem in h.r.sim.outbound]
    for cid in pend:
        try:
            h.do(dict(ev="conndone", cid=cid, ok=False))
        except Exception:   # noqa
            pass
    # stop re-dialling so that "every connection has ended" can hold
    h.r.node.peers["cli1.example.net"].persistent = False
    return h


def h_conn_established_out(n):
    """outbound connection established (CER/CEA), then closed by the peer, N times"""
    c = _persistent_cfg()
    h = Hist.__new__(Hist)
    h.cfg, h.r, h.events, h.obs, h.hb, h.ncid = c, NS.Run(c, seed=1), [], [], 1000, 0
    o = h.do(dict(ev="start", dials=[(7000, "DialOk")]))
    for i in range(n):
        for cid, ms in list(o["sends"].items()):
            for x in ms:
                if x["req"] and x["cmd"] == "CE":
                    h.do(dict(ev="recv", cid=cid, frames=[NS.build_message(dict(kind="cea", host="cli1.example.net", result=2001,
                                                                               hbh=x["hbh"], e2e=x["e2e"]))]))
                    h.do(dict(ev="close", cid=cid))
        o = h.tick(7, dials=[(7001 + i, "DialOk")] * 2)
    for cid, ms in list(o["sends"].items()):
        for x in ms:
            if x["req"] and x["cmd"] == "CE":
                h.do(dict(ev="close", cid=cid))
    h.r.node.peers["cli1.example.net"].persistent = False
    return h


def h_cer_rejected(n):
    h = Hist(cfg2())
    for _ in range(n):
        cid = h.accept()
        h.recv(cid, dict(kind="cer", host="cli0.example.net", auth=[777]))      # no common application
        h.tick(1)
    return h


def h_unknown_peer(n):
    h = Hist(cfg2())
    for _ in range(n):
        cid = h.accept()
        h.recv(cid, dict(kind="cer", host="stranger.example.org"))
        h.tick(1)
    return h


def h_already_connected(n):
    h = Hist(cfg2())
    h.established()
    for _ in range(n):
        cid = h.accept()
        h.recv(cid, dict(kind="cer", host="cli0.example.net"))
        h.tick(1)
    return h


def h_no_cer(n):
    h = Hist(cfg2())
    for _ in range(n):
        h.accept()
        h.tick(7)
    return h


def h_stopping(n):
    h = Hist(cfg2())
    cid = h.established()
    h.do(dict(ev="stop", force=False, timeout=max(200, 2 * n + 50)))     # the wait outlasts all n attempts
    for _ in range(n):
        h.accept()
        h.tick(1)
    return h


def h_conn_with_transaction(n):
    """n connections of the same peer, each carrying one request/answer, each closed by the peer"""
    h = Hist(cfg2())
    g = nodegen.Gen(random.Random(0), h.cfg, {})
    for _ in range(n):
        cid = h.established()
        o, spec = h.recv(cid, dict(kind="req", host="cli0.example.net"))
        wire = h.events[-1]["frames"][0]
        for (app, _hh, _ee) in o["delivered"]:
            h.do(dict(ev="app_answer", app=app, msg=g.make_answer(wire)))
        h.do(dict(ev="close", cid=cid))
    return h


def h_inbound_rejected_by_app(n):
    """requests the application turns down: answer 3004 with the E bit"""
    h = Hist(cfg2())
    cid = h.established()
    g = nodegen.Gen(random.Random(0), h.cfg, {})
    for _ in range(n):
        o, spec = h.recv(cid, dict(kind="req", host="cli0.example.net"))
        wire = h.events[-1]["frames"][0]
        for (app, _hh, _ee) in o["delivered"]:
            a = g.make_answer(wire)
            a.result_code = 3004
            a.header.is_error = True
            h.do(dict(ev="app_answer", app=app, msg=a))
    return h


def h_node_dpr(n):
    """n connections that the NODE ends with a DPR (Node.send_dpr); the peer answers with a DPA and leaves closing the
    transport to the initiator, as RFC 6733 5.4 prescribes"""
    h = Hist(cfg2())
    for _ in range(n):
        cid = h.established()
        ident = next((i_ for i_, c_ in h.r.cid_of_ident().items() if c_ == cid), None)
        conn = h.r.node.connections.get(ident)
        if conn is None:
            continue
        h.r.remotes[cid].take_messages()
        hnd = h.r.sim.spawn(lambda: h.r.node.send_dpr(conn), name="dpr")
        h.r.sim.run()
        dpr = [m for m in h.r.remotes[cid].take_messages() if m.header.is_request and m.header.command_code == 282]
        if dpr:
            h.r.remotes[cid].feed(NS.build_message(dict(kind="dpa", host="cli0.example.net", hbh=dpr[0].header.hop_by_hop_identifier,
                                                       e2e=dpr[0].header.end_to_end_identifier)))
        h.r.sim.run()
        h.r.sim.advance(2)
        if not h.r.remotes[cid].closed_by_node:
            h.node_left_open = getattr(h, "node_left_open", 0) + 1
    return h


def h_answer_after_dpr(n):
    """n requests are delivered, then the peer asks to disconnect; the application's answers come afterwards and can no
    longer be routed.  Whatever was recorded for the requests has to go."""
    h = Hist(cfg2())
    cid = h.established()
    g = nodegen.Gen(random.Random(0), h.cfg, {})
    pend = []
    for _ in range(n):
        o, spec = h.recv(cid, dict(kind="req", host="cli0.example.net"))
        wire = h.events[-1]["frames"][0]
        pend += [(app, wire) for (app, _hh, _ee) in o["delivered"]]
    h.recv(cid, dict(kind="dpr", host="cli0.example.net"))
    for app, wire in pend:
        h.do(dict(ev="app_answer", app=app, msg=g.make_answer(wire)))
    return h


def h_repeated_cer(n):
    """a peer that repeats its CER on the established connection n times (each is ignored)"""
    h = Hist(cfg2())
    cid = h.established()
    for _ in range(n):
        h.recv(cid, dict(kind="cer", host="cli0.example.net"))
    return h


def h_inbound_experimental(n):
    """inbound transactions whose answers carry an Experimental-Result instead of a Result-Code"""
    h = Hist(cfg2())
    cid = h.established()
    g = nodegen.Gen(random.Random(0), h.cfg, {})
    for _ in range(n):
        o, spec = h.recv(cid, dict(kind="req", host="cli0.example.net"))
        wire = h.events[-1]["frames"][0]
        for (app, _hh, _ee) in o["delivered"]:
            h.do(dict(ev="app_answer", app=app, msg=g.make_answer(wire, experimental=True)))
    return h


KINDS = [("inbound request/answer", h_inbound, True), ("outbound request/answer", h_outbound, True),
         ("inbound request answered with an Experimental-Result only", h_inbound_experimental, True),
         ("answers submitted after the requester's DPR", h_answer_after_dpr, True),
         ("connections that each carry one transaction", h_conn_with_transaction, True),
         ("connections ended by the node's DPR, the peer leaves the closing to the node", h_node_dpr, False),
         ("requests the application rejects with the E bit", h_inbound_rejected_by_app, True),
         ("CER repeated on the established connection", h_repeated_cer, True),
         ("rejected retransmissions", h_retransmissions, True), ("outbound request answered after the timeout", h_outbound_late, True),
         ("outbound request answered after the timeout, unexpected-answer handler raises", h_outbound_late_raising, True),
         ("two connections close themselves at once", h_self_closing_pairs, False),
         ("connections close themselves with unsent output", h_self_closing_with_output, False),
         ("requests whose handler raises", h_handler_raises, True),
         ("threading application: requester gone before the handler finishes", h_threading_unroutable, False),
         ("threading application: handler outcomes", h_threading_outcomes, False),
         ("DWR from the peer", h_dwr_in, True), ("DWR from the node", h_dwr_out, True),
         ("rejected requests", h_rejected, True), ("connection closed by the peer", h_conn_peer_closes, True),
         ("connection ended by DPR", h_conn_dpr, True), ("connection closed by the node (watchdog)", h_conn_watchdog, True),
         ("connect refused synchronously", h_conn_refused, True), ("connect failed asynchronously", h_conn_async_fail, False),
         ("outbound established then closed", h_conn_established_out, False),
         ("CER rejected (no common application)", h_cer_rejected, True), ("unknown peer", h_unknown_peer, True),
         ("peer already connected", h_already_connected, True), ("connection without CER", h_no_cer, True),
         ("refused because the node is stopping", h_stopping, True)]


def run_kind(fn, n):
    h = fn(n)
    try:
        h.end_all()
        m = measure(h.r)
        deaths = list(h.r.sim.thread_deaths)
    finally:
        h.r.shutdown()
    return h, m, deaths


def diff(a, b):
    out = []
    for k in sorted(set(a["sizes"]) | set(b["sizes"])):
        if a["sizes"].get(k) != b["sizes"].get(k):
            out.append((k, a["sizes"].get(k), b["sizes"].get(k)))
    for k in sorted(set(a["threads"]) | set(b["threads"])):
        if a["threads"].get(k, 0) != b["threads"].get(k, 0):
            out.append(("threads:" + k, a["threads"].get(k, 0), b["threads"].get(k, 0)))
    if a["open_sockets"] != b["open_sockets"]:
        out.append(("open sockets", a["open_sockets"], b["open_sockets"]))
    return out


def check(run):
    thorough = run.tier == "thorough"
    run.rule = ("for each kind of transaction / connection attempt: the same history shape with N = 1, 10, 100 (thorough: 1000) "
                "repetitions on the real node under vsim, then every connection is ended and the clock advanced; the sizes of ALL "
                "containers reachable from the node (discovered structurally), live threads by role and unclosed sockets must "
                "not depend on N; deques with maxlen are the documented windows and only checked against their bound; the "
                "N <= 10 histories are also replayed on the Coq node model state by state; non-trivial = (kind, N)")
    run.assumptions = ["vsim threads/sockets stand for the real ones", "retained state = containers reachable from the Node object"]
    run.obligations(FILES)
    ns = [1, 10, 100] + ([1000] if thorough else [])
    cases, meta = [], []
    table = {}
    for name, fn, model in KINDS:
        ms = {}
        for n in ns:
            try:
                h, m, deaths = run_kind(fn, n)
            except Exception as e:   # noqa
                run.mismatch("history runner", {"kind": name, "N": n}, f"{type(e).__name__}: {e}")
                continue
            run.count(1, [(name, n)])
            ms[n] = m
            if m["over"]:
                run.violation("window-bound", {"kind": name, "N": n}, m["over"], what=f"a bounded window exceeds its bound: {m['over']}")
            if deaths:
                run.violation("thread-death", {"kind": name, "N": n}, deaths, what=f"{name}: thread died: {deaths[0]}")
            # every connection of the history has ended: whatever the node allocated PER CONNECTION is gone, for every N
            left = {k: m["sizes"].get(k) for k in ("node.connections", "node.peer_sockets", "node.socket_peers", "node._half_ready_connections")
                    if m["sizes"].get(k)}
            workers = {k: v for k, v in m["threads"].items() if k.startswith("work_")}
            if getattr(h, "node_left_open", 0):
                run.violation("released-when-closed", {"kind": name, "N": n}, {"connections_the_node_did_not_close": h.node_left_open},
                              "the node closes the connection once the DPA to its DPR has arrived",
                              what=f"{name}: the node leaves the connection open after the DPA")
            if left or workers or m["open_sockets"]:
                run.violation("released-when-closed", {"kind": name, "N": n}, {"tables": left, "worker_threads": workers, "open_sockets": m["open_sockets"]},
                              "no connection table entry, no connection worker thread, no open peer socket",
                              what=f"{name}: after every connection has ended the node still holds per-connection resources")
            if model and n <= 10:
                cases.append(NS.coq_case(h.cfg, h.events, h.obs))
                meta.append({"kind": name, "N": n, "n_events": len(h.events)})
        # N = 1 may not reach every bounded key set (result-code ranges, command names): growth is judged from N = 10 on
        base = 10 if 10 in ms else (min(ms) if ms else None)
        for n in sorted(ms):
            if n <= base:
                continue
            d = diff(ms[base], ms[n])
            if d:
                what = "; ".join(f"{k}: {x} at N={base}, {y} at N={n}" for k, x, y in d[:4])
                run.violation("grows-with-N", {"kind": name, "N": n, "base_N": base, "differences": [list(x) for x in d[:12]]},
                              d[0][2], d[0][1], what=f"{name}: retained state depends on N — {what}")
                break
        if ms:
            last = ms[max(ms)]
            table[name] = {"threads": last["threads"], "open_sockets": last["open_sockets"],
                           "nonzero": {k: v for k, v in last["sizes"].items() if v not in (0,) and not str(v).startswith("<=")}}
    run.extra["retained_after_largest_N"] = table
    mism, errs = vlib.eval_mismatches(run.workdir, PRE, OK, cases, chunk=3, tag="c19")
    for i in mism:
        run.mismatch("node model vs implementation (state after every event)", meta[i], "state differs")
    for e in errs:
        run.mismatch("coq evaluation", {}, e)
    return run.finish(known_matcher=known)


def known(v, k):
    if k["id"] == "C19-origin-waiting-never-answered":
        c = v["case"]
        diffs = c.get("differences") or []
        return (v["clause"] == "grows-with-N" and c.get("kind") in k.get("history_kinds", [])
                and bool(diffs) and all(d_[0] == "node._origin_waiting_answer" for d_ in diffs))
    return False


def replay(r):
    case = r["case"]
    fn = next((f for nm, f, _ in KINDS if nm == case.get("kind")), None)
    if fn is None:
        return False
    _h, a, _ = run_kind(fn, case.get("base_N", 1))
    _h, b, _ = run_kind(fn, case["N"])
    d = diff(a, b)
    print("replay:", d[:6] if d else "no dependence on N")
    return not d
