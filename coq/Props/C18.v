(* C18 — graceful shutdown: DPR to ready peers, drain, refuse newcomers, close everything
   Statements copied from the proof files; each is closed by `exact`. *)
From DV Require Prelude.Base Model.Ids Proofs.IdsP Model.Node Proofs.NodeA.
From Coq Require String List Lia Bool Arith ZArith.

Module FromNodeA.
Import DV.Prelude.Base DV.Model.Node DV.Proofs.NodeA.
Import Coq.Strings.String.
Open Scope string_scope.
Open Scope list_scope.
Open Scope Z_scope.

(* C18: stop() queues exactly one DPR for each ready connection, in connection order, and nothing else;
   a forced stop sends nothing; the node is stopping afterwards *)
Theorem C18_dpr_to_ready n ds :
  List.NoDup (List.map c_id (n_conns n)) ->
  (List.map fst (queued (snd (step n ds (EStop false)))) =
     List.map c_id (List.filter (fun c => is_ready_state (c_state c)) (n_conns n)) /\
   List.Forall isdpr (queued (snd (step n ds (EStop false)))) /\
   n_stopping (fst (step n ds (EStop false))) = true) /\
  (snd (step n ds (EStop true)) = [] /\ n_stopping (fst (step n ds (EStop true))) = true).
Proof. exact (@NodeA.C18_dpr_to_ready n ds). Qed.

(* C18: while the node is stopping no timer fires, nobody is dialled, the I/O iteration outputs nothing *)
Theorem C18_quiet_while_stopping n :
  n_stopping n = true ->
  (forall cid, check_timers n cid = (n, [])) /\
  (forall names ds, dials_of (snd (fst (reconnect_all n names ds))) = [] /\
                    snd (fst (reconnect_all n names ds)) = []) /\
  (forall ds, snd (fst (io_iteration n ds)) = []).
Proof. exact (@NodeA.C18_quiet_while_stopping n). Qed.

(* C18: a connection accepted while stopping is closed at once and not registered *)
Theorem C18_newcomers_refused n ds h :
  n_stopping n = true ->
  n_conns (fst (step n ds (EAccept h))) = n_conns n /\
  snd (step n ds (EAccept h)) = [OClose (n_next_cid n) R_SHUTDOWN].
Proof. exact (@NodeA.C18_newcomers_refused n ds h). Qed.

(* C18: when stop() finishes no connection is left and each one was closed with NODE_SHUTDOWN *)
Theorem C18_all_closed n ds tc te :
  n_conns (fst (step n ds (EStopFinish tc te))) = [] /\
  (forall c, List.In c (n_conns n) -> List.In (OClose (c_id c) R_SHUTDOWN) (snd (step n ds (EStopFinish tc te)))).
Proof. exact (@NodeA.C18_all_closed n ds tc te). Qed.

(* C18: a DPA closes the connection at once (CLEAN) if nothing is buffered; otherwise the connection is
   CLOSING and the next flush that the socket accepts closes it *)
Theorem C18_close_after_dpa n cid c :
  get_conn n cid = Some c ->
  (c_out c = [] -> snd (recv_dpa n cid) = [OClose cid R_CLEAN] /\ get_conn (fst (recv_dpa n cid)) cid = None) /\
  (c_out c <> [] ->
     snd (recv_dpa n cid) = [] /\
     get_conn (fst (recv_dpa n cid)) cid = Some (set_cstate c SClosing) /\
     (c_stalled c = false -> c_sock_open c = true ->
      (exists pre post, snd (flush (fst (recv_dpa n cid))) =
                        pre ++ List.map (OSend cid) (c_out c) ++ [OClose cid R_CLEAN] ++ post) /\
      get_conn (fst (flush (fst (recv_dpa n cid)))) cid = None)).
Proof. exact (@NodeA.C18_close_after_dpa n cid c). Qed.
End FromNodeA.

Print Assumptions FromNodeA.C18_dpr_to_ready.
Print Assumptions FromNodeA.C18_quiet_while_stopping.
Print Assumptions FromNodeA.C18_newcomers_refused.
Print Assumptions FromNodeA.C18_all_closed.
Print Assumptions FromNodeA.C18_close_after_dpa.
