"""C12 — node-layer property; see tools/nodecheck.py and tools/nodeoracles.py."""
import nodecheck

PROFILE = dict(outbound=0.9)
W = nodecheck.weights(tick=10, dpr=4, close=3, conndone=8, cea=8, readerr=2)
N_QUICK, N_THOROUGH, LENGTH = 60, 1500, 22
THEMES = (("disconnect", None, 0, None, 0), ("disconnect_deep", 0, 0, 4000, 0), ("handshake_out", 2, 30, 3, 300))
FILES = ["Props/C12.v"]


def check(run):
    return nodecheck.run(run, "C12", FILES, PROFILE, W, N_QUICK, N_THOROUGH, LENGTH, themes=THEMES)


replay = nodecheck.replay_generic
