(* C17 -- "... whose origin host and end-to-end identifier equal those of a request the node has already answered ... is
   answered 5012": answers are sent by application threads, so the recording of an answered identifier in the origin's
   window (Node._record_answer) runs on several threads at once.  For EVERY schedule of two recording threads, any two
   identifiers and any window the origin already has (or none): nothing raises and both identifiers are in the window
   afterwards, behind what was there (Model/Record.v; program tied to the source by Link/LinkRecord.v; the bound of the
   window is the subject of C17_window).  Statements only; every proof is one `exact`. *)
From DV Require Import Prelude.Base Model.Record Proofs.RecordP.

Theorem C17_record_every_schedule : forall e1 e2 t0 l,
  let s := rrun e1 e2 l (rinit record_prog t0) in
  r_crashed s = false /\
  (r_p1 s = [] -> r_p2 s = [] ->
   exists w, r_table s = Some (window_of t0 ++ w) /\ In e1 w /\ In e2 w /\ length w = 2%nat).
Proof. exact record_all_schedules. Qed.
Print Assumptions C17_record_every_schedule.

(* test-then-create (the code before commit 7984a40): a schedule loses the identifier recorded first *)
Theorem C17_record_test_then_create_refuted :
  exists l, let s := rrun 1 2 l (rinit record_prog_test_then_create None) in
            r_p1 s = [] /\ r_p2 s = [] /\ r_crashed s = false /\ r_table s = Some [2].
Proof. exact record_test_then_create_refuted. Qed.
Print Assumptions C17_record_test_then_create_refuted.
