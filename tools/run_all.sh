#!/bin/bash
# run_all.sh <tier> : every check in sequence, one line per check (exit status, wall time, VIOLATION / KNOWN-FINDING lines)
tier=${1:-quick}
cd /verif
for i in $(seq -w 1 20); do
  p=C$i
  t0=$(date +%s)
  out=$(./check $p --tier $tier 2>&1)
  rc=$?
  t1=$(date +%s)
  echo "$p tier=$tier exit=$rc wall=$((t1-t0))s $(echo "$out" | grep -c '^VIOLATION') violation(s)"
  echo "$out" | grep '^VIOLATION\|^KNOWN-FINDING' | cut -c1-220
done
