"""C18 — node-layer property (shutdown); see tools/nodecheck.py and tools/nodeoracles.py."""
import nodecheck

PROFILE = dict(outbound=0.4)
W = nodecheck.weights(stop=2.5, dpa_for_dpr=8, tick=6, accept=4, cer=8, cea=8, conndone=6, request=3, app_answer=3)
N_QUICK, N_THOROUGH, LENGTH = 60, 1500, 22
THEMES = (("shutdown", None, 0, None, 0), ("shutdown_deep", 0, 0, None, 0))
FILES = ["Props/C18.v"]


def check(run):
    return nodecheck.run(run, "C18", FILES, PROFILE, W, N_QUICK, N_THOROUGH, LENGTH, themes=THEMES)


replay = nodecheck.replay_generic
