"""C13 — node-layer property; see tools/nodecheck.py and tools/nodeoracles.py."""
import nodecheck

PROFILE = dict(outbound=0.5)
W = nodecheck.weights(close=2.5, readerr=2, accept=5, cer=9, tick=5)
N_QUICK, N_THOROUGH, LENGTH = 60, 1500, 18
THEMES = (("handshake_in", 2, 60, 3, 600), ("handshake_out", 2, 60, 3, 600), ("ready", 2, 40, 2, 2000))
FILES = ["Props/C13.v"]


def known(v, k):
    if k["id"] == "C13-second-connection-same-peer":
        c = v["case"]
        live = v["observed"].get("live", []) if isinstance(v["observed"], dict) else []
        return (v["clause"] == "peer-conn-exactly-when-exists" and live and all(x in c.get("secondary_connections", []) for x in live))
    if k["id"] == "C13-cea-foreign-identity":
        obs = v["observed"] if isinstance(v["observed"], dict) else {}
        return v["clause"] in ("peer-conn-live", "reason-set", "ready-flag", "peer-conn-exactly-when-exists") and \
            (obs.get("peer") in v["case"].get("foreign_cea_peers", []) or
             (v["clause"] != "peer-conn-live" and bool(v["case"].get("foreign_cea_peers"))))
    return False


def corpus():
    """minimised histories found earlier (run first)"""
    import nodesim as NS
    cfg = NS.default_cfg()
    cfg["peers"] = [dict(name="a.example.net", realm="example.net", addr=True, persistent=True, always=False, cea=None, cer=None,
                         dwa=None, idle=None, rwait=30, apps=[0], default=False),
                    dict(name="b.example.net", realm="example.net", addr=False, persistent=False, always=False, cea=None, cer=None,
                         dwa=None, idle=None, rwait=30, apps=[0], default=False)]
    e2e0 = ((NS.T0 << 20) | cfg["e2e_rand"]) & 0xffffffff
    ev = [dict(ev="start", dials=[(500, "DialOk")]),
          dict(ev="recv", cid=0, dials=[], frames=[NS.build_message(dict(kind="cea", host="b.example.net", result=2001, hbh=501, e2e=e2e0 + 1))]),
          dict(ev="close", cid=0, dials=[])]
    # second connection from an already connected peer, first one closes
    cfg2 = NS.default_cfg()
    ev2 = [dict(ev="start", dials=[]), dict(ev="accept", hbh0=100, dials=[]),
           dict(ev="recv", cid=0, dials=[], frames=[NS.build_message(dict(kind="cer", host="cli0.example.net", hbh=1, e2e=1))]),
           dict(ev="accept", hbh0=200, dials=[]),
           dict(ev="recv", cid=1, dials=[], frames=[NS.build_message(dict(kind="cer", host="cli0.example.net", hbh=2, e2e=2))]),
           dict(ev="close", cid=0, dials=[])]
    return [("corpus: CEA with another peer's identity", cfg, ev), ("corpus: second connection from a connected peer", cfg2, ev2)]


def check(run):
    return nodecheck.run(run, "C13", FILES, PROFILE, W, N_QUICK, N_THOROUGH, LENGTH, themes=THEMES, known=known, extra_scenarios=corpus())


replay = nodecheck.replay_generic
