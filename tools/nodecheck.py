"""Shared driver of the node-layer checks (C06-C13, C17): random adaptive scenarios on the real
node under vsim, property oracle on the implementation trace, state-level correspondence with
Model/Node.v evaluated in Coq after every event."""
from __future__ import annotations

import copy
import random

import nodegen
import nodeoracles as NO
import nodesim as NS
import vlib

PRE = ("From DV Require Import Prelude.Base Model.Node Model.NodeObs.\nFrom Coq Require Import String.\n")
OK = "Definition ok (c : node * list (dials * event * eobs)) : bool := scenario_ok c.\n"

BASE_W = dict(accept=3, cer=6, pre_handshake=2, cer_plus=1, cea=6, conndone=6, request=6, bad_request=2, dwr=1.5, dwa=1,
              dpr=1, dpa=0.5, stray_answer=1, retransmit=1, burst=1, close=1.2, readerr=0.8, stall=0.4,
              app_answer=5, bad_app_answer=0.7, tick=4, app_request=0, answer_request=0, odd_answer=0, dpa_for_dpr=0, stop=0)


def weights(**over):
    w = dict(BASE_W)
    w.update(over)
    return w


def describe(cfg, events):
    out = []
    for e in events:
        d = {k: (v.hex() if isinstance(v, bytes) else v) for k, v in e.items() if k not in ("frames", "msg")}
        if "frames" in e:
            d["frames"] = [{k: v for k, v in NS.abstract(f).items() if k in ("cmd", "req", "hbh", "e2e", "t")} for f in e["frames"]]
        if "msg" in e:
            d["answer_for"] = [e["msg"].header.hop_by_hop_identifier, e["msg"].header.end_to_end_identifier]
        out.append(d)
    return out


DEFAULT_THEMES = (("handshake_in", 2, 40, 3, 400), ("handshake_out", 2, 40, 3, 400), ("ready", 2, 80, 2, 3000))


def run(run, prop, files, profile, w, n_quick, n_thorough, length, oracles=None, known=None, extra_scenarios=(),
        themes=DEFAULT_THEMES, impl_only=(), on_broken=None):
    """impl_only: pre-run (name, cfg, events, obs) histories that contain events the model has no counterpart for: judged by the
    oracles only.  on_broken(run): extra failing-input search, called when an obligation / the correspondence broke and no
    oracle has produced a failing input yet."""
    thorough = run.tier == "thorough"
    n = n_thorough if thorough else n_quick
    run.rule = (f"bounded-exhaustive enumeration (every action sequence up to depth 2 quick / 3 thorough over handshake and ready-state "
                f"alphabets, plus longer random ones; tools/nodeenum.py) and adaptive random event histories (length {length}) over accept / CER of every outcome / CEA / requests (valid and "
                f"defective) / base protocol / stray and retransmitted messages / application answers / closes / errors / stalls / "
                f"clock advances on random configurations; property oracle on the implementation trace + state snapshot compared with "
                f"the Coq node model after EVERY event; non-trivial = distinct history (configuration + event list)")
    run.assumptions = ["vsim: virtual time/sockets/select/threads behave like the real ones for the calls the package makes",
                       "frames are delivered whole (stream reassembly is C05)", "TCP only (pysctp absent)"]
    run.obligations(files)
    oracles = oracles or [NO.ORACLES[prop]]
    cases, meta = [], []
    seeds = [run.seed * 100003 + s for s in range(n)]
    dist = {}
    import nodeenum
    enumerated = []
    for (theme, dq, rq, dt, rt) in themes:
        k0 = len(enumerated)
        try:
            if theme in nodeenum.PHASED:
                # phased theme: (name, limit quick, _, limit thorough, _); None = every combination
                enumerated += list(nodeenum.enumerate_phased(theme, limit=dt if thorough else dq, seed=run.seed))
            else:
                enumerated += list(nodeenum.enumerate_theme(theme, dt if thorough else dq, extra_random=rt if thorough else rq,
                                                            seed=run.seed))
        except Exception as e:   # noqa
            if type(e).__name__ in ("HarnessStuck", "SpinDetected"):
                run.violation("no-spin", {"scenario": f"enumeration of theme {theme}"}, str(e)[:400],
                              what="a node thread keeps running without ever blocking (busy loop)")
            else:
                raise
        run.extra.setdefault("enumerated", {})[theme] = len(enumerated) - k0
    impl_only = [tuple(x) + ("impl-only",) for x in impl_only]
    for sc in list(extra_scenarios) + impl_only + enumerated + [None] * n:
        model_too = True
        if sc is not None and len(sc) == 5:
            name, cfg, events, obs, _ = sc
            model_too = False
        elif sc is not None and len(sc) == 4:
            name, cfg, events, obs = sc
        elif sc is None:
            s = seeds.pop(0)
            name = f"random seed {s}"
            try:
                cfg, events, obs = nodegen.run_random(s, profile, w, length)
            except Exception as e:   # noqa
                if type(e).__name__ in ("HarnessStuck", "SpinDetected"):
                    run.count(1, [(name, 0)])
                    run.violation("no-spin", {"scenario": name}, str(e)[:400],
                                  what="a node thread keeps running without ever blocking (busy loop) in this history")
                    continue
                raise
        else:
            name, cfg, events = sc
            obs = NS.run_scenario(cfg, events)
        for e in events:
            dist[e["ev"]] = dist.get(e["ev"], 0) + 1
        run.count(1, [(name, len(events))])
        tr = NO.Trace(cfg, events, obs)

        def viol(clause, case, observed, expected=None, what=""):
            case = dict(case)
            case["scenario"] = name
            case["events"] = describe(cfg, events[:case["event_index"] + 1])[-10:]
            run.violation(clause, case, observed, expected, what)
        for orc in oracles:
            orc(tr, viol)
        NO.no_deaths(tr, lambda clause, case, observed, expected=None, what="":
                     run.violation(clause, dict(case, scenario=name), observed, expected, what) if prop == "C14" else None)
        if model_too:
            cases.append(NS.coq_case(cfg, events, obs))
            meta.append({"scenario": name, "n_events": len(events), "peers": [p["name"] for p in cfg["peers"]]})
        if len(run.samples) < 2:
            run.sample({"scenario": name, "events": describe(cfg, events)[:8]})
    run.extra["event_distribution"] = dict(sorted(dist.items()))
    mism, errs = vlib.eval_mismatches(run.workdir, PRE, OK, cases, chunk=max(1, len(cases) // 14 + 1), tag="node")
    detail = {}
    if mism:
        # where and what: first disagreement of up to three scenarios
        terms = [f"check_run 0 (fst {cases[i]}) (snd {cases[i]})" for i in mism[:3]]
        out = vlib.eval_terms(run.workdir, PRE, terms, tag="why")
        import re
        codes = re.findall(r"=\s*\[([^\]]*)\]", out)
        for i, c in zip(mism[:3], codes):
            detail[i] = c.strip()[:200]
    for i in mism:
        run.mismatch("node model vs implementation (state after every event)", meta[i],
                     {"first_disagreements (event*100000 + component bits)": detail.get(i)})
    for e in errs:
        run.mismatch("coq evaluation", {}, e)
    if on_broken is not None and (run.broken or run.mismatches) and not run.violations:
        on_broken(run)
    return run.finish(known_matcher=known)


def replay_generic(r):
    print("replay: re-run ./check", r["property"], "with VERIF_SEED=%s (scenarios are regenerated deterministically)" % r.get("seed"))
    return False
