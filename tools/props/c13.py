"""C13 — node-layer property; see tools/nodecheck.py and tools/nodeoracles.py."""
import nodecheck

PROFILE = dict(outbound=0.5)
W = nodecheck.weights(close=2.5, readerr=2, accept=5, cer=9, tick=5)
N_QUICK, N_THOROUGH, LENGTH = 60, 1500, 18
THEMES = (("handshake_in", 2, 60, 3, 600), ("handshake_out", 2, 60, 3, 600), ("ready", 2, 40, 2, 2000), ("two_peers", 300, 0, None, 0), ("realms", 250, 0, None, 0), ("reconnect_after_dpr", 200, 0, None, 0), ("refused_twin", 100, 0, None, 0))
FILES = ["Props/C13.v"]


def known(v, k):
    if k["id"] == "C13-second-connection-same-peer":
        c = v["case"]
        live = v["observed"].get("live", []) if isinstance(v["observed"], dict) else []
        return (v["clause"] == "peer-conn-exactly-when-exists" and live and all(x in c.get("secondary_connections", []) for x in live))
    if k["id"] == "C13-cea-foreign-identity":
        obs = v["observed"] if isinstance(v["observed"], dict) else {}
        return v["clause"] in ("peer-conn-live", "reason-set", "ready-flag", "peer-conn-exactly-when-exists") and \
            (obs.get("peer") in v["case"].get("foreign_cea_peers", []) or
             (v["clause"] != "peer-conn-live" and bool(v["case"].get("foreign_cea_peers"))))
    return False


def corpus():
    """minimised histories found earlier (run first)"""
    import nodesim as NS
    cfg = NS.default_cfg()
    cfg["peers"] = [dict(name="a.example.net", realm="example.net", addr=True, persistent=True, always=False, cea=None, cer=None,
                         dwa=None, idle=None, rwait=30, apps=[0], default=False),
                    dict(name="b.example.net", realm="example.net", addr=False, persistent=False, always=False, cea=None, cer=None,
                         dwa=None, idle=None, rwait=30, apps=[0], default=False)]
    e2e0 = ((NS.T0 << 20) | cfg["e2e_rand"]) & 0xffffffff
    ev = [dict(ev="start", dials=[(500, "DialOk")]),
          dict(ev="recv", cid=0, dials=[], frames=[NS.build_message(dict(kind="cea", host="b.example.net", result=2001, hbh=501, e2e=e2e0 + 1))]),
          dict(ev="close", cid=0, dials=[])]
    # second connection from an already connected peer, first one closes
    cfg2 = NS.default_cfg()
    ev2 = [dict(ev="start", dials=[]), dict(ev="accept", hbh0=100, dials=[]),
           dict(ev="recv", cid=0, dials=[], frames=[NS.build_message(dict(kind="cer", host="cli0.example.net", hbh=1, e2e=1))]),
           dict(ev="accept", hbh0=200, dials=[]),
           dict(ev="recv", cid=1, dials=[], frames=[NS.build_message(dict(kind="cer", host="cli0.example.net", hbh=2, e2e=2))]),
           dict(ev="close", cid=0, dials=[])]
    return [("corpus: CEA with another peer's identity", cfg, ev), ("corpus: second connection from a connected peer", cfg2, ev2)]


def self_closing(run):
    """Histories in which a connection closes ITSELF (its reader meets bytes that cannot be a Diameter header) — with
    and without unsent output, one or two connections at the same moment.  The node model has no event for this, so the
    implementation is judged directly: afterwards the connection is in none of the node's tables, its socket is closed,
    and its peer no longer references it."""
    import nodesim as NS
    for variant in ("plain", "stalled-with-output", "two-at-once", "two-at-once-stalled", "write-error"):
        cfg = NS.default_cfg()
        cfg["peers"].append(dict(cfg["peers"][0], name="cli1.example.net"))
        r = NS.Run(cfg, seed=3)
        try:
            r.apply(dict(ev="start", dials=[]))
            cids = [0] if variant in ("plain", "stalled-with-output", "write-error") else [0, 1]
            for k in cids:
                r.apply(dict(ev="accept", hbh0=100 + k, dials=[]))
                r.apply(dict(ev="recv", cid=k, dials=[], frames=[NS.build_message(dict(kind="cer", host="cli%d.example.net" % k, hbh=1, e2e=1))]))
            if "stalled" in variant:
                for k in cids:
                    r.apply(dict(ev="stall", cid=k, on=True, dials=[]))
                    r.apply(dict(ev="recv", cid=k, dials=[], frames=[NS.build_message(dict(kind="dwr", host="cli%d.example.net" % k, hbh=7, e2e=7))]))
            if variant == "write-error":
                # the socket fails hard when the node writes its answer: the connection has to go, everywhere
                import errno
                r.remotes[0].script_send([("err", errno.EPIPE)])
                r.apply(dict(ev="recv", cid=0, dials=[], frames=[NS.build_message(dict(kind="dwr", host="cli0.example.net", hbh=8, e2e=8))]))
            else:
                for k in cids:                       # all of them before the node runs again
                    r.remotes[k].feed(bytes(40))
            r.sim.run()
            r.sim.advance(2)
            snap = r.snapshot()
            node = r.node
            run.count(1, [("self-closing", variant)])
            left = {"connections": len(node.connections), "peer_sockets": len(node.peer_sockets), "socket_peers": len(node.socket_peers),
                    "half_ready": len(node._half_ready_connections),
                    "sockets_open": [k for k in cids if not r.remotes[k].closed_by_node],
                    "peer_connection_set": [n for n, p in node.peers.items() if p.connection is not None]}
            if any(v for v in left.values()):
                run.violation("closed-nowhere", {"scenario": f"self-closing connection ({variant})"}, left,
                              "no table entry, socket closed, peer.connection None",
                              what="a connection that closed itself is still in the node's tables / its socket is open / its peer still references it")
            if r.sim.thread_deaths:
                run.violation("thread-death", {"scenario": f"self-closing connection ({variant})"}, r.sim.thread_deaths[:2])
        finally:
            r.shutdown()


def self_closing_interleaved(run, max_pre=2, cap=120):
    """A connection closes itself on its READER thread (PeerConnection.close) while the I/O thread may run between any two
    of its source lines: every interleaving with <= max_pre pre-emptions must end with the connection out of every table
    and its socket closed (the three threads of the property's 'why tests cannot': tables updated from several threads)."""
    import nodesim as NS
    from vsim import Sim
    stack, n = [[]], 0
    while stack and n < cap:
        prefix = stack.pop()
        rec = []
        sim = Sim(seed=1, t0=NS.T0)
        try:
            sim.script_random([77, 12345])
            node = sim.node_mod.Node("srv.example.net", "example.net", ip_addresses=["10.0.0.1"], tcp_port=3868)
            app = sim.app_mod.SimpleThreadingApplication(4, is_auth_application=True, request_handler=lambda a, m: None)
            node.add_application(app, [node.add_peer("aaa://cli0.example.net", "example.net")])
            node.start()
            sim.run()
            sim.script_random([1000])
            r = sim.connect_in()
            sim.run()
            r.feed(NS.build_message(dict(kind="cer", host="cli0.example.net", hbh=1, e2e=1)))
            sim.run()
            state = {"prev": None}

            def ch(runnable, prefix=prefix, rec=rec, state=state):
                i = len(rec)
                prev = state["prev"]
                pre = rec[-1][2] if rec else 0
                c = prefix[i] if i < len(prefix) and prefix[i] in runnable else (prev if prev in runnable else runnable[0])
                rec.append((list(runnable), c, pre + (1 if (prev in runnable and c != prev) else 0)))
                state["prev"] = c
                return c
            P = sim.peer_mod.PeerConnection
            sim.line_mode([P.close, P.demand_attention], ch)
            r.feed(bytes(40))            # cannot be a Diameter header: the reader closes the connection
            sim.run()
            sim.line_mode(None)
            sim.advance(2)
            n += 1
            sched = [d[1] for d in rec]
            run.count(1, [("self-closing-interleaved", tuple(sched))] if len(set(sched)) > 1 else ())
            left = {"connections": len(node.connections), "peer_sockets": len(node.peer_sockets), "socket_open": not r.closed_by_node,
                    "peer_connection_set": node.peers["cli0.example.net"].connection is not None}
            if any(left.values()) or sim.thread_deaths:
                run.violation("closed-nowhere", {"scenario": "connection closes itself, I/O thread interleaved", "schedule": sched}, left,
                              "no table entry, socket closed, peer.connection None",
                              what="a connection that closed itself stays in the node's tables when the I/O thread runs between two lines of close()")
                return
            for i in range(len(prefix), len(rec)):
                runnable, chosen, _p = rec[i]
                prev = rec[i - 1][1] if i else None
                before = rec[i - 1][2] if i else 0
                for alt in runnable:
                    if alt != chosen and before + (1 if (prev in runnable and alt != prev) else 0) <= max_pre:
                        stack.append(sched[:i] + [alt])
        except Exception as e:   # noqa
            run.notes.append(f"self_closing_interleaved: {type(e).__name__}: {e}")
            return
        finally:
            sim.shutdown()
    run.extra["self_closing_schedules"] = n


def check(run):
    # the self-closing histories are judged right after the obligations; their violations are reported by the common finish()
    orig_obligations = run.obligations

    def obligations_then_self_closing(files):
        out = orig_obligations(files)
        self_closing(run)
        self_closing_interleaved(run)
        return out
    run.obligations = obligations_then_self_closing
    return nodecheck.run(run, "C13", FILES, PROFILE, W, N_QUICK, N_THOROUGH, LENGTH, themes=THEMES, known=known, extra_scenarios=corpus())


replay = nodecheck.replay_generic
