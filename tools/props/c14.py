"""C14 — no fault or handler outcome stops service; workers survive, peers are served."""
from __future__ import annotations

import random

import nodegen
import nodeoracles as NO
import nodesim as NS
import vlib
from vsim import Sim

FILES = ["Props/C14.v"]
PRE = "From DV Require Import Prelude.Base Model.Slots.\n"


class TRun:
    """a node with ONE threading application (max_threads = limit) and one configured peer"""
    def __init__(self, seed, limit):
        self.sim = sim = Sim(seed=seed, t0=NS.T0)
        sim.script_random([77, 12345])
        N = sim.node_mod
        self.node = node = N.Node("srv.example.net", "example.net", ip_addresses=["10.0.0.1"], tcp_port=3868)
        self.outcome = {}        # hbh -> 'answer' | 'none' | 'raise' | 'slow:<outcome>'
        self.release = {}        # hbh -> vsim Event
        self.started = []
        run = self

        def handler(app, msg):
            h = msg.header.hop_by_hop_identifier
            run.started.append(h)
            o = run.outcome.get(h, "answer")
            if o.startswith("slow:"):
                ev = run.release.setdefault(h, sim.vmodules["threading"].Event())
                ev.wait()
                o = o[5:]
            if o == "none":
                return None
            if o == "raise":
                # exceptions of different shapes: with a message, without any argument, a failed assertion
                k = len(run.started) % 3
                if k == 0:
                    raise RuntimeError("handler failed")
                if k == 1:
                    raise RuntimeError
                assert False
            return app.generate_answer(msg, 2001)
        self.app = app = sim.app_mod.SimpleThreadingApplication(4, is_auth_application=True, max_threads=limit,
                                                                request_handler=handler)
        self.peers = [node.add_peer("aaa://cli%d.example.net" % i, "example.net") for i in range(3)]
        node.add_application(app, self.peers)
        node.start()
        sim.run()
        self.remotes = []
        self.host = {}

    def connect(self, host):
        self.sim.script_random([1000 + 97 * len(self.remotes)])
        r = self.sim.connect_in()
        self.sim.run()
        self.remotes.append(r)
        self.host[len(self.remotes) - 1] = host
        r.feed(NS.build_message(dict(kind="cer", host=host, hbh=1, e2e=1)))
        self.sim.run()
        msgs = r.take_messages()
        return len(self.remotes) - 1, [(m.header.command_code, getattr(m, "result_code", None)) for m in msgs]

    def request(self, cid, hbh, outcome, frames_extra=b""):
        # "<outcome>!u": the request is of a command that has no python class (answers are generic messages)
        untyped = outcome.endswith("!u")
        outcome = outcome[:-2] if untyped else outcome
        self.outcome[hbh] = outcome
        if untyped:
            self.__dict__.setdefault("untyped", set()).add(hbh)
        if outcome.startswith("slow:"):
            self.release[hbh] = self.sim.vmodules["threading"].Event()
        spec = dict(kind="req", hbh=hbh, e2e=hbh, host=self.host[cid])
        if untyped:
            spec["code"] = 8388000
        self.remotes[cid].feed(NS.build_message(spec) + frames_extra)
        self.sim.run()

    def obs(self):
        app = self.app
        sends = {}
        for cid, r in enumerate(self.remotes):
            try:
                ms = r.take_messages()
            except Exception:   # noqa
                ms = []
            for m in ms:
                if not m.header.is_request and m.header.command_code in (272, 8388000):
                    h = m.header.hop_by_hop_identifier
                    rc = getattr(m, "result_code", None)
                    if rc is None and h in getattr(self, "untyped", ()):
                        # Application.generate_answer documents that it serves commands with a python class only: for the
                        # others the answer goes out without Result-Code; which answer it is follows from the history
                        rc = 5012 if h in self.started else 3004
                    sends.setdefault(cid, []).append((h, rc))
        roles = self.sim.live_threads_by_role()
        return dict(slots=app._thread_slots.qsize(), recvq=app._recv_msg_queue.qsize(), respq=app._resp_msg_queue.qsize(),
                    running=roles.get("_process_recv_msg", 0),
                    recv_alive=app._recv_queue_consumer.is_alive(), resp_alive=app._resp_queue_consumer.is_alive(),
                    sends=sends, deaths=list(self.sim.thread_deaths), spins=list(self.sim.spins),
                    io_alive=roles.get("_handle_connections", 0) == 1)


# directed histories (run before the random ones): (thread limit, steps); a step is a kind, or ("arrive", outcome)
SLOT_CORPUS = [
    # every slot busy, one more request waits for a slot, its peer goes away, the 5 s wait expires (TOO_BUSY cannot be routed)
    (1, [("arrive", "slow:answer"), ("arrive", "answer"), "close", "tick", "release", "connect", ("arrive", "answer"), ("arrive", "answer")]),
    (2, [("arrive", "slow:none"), ("arrive", "slow:raise"), ("arrive", "answer"), "close", "tick", "tick", "release", "release",
         "connect", ("arrive", "answer")]),
    # handlers that answer nothing, up to the limit and beyond
    (1, [("arrive", "none"), ("arrive", "none"), ("arrive", "answer"), "tick", ("arrive", "answer")]),
    (2, [("arrive", "none"), ("arrive", "raise"), ("arrive", "none"), ("arrive", "answer"), ("arrive", "answer")]),
    # answers become unroutable while the handlers still run
    (2, [("arrive", "slow:answer"), ("arrive", "slow:answer"), "close", "release", "release", "connect", ("arrive", "answer"),
         ("arrive", "answer"), ("arrive", "answer")]),
    (0, [("arrive", "slow:answer"), "close", "release", "connect", ("arrive", "raise"), ("arrive", "answer")]),
    # a command without a python class whose handler raises / answers nothing, up to the thread limit
    (2, [("arrive", "raise!u"), ("arrive", "raise!u"), ("arrive", "answer"), ("arrive", "none!u"), ("arrive", "answer"), ("arrive", "answer")]),
]


def slot_scenario(seed, thorough, script=None, limit=None):
    """random (or scripted) history for the slot model; returns (limit, [(event, obs)])"""
    rng = random.Random(seed)
    if limit is None:
        limit = rng.choice([0, 1, 1, 2, 3])
    t = TRun(seed, limit)
    out = []
    try:
        conns = {}
        cid, _ = t.connect("cli0.example.net")
        conns[cid] = True
        hbh = 100
        slow = []
        steps = list(script) if script is not None else [None] * rng.randrange(6, 14 if not thorough else 24)
        for step in steps:
            k = rng.random()
            forced_outcome = None
            if step is not None:
                kind = step if isinstance(step, str) else step[0]
                forced_outcome = None if isinstance(step, str) else step[1]
                k = {"arrive": 0.1, "release": 0.6, "connect": 0.75, "close": 0.85, "tick": 0.95}[kind]
            live = [c for c, ok in conns.items() if ok]
            if k < 0.5 and live:
                hbh += 1
                o = forced_outcome or rng.choice(["answer", "answer", "none", "raise", "slow:answer", "slow:none", "slow:raise", "raise!u", "none!u"])
                c = live[-1] if step is not None else rng.choice(live)
                t.request(c, hbh, o)
                o = o[:-2] if o.endswith("!u") else o
                if o.startswith("slow:"):
                    slow.append(hbh)
                ev = ("arrive", hbh, o, c)
            elif k < 0.7 and slow:
                h = slow.pop(0 if step is not None else rng.randrange(len(slow)))
                t.release[h].set()
                t.sim.run()
                ev = ("release", h)
            elif k < 0.8 and live and len(conns) < 3:
                c2, _ = t.connect("cli%d.example.net" % len(conns))
                conns[c2] = True
                ev = ("connect", c2)
            elif k < 0.9 and live:
                c = live[-1] if step is not None else rng.choice(live)
                if rng.random() < 0.5:
                    t.remotes[c].close()
                else:
                    t.remotes[c].reset()
                t.sim.run()
                conns[c] = False
                ev = ("close", c)
            else:
                t.sim.advance(6)
                ev = ("tick", 6)
            out.append((ev, t.obs()))
    finally:
        t.sim.shutdown()
    return limit, out


def coq_slot_case(limit, trace):
    """replay on the model: the same events, `finish` / `routable` as the environment decided"""
    evs = []
    conn_of = {}
    closed = set()
    finish = {}
    for ev, o in trace:
        if ev[0] == "arrive":
            _, h, oc, c = ev
            conn_of[h] = c
            finish[h] = None if oc.startswith("slow:") else oc
            evs.append((f"XArrive {h}", dict(finish), set(closed), dict(conn_of), o))
        elif ev[0] == "release":
            h = ev[1]
            # the outcome the slow handler ends with
            finish[h] = "released"
            evs.append((f"XRelease {h}", dict(finish), set(closed), dict(conn_of), o))
        elif ev[0] == "close":
            closed.add(ev[1])
            evs.append(("XNop", dict(finish), set(closed), dict(conn_of), o))
        elif ev[0] == "tick":
            evs.append(("XTick", dict(finish), set(closed), dict(conn_of), o))
        else:
            evs.append(("XNop", dict(finish), set(closed), dict(conn_of), o))
    return evs


def check(run):
    thorough = run.tier == "thorough"
    rng = random.Random(run.seed)
    run.rule = ("(a) threading-application histories: requests with handler outcome answer / no answer / exception / slow, "
                "thread limit 0..3, connection loss at any point, clock advances; slot count, queues, handler threads, consumer "
                "liveness and answers compared with the Coq slot model after every event; (b) node histories with faults from "
                "the node generator: no thread death, no spin; (c) reconnect-and-serve probe of limit+2 requests after the "
                "faults; non-trivial = distinct history")
    run.assumptions = ["thread death is observed (exceptions escaping a thread's run under vsim); unmodelled exceptions cannot "
                       "be proved absent: this part of the claim is partial"]
    run.obligations(FILES)
    n = 400 if thorough else 40
    cases, meta = [], []
    for s in range(-len(SLOT_CORPUS), n):
        seed = run.seed * 7919 + s
        if s < 0:
            lim, script = SLOT_CORPUS[s + len(SLOT_CORPUS)]
            limit, trace = slot_scenario(seed, thorough, script=script, limit=lim)
        else:
            limit, trace = slot_scenario(seed, thorough)
        run.count(1, [("slots", seed)])
        case = {"scenario": f"slots seed {seed}" + (" (corpus)" if s < 0 else ""), "limit": limit, "events": [list(e) for e, _ in trace]}
        outcomes = {e[1]: e[2] for e, _ in trace if e[0] == "arrive"}
        arrived_on = {e[1]: e[3] for e, _ in trace if e[0] == "arrive"}
        answered = {}
        for i, (ev, o) in enumerate(trace):
            if o["deaths"] or o["spins"]:
                run.violation("thread-death", dict(case, event_index=i), o["deaths"] or o["spins"],
                              what=f"thread {(o['deaths'] or o['spins'])[0][0]} terminated abnormally")
                break
            if not (o["recv_alive"] and o["resp_alive"] and o["io_alive"]):
                run.violation("worker-alive", dict(case, event_index=i), {k: o[k] for k in ("recv_alive", "resp_alive", "io_alive")},
                              what="an application consumer or the I/O thread is no longer alive")
                break
            for cid, l in o["sends"].items():
                for h, rc in l:
                    answered[h] = rc
        last = trace[-1][1] if trace else None
        if last and last["running"] == 0 and last["recvq"] == 0 and last["respq"] == 0 and last["slots"] != 0:
            run.violation("capacity-returns", dict(case, event_index=len(trace) - 1), last["slots"], 0,
                          what="thread slots are still held although no handler runs and the queues are empty")
        # model side
        evs = coq_slot_case(limit, trace)
        items = []
        for (x, finish, closed, conn_of, o) in evs:
            fin = "[" + "; ".join(f"({h}, {({'answer': 'HAnswer', 'none': 'HNone', 'raise': 'HRaise'}).get(outcomes[h] if v == 'released' else v, 'HNone')})"
                                  for h, v in finish.items() if v is not None and
                                  (v != "released" or True) and (outcomes[h].replace('slow:', '') if v == "released" else v) in ("answer", "none", "raise")
                                  for _ in [0]) + "]"
            fin = "[" + "; ".join(
                "(%d, %s)" % (h, {"answer": "HAnswer", "none": "HNone", "raise": "HRaise"}[outcomes[h].replace("slow:", "") if v == "released" else v])
                for h, v in finish.items() if v is not None) + "]"
            unr = vlib.zlist([h for h, c in conn_of.items() if c in closed])
            exp_sends = sorted((h, rc) for cid, l in o["sends"].items() for h, rc in l)
            items.append(f"({x}, {fin}, {unr}, ({o['slots']}%nat, {o['recvq']}%nat, {o['respq']}%nat, {o['running']}%nat, "
                         f"[{'; '.join(f'({h}, {rc})' for h, rc in exp_sends)}]))")
        cases.append(f"({limit}%nat, [{'; '.join(items)}])")
        meta.append(case)
        if len(run.samples) < 2:
            run.sample(case)
    okd = (
        "Inductive xev := XArrive (id : Z) | XRelease (id : Z) | XTick | XNop.\n"
        "Definition lookup_fin (l : list (Z * houtcome)) (id : Z) : option houtcome :=\n"
        "  match List.find (fun p => fst p =? id) l with Some p => Some (snd p) | None => None end.\n"
        "Fixpoint replay (a : tapp) (evs : list (xev * list (Z * houtcome) * list Z * (nat * nat * nat * nat * list (Z * Z)))) : bool :=\n"
        "  match evs with\n"
        "  | [] => true\n"
        "  | (x, fin, unr, (sl, rq, rs, rn, snd_)) :: r =>\n"
        "      let routable := fun id => negb (List.existsb (Z.eqb id) unr) in\n"
        "      let a0 := match x with\n"
        "                | XArrive id => match tstep_fn a (SArrive id) with Some (a', _) => (a', []) | None => (a, []) end\n"
        "                | XTick => match t_held a with\n"
        "                           | Some id => match tstep_fn a (SBusy (routable id)) with Some p => p | None => (a, []) end\n"
        "                           | None => (a, []) end\n"
        "                | _ => (a, []) end in\n"
        "      let '(a1, o1) := quiesce 200 (lookup_fin fin) routable (fst a0) in\n"
        "      let outs := (snd a0 ++ o1)%list in\n"
        "      let sent := List.flat_map (fun o => match o with TAnswer id c => [(id, c)] | TUnroutable _ => [] end) outs in\n"
        "      let le := fun p q : Z * Z => (fst p <? fst q) || ((fst p =? fst q) && (snd p <=? snd q)) in\n"
        "      let sorted := List.fold_right (fun x l => (fix ins (l : list (Z * Z)) := match l with [] => [x] | y :: t => if le x y then x :: l else y :: ins t end) l) [] sent in\n"
        "      Nat.eqb (t_slots a1) sl && Nat.eqb (List.length (t_recvq a1) + match t_held a1 with Some _ => 0 | None => 0 end) rq\n"
        "      && Nat.eqb (List.length (t_respq a1)) rs && Nat.eqb (List.length (t_running a1)) rn\n"
        "      && list_eqb (fun p q => (fst p =? fst q) && (snd p =? snd q)) sorted snd_\n"
        "      && replay a1 r\n"
        "  end.\n"
        "Definition ok (c : nat * list (xev * list (Z * houtcome) * list Z * (nat * nat * nat * nat * list (Z * Z)))) : bool :=\n"
        "  replay (tapp0 (fst c)) (snd c).\n")
    mism, errs = vlib.eval_mismatches(run.workdir, PRE, okd, cases, chunk=40, tag="slots")
    for i in mism:
        run.mismatch("slot model vs ThreadingApplication", meta[i], cases[i][-300:])
    for e in errs:
        run.mismatch("coq evaluation", {}, e)

    # (b) no thread dies in any node history with faults ---------------------------------
    w = dict(accept=3, cer=6, pre_handshake=2, cer_plus=2, cea=6, conndone=6, request=6, bad_request=3, dwr=1.5, dwa=1, dpr=1.5,
             dpa=1, stray_answer=2, retransmit=1, burst=2, close=3, readerr=3, stall=0.5, app_answer=5, bad_app_answer=2, tick=4,
             app_request=2, answer_request=2, odd_answer=1, dpa_for_dpr=1, stop=0.3)
    for s in range(300 if thorough else 30):
        seed = run.seed * 6007 + s
        cfg, events, obs = nodegen.run_random(seed, dict(outbound=0.5), w, 20)
        run.count(1, [("faults", seed)])
        tr = NO.Trace(cfg, events, obs)

        def viol(clause, case, observed, expected=None, what=""):
            run.violation(clause, dict(case, scenario=f"node faults seed {seed}"), observed, expected, what)
        NO.no_deaths(tr, viol)

    # (c) reconnect-and-serve probe after faults --------------------------------------------
    for s in range(200 if thorough else 24):
        seed = run.seed * 4001 + s
        rng2 = random.Random(seed)
        limit = rng2.choice([0, 1, 2, 3])
        t = TRun(seed, limit)
        hist = []
        try:
            hbh = 500
            c0, _ = t.connect("cli0.example.net")
            for f in range(rng2.randrange(1, 4)):       # up to 3 consecutive faults
                kind = rng2.choice(["close_after_request", "reset_mid_frame", "handler_none", "handler_raise", "close_with_queued",
                                    "half_frame_then_close", "dpr_then_close", "write_error", "write_error",
                                    "two_broken_at_once", "handshake_stalled", "twin_ids_lost", "gone_with_unsent_output",
                                    "lost_then_retransmitted"])
                hist.append(kind)
                hbh += 1
                if kind == "close_after_request":
                    t.request(c0, hbh, "answer", frames_extra=b"")
                    t.remotes[c0].close()
                    t.sim.run()
                elif kind == "reset_mid_frame":
                    fr = NS.build_message(dict(kind="req", hbh=hbh, e2e=hbh, host=t.host[c0]))
                    t.remotes[c0].feed(fr[:rng2.randrange(1, len(fr))])
                    t.remotes[c0].reset()
                    t.sim.run()
                elif kind == "write_error":
                    import errno as _errno
                    # the socket fails hard (EPIPE / ECONNRESET) when the answer is written
                    t.remotes[c0].script_send([("err", rng2.choice([_errno.EPIPE, _errno.ECONNRESET]))])
                    t.request(c0, hbh, "answer")
                    t.sim.advance(1)
                    if not t.remotes[c0].closed_by_node:
                        run.violation("write-error-closes", {"scenario": f"probe seed {seed}", "faults": list(hist)},
                                      "connection still open", what="a hard socket write error does not close the connection")
                        t.remotes[c0].close()
                        t.sim.run()
                elif kind == "two_broken_at_once":
                    # two connections meet bytes that cannot be a frame in the SAME round of the I/O loop; each of them
                    # closes itself and asks the node for attention: both wake-ups have to be served
                    c1, _ = t.connect("cli1.example.net")
                    for c in (c0, c1):
                        t.remotes[c].feed(bytes(40))
                    t.sim.run()
                    t.sim.advance(2)
                    left = [t.host[c] for c in (c0, c1) if not t.remotes[c].closed_by_node]
                    if left or len(t.node.connections) != 0:
                        run.violation("fault-closes", {"scenario": f"probe seed {seed}", "faults": list(hist)},
                                      {"sockets_still_open": left, "connections": len(t.node.connections)},
                                      "both connections closed and forgotten",
                                      what="of two connections that broke in the same I/O round one is never closed")
                        for c in (c0, c1):
                            t.remotes[c].close()
                        t.sim.run()
                    # the second peer comes back and is served
                    c1b, cea1 = t.connect("cli1.example.net")
                    hbh += 1
                    t.obs()
                    t.request(c1b, hbh, "answer")
                    t.sim.advance(1)
                    o1 = t.obs()
                    if cea1 != [(257, 2001)] or (hbh, 2001) not in o1["sends"].get(c1b, []):
                        run.violation("served-after-faults", {"scenario": f"probe seed {seed}", "limit": limit, "faults": list(hist)},
                                      {"cea": cea1, "answers": o1["sends"].get(c1b, [])}, "CEA 2001 and the request answered 2001",
                                      what="a peer whose connection broke together with another one is not served when it returns")
                    t.remotes[c1b].close()
                    t.sim.run()
                elif kind == "gone_with_unsent_output":
                    # the socket takes nothing while an answer is waiting; then, in one and the same instant, it becomes
                    # writable again and the peer hangs up: readable (EOF) and writable in the same round of the I/O loop
                    t.remotes[c0].stall_writes(True)
                    t.request(c0, hbh, "answer")
                    t.remotes[c0].stall_writes(False)
                    t.remotes[c0].close()
                    t.sim.run()
                    t.sim.advance(1)
                elif kind == "lost_then_retransmitted":
                    # the connection is lost while the handler works on a request; the peer comes back and sends the same
                    # request again, T flag set: it was never answered, so it is served like any other
                    t.outcome[hbh] = "slow:answer"
                    t.release[hbh] = t.sim.vmodules["threading"].Event()
                    t.remotes[c0].feed(NS.build_message(dict(kind="req", hbh=hbh, e2e=hbh, host=t.host[c0])))
                    t.sim.run()
                    t.remotes[c0].close()
                    t.sim.run()
                    t.release[hbh].set()
                    t.sim.run()
                    t.sim.advance(1)
                    c0, _ = t.connect("cli0.example.net")
                    hb2 = hbh + 7000
                    t.outcome[hb2] = "answer"
                    t.obs()
                    t.remotes[c0].feed(NS.build_message(dict(kind="req", hbh=hb2, e2e=hbh, host=t.host[c0], t=True)))
                    t.sim.run()
                    t.sim.advance(1)
                    o2 = t.obs()
                    if (hb2, 2001) not in o2["sends"].get(c0, []):
                        run.violation("served-after-faults", {"scenario": f"probe seed {seed}", "limit": limit, "faults": list(hist)},
                                      o2["sends"].get(c0, []), [(hb2, 2001)],
                                      what="a request that was never answered (connection lost while it was processed) is not served when it "
                                           "is retransmitted after the reconnect")
                elif kind == "twin_ids_lost":
                    # two peers each have a request in the hands of a (slow) handler, with the SAME hop-by-hop and
                    # end-to-end identifiers; both connections are lost while the handlers run
                    c1, _ = t.connect("cli1.example.net")
                    hb2 = hbh + 5000
                    t.outcome[hb2] = "slow:answer"
                    t.release[hb2] = t.sim.vmodules["threading"].Event()
                    for c in (c0, c1):
                        t.remotes[c].feed(NS.build_message(dict(kind="req", hbh=hb2, e2e=hb2, host=t.host[c])))
                    t.sim.run()
                    for c in (c0, c1):
                        t.remotes[c].close()
                    t.sim.run()
                    t.release[hb2].set()
                    t.sim.run()
                    t.sim.advance(1)
                elif kind == "handshake_stalled":
                    # a newcomer sends half a CER and falls silent: the CER timer closes it, its workers must end
                    t.sim.script_random([1000 + 97 * len(t.remotes)])
                    rs = t.sim.connect_in()
                    t.sim.run()
                    t.remotes.append(rs)
                    t.host[len(t.remotes) - 1] = "cli1.example.net"
                    fr = NS.build_message(dict(kind="cer", host="cli1.example.net", hbh=1, e2e=1))
                    rs.feed(fr[:rng2.randrange(1, len(fr))])
                    t.sim.run()
                    t.sim.advance(8)
                    if not rs.closed_by_node:
                        run.violation("fault-closes", {"scenario": f"probe seed {seed}", "faults": list(hist)}, "still open after 8 s",
                                      what="a handshake that stalled mid-frame is not closed by the CER timer")
                        rs.close()
                        t.sim.run()
                elif kind == "handler_none":
                    t.request(c0, hbh, "none")
                elif kind == "handler_raise":
                    t.request(c0, hbh, "raise")
                elif kind == "close_with_queued":
                    t.outcome[hbh] = "slow:answer"
                    t.release[hbh] = t.sim.vmodules["threading"].Event()
                    t.remotes[c0].feed(NS.build_message(dict(kind="req", hbh=hbh, e2e=hbh, host=t.host[c0])))
                    t.sim.run()
                    t.remotes[c0].close()
                    t.sim.run()
                    t.release[hbh].set()
                    t.sim.run()
                elif kind == "half_frame_then_close":
                    fr = NS.build_message(dict(kind="dwr", hbh=hbh, e2e=hbh, host=t.host[c0]))
                    t.remotes[c0].feed(fr[:10])
                    t.remotes[c0].close()
                    t.sim.run()
                else:
                    t.remotes[c0].feed(NS.build_message(dict(kind="dpr", hbh=hbh, e2e=hbh, host=t.host[c0])))
                    t.sim.run()
                    t.remotes[c0].close()
                    t.sim.run()
                if t.remotes[c0].closed_by_node or kind in ("close_after_request", "reset_mid_frame", "close_with_queued",
                                                            "half_frame_then_close", "dpr_then_close", "two_broken_at_once", "twin_ids_lost", "gone_with_unsent_output"):
                    t.sim.advance(1)
                    c0, _ = t.connect("cli0.example.net")
            # (sometimes much later: the per-peer statistics windows have long expired by then)
            t.sim.advance(6 if seed % 3 else 1207)
            # the peer that suffered the faults is served again on its new connection
            if t.remotes[c0].closed_by_node:
                c0, _ = t.connect("cli0.example.net")       # (the watchdog has closed it in the meantime: it comes back)
            if not t.remotes[c0].closed_by_node:
                hbh += 1
                t.obs()
                t.request(c0, hbh, "answer")
                t.sim.advance(1)
                o = t.obs()
                if (hbh, 2001) not in o["sends"].get(c0, []):
                    run.violation("served-after-faults", {"scenario": f"probe seed {seed}", "limit": limit, "faults": list(hist)},
                                  o["sends"].get(c0, []), [(hbh, 2001)],
                                  what="the peer that went through the faults is not answered on its new connection")
            # the probe: a fresh connection of another peer, CER, limit+2 requests
            pc, cea = t.connect("cli2.example.net")
            case = {"scenario": f"probe seed {seed}", "limit": limit, "faults": hist}
            run.count(1, [("probe", seed)])
            if cea != [(257, 2001)]:
                run.violation("probe-handshake", case, cea, [(257, 2001)], what="after the faults a new peer's capabilities exchange is not answered 2001")
            got = {}
            for k in range(limit + 2):
                hbh += 1
                t.request(pc, hbh, "answer")
                o = t.obs()
                for cid, l in o["sends"].items():
                    for h, rc in l:
                        got[h] = (cid, rc)
            t.sim.advance(6)
            o = t.obs()
            for cid, l in o["sends"].items():
                for h, rc in l:
                    got[h] = (cid, rc)
            want = {h: (pc, 2001) for h in range(hbh - limit - 1, hbh + 1)}
            if {h: got.get(h) for h in want} != want:
                run.violation("probe-served", case, {str(h): got.get(h) for h in want}, "every probe request answered 2001 on the probe connection",
                              what="after the faults the requests of a new peer are not all delivered and answered 2001")
            if o["deaths"] or not (o["recv_alive"] and o["resp_alive"] and o["io_alive"]):
                run.violation("thread-death", case, o["deaths"], what="a worker thread terminated abnormally")
            # no connection worker outlives its connection: one reader and one writer per live connection
            roles = t.sim.live_threads_by_role()
            live = len(t.node.connections)
            workers = {k: roles.get(k, 0) for k in ("work_read_queue", "work_write_queue")}
            if any(v != live for v in workers.values()):
                run.violation("workers-released", case, {"live_connections": live, "worker_threads": workers},
                              "one reader and one writer per live connection",
                              what="connection worker threads of closed connections are still running (capacity consumed for good)")
        finally:
            t.sim.shutdown()
    return run.finish()


def replay(r):
    print("replay: re-run ./check C14 with VERIF_SEED=%s" % r.get("seed"))
    return False
