(* C15 — outbound bytes = queued messages concatenated FIFO, intact, exactly once: for every
   interleaving of producers, the writer thread and the I/O loop at load/store granularity, every
   pattern of partial writes and soft errors, every message type and encoder.
   The thread programs are those regenerated from the source (Link/LinkWrite.v). *)
From DV Require Import Prelude.Base Model.WriteBuf Proofs.WriteBufP Gen.GenWrite Link.LinkWrite.

(* at every moment the accepted bytes are a prefix of the encodings stored so far, in order *)
Theorem C15_stream_prefix : forall (M : Type) (enc : M -> option bytes) (ls : list (wlabel M)),
  let s := wrun M enc writer_prog_gen io_prog_gen ls in
  prefix (w_sent M s) (encs M enc (w_done M s)).
Proof. intros M enc ls. rewrite writer_prog_is_source, io_prog_is_source. exact (WriteBufP.C15_stream_prefix M enc ls). Qed.

(* messages are stored in queueing order; nothing is skipped, duplicated or reordered *)
Theorem C15_fifo : forall (M : Type) (enc : M -> option bytes) (ls : list (wlabel M)),
  let s := wrun M enc writer_prog_gen io_prog_gen ls in
  filter (encodable M enc) (puts M ls) = w_done M s ++ filter (encodable M enc) (held M s ++ w_queue M s).
Proof. intros M enc ls. rewrite writer_prog_is_source, io_prog_is_source. exact (WriteBufP.C15_fifo M enc ls). Qed.

(* once everything has drained: exactly the concatenation, each message once *)
Theorem C15_stream_exact : forall (M : Type) (enc : M -> option bytes) (ls : list (wlabel M)),
  let s := wrun M enc writer_prog_gen io_prog_gen ls in
  quiescent M s -> w_sent M s = encs M enc (filter (encodable M enc) (puts M ls)).
Proof. intros M enc ls. rewrite writer_prog_is_source, io_prog_is_source. exact (WriteBufP.C15_stream_exact M enc ls). Qed.

(* a message that cannot be encoded contributes nothing and disturbs nothing *)
Theorem C15_drop_alone : forall (M : Type) (enc : M -> option bytes) (ls : list (wlabel M)),
  let s := wrun M enc writer_prog_gen io_prog_gen ls in
  Forall (fun m => enc m <> None) (w_done M s) /\
  prefix (w_done M s) (filter (encodable M enc) (puts M ls)) /\
  prefix (w_sent M s) (encs M enc (filter (encodable M enc) (puts M ls))) /\
  encs M enc (puts M ls) = encs M enc (filter (encodable M enc) (puts M ls)).
Proof. intros M enc ls. rewrite writer_prog_is_source, io_prog_is_source. exact (WriteBufP.C15_drop_alone M enc ls). Qed.

(* ... and does not block the others: the failed encode leaves the writer at the top of its loop with the lock free *)
Theorem C15_drop_unblocks : forall (M : Type) (enc : M -> option bytes) (ls : list (wlabel M)) (m : M),
  let s := wrun M enc writer_prog_gen io_prog_gen ls in
  w_wpc M s = 3%nat -> w_cur M s = Some m -> enc m = None ->
  let s' := wstep M enc writer_prog_gen io_prog_gen s (LWriter M) in
  w_wpc M s' = 0%nat /\ w_lock M s' = None /\ w_buf M s' = w_buf M s /\ w_queue M s' = w_queue M s /\ w_sent M s' = w_sent M s.
Proof.
  intros M enc ls m. rewrite writer_prog_is_source, io_prog_is_source. intros s Hpc Hcur Henc.
  pose proof (winv_run M enc ls) as HI. fold s in HI.
  assert (Hl : w_lock M s = Some AWriter) by (apply (wi_lockw M enc s HI); rewrite Hpc; lia).
  unfold wstep. rewrite Hpc. cbn [nth_error writer_prog]. rewrite Hcur, Henc, Hl. cbn. repeat split; reflexivity.
Qed.

(* the lock is what the result rests on: without it the stream is corrupted / bytes are lost *)
Theorem C15_unlocked_refuted : exists ls : list (wlabel nat),
  let s := wrun nat enc_nat writer_nolock io_nolock ls in ~ prefix (w_sent nat s) (encs nat enc_nat (w_done nat s)).
Proof. exact WriteBufP.C15_unlocked_refuted. Qed.

Print Assumptions C15_stream_prefix.
Print Assumptions C15_fifo.
Print Assumptions C15_stream_exact.
Print Assumptions C15_drop_alone.
Print Assumptions C15_drop_unblocks.
Print Assumptions C15_unlocked_refuted.
