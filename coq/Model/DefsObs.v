(* Observation helpers for the typed-attribute correspondence (C03, C08): normal form of
   objects (definition order, unset dropped) and boolean equality.  Definitions only. *)
From DV Require Import Prelude.Base Model.Wire Model.Types Model.Obs Model.Defs.
From Coq Require Import String.

Fixpoint dedupe (l : list string) : list string :=
  match l with
  | [] => []
  | x :: r => x :: List.filter (fun y => negb (String.eqb x y)) (dedupe r)
  end.

Definition norm_aval (no : obj -> obj) (a : aval) : aval :=
  match a with
  | AObj o => AObj (no o)
  | AObjs [] => AVals []
  | AObjs l => AObjs (List.map no l)
  | x => x
  end.

Fixpoint norm (cs : list clsdef) (fuel : nat) (o : obj) : obj :=
  match fuel with
  | O => o
  | S f =>
      match o with
      | Obj c fields extra =>
          let attrs := match cdef_lookup cs c with
                       | Some k => dedupe (List.map f_attr (d_defs k))
                       | None => List.map fst fields
                       end in
          Obj c (List.flat_map (fun n => match assoc n fields with
                                          | None | Some ANone => []
                                          | Some av => [(n, norm_aval (norm cs f) av)]
                                          end) attrs) extra
      end
  end.

Definition aval_eqb (oe : obj -> obj -> bool) (a b : aval) : bool :=
  match a, b with
  | ANone, ANone => true
  | AVal x, AVal y => value_eqb x y
  | AVals x, AVals y => list_eqb value_eqb x y
  | AObj x, AObj y => oe x y
  | AObjs x, AObjs y => list_eqb oe x y
  | AClass x, AClass y => String.eqb x y
  | _, _ => false
  end.

Fixpoint obj_eqb (fuel : nat) (a b : obj) : bool :=
  match fuel with
  | O => false
  | S f =>
      match a, b with
      | Obj c1 f1 e1, Obj c2 f2 e2 =>
          String.eqb c1 c2 && list_eqb avp_eqb e1 e2 &&
          list_eqb (fun x y => String.eqb (fst x) (fst y) && aval_eqb (obj_eqb f) (snd x) (snd y)) f1 f2
      end
  end.

Fixpoint uval_eqb (fuel : nat) (a b : uval) : bool :=
  match fuel with
  | O => false
  | S f =>
      match a, b with
      | UVal x, UVal y => value_eqb x y
      | UObj x, UObj y => list_eqb (fun p q => String.eqb (fst p) (fst q) && uval_eqb f (snd p) (snd q)) x y
      | UList x, UList y => list_eqb (uval_eqb f) x y
      | _, _ => false
      end
  end.

(* message.as_bytes() for a typed message object: AVPs from the attributes, then the header *)
Definition obs_gen (e : env) (o : obj) : result (list avp) := gen_obj e o.
(* decode: fresh instance of the class, attributes assigned from the AVPs, normalised *)
Definition obs_assign (e : env) (cls : string) (avps : list avp) : result obj :=
  let! o := assign e 12 (fresh (e_classes e) cls) avps in Ok (norm (e_classes e) 12 o).
