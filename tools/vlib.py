"""Common machinery for every check: regeneration, Coq build of obligations,
assumption audit, running model cases in Coq, decision, evidence, replay files."""
from __future__ import annotations

import fcntl
import hashlib
import json
import os
import re
import shutil
import subprocess
import sys
import time

VERIF = "/verif"
COQ = os.path.join(VERIF, "coq")
WORK = os.path.join(VERIF, ".work")
REPLAY = os.path.join(VERIF, "replay")
# (tools/seedrun.py points this elsewhere so that runs against a deliberately broken tree never overwrite the real evidence)
EVID = os.environ.get("VERIF_EVIDENCE_DIR") or os.path.join(VERIF, "evidence")
NCPU = os.cpu_count() or 8

ALLOWED_AXIOMS = set()   # the development is axiom-free; anything printed is a failure

TRUSTED_BASE = [
    "Coq 8.16.1 kernel (coqc), vm_compute for table checks and for evaluating the model in the correspondence; no native_compute, no extraction",
    "no axioms: every property theorem must print 'Closed under the global context' (checked on every run)",
    "tools/translate.py and tools/tables.py (regenerate coq/Gen/*.v from /repo on every run), guarded by the correspondence",
    "coq/Prelude: stated semantics of CPython primitives (struct big-endian packing, slicing, UTF-8, int.to_bytes)",
    "the correspondence harness (tools/props/*.py, tools/linesched.py, tools/vsim): case generators, canonical observations, and Python oracles that transcribe the property statement",
]


def log(*a):
    print(*a, file=sys.stderr, flush=True)


class Lock:
    def __init__(self, name="coq.lock"):
        os.makedirs(WORK, exist_ok=True)
        self.path = os.path.join(WORK, name)

    def __enter__(self):
        self.f = open(self.path, "w")
        fcntl.flock(self.f, fcntl.LOCK_EX)
        return self

    def __exit__(self, *a):
        fcntl.flock(self.f, fcntl.LOCK_UN)
        self.f.close()


# --------------------------------------------------------------------------
def regenerate():
    """Regenerate coq/Gen/*.v from /repo.  Returns {file: error or None}."""
    import translate
    res = {}
    res.update(translate.regenerate(os.path.join(COQ, "Gen")))
    try:
        import tables
        res.update(tables.regenerate(os.path.join(COQ, "Gen")))
    except ImportError:
        pass
    return res


def ensure_makefile():
    mk = os.path.join(COQ, "Makefile")
    cp = os.path.join(COQ, "_CoqProject")
    if not os.path.exists(mk) or os.path.getmtime(mk) < os.path.getmtime(cp):
        subprocess.run(["coq_makefile", "-f", "_CoqProject", "-o", "Makefile"], cwd=COQ,
                       check=True, stdout=subprocess.DEVNULL)


def make(targets, timeout=1500, keep_going=True, force=()):
    """Build .vo targets (relative to coq/).  Returns (ok, output)."""
    ensure_makefile()
    for t in force:
        for ext in (".vo", ".vok", ".vos", ".glob"):
            p = os.path.join(COQ, t[:-3] + ext) if t.endswith(".vo") else None
            if p and os.path.exists(p):
                os.remove(p)
    cmd = ["timeout", str(timeout), "make", f"-j{NCPU}"] + (["-k"] if keep_going else []) + list(targets)
    p = subprocess.run(cmd, cwd=COQ, stdout=subprocess.PIPE, stderr=subprocess.STDOUT, text=True)
    return p.returncode == 0, p.stdout


MAX_VIOLATIONS = 400


class TooManyViolations(Exception):
    pass


_THM = re.compile(r"^\s*(Theorem|Lemma|Example|Corollary)\s+([A-Za-z0-9_']+)", re.M)


def theorems_in(vfile):
    with open(os.path.join(COQ, vfile)) as f:
        src = f.read()
    return [(m.group(2), src.count("\n", 0, m.start()) + 1) for m in _THM.finditer(src)]


def build_obligations(files):
    """files: .v files (relative to coq/) whose theorems are this property's
    obligations.  Each is force-recompiled on its own so that one broken file
    does not hide the others.  Returns a dict with per-theorem status."""
    out = {"obligations": [], "broken": [], "axioms": {}, "log": {}}
    with Lock():
        # dependencies first (incremental)
        deps = [f[:-2] + ".vo" for f in files]
        for f in files:
            target = f[:-2] + ".vo"
            ok, text = make([target], force=[target])
            out["log"][f] = text[-4000:]
            thms = theorems_in(f)
            errline = None
            if not ok:
                m = re.search(r'File "\./' + re.escape(f) + r'", line (\d+)', text)
                if m:
                    errline = int(m.group(1))
                else:
                    errline = 0   # dependency failed: nothing in this file is discharged
            # Print Assumptions output, in order
            closed = re.findall(r"^(Closed under the global context|Axioms:)", text, re.M)
            for i, (name, line) in enumerate(thms):
                nxt = thms[i + 1][1] if i + 1 < len(thms) else 10 ** 9
                good = ok or (errline is not None and errline >= nxt)
                out["obligations"].append({"file": f, "theorem": name, "ok": good})
                if not good:
                    out["broken"].append(f"{f}:{name}")
            if "Axioms:" in text:
                out["axioms"][f] = re.findall(r"^Axioms:\n((?:.+\n)+)", text, re.M)
                out["broken"].append(f"{f}:<axioms>")
            if ok and f.startswith("Props/"):
                n_print = len(re.findall(r"^Print Assumptions", open(os.path.join(COQ, f)).read(), re.M))
                if closed.count("Closed under the global context") < n_print:
                    out["broken"].append(f"{f}:<assumptions-not-closed>")
    return out


_HYG = re.compile(r"\b(Admitted|admit|Axiom|Parameter|Conjecture|Unset Guard|bypass_check|type-in-type|Admit Obligations)\b")


def hygiene():
    bad = []
    for root, _, fs in os.walk(COQ):
        for fn in fs:
            if fn.endswith(".v"):
                p = os.path.join(root, fn)
                with open(p) as f:
                    for i, line in enumerate(f, 1):
                        code = re.sub(r"\(\*.*?\*\)", "", line)
                        code = re.sub(r'"[^"]*"', '""', code)
                        if _HYG.search(code):
                            bad.append(f"{os.path.relpath(p, COQ)}:{i}: {line.strip()[:80]}")
    return bad


# --------------------------------------------------------------------------
def coq_string(s: str) -> str:
    return '"' + s.replace('"', '""') + '"%string'


def zlist(xs) -> str:
    return "[" + "; ".join(("(%d)" % x) if x < 0 else str(x) for x in xs) + "]"


def natlist(xs) -> str:
    return "[" + "; ".join(str(x) for x in xs) + "]%nat"


def hexlit(b: bytes) -> str:
    return '"' + b.hex() + '"%string'


PACK_PRE = "From Coq Require Import Uint63.\nFrom DV Require Import Prelude.Base Prelude.Pack63.\n"


def packlit(b: bytes) -> str:
    """bytes literal as 7-byte words of primitive ints (fast to elaborate)"""
    ws = []
    for i in range(0, len(b), 7):
        ch = b[i:i + 7]
        ws.append(str(int.from_bytes(ch + b"\0" * (7 - len(ch)), "big")))
    return "(unp %d [%s]%%uint63)" % (len(b), "; ".join(ws))


def run_coq_files(workdir, files, timeout=600):
    """files: {name: text}.  Compiles all in parallel, returns {name: (rc, output)}."""
    os.makedirs(workdir, exist_ok=True)
    procs = {}
    names = list(files)
    for n in names:
        with open(os.path.join(workdir, n), "w") as f:
            f.write(files[n])
    res = {}
    pending = list(names)
    running = []
    while pending or running:
        while pending and len(running) < NCPU:
            n = pending.pop(0)
            p = subprocess.Popen(["bash", "-c", f"ulimit -s unlimited 2>/dev/null || ulimit -s 1000000; "
                                  f"exec timeout {timeout} coqc -Q {COQ} DV -w none {n}"],
                                 cwd=workdir, stdout=subprocess.PIPE, stderr=subprocess.STDOUT, text=True)
            running.append((n, p))
        n, p = running.pop(0)
        out, _ = p.communicate()
        res[n] = (p.returncode, out)
    return res


def parse_zlist(output: str):
    """Parse the first `= [...] : list Z` printed by Eval vm_compute."""
    m = re.search(r"=\s*(\[.*?\])\s*(?:%Z)?\s*:\s*list Z", output, re.S)
    if not m:
        return None
    return [int(x) for x in re.findall(r"-?\d+", m.group(1))]


def eval_mismatches(workdir, preamble, ok_def, case_texts, chunk=400, tag="cases"):
    """Evaluate `mismatches ok [cases]` in Coq, in chunks.  Returns
    (list of global mismatch indices, list of errors)."""
    files = {}
    lit = re.compile(r'"((?:[^"]|"")*)"%string')
    for k in range(0, len(case_texts), chunk):
        part = case_texts[k:k + chunk]
        # intern repeated string literals (elaborating a literal costs ~9 nodes per character)
        counts = {}
        for t in part:
            for m in lit.finditer(t):
                if len(m.group(1)) <= 80:
                    counts[m.group(1)] = counts.get(m.group(1), 0) + 1
        names = {s_: f"s_{i}_" for i, s_ in enumerate(x for x, n in counts.items() if n >= 2)}
        defs = "".join(f'Definition {n} := "{s_}"%string.\n' for s_, n in names.items())
        if names:
            part = [lit.sub(lambda m: names.get(m.group(1), m.group(0)), t) for t in part]
        body = ";\n  ".join(part)
        # the element type is taken from `ok` so that a chunk in which some component is always None / [] still type-checks
        mt = re.search(r"Definition ok \(c : (.+?)\) : bool", ok_def, re.S)
        ann = f" : list ({mt.group(1)})" if mt else ""
        files[f"{tag}_{k // chunk}.v"] = (
            PACK_PRE + preamble + "\n" + ok_def + "\n" + defs + f"\nDefinition cases{ann} := [\n  " + body + "\n].\n"
            "Eval vm_compute in (mismatches ok cases).\n")
    res = run_coq_files(workdir, files)
    mism, errs = [], []
    for name, (rc, out) in sorted(res.items(), key=lambda kv: int(re.search(r"_(\d+)\.v", kv[0]).group(1))):
        k = int(re.search(r"_(\d+)\.v", name).group(1))
        if rc != 0:
            errs.append(f"{name}: coqc failed: {out[-600:]}")
            continue
        lst = parse_zlist(out)
        if lst is None:
            errs.append(f"{name}: unparsable output: {out[-300:]}")
            continue
        mism.extend(k * chunk + i for i in lst)
    return mism, errs


def eval_terms(workdir, preamble, terms, tag="show"):
    """Evaluate arbitrary terms (for replay files): returns raw vm_compute output."""
    text = PACK_PRE + preamble + "\n" + "\n".join(f"Eval vm_compute in ({t})." for t in terms) + "\n"
    res = run_coq_files(workdir, {f"{tag}.v": text})
    return res[f"{tag}.v"][1]


# --------------------------------------------------------------------------
def load_known():
    p = os.path.join(VERIF, "known_findings.json")
    if not os.path.exists(p):
        return []
    with open(p) as f:
        return json.load(f).get("findings", [])


class Run:
    """One check run: collects everything, prints the verdict, writes evidence."""

    def __init__(self, prop, tier, seed):
        self.prop = prop
        self.tier = tier
        self.seed = seed
        self.t0 = time.time()
        self.workdir = os.path.join(WORK, f"{prop}-{os.getpid()}")
        os.makedirs(self.workdir, exist_ok=True)
        self.obl = None
        self.regen = {}
        self.evaluations = 0
        self.nontrivial = set()
        self.samples = []
        self.violations = []     # dicts: {clause, case, observed, expected?}
        self.mismatches = []     # dicts: model vs impl disagreement
        self.notes = []
        self.extra = {}
        self.rule = ""
        self.assumptions = []
        self.exhaustive = False

    # -- obligations ----------------------------------------------------
    def obligations(self, files):
        self.regen = regenerate()
        for f, e in self.regen.items():
            if e:
                self.notes.append(f"translation failed: {f}: {e}")
        if os.environ.get("VERIF_DEV_SKIP_PROOFS"):
            # development aid only (never in a registered command): the proof files are being edited; the run is reported
            # as broken so that it can never be mistaken for a pass
            self.obl = {"obligations": [], "broken": ["<proofs skipped: VERIF_DEV_SKIP_PROOFS>"], "axioms": {}, "log": {}}
            return self.obl
        self.obl = build_obligations(files)
        bad = hygiene()
        if bad:
            self.obl["broken"].append("<hygiene>")
            self.obl["hygiene"] = bad
        return self.obl

    @property
    def broken(self):
        return list(self.obl["broken"]) if self.obl else []

    # -- bookkeeping ----------------------------------------------------
    def count(self, n=1, nontrivial_keys=()):
        self.evaluations += n
        for k in nontrivial_keys:
            self.nontrivial.add(k)

    def sample(self, s, limit=6):
        if len(self.samples) < limit:
            self.samples.append(s)

    def violation(self, clause, case, observed, expected=None, what=""):
        self.violations.append({"clause": clause, "case": case, "observed": observed,
                                "expected": expected, "what": what})
        if len(self.violations) >= MAX_VIOLATIONS:
            # a tree that fails this often needs no further exploration: on broken code some generators feed on their own
            # output (ever longer messages, ever more cases) -- stop and report what there is
            raise TooManyViolations()

    def mismatch(self, unit, case, impl, model=None):
        self.mismatches.append({"unit": unit, "case": case, "impl": impl, "model": model})

    # -- verdict ----------------------------------------------------------
    def _write_replay(self, kind, payload):
        os.makedirs(REPLAY, exist_ok=True)
        blob = json.dumps(payload, sort_keys=True, default=str)
        h = hashlib.sha1(blob.encode()).hexdigest()[:10]
        path = os.path.join(REPLAY, f"{self.prop}-{kind}-{h}.json")
        with open(path, "w") as f:
            json.dump(payload, f, indent=1, sort_keys=True, default=str)
        return path

    def finish(self, known_matcher=None):
        """known_matcher(violation dict, finding dict) -> bool"""
        known = [k for k in load_known() if k.get("property") == self.prop and k.get("status") == "open"]
        rc = 0
        reported_known = set()
        n_viol = 0
        for v in self.violations:
            hit = None
            if known_matcher:
                for k in known:
                    if known_matcher(v, k):
                        hit = k
                        break
            if hit is not None:
                if hit["id"] not in reported_known:
                    print(f"KNOWN-FINDING: property={self.prop} {hit['what']}")
                    reported_known.add(hit["id"])
                continue
            n_viol += 1
            if n_viol <= 5:
                path = self._write_replay("violation", {"property": self.prop, "kind": "failing-input",
                                                         "seed": self.seed, "tier": self.tier, **v})
                print(f"VIOLATION property={self.prop} replay={path}")
            rc = 1
        broken = self.broken
        if os.environ.get("VERIF_DEBUG"):
            for mm in self.mismatches[:40]:
                log("MISMATCH", json.dumps(mm, default=str)[:700])
            log("BROKEN", broken)
        if (broken or self.mismatches) and n_viol == 0:
            # the property is no longer shown to hold, and no failing input was found
            path = self._write_replay("unproved", {
                "property": self.prop, "kind": "obligation-or-correspondence-broken",
                "broken_obligations": broken,
                "translation": {k: v for k, v in self.regen.items() if v},
                "coq_log": {k: v[-1500:] for k, v in (self.obl or {}).get("log", {}).items()
                            if any(b.startswith(k) for b in broken)},
                "correspondence_mismatches": self.mismatches[:5],
                "n_mismatches": len(self.mismatches),
                "seed": self.seed, "tier": self.tier,
                "searched": self.evaluations})
            print(f"VIOLATION property={self.prop} replay={path} no-failing-input-found")
            rc = 1
        self._evidence(n_viol)
        if not os.environ.get('VERIF_KEEP'): shutil.rmtree(self.workdir, ignore_errors=True)
        return rc

    def _evidence(self, n_viol):
        os.makedirs(EVID, exist_ok=True)
        obls = self.obl["obligations"] if self.obl else []
        cov = {
            "obligations": len(obls),
            "discharged": sum(1 for o in obls if o["ok"]) if not (self.obl and self.obl.get("axioms")) else 0,
            "checker_cmd": "make -C /verif/coq <Props/Link targets> (coqc 8.16.1, full .vo build) + Print Assumptions audit + hygiene grep",
            "trusted_base": TRUSTED_BASE,
            "evaluations": self.evaluations,
            "distinct_nontrivial": len(self.nontrivial),
            "rule": self.rule,
            "samples": self.samples[:8],
            "traces_validated_against_impl": self.evaluations - len(self.mismatches),
            "correspondence_mismatches": len(self.mismatches),
            "broken_obligations": self.broken,
            "theorems": [o["theorem"] for o in obls],
            "exhaustive": self.exhaustive,
            "notes": self.notes,
        }
        cov.update(self.extra)
        ev = {"property_id": self.prop, "tier": self.tier, "seed": self.seed, "level": "proof",
              "coverage": cov, "assumptions": self.assumptions,
              "wall_s": round(time.time() - self.t0, 2), "violations": n_viol}
        with open(os.path.join(EVID, f"{self.prop}.json"), "w") as f:
            json.dump(ev, f, indent=1, default=str)
