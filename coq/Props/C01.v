(* C01 — AVP value <-> wire codec is exact, RFC 6733-conformant and lossless.
   Statements only; each proof is an `exact`/application of a lemma from Proofs/. *)
From DV Require Import Prelude.Base Spec.Rfc6733 Model.Wire Model.Types Proofs.WireP Proofs.TypesP.

(* wf_avp' : 0 <= code, vendor < 2^32, flags a byte with V set iff vendor <> 0, payload bytes,
   total length < 2^24 -- i.e. everything Avp.new and the setters can build that fits the wire *)

(* encoding IS the RFC 6733 4.1 layout: code(32) flags(8) length(24) [vendor(32)] data, zero padding to 4 *)
Theorem C01_enc_is_rfc : forall a, wf_avp' a ->
  enc_avp a = Ok (rfc_avp (a_code a) (a_flags a) (a_vendor a) (a_payload a)).
Proof. exact enc_avp_is_rfc'. Qed.

(* the 24-bit length counts header + unpadded data; the encoding is padded to a multiple of four *)
Theorem C01_length : forall a bs, wf_avp' a -> enc_avp a = Ok bs ->
  blen bs = (if a_vendor a =? 0 then 8 else 12) + blen (a_payload a) + rfc_pad (blen (a_payload a))
  /\ blen bs mod 4 = 0.
Proof. exact enc_avp_length'. Qed.

(* V is set iff a non-zero vendor id is present, whatever flags the constructor was given *)
Theorem C01_vbit : forall code vendor payload flags, 0 <= flags < 256 ->
  let a := mk_avp code vendor payload flags in
  0 <= a_flags a < 256 /\ (Z.land (a_flags a) 128 = 0 <-> vendor = 0).
Proof. exact mk_avp_vbit. Qed.

(* decoding the encoding (followed by anything) gives the AVP back and leaves the rest *)
Theorem C01_dec_enc : forall a bs rest, wf_avp' a -> enc_avp a = Ok bs ->
  dec_avp (bs ++ rest) = Ok (a, rest).
Proof. exact dec_enc_avp'. Qed.

(* re-encoding any decoded well-formed wire AVP reproduces the input bytes.
   wire_ok = declared length is header + payload (>= header size), V on the wire implies a
   non-zero vendor id, padding bytes are zero *)
Theorem C01_enc_dec : forall bs a rest, wf_bytes bs -> dec_avp bs = Ok (a, rest) -> wire_ok bs ->
  exists pre, enc_avp a = Ok pre /\ pre ++ rest = bs.
Proof. exact enc_dec_avp. Qed.

(* every decoded AVP is well-formed again *)
Theorem C01_dec_wf : forall bs a rest, wf_bytes bs -> dec_avp bs = Ok (a, rest) -> wf_avp' a /\ wf_bytes rest.
Proof. exact dec_avp_wf_partial. Qed.

(* values: every value of a type's domain encodes, and decodes to itself *)
Theorem C01_val_roundtrip : forall t v, t <> TGrouped -> in_domain t v = true ->
  exists p, enc_val rfc_time t v = Ok p /\ dec_val rfc_time t p = Ok v /\ wf_bytes p.
Proof. exact val_roundtrip. Qed.

(* values outside the domain are rejected -- never truncated or wrapped (Time excepted: see below) *)
Theorem C01_rejects : forall t v, t <> TGrouped -> t <> TTime ->
  (forall b, v = VBytes b -> wf_bytes b) -> (forall f raw, v = VAddr f raw -> wf_bytes raw) ->
  in_domain t v = false -> exists e, enc_val rfc_time t v = Err e.
Proof. intros t v H1 H2 H3 H4 H5. exact (val_rejects t v H1 H2 H3 H4 H5). Qed.

(* integers are big-endian two's complement with a range check *)
Theorem C01_int_layout : forall n x, (0 < n)%nat -> - (256 ^ Z.of_nat n / 2) <= x < 256 ^ Z.of_nat n / 2 ->
  pack_s n x = Ok (rfc_int n x) /\ unpack_s n (rfc_int n x) = Ok x.
Proof. exact pack_s_roundtrip. Qed.

(* UTF-8: exactly the Unicode scalar values are accepted, strict decoder, both directions *)
Theorem C01_utf8_roundtrip : forall cps, Forall scalar cps ->
  exists b, utf8_enc cps = Some b /\ utf8_dec b = Some cps /\ wf_bytes b.
Proof. exact utf8_roundtrip. Qed.
Theorem C01_utf8_rejects : forall cps, ~ Forall scalar cps -> utf8_enc cps = None.
Proof. exact utf8_rejects. Qed.
Theorem C01_utf8_strict : forall bs cps, utf8_dec bs = Some cps -> Forall scalar cps /\ utf8_enc cps = Some bs.
Proof. exact utf8_dec_sound. Qed.

(* Time: NTP seconds modulo 2^32 with the era rollover of 2036-02-07 06:28:16 UTC, over the whole
   documented range 1968-01-20 03:14:08 .. 2104-02-26 09:42:24 UTC *)
Theorem C01_time_is_rfc : forall s, time_domain s -> time_enc rfc_time s = Ok (rfc_time_data s).
Proof. exact time_enc_is_rfc. Qed.
Theorem C01_time_roundtrip : forall s, time_domain s ->
  exists p, time_enc rfc_time s = Ok p /\ time_dec rfc_time p = Ok s.
Proof. exact time_roundtrip. Qed.
Theorem C01_time_dec_enc : forall p s, wf_bytes p -> time_dec rfc_time p = Ok s ->
  time_domain s /\ time_enc rfc_time s = Ok p.
Proof. exact time_dec_enc. Qed.

(* KNOWN FINDING C01-time-wrap (open): outside that range the setter, as the code is, wraps
   instead of rejecting.  Full statement `forall s, ~ time_domain s -> time_enc = Err` is FALSE
   of the faithful model: *)
Theorem C01_time_rejects_refuted : exists s p s',
  ~ time_domain s /\ time_enc rfc_time s = Ok p /\ time_dec rfc_time p = Ok s' /\ s' <> s.
Proof. exact time_wraps_refuted. Qed.
(* what does hold: values that do not fit 32 bits at all are rejected *)
Theorem C01_time_rejects_partial : forall s, s < -2208988800 \/ 6380945792 <= s ->
  time_enc rfc_time s = Err AvpEncodeError.
Proof. exact time_rejects_partial. Qed.

(* Address: 2-octet family prefix then the raw address *)
Theorem C01_addr_roundtrip : forall f raw, wf_bytes raw -> (f = 1 \/ f = 2 \/ f = 8) -> addr_ok f raw = true ->
  addr_enc f raw = Ok (rfc_addr_data f raw) /\ addr_dec (rfc_addr_data f raw) = Ok (f, raw).
Proof. exact addr_roundtrip. Qed.

(* non-vacuity *)
Example C01_example :
  let a := mk_avp 461 10415 [51; 50; 50; 53; 49] 64 in
  wf_avp' a /\ enc_avp a = Ok [0;0;1;205; 192;0;0;17; 0;0;40;175; 51;50;50;53;49;0;0;0].
Proof.
  split; [|vm_compute; reflexivity].
  unfold wf_avp'. cbn. repeat split; try lia; try (repeat constructor; lia); try discriminate.
Qed.

Print Assumptions C01_enc_is_rfc.
Print Assumptions C01_length.
Print Assumptions C01_vbit.
Print Assumptions C01_dec_enc.
Print Assumptions C01_enc_dec.
Print Assumptions C01_dec_wf.
Print Assumptions C01_val_roundtrip.
Print Assumptions C01_rejects.
Print Assumptions C01_int_layout.
Print Assumptions C01_utf8_roundtrip.
Print Assumptions C01_utf8_rejects.
Print Assumptions C01_utf8_strict.
Print Assumptions C01_time_is_rfc.
Print Assumptions C01_time_roundtrip.
Print Assumptions C01_time_dec_enc.
Print Assumptions C01_time_rejects_refuted.
Print Assumptions C01_time_rejects_partial.
Print Assumptions C01_addr_roundtrip.
