"""Fresh, cheap import of the real `diameter.node` package against virtual
standard-library modules.

The source files are compiled once per process; every `load_node_package`
call executes the cached code objects into brand-new module objects while
`sys.modules['threading'|'queue'|'time'|'socket'|'select'|'random'|'os']`
point at the virtual modules.  Afterwards `sys.modules` (and the `node`
attribute of the `diameter` package) are restored exactly, so nobody else ever
sees the virtualised package.  `diameter.message` is imported normally, once.
"""
from __future__ import annotations

import importlib
import importlib.abc
import importlib.machinery
import importlib.util
import os
import sys

PATCHED = ("threading", "queue", "time", "socket", "select", "random", "os")
_NAMES = ("diameter.node", "diameter.node._helpers", "diameter.node.peer",
          "diameter.node.node", "diameter.node.application")

_CODE = {}        # fullname -> (code, path, is_pkg)
_NODE_DIR = None
_HAVE_SCTP = None
_MISSING = object()


def node_dir():
    _prepare()
    return _NODE_DIR


def _prepare():
    global _NODE_DIR, _HAVE_SCTP
    if _CODE:
        return
    import diameter
    import diameter.message  # noqa: F401  (pure; imported for real, once)
    import diameter.message.commands  # noqa: F401
    base = os.path.join(os.path.dirname(os.path.abspath(diameter.__file__)),
                        "node")
    _NODE_DIR = base + os.sep
    for name in _NAMES:
        if name == "diameter.node":
            path, is_pkg = os.path.join(base, "__init__.py"), True
        else:
            path, is_pkg = os.path.join(
                base, name.rsplit(".", 1)[1] + ".py"), False
        with open(path, "rb") as f:
            src = f.read()
        _CODE[name] = (compile(src, path, "exec", dont_inherit=True),
                       path, is_pkg)
    try:
        _HAVE_SCTP = importlib.util.find_spec("sctp") is not None
    except Exception:
        _HAVE_SCTP = False


class _Loader(importlib.abc.Loader):
    def __init__(self, code):
        self.code = code

    def create_module(self, spec):
        return None

    def exec_module(self, module):
        exec(self.code, module.__dict__)


class _Finder(importlib.abc.MetaPathFinder):
    def find_spec(self, fullname, path=None, target=None):
        ent = _CODE.get(fullname)
        if ent is None:
            return None
        code, fpath, is_pkg = ent
        spec = importlib.machinery.ModuleSpec(
            fullname, _Loader(code), origin=fpath, is_package=is_pkg)
        spec.has_location = True
        if is_pkg:
            spec.submodule_search_locations = [os.path.dirname(fpath)]
        return spec


_FINDER = _Finder()


def load_node_package(vmods):
    """Import a private copy of diameter.node bound to `vmods` (a dict
    name -> virtual module for every name in PATCHED).  Returns a dict
    fullname -> module for the five node modules."""
    _prepare()
    import diameter

    saved = {k: sys.modules.get(k, _MISSING) for k in PATCHED}
    saved_sctp = sys.modules.get("sctp", _MISSING)
    old_node = {k: sys.modules.pop(k) for k in list(sys.modules)
                if k == "diameter.node" or k.startswith("diameter.node.")}
    parent_attr = diameter.__dict__.get("node", _MISSING)

    for k in PATCHED:
        sys.modules[k] = vmods[k]
    if not _HAVE_SCTP and saved_sctp is _MISSING:
        sys.modules["sctp"] = None      # makes `import sctp` fail instantly
    sys.meta_path.insert(0, _FINDER)
    try:
        importlib.import_module("diameter.node")
        importlib.import_module("diameter.node.application")
        out = {n: sys.modules[n] for n in _NAMES}
    finally:
        try:
            sys.meta_path.remove(_FINDER)
        except ValueError:
            pass
        for k, v in saved.items():
            if v is _MISSING:
                sys.modules.pop(k, None)
            else:
                sys.modules[k] = v
        if not _HAVE_SCTP and saved_sctp is _MISSING:
            sys.modules.pop("sctp", None)
        for k in list(sys.modules):
            if k == "diameter.node" or k.startswith("diameter.node."):
                del sys.modules[k]
        sys.modules.update(old_node)
        if parent_attr is _MISSING:
            diameter.__dict__.pop("node", None)
        else:
            diameter.node = parent_attr
    return out
