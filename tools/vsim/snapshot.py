"""Canonical, JSON-serialisable snapshot of a Node's tables."""
from __future__ import annotations

import dataclasses


def _rel(sim, v):
    return None if v is None else v - sim.t0


def _key(k):
    if isinstance(k, (bytes, bytearray)):
        return bytes(k).decode("latin-1")
    return str(k)


def _alive(t):
    try:
        return bool(t.is_alive())
    except Exception:
        return False


def snapshot(sim, node):
    peers = {}
    for name, p in node.peers.items():
        peers[str(name)] = {
            "connection": p.connection.ident if p.connection else None,
            "disconnect_reason": p.disconnect_reason,
            "last_connect": _rel(sim, p.last_connect),
            "last_disconnect": _rel(sim, p.last_disconnect),
            "persistent": bool(p.persistent),
            "counters": dict(sorted(dataclasses.asdict(p.counters).items())),
        }

    def conn_info(c):
        sock = node.peer_sockets.get(c.ident)
        return {
            "ident": c.ident,
            "direction": "recv" if c.is_receiver else "send",
            "state": c.state,
            "state_name": sim.node_mod.state_names.get(c.state, "UNKNOWN"),
            "node_name": c.node_name,
            "host_identity": c.host_identity,
            "origin_host": c.origin_host,
            "auth_application_ids": sorted(c.auth_application_ids),
            "acct_application_ids": sorted(c.acct_application_ids),
            "is_waiting_for_dwa": bool(c.is_waiting_for_dwa),
            "write_buffer_len": len(c.write_buffer),
            "read_buffer_len": len(c._read_buffer),
            "read_queue_len": c._read_buffer_queue.qsize(),
            "write_queue_len": c._write_msg_queue.qsize(),
            "socket_fileno": c.socket_fileno,
            "socket_open": (None if sock is None
                            else not getattr(sock, "closed", False)),
            "read_thread_alive": _alive(c._read_thread),
            "write_thread_alive": _alive(c._write_thread),
        }

    conns = {str(k): conn_info(c) for k, c in node.connections.items()}
    half = {str(k): conn_info(c)
            for k, c in node._half_ready_connections.items()
            if k not in node.connections}

    apps = []
    for app in node.applications:
        a = {
            "class": type(app).__name__,
            "application_id": app.application_id,
            "is_ready": bool(app.is_ready.is_set()),
            "answer_waiting": sorted(app._answer_waiting.keys(), key=repr),
        }
        if hasattr(app, "_thread_slots"):
            a["thread_slots"] = app._thread_slots.qsize()
            a["recv_msg_queue"] = app._recv_msg_queue.qsize()
            a["resp_msg_queue"] = app._resp_msg_queue.qsize()
            a["recv_consumer_alive"] = _alive(app._recv_queue_consumer)
            a["resp_consumer_alive"] = _alive(app._resp_queue_consumer)
        apps.append(a)

    listeners_open = sum(1 for s in sim.sockets if s.listening and not s.closed)
    peers_open = sum(1 for s in sim.sockets
                     if not s.listening and not s.closed)

    snap = {
        "time": sim.now - sim.t0,
        "stopping": bool(node._stopping),
        "started": bool(node._started),
        "peers": dict(sorted(peers.items())),
        "connections": dict(sorted(conns.items())),
        "connection_keys": sorted(str(k) for k in node.connections),
        "peer_socket_keys": sorted(str(k) for k in node.peer_sockets),
        "socket_peer_keys": sorted(int(k) for k in node.socket_peers),
        "half_ready_keys": sorted(str(k)
                                  for k in node._half_ready_connections),
        "half_ready_orphans": dict(sorted(half.items())),
        "peer_waiting_answer": sorted(
            [_key(h), sorted(ids.keys())]
            for h, ids in node._peer_waiting_answer.items()),
        "app_waiting_answer": sorted(node._app_waiting_answer.keys()),
        "origin_waiting_answer": sorted(node._origin_waiting_answer.keys()),
        "sent_answers": dict(sorted(
            (_key(k), list(v)) for k, v in node._sent_answers.items())),
        "applications": apps,
        "threads": sim.live_threads_by_role(),
        "open_listeners": listeners_open,
        "open_peer_sockets": peers_open,
        "interrupt_pipe_pending": sum(
            len(p.buf) for fd, p in sorted(sim.pipes.items())
            if fd == p.rfd),
    }
    return snap
