"""Regenerates /verif/MANIFEST.json from the table below (run after adding a check)."""
import json

NOTE_COMMON = ("Trusted: Coq 8.16.1 kernel + vm_compute; no axioms (Print Assumptions audited each run); "
               "translator/tables (tools/translate.py, tools/tables.py) and Prelude semantics of CPython primitives, "
               "both guarded by the differential correspondence; Python oracles and harness.")

CHECKS = {
 "C16": dict(
   engine="coq-conc",
   technique="Coq proof: inductive invariant over all interleavings of translated step programs + closed form of the counter; Link lemmas by reflexivity; line-level schedule replay as correspondence",
   text=("Theorems (Props/C16.v): closed form of k successive draws, pairwise distinct until wrap, never zero, wrap to 1, "
         "e2e initial value layout, session-id format and injectivity, and uniqueness for ANY number of threads/draws and ANY "
         "interleaving of the line-granular step programs (inductive invariant). The step programs and constants are "
         "regenerated from node/_helpers.py on every run and tied to the model by Link lemmas (reflexivity); the real "
         "generators are run under all schedules with <=3 pre-emptions and each trace is replayed on the Coq machine."),
   design_ref="DESIGN.md section 6 C16",
   note=NOTE_COMMON + " Pre-emption granularity = source lines (as the property states).")
}

NOT_YET = "check not yet built in this revision (planned, see DESIGN.md section 6)"


def main():
    props = [json.loads(l) for l in open('/verif/properties.jsonl')]
    checks = []
    for p in props:
        pid = p["id"]
        if pid not in CHECKS:
            continue
        c = CHECKS[pid]
        checks.append({
            "property_id": pid,
            "quick_cmd": f"./check {pid} --tier quick",
            "thorough_cmd": f"./check {pid} --tier thorough",
            "evidence_file": f"evidence/{pid}.json",
            "replay_cmd_template": "./check replay {path}",
            "engine": c["engine"],
            "level_claimed": {"category": "proof", "text": c["text"], "design_ref": c["design_ref"]},
            "level_note": c["note"],
            "technique": c["technique"],
        })
    m = {"version": 1,
         "setup_cmd": "./check setup",
         "hooks": {"guard": "DIAMETER_VERIF",
                   "enable": "no source hooks: instrumentation is applied from outside by module substitution (tools/vsim) and sys.settrace (tools/linesched); guard name reserved",
                   "baseline_off_cmd": "cd /repo && /venv/bin/python -m pytest -ra -q -p no:cacheprovider --timeout=900 --continue-on-collection-errors",
                   "source_commits": [], "add_only": True},
         "engines": [
             {"name": "coq-codec", "path": "coq/", "serves_properties": ["C01", "C02", "C03", "C04", "C20"],
              "kind_free_text": "Coq model of the wire codec + generated tables + differential correspondence"},
             {"name": "coq-conc", "path": "coq/", "serves_properties": ["C15", "C16"],
              "kind_free_text": "Coq step machine over translated line-level programs + schedule exploration of the real code"},
             {"name": "coq-node", "path": "coq/", "serves_properties": ["C05", "C06", "C07", "C08", "C09", "C10", "C11", "C12", "C13", "C14", "C17", "C18", "C19"],
              "kind_free_text": "Coq state-machine model of the node + deterministic harness (tools/vsim) correspondence"}],
         "checks": checks,
         "not_applicable": [{"property_id": p["id"], "reason": NOT_YET} for p in props if p["id"] not in CHECKS],
         "notes": "Machine-checked proof in Coq 8.16.1 over an executable model tied to /repo by regenerated tables / translated kernels and a differential correspondence check. See DESIGN.md."}
    json.dump(m, open('/verif/MANIFEST.json', 'w'), indent=1)


if __name__ == "__main__":
    main()
