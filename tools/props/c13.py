"""C13 — node-layer property; see tools/nodecheck.py and tools/nodeoracles.py."""
import nodecheck

PROFILE = dict(outbound=0.5)
W = nodecheck.weights(close=2.5, readerr=2, accept=5, cer=9, tick=5)
N_QUICK, N_THOROUGH, LENGTH = 60, 1500, 18
FILES = ["Props/C13.v"]


def known(v, k):
    if k["id"] == "C13-second-connection-same-peer":
        c = v["case"]
        live = v["observed"].get("live", []) if isinstance(v["observed"], dict) else []
        return (v["clause"] == "peer-conn-exactly-when-exists" and live and all(x in c.get("secondary_connections", []) for x in live))
    return False


def check(run):
    return nodecheck.run(run, "C13", FILES, PROFILE, W, N_QUICK, N_THOROUGH, LENGTH, known=known)


replay = nodecheck.replay_generic
