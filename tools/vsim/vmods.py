"""Virtual threading / queue / time / socket / select / random / os modules.

All objects here are manipulated only by the thread that holds the baton (or
by the driver while no virtual thread runs), so they need no real locking.
"""
from __future__ import annotations

import errno
import os as _ros
import queue as _rq
import random as _rrandom
import select as _rselect
import socket as _rs
import threading as _rt
import time as _rtime
import types
from collections import deque

from . import net
from .core import VT, DONE, NEW, HarnessError


class _VModule(types.ModuleType):
    """A module object whose missing attributes give a clear error (or are
    delegated to a real module)."""

    def __init__(self, name, fallback=None):
        super().__init__(name)
        self.__dict__["_vsim_fallback"] = fallback

    def __getattr__(self, item):
        fb = self.__dict__.get("_vsim_fallback")
        if fb is not None:
            return getattr(fb, item)
        raise AttributeError(
            f"vsim: virtual module {self.__name__!r} has no attribute "
            f"{item!r} (not virtualised)")


# =========================================================== threading bits
class VThreadBase(_rt.Thread):
    """Virtual thread.  Keeps the real constructor (so `_target`, `_args`,
    `_kwargs`, `name`, `daemon` behave as usual) but is never started as an
    OS thread itself; the Sim runs `self.run()` on a backing OS thread."""
    _sim = None

    def __init__(self, group=None, target=None, name=None, args=(),
                 kwargs=None, *, daemon=None):
        sim = self._sim
        role = sim._role_for(target, self)
        vname = sim._alloc_name(role, name)
        super().__init__(group=group, target=target, name=vname, args=args,
                         kwargs=kwargs, daemon=daemon)
        self._vt = VT(sim, self, vname, role)

    def start(self):
        self._sim._register(self._vt)

    def is_alive(self):
        return self._vt.state not in (NEW, DONE)

    def join(self, timeout=None):
        vt = self._vt
        sim = self._sim
        if vt.state == NEW:
            raise RuntimeError("cannot join thread before it is started")
        if sim._cur() is vt:
            raise RuntimeError("cannot join current thread")
        if vt.state == DONE:
            return
        if timeout is not None and timeout <= 0:
            return
        sim._block(lambda: vt.state == DONE, timeout, "join:" + vt.name)

    @property
    def ident(self):
        vt = self.__dict__.get("_vt")
        if vt is None or vt.state == NEW:
            return None
        return vt.index + 1

    @property
    def native_id(self):
        return self.ident


class VEvent:
    _sim = None
    __slots__ = ("_flag",)

    def __init__(self):
        self._flag = False

    def is_set(self):
        return self._flag

    isSet = is_set

    def set(self):
        self._flag = True

    def clear(self):
        self._flag = False

    def wait(self, timeout=None):
        if self._flag:
            return True
        if timeout is not None and timeout <= 0:
            return False
        self._sim._block(self.is_set, timeout, "event.wait")
        return self._flag


class VLock:
    _sim = None
    __slots__ = ("_locked", "_owner")

    def __init__(self):
        self._locked = False
        self._owner = None

    def _free(self):
        return not self._locked

    def acquire(self, blocking=True, timeout=-1):
        sim = self._sim
        if not self._locked:
            self._locked = True
            self._owner = sim._cur()
            return True
        if not blocking:
            return False
        if timeout is not None and timeout < 0:
            timeout = None
        if timeout is None:
            while self._locked:
                sim._block(self._free, None, "lock.acquire")
        else:
            end = sim.now + timeout
            while self._locked:
                left = end - sim.now
                if left <= 0:
                    return False
                sim._block(self._free, None, "lock.acquire", deadline=end)
        self._locked = True
        self._owner = sim._cur()
        return True

    def release(self):
        if not self._locked:
            raise RuntimeError("release unlocked lock")
        self._locked = False
        self._owner = None

    def locked(self):
        return self._locked

    def __enter__(self):
        self.acquire()
        return True

    def __exit__(self, *a):
        self.release()


class VRLock:
    _sim = None
    __slots__ = ("_owner", "_count")

    def __init__(self):
        self._owner = None
        self._count = 0

    def _me(self):
        vt = self._sim._cur()
        return vt if vt is not None else "driver"

    def acquire(self, blocking=True, timeout=-1):
        sim = self._sim
        me = self._me()
        if self._count and self._owner is me:
            self._count += 1
            return True
        if self._count:
            if not blocking:
                return False
            if timeout is not None and timeout < 0:
                timeout = None
            end = None if timeout is None else sim.now + timeout
            while self._count:
                left = None if end is None else end - sim.now
                if left is not None and left <= 0:
                    return False
                sim._block(lambda: self._count == 0, None, "rlock.acquire",
                           deadline=end)
        self._owner = me
        self._count = 1
        return True

    def release(self):
        if not self._count or self._owner is not self._me():
            raise RuntimeError("cannot release un-acquired lock")
        self._count -= 1
        if not self._count:
            self._owner = None

    def locked(self):
        return self._count > 0

    def __enter__(self):
        self.acquire()
        return True

    def __exit__(self, *a):
        self.release()

    # used by Condition
    def _release_save(self):
        st = (self._count, self._owner)
        self._count = 0
        self._owner = None
        return st

    def _acquire_restore(self, st):
        self.acquire()
        self._count, self._owner = st

    def _is_owned(self):
        return self._count > 0 and self._owner is self._me()


class VSemaphore:
    _sim = None
    _bounded = False

    def __init__(self, value=1):
        if value < 0:
            raise ValueError("semaphore initial value must be >= 0")
        self._value = value
        self._initial = value

    def acquire(self, blocking=True, timeout=None):
        sim = self._sim
        if self._value > 0:
            self._value -= 1
            return True
        if not blocking:
            return False
        end = None if timeout is None else sim.now + timeout
        while self._value <= 0:
            left = None if end is None else end - sim.now
            if left is not None and left <= 0:
                return False
            sim._block(lambda: self._value > 0, None, "semaphore.acquire",
                       deadline=end)
        self._value -= 1
        return True

    def release(self, n=1):
        if self._bounded and self._value + n > self._initial:
            raise ValueError("Semaphore released too many times")
        self._value += n

    def __enter__(self):
        self.acquire()
        return True

    def __exit__(self, *a):
        self.release()


class VBoundedSemaphore(VSemaphore):
    _bounded = True


class VCondition:
    _sim = None
    _lock_cls = None

    def __init__(self, lock=None):
        self._lock = lock if lock is not None else self._lock_cls()
        self.acquire = self._lock.acquire
        self.release = self._lock.release
        self._waiters = deque()

    def __enter__(self):
        return self._lock.__enter__()

    def __exit__(self, *a):
        return self._lock.__exit__(*a)

    def wait(self, timeout=None):
        lock = self._lock
        ticket = [False]
        self._waiters.append(ticket)
        saved = lock._release_save() if hasattr(lock, "_release_save") \
            else (lock.release(), None)[1]
        try:
            if timeout is not None and timeout <= 0:
                got = ticket[0]
            else:
                got = self._sim._block(lambda: ticket[0], timeout, "cond.wait")
            if not got:
                try:
                    self._waiters.remove(ticket)
                except ValueError:
                    pass
            return bool(got)
        finally:
            if hasattr(lock, "_acquire_restore"):
                lock._acquire_restore(saved)
            else:
                lock.acquire()

    def wait_for(self, predicate, timeout=None):
        end = None if timeout is None else self._sim.now + timeout
        result = predicate()
        while not result:
            left = None if end is None else end - self._sim.now
            if left is not None and left <= 0:
                break
            self.wait(left)
            result = predicate()
        return result

    def notify(self, n=1):
        for _ in range(n):
            if not self._waiters:
                break
            self._waiters.popleft()[0] = True

    def notify_all(self):
        self.notify(len(self._waiters))

    notifyAll = notify_all


# ================================================================== queue
class VQueue:
    _sim = None

    def __init__(self, maxsize=0):
        self.maxsize = maxsize
        self.queue = deque()
        self.unfinished_tasks = 0

    def qsize(self):
        return len(self.queue)

    def empty(self):
        return not self.queue

    def full(self):
        return 0 < self.maxsize <= len(self.queue)

    def _not_full(self):
        return not (0 < self.maxsize <= len(self.queue))

    def _not_empty(self):
        return bool(self.queue)

    def put(self, item, block=True, timeout=None):
        sim = self._sim
        if self.full():
            if not block:
                raise _rq.Full
            if timeout is not None and timeout < 0:
                raise ValueError("'timeout' must be a non-negative number")
            end = None if timeout is None else sim.now + timeout
            while self.full():
                left = None if end is None else end - sim.now
                if left is not None and left <= 0:
                    raise _rq.Full
                sim._block(self._not_full, None, "queue.put", deadline=end)
        self.queue.append(item)
        self.unfinished_tasks += 1

    def get(self, block=True, timeout=None):
        sim = self._sim
        if not self.queue:
            if not block:
                raise _rq.Empty
            if timeout is not None and timeout < 0:
                raise ValueError("'timeout' must be a non-negative number")
            end = None if timeout is None else sim.now + timeout
            while not self.queue:
                left = None if end is None else end - sim.now
                if left is not None and left <= 0:
                    raise _rq.Empty
                sim._block(self._not_empty, None, "queue.get", deadline=end)
        return self.queue.popleft()

    def put_nowait(self, item):
        return self.put(item, block=False)

    def get_nowait(self):
        return self.get(block=False)

    def task_done(self):
        if self.unfinished_tasks <= 0:
            raise ValueError("task_done() called too many times")
        self.unfinished_tasks -= 1

    def join(self):
        if self.unfinished_tasks:
            self._sim._block(lambda: self.unfinished_tasks == 0, None,
                             "queue.join")


class _HeapList(list):
    """list with deque's popleft/append, kept as a heap: the smallest item leaves first (queue.PriorityQueue)"""
    def append(self, item):
        import heapq
        heapq.heappush(self, item)

    def popleft(self):
        import heapq
        return heapq.heappop(self)


class _StackList(list):
    def popleft(self):
        return self.pop()


class VPriorityQueue(VQueue):
    def __init__(self, maxsize=0):
        VQueue.__init__(self, maxsize)
        self.queue = _HeapList()


class VLifoQueue(VQueue):
    def __init__(self, maxsize=0):
        VQueue.__init__(self, maxsize)
        self.queue = _StackList()


# ================================================================== build
_SOCKET_CONSTANTS = {name: getattr(_rs, name) for name in dir(_rs)
                     if name.isupper() and isinstance(getattr(_rs, name), int)}


def _bind(base, sim, name=None, **extra):
    ns = {"_sim": sim, "__module__": base.__module__}
    if "__slots__" in base.__dict__:
        ns["__slots__"] = ()
    ns.update(extra)
    return type(name or base.__name__.lstrip("V"), (base,), ns)


def build(sim):
    """Create the seven virtual modules bound to `sim`."""
    # ------------------------------------------------------------ threading
    th = _VModule("threading")
    Thread = type("Thread", (VThreadBase,), {"_sim": sim})
    Event = _bind(VEvent, sim, "Event")
    Lock = _bind(VLock, sim, "Lock")
    RLock = _bind(VRLock, sim, "RLock")
    Semaphore = _bind(VSemaphore, sim, "Semaphore")
    BoundedSemaphore = _bind(VBoundedSemaphore, sim, "BoundedSemaphore")
    Condition = _bind(VCondition, sim, "Condition", _lock_cls=RLock)

    def current_thread():
        vt = sim._cur()
        return vt.thread if vt is not None else _rt.current_thread()

    def get_ident():
        vt = sim._cur()
        return vt.index + 1 if vt is not None else _rt.get_ident()

    def enumerate_():
        return [vt.thread for vt in sim._live]

    def active_count():
        return len(sim._live) + 1

    th.Thread = Thread
    th.Event = Event
    th.Lock = Lock
    th.RLock = RLock
    th.Semaphore = Semaphore
    th.BoundedSemaphore = BoundedSemaphore
    th.Condition = Condition
    th.current_thread = current_thread
    th.currentThread = current_thread
    th.main_thread = _rt.main_thread
    th.get_ident = get_ident
    th.get_native_id = get_ident
    th.enumerate = enumerate_
    th.active_count = active_count
    th.local = _rt.local
    th.TIMEOUT_MAX = _rt.TIMEOUT_MAX
    th.ThreadError = _rt.ThreadError
    th.excepthook = _rt.excepthook
    th.ExceptHookArgs = _rt.ExceptHookArgs
    th.settrace = lambda f: None
    th.setprofile = lambda f: None

    # ---------------------------------------------------------------- queue
    q = _VModule("queue")
    q.Queue = _bind(VQueue, sim, "Queue")
    q.PriorityQueue = _bind(VPriorityQueue, sim, "PriorityQueue")
    q.LifoQueue = _bind(VLifoQueue, sim, "LifoQueue")
    q.SimpleQueue = _bind(VQueue, sim, "SimpleQueue")
    q.Empty = _rq.Empty
    q.Full = _rq.Full

    # ----------------------------------------------------------------- time
    tm = _VModule("time", _rtime)

    def time_():
        return sim.now

    def sleep(dt):
        if dt < 0:
            raise ValueError("sleep length must be non-negative")
        if dt == 0:
            if sim._cur() is None:
                raise HarnessError("time.sleep() called from the driver")
            sim._yield_now("sleep(0)")
            return
        end = sim.now + dt
        while sim.now < end:
            sim._block(lambda: sim.now >= end, None, "sleep", deadline=end)

    def mono_():
        # like a real monotonic clock: seconds since an arbitrary start (the "boot"), NOT comparable with time.time()
        return sim.now - sim.t0 + 4321.0

    tm.time = time_
    tm.monotonic = mono_
    tm.perf_counter = mono_
    tm.time_ns = lambda: int(sim.now * 1_000_000_000)
    tm.monotonic_ns = lambda: int(mono_() * 1_000_000_000)
    tm.perf_counter_ns = tm.monotonic_ns
    tm.sleep = sleep
    tm.gmtime = lambda s=None: _rtime.gmtime(sim.now if s is None else s)
    tm.localtime = lambda s=None: _rtime.localtime(sim.now if s is None else s)
    tm.ctime = lambda s=None: _rtime.ctime(sim.now if s is None else s)

    # --------------------------------------------------------------- socket
    so = _VModule("socket")
    so.__dict__.update(_SOCKET_CONSTANTS)
    so.error = OSError
    so.timeout = _rs.timeout
    so.herror = _rs.herror
    so.gaierror = _rs.gaierror
    so.inet_pton = _rs.inet_pton
    so.inet_ntop = _rs.inet_ntop
    so.inet_aton = _rs.inet_aton
    so.inet_ntoa = _rs.inet_ntoa
    so.htons = _rs.htons
    so.ntohs = _rs.ntohs
    so.htonl = _rs.htonl
    so.ntohl = _rs.ntohl
    so.has_ipv6 = _rs.has_ipv6
    so.gethostname = lambda: "vsim.local"

    class socket(net.VSocket):
        def __init__(self, family=_rs.AF_INET, type=_rs.SOCK_STREAM, proto=0,
                     fileno=None):
            net.VSocket.__init__(self, sim, family, type, proto, fileno)

    so.socket = socket
    so.SocketType = net.VSocket

    # --------------------------------------------------------------- select
    se = _VModule("select")
    se.select = net.make_select(sim)
    se.error = OSError

    # --------------------------------------------------------------- random
    rn = _VModule("random")

    def _scripted(lo, hi):
        v = sim._random_script.pop(0)
        return max(lo, min(hi, int(v)))

    def randint(a, b):
        if sim._random_script:
            v = _scripted(a, b)
        else:
            v = sim._rng.randint(a, b)
        sim._note("randint", a, b, v)
        return v

    def getrandbits(k):
        if sim._random_script:
            v = _scripted(0, (1 << k) - 1)
        else:
            v = sim._rng.getrandbits(k)
        sim._note("getrandbits", k, v)
        return v

    rn.randint = randint
    rn.getrandbits = getrandbits
    rn.randrange = lambda *a: sim._rng.randrange(*a)
    rn.random = lambda: sim._rng.random()
    rn.choice = lambda seq: sim._rng.choice(seq)
    rn.shuffle = lambda x: sim._rng.shuffle(x)
    rn.uniform = lambda a, b: sim._rng.uniform(a, b)
    rn.sample = lambda *a, **k: sim._rng.sample(*a, **k)
    rn.seed = lambda *a, **k: None
    rn.Random = _rrandom.Random

    # ------------------------------------------------------------------- os
    om = _VModule("os", _ros)

    def urandom(n):
        if sim._urandom_script:
            v = bytes(sim._urandom_script.pop(0))
            v = (v + bytes(n))[:n]
        else:
            v = sim._urng.getrandbits(8 * n).to_bytes(n, "big") if n else b""
        sim._note("urandom", n, v.hex())
        return v

    def pipe():
        p = net.VPipe(sim)
        sim.pipes[p.rfd] = p
        sim.pipes[p.wfd] = p
        sim._note("pipe", p.rfd, p.wfd)
        return p.rfd, p.wfd

    def read(fd, n):
        p = sim.pipes.get(fd)
        if p is None:
            return _ros.read(fd, n)
        if fd != p.rfd or p.r_closed:
            raise OSError(errno.EBADF, _ros.strerror(errno.EBADF))
        if not p.buf:
            if p.w_closed:
                return b""
            sim._block(lambda: bool(p.buf) or p.w_closed, None, "pipe.read")
        data = bytes(p.buf[:n])
        del p.buf[:n]
        return data

    def write(fd, data):
        p = sim.pipes.get(fd)
        if p is None:
            return _ros.write(fd, data)
        if fd != p.wfd or p.w_closed:
            raise OSError(errno.EBADF, _ros.strerror(errno.EBADF))
        if p.r_closed:
            raise OSError(errno.EPIPE, _ros.strerror(errno.EPIPE))
        p.buf += data
        p.written += len(data)
        return len(data)

    def close(fd):
        p = sim.pipes.get(fd)
        if p is None:
            return _ros.close(fd)
        if fd == p.rfd:
            p.r_closed = True
        else:
            p.w_closed = True
        del sim.pipes[fd]
        sim._free_fd(fd)

    om.urandom = urandom
    om.pipe = pipe
    om.read = read
    om.write = write
    om.close = close

    return {"threading": th, "queue": q, "time": tm, "socket": so,
            "select": se, "random": rn, "os": om}
