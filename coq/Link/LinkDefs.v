(* Table obligation for C03/C08: every class the library defines is well-formed
   (exhaustive over Gen/GenDefs.v and Gen/GenDict.v), up to the recorded known finding. *)
From DV Require Import Prelude.Base Model.Wire Model.Types Model.Defs Gen.GenDict Gen.GenDefs.
From Coq Require Import String.

(* known finding C03-gx-grouped-without-container (open): the definition denotes a Grouped
   dictionary AVP but has no container class *)
Definition known_bad : list (string * string) :=
  [("CreditControlRequest", "access_network_charging_identifier_gx")]%string.
Definition is_known (cls : string) (d : defrow) : bool :=
  List.existsb (fun k => String.eqb (fst k) cls && String.eqb (snd k) (f_attr d)) known_bad.

Definition class_ok_modulo (c : clsdef) : bool :=
  List.forallb (fun d => def_ok dict_rows def_classes d || is_known (d_name c) d) (d_defs c)
  && str_nodup (List.map f_attr (d_defs c))
  && key_nodup (List.map (fun d => (f_code d, f_vendor d)) (d_defs c))
  && List.forallb init_ok (d_init c).

Lemma defs_tables_wf_partial : List.forallb class_ok_modulo def_classes = true.
Proof. vm_compute. reflexivity. Qed.
(* the full statement is false of the current tables exactly because of the known finding *)
Lemma defs_tables_wf_refuted : List.forallb (class_ok dict_rows def_classes) def_classes = false.
Proof. vm_compute. reflexivity. Qed.
Lemma defs_known_bad_is_bad :
  List.forallb (fun k => match cdef_lookup def_classes (fst k) with
                         | Some c => List.existsb (fun d => String.eqb (f_attr d) (snd k) && negb (def_ok dict_rows def_classes d)) (d_defs c)
                         | None => false end) known_bad = true.
Proof. vm_compute. reflexivity. Qed.
Lemma defs_class_names_unique : str_nodup (List.map d_name def_classes) = true.
Proof. vm_compute. reflexivity. Qed.
