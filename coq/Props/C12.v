(* C12 — disconnect-peer handling and reconnect policy
   Statements copied from the proof files; each is closed by `exact`. *)
From DV Require Prelude.Base Model.Ids Proofs.IdsP Model.Node Proofs.NodeA Proofs.NodeC Proofs.NodeD Proofs.NodeF.
From Coq Require String List Lia Bool Arith ZArith.

Module FromNodeC.
Import DV.Prelude.Base DV.Model.Ids DV.Proofs.IdsP DV.Model.Node DV.Proofs.NodeC.
Local Open Scope Z_scope.

(* C12: a DPR is answered with success on the same connection, the connection leaves the ready
   states (so route_request no longer offers it), and its peer is marked as disconnected by DPR *)
Theorem C12_dpr n cid m c n' outs :
  get_conn n cid = Some c -> recv_dpr n cid m = (n', outs) ->
  outs = [OQueue cid (answer_of m (Some 2001) [])] /\
  (exists c', get_conn n' cid = Some c' /\ c_state c' = SDisconnecting /\ is_ready_state (c_state c') = false /\
              c_host c' = c_host c /\ c_node_name c' = c_node_name c) /\
  (forall p, find_conn_peer n c = Some p ->
             exists p', get_peer n' (p_name p) = Some p' /\ p_reason p' = Some R_DPR /\ p_conn p' = p_conn p) /\
  (find_conn_peer n c = None -> n_peers n' = n_peers n).
Proof. exact (@NodeC.C12_dpr n cid m c n' outs). Qed.

(* C12 (corollary): after a DPR the connection is not offered to any application request *)
Theorem C12_dpr_not_routed n cid m c n' outs i realm l p :
  get_conn n cid = Some c -> recv_dpr n cid m = (n', outs) ->
  route_request n' i realm = Some l -> List.In p l -> p_conn p <> Some cid.
Proof. exact (@NodeC.C12_dpr_not_routed n cid m c n' outs i realm l p). Qed.

(* wants_reconnect: exactly the documented reconnect condition *)
Theorem wants_reconnect_spec n p :
  wants_reconnect n p = true <->
  n_stopping n = false /\ p_persistent p = true /\ p_conn p = None /\
  (exists t, p_lastdisc p = Some t /\ p_rwait p <= n_now n - t) /\
  ~ (p_reason p = Some R_DPR /\ p_always p = false).
Proof. exact (@NodeC.wants_reconnect_spec n p). Qed.

(* C12: at a wake-up exactly the peers that want a reconnect (in the node as it is when the
   pass starts) and have an address are dialled *)
Theorem C12_reconnect_iff n names ds n' outs ds' :
  cid_fresh n -> List.NoDup names -> reconnect_all n names ds = (n', outs, ds') ->
  forall nm, List.In (ODial nm) outs <->
             List.In nm names /\
             exists p, get_peer n nm = Some p /\ wants_reconnect n p = true /\ p_has_addr p = true.
Proof. exact (@NodeC.C12_reconnect_iff n names ds n' outs ds'). Qed.

(* C12: only persistent peers are ever dialled, whatever the event *)
Theorem C12_never_nonpersistent n ds e n' outs nm :
  step n ds e = (n', outs) -> List.In (ODial nm) outs ->
  exists p, get_peer n nm = Some p /\ p_persistent p = true.
Proof. exact (@NodeC.C12_never_nonpersistent n ds e n' outs nm). Qed.

(* C12: dialling a peer that already has a connection, or has no address, does nothing *)
Theorem C12_dial_needs_no_connection n nm h r p :
  get_peer n nm = Some p -> (p_conn p <> None \/ p_has_addr p = false) ->
  connect_to_peer n nm h r = (n, []).
Proof. exact (@NodeC.C12_dial_needs_no_connection n nm h r p). Qed.

(* C12: the names and the persistence flags of the configured peers never change *)
Theorem persistent_stable n ds e n' outs :
  step n ds e = (n', outs) ->
  List.map (fun p => (p_name p, p_persistent p)) (n_peers n') = List.map (fun p => (p_name p, p_persistent p)) (n_peers n) /\
  forall nm p, get_peer n nm = Some p ->
               exists p', get_peer n' nm = Some p' /\ p_persistent p' = p_persistent p.
Proof. exact (@NodeC.persistent_stable n ds e n' outs). Qed.
End FromNodeC.

Module FromNodeA.
Import DV.Prelude.Base DV.Model.Node DV.Proofs.NodeA.
Import Coq.Strings.String.
Open Scope string_scope.
Open Scope list_scope.
Open Scope Z_scope.

(* C06: nothing revives a connection: one that is CONNECTING, DISCONNECTING, CLOSING or CLOSED is not ready
   after the step, whatever the event is and whatever is received (neither a CEA nor a CER) *)
Theorem C06_cea_never_revives n ds e cid c c' :
  (cid < n_next_cid n)%nat ->
  get_conn n cid = Some c ->
  (c_state c = SConnecting \/ c_state c = SDisconnecting \/ c_state c = SClosing \/ c_state c = SClosed) ->
  get_conn (fst (step n ds e)) cid = Some c' ->
  is_ready_state (c_state c') = false.
Proof. exact (@NodeA.C06_cea_never_revives n ds e cid c c'). Qed.
End FromNodeA.

Module FromNodeD.
Import DV.Prelude.Base DV.Model.Node DV.Proofs.NodeD.
Import Coq.Strings.String.
Import Coq.Lists.List Coq.micromega.Lia Coq.Bool.Bool Coq.Arith.Arith.
Import ListNotations.
Open Scope nat_scope.

(* ---- invariant 4 (unconditional since receive_cer acts only on a connection that awaits the CER:
   the node name of an outbound connection is never rewritten) ---- *)
Theorem C12_outbound_owned : forall n0 n, reach n0 n ->
  forall c, List.In c (n_conns n) -> c_recv c = false ->
  exists p, List.In p (n_peers n) /\ p_name p = c_node_name c /\ p_conn p = Some (c_id c).
Proof. exact NodeD.C12_outbound_owned. Qed.

Theorem C12_single_outbound : forall n0 n, reach n0 n ->
  forall c1 c2, List.In c1 (n_conns n) -> List.In c2 (n_conns n) ->
  c_recv c1 = false -> c_recv c2 = false -> c_node_name c1 = c_node_name c2 -> c1 = c2.
Proof. exact NodeD.C12_single_outbound. Qed.
End FromNodeD.

Module FromNodeF.
Import DV.Prelude.Base DV.Model.Node DV.Proofs.NodeC DV.Proofs.NodeF.
Import Coq.micromega.Lia.
Local Open Scope Z_scope.

(* C12 (history): once a plain DPR has been read from connection cid while it was ready, then at every later event of the history connection cid -- as long as it exists; its number stays below the connection counter, so it is never given to another connection -- is DISCONNECTING, CLOSING or CLOSED (not ready) when the event starts, and a send_request hands nothing to connection cid: neither the application's request nor anything the I/O thread sends while it settles *)
Theorem C12_history_no_routing_after_dpr n0 evs1 ds cid dpr evs2 c :
  NodeD.wf_init n0 ->
  get_conn (fst (run n0 evs1)) cid = Some c -> is_ready_state (c_state c) = true -> plain_dpr dpr ->
  forall k nk e outs,
    List.nth_error (strace n0 (evs1 ++ (ds, ERecv cid [dpr]) :: evs2)%list) k = Some (nk, (e, outs)) ->
    (List.length evs1 < k)%nat ->
    (cid < n_next_cid nk)%nat /\
    (forall ck, get_conn nk cid = Some ck ->
       is_ready_state (c_state ck) = false /\
       (c_state ck = SDisconnecting \/ c_state ck = SClosing \/ c_state ck = SClosed)) /\
    (forall i a realm pick tmo m', e = EAppRequest i a realm pick tmo -> ~ List.In (OQueue cid m') outs).
Proof. exact (@NodeF.C12_history_no_routing_after_dpr n0 evs1 ds cid dpr evs2 c). Qed.
End FromNodeF.

Print Assumptions FromNodeC.C12_dpr.
Print Assumptions FromNodeC.C12_dpr_not_routed.
Print Assumptions FromNodeC.wants_reconnect_spec.
Print Assumptions FromNodeC.C12_reconnect_iff.
Print Assumptions FromNodeC.C12_never_nonpersistent.
Print Assumptions FromNodeC.C12_dial_needs_no_connection.
Print Assumptions FromNodeC.persistent_stable.
Print Assumptions FromNodeA.C06_cea_never_revives.
Print Assumptions FromNodeD.C12_outbound_owned.
Print Assumptions FromNodeD.C12_single_outbound.
Print Assumptions FromNodeF.C12_history_no_routing_after_dpr.
