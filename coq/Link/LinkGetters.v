(* Tie 1 for C04: the exception-handler table regenerated from every typed value getter in
   message/avp/avp.py lets no primitive exception escape (each is re-raised as AvpDecodeError). *)
From DV Require Import Prelude.Base Model.Wire Model.Exn Gen.GenGetters.

Lemma getters_are_closed : getters_closed getter_rows = true.
Proof. vm_compute. reflexivity. Qed.

(* every type that has to decode something is present in the table *)
Lemma getters_cover_all_types :
  List.forallb (fun t => List.existsb (fun r => let '(t', _, _) := r in ty_eqb t t') getter_rows)
    [TAddress; TFloat32; TFloat64; TGrouped; TInt32; TInt64; TUns32; TUns64; TUtf8; TTime] = true.
Proof. vm_compute. reflexivity. Qed.

(* Avp.__str__ reads the value under `except AvpDecodeError` *)
Lemma str_catches_decode_error :
  List.existsb (fun r => match r with (_, PValueGetter, c) => List.existsb (exn_eqb EAvpDecodeError) c | _ => false end)
    getter_rows = true.
Proof. vm_compute. reflexivity. Qed.
