"""Canonical observations of the implementation and rendering of values as Coq
terms.  Nothing here uses `struct` or the library's own encoders to compute an
expected value: references are written from RFC 6733 with int.to_bytes."""
from __future__ import annotations

import calendar
import datetime
import ipaddress
import math

from diameter.message.avp import avp as A
from diameter.message.avp.errors import AvpDecodeError, AvpEncodeError
from diameter.message.packer import ConversionError

import tables

TYNAME = {A.Avp: "TUntyped", A.AvpOctetString: "TOctet", A.AvpUtf8String: "TUtf8",
          A.AvpInteger32: "TInt32", A.AvpInteger64: "TInt64", A.AvpUnsigned32: "TUns32",
          A.AvpUnsigned64: "TUns64", A.AvpFloat32: "TFloat32", A.AvpFloat64: "TFloat64",
          A.AvpTime: "TTime", A.AvpAddress: "TAddress", A.AvpGrouped: "TGrouped"}
CLS = {v: k for k, v in TYNAME.items()}


def tyname_of(obj_or_cls):
    cls = obj_or_cls if isinstance(obj_or_cls, type) else type(obj_or_cls)
    for k in cls.__mro__:
        if k in TYNAME:
            return TYNAME[k]
    return "TUntyped"


def err_kind(e: BaseException) -> str:
    import struct
    if isinstance(e, ConversionError):
        return "ConversionError"
    if isinstance(e, AvpDecodeError):
        return "AvpDecodeError"
    if isinstance(e, AvpEncodeError):
        return "AvpEncodeError"
    if isinstance(e, struct.error):
        return "StructError"
    if isinstance(e, UnicodeError):
        return "UnicodeError"
    if isinstance(e, OverflowError):
        return "OverflowError"
    if isinstance(e, ValueError):
        return "ValueError"
    if isinstance(e, TypeError):
        return "TypeError"
    if isinstance(e, AttributeError):
        return "AttributeError"
    return "Other:" + type(e).__name__


COQ_ERRS = {"ConversionError", "AvpDecodeError", "AvpEncodeError", "StructError", "UnicodeError",
            "OverflowError", "ValueError", "TypeError", "AttributeError", "NotRoutable"}


def coq_err(kind: str) -> str:
    return kind if kind in COQ_ERRS else "OutOfFuel"   # an error the model can never produce


# ---------------------------------------------------------------- Coq terms
def z(n: int) -> str:
    return f"({n})" if n < 0 else str(n)


def hx(b: bytes) -> str:
    ws = []
    for i in range(0, len(b), 7):
        ch = b[i:i + 7]
        ws.append(str(int.from_bytes(ch + b"\0" * (7 - len(ch)), "big")))
    return "(unp %d [%s]%%uint63)" % (len(b), "; ".join(ws))


def zl(xs) -> str:
    return "[" + "; ".join(z(x) for x in xs) + "]"


def coq_avp(code, flags, vendor, payload: bytes) -> str:
    return f"{{| a_code := {z(code)}; a_flags := {z(flags)}; a_vendor := {z(vendor)}; a_payload := {hx(payload)} |}}"


def coq_opt(x, f=lambda s: s):
    return "None" if x is None else f"(Some {f(x)})"


def coq_bool(b):
    return "true" if b else "false"


# ---------------------------------------------------------------- floats
def float_fields(x: float, double=True):
    """(sign, biased exponent, fraction) of x in binary64 via float.hex (no struct)."""
    if x != x:
        return None
    sign = 1 if math.copysign(1.0, x) < 0 else 0
    if math.isinf(x):
        return (sign, 2047, 0)
    if x == 0:
        return (sign, 0, 0)
    h = abs(x).hex()           # 0x1.8p+1 / 0x0.0000000000001p-1022
    mant, exp = h[2:].split("p")
    lead, _, frac = mant.partition(".")
    frac = (frac + "0" * 13)[:13]
    f = int(frac, 16)
    e = int(exp)
    if lead == "0":            # subnormal
        return (sign, 0, f)
    return (sign, e + 1023, f)


def bits64(x: float):
    ff = float_fields(x)
    if ff is None:
        return None
    s, e, f = ff
    return (s << 63) | (e << 52) | f


def float_of_bits32(b: int) -> float:
    """exact double value of a binary32 pattern (not NaN)."""
    s = -1.0 if (b >> 31) else 1.0
    e = (b >> 23) & 0xff
    f = b & 0x7fffff
    if e == 255:
        return s * math.inf if f == 0 else math.nan
    if e == 0:
        return s * math.ldexp(f, -149)
    return s * math.ldexp((1 << 23) | f, e - 150)


def bits32(x: float):
    """binary32 pattern of a double that is exactly representable in binary32."""
    ff = float_fields(x)
    if ff is None:
        return None
    s, e, f = ff
    if e == 2047:
        return (s << 31) | (255 << 23)
    if e == 0 and f == 0:
        return s << 31
    # value = (-1)^s * m * 2^q exactly
    if e == 0:
        m, q = f, -1074
    else:
        m, q = (1 << 52) | f, e - 1075
    while m % 2 == 0:
        m //= 2
        q += 1
    # binary32: normal: m' * 2^(E-150) with 2^23 <= m' < 2^24 ; subnormal: f32 * 2^-149
    nb = m.bit_length()
    E = q + nb - 1 + 127
    if E >= 1:
        shift = 24 - nb
        if shift < 0 or E > 254:
            return None
        return (s << 31) | (E << 23) | ((m << shift) & 0x7fffff)
    # subnormal
    sh = q + 149
    if sh < 0:
        return None
    v = m << sh
    if v >= (1 << 23):
        return None
    return (s << 31) | v


# ---------------------------------------------------------------- values
def unix_of(dt: datetime.datetime) -> int:
    return calendar.timegm(dt.timetuple())


def dt_of(unix: int) -> datetime.datetime:
    return datetime.datetime(1970, 1, 1) + datetime.timedelta(seconds=unix)


def addr_raw(fam: int, text: str) -> bytes:
    if fam == 1:
        return ipaddress.IPv4Address(text).packed
    if fam == 2:
        return ipaddress.IPv6Address(text).packed
    if fam == 8:
        return text.encode("utf-8")
    return bytes.fromhex(text)


def coq_value(ty: str, v) -> str:
    """Render a Python-side value of AVP type `ty` as a Coq `value` term.
    v conventions: bytes / str / int / ('bits', int) for floats / ('unix', int) / ('addr', fam, raw) /
    list of (code, flags, vendor, payload) for grouped."""
    if ty in ("TOctet", "TUntyped"):
        return f"(VBytes {hx(v)})"
    if ty == "TUtf8":
        return f"(VText {zl([ord(c) for c in v])})"
    if ty in ("TInt32", "TInt64", "TUns32", "TUns64"):
        return f"(VInt {z(v)})"
    if ty in ("TFloat32", "TFloat64"):
        return f"(VFloat {z(v[1])})"
    if ty == "TTime":
        return f"(VTime {z(v[1])})"
    if ty == "TAddress":
        return f"(VAddr {z(v[1])} {hx(v[2])})"
    if ty == "TGrouped":
        return "(VAvps [" + "; ".join(coq_avp(*a) for a in v) + "])"
    raise ValueError(ty)


def canon_value(avp_obj):
    """Canonical form of avp.value as observed on the implementation, in the
    same conventions as coq_value.  Raises whatever the getter raises."""
    ty = tyname_of(avp_obj)
    v = avp_obj.value
    if ty in ("TOctet", "TUntyped"):
        return ty, bytes(v)
    if ty == "TUtf8":
        return ty, v
    if ty in ("TInt32", "TInt64", "TUns32", "TUns64"):
        return ty, int(v)
    if ty == "TFloat64":
        b = bits64(v)
        if b is None:   # NaN: payload only recoverable from the wire
            b = int.from_bytes(avp_obj.payload, "big")
        return ty, ("bits", b)
    if ty == "TFloat32":
        b = bits32(v)
        if b is None:
            b = int.from_bytes(avp_obj.payload, "big")
        return ty, ("bits", b)
    if ty == "TTime":
        return ty, ("unix", unix_of(v))
    if ty == "TAddress":
        fam, text = v
        return ty, ("addr", fam, addr_raw(fam, text))
    if ty == "TGrouped":
        return ty, [(a.code, a.flags, a.vendor_id, bytes(a.payload)) for a in v]
    raise ValueError(ty)


# ---------------------------------------------------------------- RFC reference (oracle)
def ref_data(ty: str, v) -> bytes:
    """RFC 6733 4.2/4.3 data layout, written independently of the library."""
    if ty in ("TOctet", "TUntyped"):
        return bytes(v)
    if ty == "TUtf8":
        return v.encode("utf-8")
    if ty == "TInt32":
        return (v % (1 << 32)).to_bytes(4, "big")
    if ty == "TInt64":
        return (v % (1 << 64)).to_bytes(8, "big")
    if ty == "TUns32":
        return v.to_bytes(4, "big")
    if ty == "TUns64":
        return v.to_bytes(8, "big")
    if ty == "TFloat32":
        return v[1].to_bytes(4, "big")
    if ty == "TFloat64":
        return v[1].to_bytes(8, "big")
    if ty == "TTime":
        return ((v[1] + 2208988800) % (1 << 32)).to_bytes(4, "big")
    if ty == "TAddress":
        return v[1].to_bytes(2, "big") + v[2]
    if ty == "TGrouped":
        return b"".join(ref_avp(c, f, vd, p) for (c, f, vd, p) in v)
    raise ValueError(ty)


def ref_avp(code, flags, vendor, data: bytes) -> bytes:
    """RFC 6733 4.1 AVP layout; flags already include V iff vendor != 0."""
    hdr = 12 if vendor else 8
    out = code.to_bytes(4, "big") + bytes([flags]) + (hdr + len(data)).to_bytes(3, "big")
    if vendor:
        out += vendor.to_bytes(4, "big")
    out += data + b"\0" * (-len(data) % 4)
    return out


def dict_rows():
    return tables.dictionary_rows()


# ---------------------------------------------------------------- independent RFC parser (oracle side)
def ref_parse_avps(data: bytes):
    """Parse a concatenation of well-formed AVPs by the RFC layout; returns
    [(code, flags, vendor, payload)] or raises ValueError."""
    out = []
    i = 0
    n = len(data)
    while i < n:
        if n - i < 8:
            raise ValueError("truncated header")
        code = int.from_bytes(data[i:i + 4], "big")
        flags = data[i + 4]
        ln = int.from_bytes(data[i + 5:i + 8], "big")
        hdr = 8
        vendor = 0
        if flags & 0x80:
            if n - i < 12:
                raise ValueError("truncated vendor")
            vendor = int.from_bytes(data[i + 8:i + 12], "big")
            hdr = 12
        if ln < hdr:
            raise ValueError("length below header")
        end = i + ln
        pad = -ln % 4
        if end + pad > n:
            raise ValueError("truncated payload")
        out.append((code, flags, vendor, data[i + hdr:end]))
        i = end + pad
    return out


def dict_entry(code, vendor=0):
    """the dictionary row of (code, vendor) read from the tables themselves — the harness must not depend on the
    library's own lookup function behaving"""
    if not vendor:
        return A.AVP_DICTIONARY.get(code)
    return A.AVP_VENDOR_DICTIONARY.get(vendor, {}).get(code)


def is_grouped(code, vendor):
    e = dict_entry(code, vendor)
    return e is not None and issubclass(e["type"], A.AvpGrouped)


def ref_find(avps, path):
    """Declarative search: AVPs located at `path` (non-final elements must be grouped
    to be descended into; a non-grouped match on a non-final element is itself returned,
    as the library documents), in wire order."""
    if not path:
        return []
    (code, vendor), rest = path[0], path[1:]
    found = []
    for a in avps:
        if a[0] == code and a[2] == vendor:
            if not rest or not is_grouped(code, vendor):
                found.append(a)
            else:
                found += ref_find(ref_parse_avps(a[3]), rest)
    return found
