(* C08 — received messages reach exactly the application the routing table names, once
   Statements copied from the proof files; each is closed by `exact`. *)
From DV Require Prelude.Base Model.Ids Proofs.IdsP Model.Node Proofs.NodeB.
From Coq Require String List Lia Bool Arith ZArith.

Module FromNodeB.
Import DV.Prelude.Base DV.Model.Node DV.Proofs.NodeB.
Import Coq.Strings.String.

(* C08: an application request on an existing connection produces exactly what the routing
   function says: one delivery to the chosen application (followed by the 5012 answer when the
   application's handler raises), or one answer with the specified result code *)
Theorem C08_route_refines n cid c m k :
  get_conn n cid = Some c -> m_req m = true -> m_cmd m = App k ->
  snd (receive_message n cid m) = route_outputs cid m (spec_route n c m).
Proof. exact (@NodeB.C08_route_refines n cid c m k). Qed.

(* C08: when the routing function delivers to application i, the request is handed to i exactly once and
   to no other application; the node queues nothing, unless the application's handler raises: then
   exactly the 5012 answer to the request, on its connection, after the delivery; and i is an
   application with the request's application id, routed in the request's realm (through the sending peer
   if it is configured) *)
Theorem C08_exactly_once n cid c m k i :
  get_conn n cid = Some c -> m_req m = true -> m_cmd m = App k ->
  spec_route n c m = Deliver i ->
  snd (receive_message n cid m) = deliver_outputs cid m i
  /\ List.filter is_deliver (snd (receive_message n cid m)) = [ODeliver i m]
  /\ (forall j m', List.In (ODeliver j m') (snd (receive_message n cid m)) -> j = i /\ m' = m)
  /\ (forall cid' a, List.In (OQueue cid' a) (snd (receive_message n cid m)) ->
        handler_raises m = true /\ cid' = cid /\ a = answer_of m (Some 5012) [])
  /\ (handler_raises m = false -> snd (receive_message n cid m) = [ODeliver i m])
  /\ exists realm entries names a,
       m_drealm m = Present realm /\ List.In (realm, entries) (n_routes n) /\
       List.In (RApp i, names) entries /\ List.nth_error (n_apps n) i = Some a /\ a_id a = m_app m /\
       match find_conn_peer n c with Some p => List.In (p_name p) names | None => True end.
Proof. exact (@NodeB.C08_exactly_once n cid c m k i). Qed.

(* C08: when the routing function delivers to application i and the application's handler raises, the
   node hands the request to i and then answers it UNABLE_TO_COMPLY (5012) on its connection: exactly
   these two outputs, in this order *)
Theorem C08_handler_failure_answered n cid c m k i :
  get_conn n cid = Some c -> m_req m = true -> m_cmd m = App k ->
  spec_route n c m = Deliver i -> handler_raises m = true ->
  snd (receive_message n cid m) = [ODeliver i m; OQueue cid (answer_of m (Some RC_UNABLE) [])].
Proof. exact (@NodeB.C08_handler_failure_answered n cid c m k i). Qed.

(* C08: the same through the gate: on a ready connection, a request routed to application i whose
   handler raises makes dispatch output exactly the delivery followed by the 5012 answer *)
Theorem C08_handler_failure_answered_dispatch n cid c m k i :
  get_conn n cid = Some c -> is_ready_state (c_state c) = true ->
  m_req m = true -> m_cmd m = App k ->
  spec_route n c m = Deliver i -> handler_raises m = true ->
  snd (dispatch n cid m) = [ODeliver i m; OQueue cid (answer_of m (Some RC_UNABLE) [])].
Proof. exact (@NodeB.C08_handler_failure_answered_dispatch n cid c m k i). Qed.

(* C08: base protocol messages (capabilities exchange, watchdog, disconnect) never reach an application *)
Theorem C08_base_never_delivered n cid m :
  m_cmd m = CE \/ m_cmd m = DW \/ m_cmd m = DP ->
  forall i m', ~ List.In (ODeliver i m') (snd (dispatch n cid m)).
Proof. exact (@NodeB.C08_base_never_delivered n cid m). Qed.

(* C08: once the connection is ready the gate lets every message through to the node *)
Theorem C08_gate_then_route n cid c m :
  get_conn n cid = Some c -> is_ready_state (c_state c) = true ->
  dispatch n cid m = receive_message n cid m.
Proof. exact (@NodeB.C08_gate_then_route n cid c m). Qed.
End FromNodeB.

Print Assumptions FromNodeB.C08_route_refines.
Print Assumptions FromNodeB.C08_exactly_once.
Print Assumptions FromNodeB.C08_handler_failure_answered.
Print Assumptions FromNodeB.C08_handler_failure_answered_dispatch.
Print Assumptions FromNodeB.C08_base_never_delivered.
Print Assumptions FromNodeB.C08_gate_then_route.
