(* C10 -- "the blocked sender receives exactly the answer bearing its identifiers or times out, and an answer nobody
   waits for is passed to the unexpected-answer handler": the hand-over between Application.send_request (caller's
   thread) and Application.receive_answer (connection's reader thread), for EVERY schedule of their statements
   (Model/Handoff.v; programs tied to the source by Link/LinkHandoff.v).  Statements only; every proof is one `exact`. *)
From DV Require Import Prelude.Base Model.Handoff Proofs.HandoffP.

Definition from_source (l : list hact) : hst := hrun l (hinit sender_prog disp_prog).

(* no schedule raises (KeyError of the table, del of a missing key) *)
Theorem C10_handoff_never_raises : forall l, h_crashed (from_source l) = false.
Proof. exact all_no_crash. Qed.
Print Assumptions C10_handoff_never_raises.

(* handle_answer is called at most once, and only for an answer whose sender has already timed out *)
Theorem C10_handoff_handler_only_after_timeout : forall l,
  (h_unexpected (from_source l) <= 1)%nat /\
  (h_unexpected (from_source l) <> 0%nat -> h_result (from_source l) = Some RTimeout).
Proof. exact all_handler. Qed.
Print Assumptions C10_handoff_handler_only_after_timeout.

(* a sender that returns has the answer (never an empty slot), and that answer did not also go to the handler *)
Theorem C10_handoff_sender_gets_answer : forall l,
  h_result (from_source l) <> Some REmpty /\
  (h_result (from_source l) = Some RAnswer -> h_slot (from_source l) = true /\ h_unexpected (from_source l) = 0%nat).
Proof. exact all_result. Qed.
Print Assumptions C10_handoff_sender_gets_answer.

(* when both threads are through: answer or timeout, and the table entry is gone *)
Theorem C10_handoff_final : forall l, h_sp (from_source l) = [] -> h_dp (from_source l) = [] ->
  h_registered (from_source l) = false /\
  (h_result (from_source l) = Some RAnswer \/ h_result (from_source l) = Some RTimeout).
Proof. exact all_final. Qed.
Print Assumptions C10_handoff_final.

(* a sender still waiting when the dispatcher is through finds its event set: it is never left blocked *)
Theorem C10_handoff_sender_wakes : forall l p, h_sp (from_source l) = SWait :: p -> h_dp (from_source l) = [] ->
  h_event (from_source l) = true.
Proof. exact all_progress. Qed.
Print Assumptions C10_handoff_sender_wakes.

(* in a schedule without a timeout the sender ends with its answer and the handler stays silent *)
Theorem C10_handoff_no_timeout_answer : forall l, ~ In ATimeout l ->
  h_sp (from_source l) = [] -> h_dp (from_source l) = [] ->
  h_result (from_source l) = Some RAnswer /\ h_unexpected (from_source l) = 0%nat.
Proof. exact all_no_timeout_answer. Qed.
Print Assumptions C10_handoff_no_timeout_answer.

(* the orders the code must not have *)
Theorem C10_handoff_send_first_refuted :
  exists l, let s := hrun l (hinit sender_prog_send_first disp_prog) in
            h_unexpected s = 1%nat /\ h_result s = None /\ h_sp s = [SWait; SDel] /\ h_dp s = [] /\ h_event s = false.
Proof. exact send_first_refuted. Qed.
Print Assumptions C10_handoff_send_first_refuted.

Theorem C10_handoff_test_then_index_refuted :
  exists l, h_crashed (hrun l (hinit sender_prog disp_prog_test_then_index)) = true.
Proof. exact test_then_index_refuted. Qed.
Print Assumptions C10_handoff_test_then_index_refuted.

Theorem C10_handoff_set_first_refuted :
  exists l, h_result (hrun l (hinit sender_prog disp_prog_set_first)) = Some REmpty.
Proof. exact set_first_refuted. Qed.
Print Assumptions C10_handoff_set_first_refuted.
