(* Declarative account of "the AVPs located at a (code, vendor) path of the tree, in wire order"
   (C02) over the fully decoded forest, and the RFC data layout per type (C01). *)
From DV Require Import Prelude.Base Spec.Rfc6733 Model.Wire Model.Types.

Definition matches (a : avp) (c v : Z) : bool := (a_code a =? c) && (a_vendor a =? v).

(* AVPs at path p in forest ts, pre-order = wire order.  A non-final path element that
   hits a non-grouped AVP yields that AVP itself (documented behaviour of find_avps). *)
Fixpoint at_path (ts : list tree) (p : list (Z * Z)) : list avp :=
  match p with
  | [] => []
  | (c, v) :: rest =>
      flat_map (fun t =>
        match t with
        | Node a kids =>
            if matches a c v then
              match rest, kids with
              | [], _ => [a]
              | _, None => [a]
              | _, Some ks => at_path ks rest
              end
            else []
        end) ts
  end.

(* decode a whole list of AVPs into a forest *)
Fixpoint forest (d : dict) (fuel : nat) (l : list avp) : result (list tree) :=
  match l with
  | [] => Ok []
  | a :: r => let! t := to_tree d fuel a in let! ts := forest d fuel r in Ok (t :: ts)
  end.

(* re-encode a tree: grouped payload = concatenation of the children's encodings *)
Fixpoint tree_depth (t : tree) : nat :=
  match t with
  | Node _ None => O
  | Node _ (Some ks) => S (fold_right (fun k m => Nat.max (tree_depth k) m) O ks)
  end.

(* RFC 6733 4.2-4.4 data layout for a value of each type (Grouped: the children's AVP encodings) *)
Definition rfc_data (t : ty) (v : value) : option bytes :=
  match t, v with
  | TOctet, VBytes b | TUntyped, VBytes b => Some b
  | TUtf8, VText cps => utf8_enc cps
  | TInt32, VInt n => Some (rfc_int 4 n)
  | TInt64, VInt n => Some (rfc_int 8 n)
  | TUns32, VInt n => Some (be_enc 4 n)
  | TUns64, VInt n => Some (be_enc 8 n)
  | TFloat32, VFloat b => Some (be_enc 4 b)
  | TFloat64, VFloat b => Some (be_enc 8 b)
  | TTime, VTime s => Some (rfc_time_data s)
  | TAddress, VAddr f raw => Some (rfc_addr_data f raw)
  | TGrouped, VAvps l =>
      (fix go (l : list avp) : option bytes :=
         match l with
         | [] => Some []
         | a :: r => match go r with
                     | Some br => Some (rfc_avp (a_code a) (a_flags a) (a_vendor a) (a_payload a) ++ br)
                     | None => None
                     end
         end) l
  | _, _ => None
  end.
