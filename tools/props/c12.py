"""C12 — node-layer property; see tools/nodecheck.py and tools/nodeoracles.py."""
import nodecheck

PROFILE = dict(outbound=0.9)
W = nodecheck.weights(tick=10, dpr=4, close=3, conndone=8, cea=8, readerr=2)
N_QUICK, N_THOROUGH, LENGTH = 60, 1500, 22
THEMES = (("disconnect", None, 0, None, 0), ("disconnect_deep", 0, 0, 4000, 0), ("reconnect_after_dpr", 120, 0, None, 0), ("shutdown", 160, 0, None, 0), ("reused_e2e", None, 0, None, 0), ("handshake_out", 2, 30, 3, 300))
FILES = ["Props/C12.v"]


def write_error_redial(run):
    """A persistent peer whose connection is lost through a HARD WRITE error (a fault kind the node model has no event
    for) is treated like any other loss: the connection leaves the tables, the disconnect is recorded, and the peer is
    dialled again once reconnect_wait has elapsed.  Judged on the implementation."""
    import errno
    import nodesim as NS
    for err, rwait in ((errno.EPIPE, 3), (errno.ECONNRESET, 6)):
        cfg = NS.default_cfg()
        cfg["peers"] = [dict(name="a.example.net", realm="example.net", addr=True, persistent=True, always=False, cea=None, cer=None,
                             dwa=None, idle=None, rwait=rwait, apps=[0], default=False)]
        e2e0 = ((NS.T0 << 20) | cfg["e2e_rand"]) & 0xffffffff
        r = NS.Run(cfg, seed=5)
        try:
            r.apply(dict(ev="start", dials=[(500, "DialOk")]))
            r.apply(dict(ev="recv", cid=0, dials=[], frames=[NS.build_message(dict(kind="cea", host="a.example.net", result=2001, hbh=501, e2e=e2e0 + 1))]))
            r.remotes[0].script_send([("err", err)])
            r.apply(dict(ev="recv", cid=0, dials=[], frames=[NS.build_message(dict(kind="dwr", host="a.example.net", hbh=9, e2e=9))]))
            r.sim.advance(1)
            peer = r.node.peers["a.example.net"]
            gone = {"connections": len(r.node.connections), "peer_connection": peer.connection is not None,
                    "last_disconnect_set": bool(peer.last_disconnect), "socket_closed": r.remotes[0].closed_by_node}
            o = r.apply(dict(ev="tick", dt=rwait + 3, dials=[(600, "DialOk")] * (rwait + 5)))
            dialled = len(r.remotes) > 1 or bool(o.get("dials"))
            run.count(1, [("write-error-redial", err, rwait)])
            case = {"scenario": "persistent peer, hard write error %s, reconnect_wait %d" % (errno.errorcode[err], rwait)}
            if gone["connections"] or gone["peer_connection"] or not gone["last_disconnect_set"] or not gone["socket_closed"] or not dialled:
                run.violation("reconnect-iff", case, dict(gone, dialled_again=dialled),
                              "connection removed, disconnect recorded, peer dialled again after reconnect_wait",
                              what="a persistent peer lost through a hard write error is not cleaned up / never dialled again")
        finally:
            r.shutdown()


def two_lost_at_once(run):
    """Two persistent peers whose connections break in the same instant (each reader meets bytes that cannot be a frame
    and closes its connection): both are cleaned up and both are dialled again after reconnect_wait."""
    import nodesim as NS
    cfg = NS.default_cfg()
    cfg["peers"] = [dict(name=n_, realm="example.net", addr=True, persistent=True, always=False, cea=None, cer=None,
                         dwa=None, idle=None, rwait=2, apps=[0], default=False) for n_ in ("a.example.net", "b.example.net")]
    e2e0 = ((NS.T0 << 20) | cfg["e2e_rand"]) & 0xffffffff
    r = NS.Run(cfg, seed=6)
    try:
        r.apply(dict(ev="start", dials=[(500, "DialOk"), (600, "DialOk")]))
        for k, n_ in enumerate(("a.example.net", "b.example.net")):
            # the CER of connection k carries hop-by-hop 501 / 601 and the node's first / second end-to-end id
            r.apply(dict(ev="recv", cid=k, dials=[], frames=[NS.build_message(dict(kind="cea", host=n_, result=2001, hbh=501 + 100 * k, e2e=e2e0 + 1 + k))]))
        ready = [p.connection is not None and p.connection.state == r.sim.peer_mod.PEER_READY for p in r.node.peers.values()]
        for k in (0, 1):
            r.remotes[k].feed(bytes(40))
        r.sim.run()
        r.sim.advance(1)
        state = {n_: {"connection": p.connection is not None, "last_disconnect_set": bool(p.last_disconnect)} for n_, p in r.node.peers.items()}
        n_before = len(r.remotes)
        r.apply(dict(ev="tick", dt=5, dials=[(700, "DialOk"), (800, "DialOk")] * 4))
        redialled = len(r.remotes) - n_before
        run.count(1, [("two-lost-at-once",)])
        case = {"scenario": "two persistent peers lose their connections in the same instant, reconnect_wait 2"}
        if not all(ready):
            run.notes.append("two_lost_at_once: the handshakes did not complete (harness)")
        elif any(v["connection"] or not v["last_disconnect_set"] for v in state.values()) or redialled < 2 or len(r.node.connections) < 2:
            run.violation("reconnect-iff", case, {"after_the_loss": state, "dialled_again": redialled},
                          "both connections removed with their disconnect recorded, both peers dialled again",
                          what="of two persistent peers lost in the same instant one is not cleaned up / not dialled again")
    finally:
        r.shutdown()


def check(run):
    orig_obligations = run.obligations

    def obligations_then_more(files):
        out = orig_obligations(files)
        write_error_redial(run)
        two_lost_at_once(run)
        return out
    run.obligations = obligations_then_more
    return nodecheck.run(run, "C12", FILES, PROFILE, W, N_QUICK, N_THOROUGH, LENGTH, themes=THEMES)


replay = nodecheck.replay_generic
