(* Proofs about Model/Node.v: C06 (capabilities exchange gates all traffic), C11 (watchdog),
   C18 (shutdown).  Every theorem is closed under the global context (see the end). *)
From DV Require Import Prelude.Base Model.Node.
From Coq Require Import String.
From Hammer Require Import Tactics.
Open Scope string_scope.
Open Scope list_scope.
Open Scope Z_scope.

(* ================================================================================== *)
(* Part 1: setters and getters                                                        *)
(* ================================================================================== *)

Definition idp (f : conn -> conn) : Prop := forall c, c_id (f c) = c_id c.

Lemma find_upd (l : list conn) (i j : nat) (f : conn -> conn) :
  idp f ->
  List.find (fun c => Nat.eqb (c_id c) j) (upd_conn l i f) =
  if Nat.eqb j i then option_map f (List.find (fun c => Nat.eqb (c_id c) j) l)
  else List.find (fun c => Nat.eqb (c_id c) j) l.
Proof.
  intros Hf. induction l as [|c r IH]; cbn [upd_conn List.find].
  - destruct (Nat.eqb j i); reflexivity.
  - destruct (Nat.eqb (c_id c) i) eqn:Eci.
    + apply Nat.eqb_eq in Eci. cbn [List.find]. rewrite Hf.
      destruct (Nat.eqb j i) eqn:Eji.
      * apply Nat.eqb_eq in Eji. subst. rewrite Nat.eqb_refl. reflexivity.
      * destruct (Nat.eqb (c_id c) j) eqn:Ecj; [|reflexivity].
        apply Nat.eqb_eq in Ecj. apply Nat.eqb_neq in Eji. congruence.
    + cbn [List.find]. destruct (Nat.eqb (c_id c) j) eqn:Ecj.
      * apply Nat.eqb_eq in Ecj. subst j. rewrite Eci. reflexivity.
      * exact IH.
Qed.

Lemma get_conn_set_conns n l i :
  get_conn (set_conns n l) i = List.find (fun c => Nat.eqb (c_id c) i) l.
Proof. reflexivity. Qed.

Lemma get_conn_upd n i j f :
  idp f ->
  get_conn (set_conns n (upd_conn (n_conns n) i f)) j =
  if Nat.eqb j i then option_map f (get_conn n j) else get_conn n j.
Proof. intros Hf. unfold get_conn. cbn [n_conns set_conns]. apply find_upd, Hf. Qed.

Lemma get_conn_upd_same n i f c :
  idp f -> get_conn n i = Some c ->
  get_conn (set_conns n (upd_conn (n_conns n) i f)) i = Some (f c).
Proof. intros Hf Hc. rewrite get_conn_upd by exact Hf. rewrite Nat.eqb_refl, Hc. reflexivity. Qed.

Lemma get_conn_upd_other n i j f :
  idp f -> j <> i ->
  get_conn (set_conns n (upd_conn (n_conns n) i f)) j = get_conn n j.
Proof.
  intros Hf Hne. rewrite get_conn_upd by exact Hf.
  apply Nat.eqb_neq in Hne. rewrite Hne. reflexivity.
Qed.

Lemma upd_conn_none l i f :
  List.find (fun c => Nat.eqb (c_id c) i) l = None -> upd_conn l i f = l.
Proof.
  induction l as [|c r IH]; cbn [upd_conn List.find]; [reflexivity|].
  destruct (Nat.eqb (c_id c) i); [discriminate|]. intros H. rewrite IH by exact H. reflexivity.
Qed.

Lemma get_conn_id n i c : get_conn n i = Some c -> c_id c = i.
Proof.
  unfold get_conn. intros H. apply List.find_some in H. destruct H as [_ H].
  apply Nat.eqb_eq in H. exact H.
Qed.

Lemma get_conn_in n i c : get_conn n i = Some c -> List.In c (n_conns n).
Proof. unfold get_conn. intros H. apply List.find_some in H. tauto. Qed.

Lemma find_filter_ne (l : list conn) i j :
  List.find (fun c => Nat.eqb (c_id c) j) (List.filter (fun x => negb (Nat.eqb (c_id x) i)) l) =
  if Nat.eqb j i then None else List.find (fun c => Nat.eqb (c_id c) j) l.
Proof.
  induction l as [|c r IH]; cbn [List.filter List.find].
  - destruct (Nat.eqb j i); reflexivity.
  - destruct (Nat.eqb (c_id c) i) eqn:Eci; cbn [negb List.find].
    + rewrite IH. destruct (Nat.eqb j i) eqn:Eji; [reflexivity|].
      destruct (Nat.eqb (c_id c) j) eqn:Ecj; [|reflexivity].
      apply Nat.eqb_eq in Ecj, Eci. apply Nat.eqb_neq in Eji. congruence.
    + destruct (Nat.eqb (c_id c) j) eqn:Ecj.
      * apply Nat.eqb_eq in Ecj. subst j. rewrite Eci. reflexivity.
      * exact IH.
Qed.

Lemma find_app_conn (l : list conn) c j :
  List.find (fun c => Nat.eqb (c_id c) j) (l ++ [c]) =
  match List.find (fun c => Nat.eqb (c_id c) j) l with
  | Some x => Some x
  | None => if Nat.eqb (c_id c) j then Some c else None
  end.
Proof.
  induction l as [|a r IH]; cbn [List.app List.find]; [reflexivity|].
  destruct (Nat.eqb (c_id a) j); [reflexivity|exact IH].
Qed.

(* the setters on connections preserve the id *)
Lemma idp_cstate s : idp (fun c => set_cstate c s).  Proof. intro; reflexivity. Qed.
Lemma idp_cout f : idp (fun c => set_cout c (f c)).  Proof. intro; reflexivity. Qed.
Lemma idp_ctimes f g : idp (fun c => set_ctimes c (f c) (g c)).  Proof. intro; reflexivity. Qed.
Lemma idp_chbh f : idp (fun c => set_chbh c (f c)).  Proof. intro; reflexivity. Qed.
#[local] Hint Resolve idp_cstate idp_cout idp_ctimes idp_chbh : idp.

(* ---- send_message ------------------------------------------------------------------ *)
Definition qout (m : omsg) : conn -> conn := fun c => set_cout c (c_out c ++ [m]).
Lemma idp_qout m : idp (qout m).  Proof. intro; reflexivity. Qed.
#[local] Hint Resolve idp_qout : idp.

Lemma send_message_spec n cid m :
  n_conns (fst (send_message n cid m)) = upd_conn (n_conns n) cid (qout m) /\
  n_peers (fst (send_message n cid m)) = n_peers n /\
  n_next_cid (fst (send_message n cid m)) = n_next_cid n /\
  n_stopping (fst (send_message n cid m)) = n_stopping n /\
  n_now (fst (send_message n cid m)) = n_now n /\
  n_cfg (fst (send_message n cid m)) = n_cfg n /\
  n_apps (fst (send_message n cid m)) = n_apps n /\
  n_e2e (fst (send_message n cid m)) = n_e2e n /\
  snd (send_message n cid m) = [OQueue cid m].
Proof.
  unfold send_message, queue_out, record_answer, qout.
  destruct (o_req m); [cbn; repeat split|].
  destruct (get_conn n cid); cbn [fst snd];
    match goal with |- context [List.find ?f ?l] => destruct (List.find f l) as [[[? ?] ?]|] end;
    cbn; repeat split.
Qed.

Lemma send_message_out n cid m : snd (send_message n cid m) = [OQueue cid m].
Proof. apply send_message_spec. Qed.

Lemma send_message_get n cid m j :
  get_conn (fst (send_message n cid m)) j =
  if Nat.eqb j cid then option_map (qout m) (get_conn n j) else get_conn n j.
Proof.
  unfold get_conn at 1. destruct (send_message_spec n cid m) as [H _]. rewrite H.
  apply find_upd. auto with idp.
Qed.

Ltac solve_idp :=
  let x := fresh "x" in
  intros x; repeat match goal with |- context [if ?b then _ else _] => destruct b end; reflexivity.

Lemma get_conn_ext n n' j : n_conns n = n_conns n' -> get_conn n j = get_conn n' j.
Proof. unfold get_conn. intros ->. reflexivity. Qed.

Lemma assign_peer_conn_conns n cid : n_conns (assign_peer_conn n cid) = n_conns n.
Proof.
  unfold assign_peer_conn. destruct (get_conn n cid) as [c|]; [|reflexivity].
  destruct (String.eqb (c_host c) ""); [reflexivity|].
  destruct (get_peer n (c_host c)); [|reflexivity].
  destruct (mem_nat cid (n_half_ready n)); reflexivity.
Qed.

Lemma flag_ready_conns n cid :
  n_conns (flag_ready n cid) = upd_conn (n_conns n) cid (fun c => set_cstate c SReady).
Proof. reflexivity. Qed.

(* ================================================================================== *)
(* C06: capabilities exchange gates all traffic                                        *)
(* ================================================================================== *)

(* C06: a CONNECTED connection drops every message that is not the expected CER / CEA *)
Theorem C06_gate_connected n cid c m :
  get_conn n cid = Some c -> c_state c = SConnected ->
  (m_cmd m <> CE \/ (c_recv c = true /\ m_req m = false) \/ (c_recv c = false /\ m_req m = true)) ->
  dispatch n cid m = (n, []).
Proof.
  intros Hc Hs Hm. unfold dispatch. rewrite Hc. unfold gate_passes. rewrite Hs.
  destruct Hm as [Hm | [[Hr Hq] | [Hr Hq]]].
  - destruct (m_cmd m); try reflexivity. congruence.
  - rewrite Hr, Hq, Bool.andb_false_r. reflexivity.
  - rewrite Hr, Hq, Bool.andb_false_r. reflexivity.
Qed.

(* C06: a CLOSING or CLOSED connection drops every message *)
Theorem C06_gate_closing n cid c m :
  get_conn n cid = Some c -> (c_state c = SClosing \/ c_state c = SClosed) ->
  dispatch n cid m = (n, []).
Proof.
  intros Hc Hs. unfold dispatch. rewrite Hc. unfold gate_passes.
  destruct Hs as [-> | ->]; reflexivity.
Qed.

Lemma cer_accept_get n1 cid c1 h sa sc a :
  get_conn n1 cid = Some c1 ->
  let n2 := set_conns n1 (upd_conn (n_conns n1) cid (fun c => set_cident c (c_node_name c) h sa sc)) in
  exists c', get_conn (fst (send_message (flag_ready (assign_peer_conn n2 cid) cid) cid a)) cid = Some c'
             /\ c_state c' = SReady /\ c_host c' = h /\ c_recv c' = c_recv c1.
Proof.
  intros Hc n2. rewrite send_message_get, Nat.eqb_refl.
  unfold get_conn at 1. rewrite flag_ready_conns, assign_peer_conn_conns.
  rewrite find_upd by solve_idp. rewrite Nat.eqb_refl.
  fold (get_conn n2 cid). unfold n2. rewrite get_conn_upd by solve_idp.
  rewrite Nat.eqb_refl, Hc. cbn [option_map]. eexists. split; [reflexivity|].
  cbn. auto.
Qed.

(* C06: a CER of a configured peer sharing an application is answered 2001 and the connection becomes READY *)
Theorem C06_cer_known n cid c m h p :
  get_conn n cid = Some c -> m_origin m = Present h -> get_peer n h = Some p ->
  (inter_z (node_auth n) (m_auth m) <> [] \/ inter_z (node_acct n) (m_acct m) <> [] \/
   mem_z APP_RELAY (m_auth m) || mem_z APP_RELAY (m_acct m) = true) ->
  snd (recv_cer n cid m) = [OQueue cid (answer_of m (Some 2001) [])] /\
  exists c', get_conn (fst (recv_cer n cid m)) cid = Some c' /\ c_state c' = SReady /\ c_host c' = h.
Proof.
  intros Hc Ho Hp Hsh. unfold recv_cer. rewrite Ho. cbn [pres_get]. rewrite Hp.
  set (n1 := set_conns n _).
  assert (Hc1 : exists c1, get_conn n1 cid = Some c1).
  { unfold n1. rewrite get_conn_upd by solve_idp. rewrite Nat.eqb_refl, Hc. cbn. eauto. }
  destruct Hc1 as [c1 Hc1].
  change (node_auth n1) with (node_auth n). change (node_acct n1) with (node_acct n).
  unfold RC_SUCCESS.
  destruct (inter_z (node_auth n) (m_auth m)) as [|x xs] eqn:Ea;
  destruct (inter_z (node_acct n) (m_acct m)) as [|y ys] eqn:Eb;
  destruct (mem_z APP_RELAY (m_auth m) || mem_z APP_RELAY (m_acct m)) eqn:Er;
  try (exfalso; destruct Hsh as [H|[H|H]]; congruence);
  (split; [apply send_message_out|]);
  match goal with |- context [set_cident _ _ h ?sa ?sc] =>
    destruct (cer_accept_get n1 cid c1 h sa sc (answer_of m (Some 2001) []) Hc1) as [c' [H1 [H2 [H3 _]]]] end;
  exists c'; auto.
Qed.

(* C06: a CER of an unknown peer is answered 3010 and the connection is CLOSING *)
Theorem C06_cer_unknown n cid c m h :
  get_conn n cid = Some c -> m_origin m = Present h -> get_peer n h = None ->
  snd (recv_cer n cid m) = [OQueue cid (answer_of m (Some 3010) [])] /\
  exists c', get_conn (fst (recv_cer n cid m)) cid = Some c' /\ c_state c' = SClosing.
Proof.
  intros Hc Ho Hp. unfold recv_cer. rewrite Ho. cbn [pres_get]. rewrite Hp.
  split; [apply send_message_out|].
  rewrite send_message_get, Nat.eqb_refl, get_conn_upd by solve_idp.
  rewrite Nat.eqb_refl, Hc. cbn [option_map]. eexists. split; [reflexivity|reflexivity].
Qed.

(* C06: a CER of a configured peer with no common application is answered 5010; the state is unchanged *)
Theorem C06_cer_no_common n cid c m h p :
  get_conn n cid = Some c -> m_origin m = Present h -> get_peer n h = Some p ->
  inter_z (node_auth n) (m_auth m) = [] -> inter_z (node_acct n) (m_acct m) = [] ->
  mem_z APP_RELAY (m_auth m) || mem_z APP_RELAY (m_acct m) = false ->
  snd (recv_cer n cid m) = [OQueue cid (answer_of m (Some 5010) [])] /\
  exists c', get_conn (fst (recv_cer n cid m)) cid = Some c' /\ c_state c' = c_state c.
Proof.
  intros Hc Ho Hp Ha Hb Hr. unfold recv_cer. rewrite Ho. cbn [pres_get]. rewrite Hp.
  set (n1 := set_conns n _).
  change (node_auth n1) with (node_auth n). change (node_acct n1) with (node_acct n).
  rewrite Ha, Hb, Hr.
  split; [apply send_message_out|].
  rewrite send_message_get, Nat.eqb_refl. unfold n1. rewrite get_conn_upd by solve_idp.
  rewrite Nat.eqb_refl, Hc. cbn [option_map]. eexists. split; [reflexivity|].
  cbn. destruct (String.eqb (c_node_name c) ""); reflexivity.
Qed.

(* ---- remove_conn / close_conn ------------------------------------------------------------ *)
Lemma filter_ne_none (l : list conn) i :
  List.find (fun c => Nat.eqb (c_id c) i) l = None ->
  List.filter (fun x => negb (Nat.eqb (c_id x) i)) l = l.
Proof.
  induction l as [|c r IH]; cbn [List.find List.filter]; [reflexivity|].
  destruct (Nat.eqb (c_id c) i); [discriminate|]. cbn [negb]. intros H. rewrite IH by exact H. reflexivity.
Qed.

Lemma upd_peer_names l nm f :
  (forall p, p_name (f p) = p_name p) -> List.map p_name (upd_peer l nm f) = List.map p_name l.
Proof.
  intros Hf. induction l as [|p r IH]; cbn [upd_peer List.map]; [reflexivity|].
  destruct (String.eqb (p_name p) nm); cbn [List.map]; [rewrite Hf; reflexivity|rewrite IH; reflexivity].
Qed.

Definition pnames (n : node) : list string := List.map p_name (n_peers n).

Lemma remove_conn_spec n cid r :
  n_conns (remove_conn n cid r) = List.filter (fun x => negb (Nat.eqb (c_id x) cid)) (n_conns n) /\
  pnames (remove_conn n cid r) = pnames n /\
  n_next_cid (remove_conn n cid r) = n_next_cid n /\
  n_stopping (remove_conn n cid r) = n_stopping n /\
  n_now (remove_conn n cid r) = n_now n /\
  n_cfg (remove_conn n cid r) = n_cfg n.
Proof.
  unfold remove_conn, pnames. destruct (get_conn n cid) as [c|] eqn:Hc.
  - destruct (find_conn_peer n c) as [p|]; [destruct (p_conn p) as [k|]; [destruct (Nat.eqb k cid)|]|];
      cbn; repeat split; try reflexivity.
    apply upd_peer_names. reflexivity.
  - repeat split; try reflexivity. symmetry. apply filter_ne_none. exact Hc.
Qed.

Lemma remove_conn_get n cid r j :
  get_conn (remove_conn n cid r) j = if Nat.eqb j cid then None else get_conn n j.
Proof.
  unfold get_conn at 1. destruct (remove_conn_spec n cid r) as [H _]. rewrite H. apply find_filter_ne.
Qed.

Lemma close_conn_get n cid r j :
  get_conn (fst (close_conn n cid r)) j = if Nat.eqb j cid then None else get_conn n j.
Proof.
  unfold close_conn. destruct (get_conn n cid) eqn:Hc; cbn [fst].
  - apply remove_conn_get.
  - destruct (Nat.eqb j cid) eqn:E; [|reflexivity]. apply Nat.eqb_eq in E. subst. exact Hc.
Qed.

Lemma close_conn_some n cid r c :
  get_conn n cid = Some c -> close_conn n cid r = (remove_conn n cid r, [OClose cid r]).
Proof. intros H. unfold close_conn. rewrite H. reflexivity. Qed.

(* ---- flush ---------------------------------------------------------------------------------- *)
Definition flush_one (n : node) (cid : nat) : node * list output :=
  match get_conn n cid with
  | None => (n, [])
  | Some c =>
      if c_stalled c || negb (c_sock_open c) then (n, [])
      else
        let outs := List.map (OSend cid) (c_out c) in
        let n' := set_conns n (upd_conn (n_conns n) cid (fun c => set_cout c [])) in
        match c_out c with
        | [] => (n', [])
        | _ => if cstate_eqb (c_state c) SClosing
               then let '(n'', oc) := close_conn n' cid R_CLEAN in (n'', (outs ++ oc)%list)
               else (n', outs)
        end
  end.

Lemma flush_conns_cons n cid r :
  flush_conns n (cid :: r) =
  let '(n1, o1) := flush_one n cid in let '(n2, o2) := flush_conns n1 r in (n2, o1 ++ o2).
Proof. reflexivity. Qed.

Lemma flush_one_other n j i : i <> j -> get_conn (fst (flush_one n j)) i = get_conn n i.
Proof.
  intros Hne. unfold flush_one. destruct (get_conn n j) as [c|] eqn:Hc; [|reflexivity].
  destruct (c_stalled c || negb (c_sock_open c)); [reflexivity|].
  assert (Hu : get_conn (set_conns n (upd_conn (n_conns n) j (fun c => set_cout c []))) i = get_conn n i)
    by (apply get_conn_upd_other; [solve_idp|exact Hne]).
  destruct (c_out c); [exact Hu|].
  destruct (cstate_eqb (c_state c) SClosing); [|exact Hu].
  destruct (close_conn _ j R_CLEAN) as [n'' oc] eqn:Ecl. cbn [fst].
  change n'' with (fst (n'', oc)). rewrite <- Ecl, close_conn_get.
  apply Nat.eqb_neq in Hne. rewrite Hne. exact Hu.
Qed.

Lemma flush_one_none n j i : get_conn n i = None -> get_conn (fst (flush_one n j)) i = None.
Proof.
  intros Hn. destruct (Nat.eq_dec i j) as [->|Hne].
  - unfold flush_one. rewrite Hn. exact Hn.
  - rewrite flush_one_other by exact Hne. exact Hn.
Qed.

Lemma flush_conns_none l : forall n i, get_conn n i = None -> get_conn (fst (flush_conns n l)) i = None.
Proof.
  induction l as [|j r IH]; intros n i Hn; [exact Hn|].
  rewrite flush_conns_cons. destruct (flush_one n j) as [n1 o1] eqn:E1.
  destruct (flush_conns n1 r) as [n2 o2] eqn:E2. cbn [fst].
  change n2 with (fst (n2, o2)). rewrite <- E2. apply IH.
  change n1 with (fst (n1, o1)). rewrite <- E1. apply flush_one_none, Hn.
Qed.

Lemma flush_one_closing n cid c :
  get_conn n cid = Some c -> c_state c = SClosing -> c_stalled c = false -> c_sock_open c = true ->
  c_out c <> [] ->
  snd (flush_one n cid) = List.map (OSend cid) (c_out c) ++ [OClose cid R_CLEAN] /\
  get_conn (fst (flush_one n cid)) cid = None.
Proof.
  intros Hc Hs Hst Hso Hout. unfold flush_one. rewrite Hc, Hst, Hso, Hs. cbn [orb negb cstate_eqb].
  destruct (c_out c) as [|o os] eqn:Eo; [congruence|].
  erewrite close_conn_some by (apply get_conn_upd_same; [solve_idp|exact Hc]).
  cbn [fst snd]. split; [reflexivity|]. rewrite remove_conn_get, Nat.eqb_refl. reflexivity.
Qed.

Lemma flush_conns_closing cid c l : forall n,
  List.In cid l ->
  get_conn n cid = Some c -> c_state c = SClosing -> c_stalled c = false -> c_sock_open c = true ->
  c_out c <> [] ->
  (exists pre post, snd (flush_conns n l) = pre ++ List.map (OSend cid) (c_out c) ++ [OClose cid R_CLEAN] ++ post) /\
  get_conn (fst (flush_conns n l)) cid = None.
Proof.
  induction l as [|j r IH]; intros n Hin Hc Hs Hst Hso Hout; [destruct Hin|].
  rewrite flush_conns_cons. destruct (flush_one n j) as [n1 o1] eqn:E1.
  destruct (flush_conns n1 r) as [n2 o2] eqn:E2. cbn [fst snd].
  destruct (Nat.eq_dec j cid) as [->|Hne].
  - destruct (flush_one_closing n cid c Hc Hs Hst Hso Hout) as [Ho Hg]. rewrite E1 in Ho, Hg. cbn [fst snd] in Ho, Hg.
    split.
    + exists [], o2. rewrite Ho, <- List.app_assoc. reflexivity.
    + change n2 with (fst (n2, o2)). rewrite <- E2. apply flush_conns_none, Hg.
  - assert (Hin' : List.In cid r) by (destruct Hin; [congruence|assumption]).
    assert (Hc1 : get_conn n1 cid = Some c).
    { change n1 with (fst (n1, o1)). rewrite <- E1, flush_one_other by congruence. exact Hc. }
    destruct (IH n1 Hin' Hc1 Hs Hst Hso Hout) as [[pre [post Hp]] Hg]. rewrite E2 in Hp, Hg. cbn [fst snd] in Hp, Hg.
    split; [|exact Hg]. exists (o1 ++ pre), post. rewrite Hp, <- List.app_assoc. reflexivity.
Qed.

(* C06: the I/O thread writes the buffered answer of a CLOSING connection, then closes it (CLEAN) and removes it *)
Theorem C06_unknown_then_closed n cid c :
  get_conn n cid = Some c -> c_state c = SClosing -> c_stalled c = false -> c_sock_open c = true ->
  c_out c <> [] ->
  (exists pre post, snd (flush n) = pre ++ List.map (OSend cid) (c_out c) ++ [OClose cid R_CLEAN] ++ post) /\
  get_conn (fst (flush n)) cid = None.
Proof.
  intros Hc. unfold flush. apply flush_conns_closing; [|exact Hc].
  rewrite <- (get_conn_id n cid c Hc). apply List.in_map, (get_conn_in n cid), Hc.
Qed.

(* ---- frames: what an operation leaves alone ------------------------------------------------ *)
Definition frame (n n' : node) : Prop :=
  n_peers n' = n_peers n /\ n_next_cid n' = n_next_cid n /\ n_stopping n' = n_stopping n /\
  n_now n' = n_now n /\ n_cfg n' = n_cfg n.

Lemma frame_refl n : frame n n.
Proof. repeat split. Qed.
Lemma frame_trans a b c : frame a b -> frame b c -> frame a c.
Proof. unfold frame. intros [? [? [? [? ?]]]] [? [? [? [? ?]]]]. repeat split; congruence. Qed.

Lemma send_message_frame n cid m : frame n (fst (send_message n cid m)).
Proof. destruct (send_message_spec n cid m) as [_ [? [? [? [? [? _]]]]]]. repeat split; assumption. Qed.

(* the connection-wise effect of an operation: connection i is mapped by F, the others are kept *)
Definition cupd (n n' : node) (i : nat) (F : conn -> conn) : Prop :=
  forall j, get_conn n' j = if Nat.eqb j i then option_map F (get_conn n j) else get_conn n j.

Lemma cupd_trans a b c i F G : cupd a b i F -> cupd b c i G -> cupd a c i (fun x => G (F x)).
Proof.
  intros H1 H2 j. unfold cupd in H1, H2. rewrite H2, !H1. destruct (Nat.eqb j i); [|reflexivity].
  destruct (get_conn a j); reflexivity.
Qed.

Lemma cupd_upd n i F : idp F -> cupd n (set_conns n (upd_conn (n_conns n) i F)) i F.
Proof. intros HF j. apply get_conn_upd, HF. Qed.

Lemma cupd_ext n n' i F G c :
  get_conn n i = Some c -> F c = G c -> cupd n n' i F -> cupd n n' i G.
Proof.
  intros Hc HFG H j. rewrite H. destruct (Nat.eqb j i) eqn:E; [|reflexivity].
  apply Nat.eqb_eq in E. subst j. rewrite Hc. cbn. rewrite HFG. reflexivity.
Qed.

Lemma cupd_none n n' i F G : get_conn n i = None -> cupd n n' i F -> cupd n n' i G.
Proof.
  intros Hc H j. rewrite H. destruct (Nat.eqb j i) eqn:E; [|reflexivity].
  apply Nat.eqb_eq in E. subst j. rewrite Hc. reflexivity.
Qed.

Lemma cupd_id n i : cupd n n i (fun c => c).
Proof. intros j. destruct (Nat.eqb j i); [|reflexivity]. destruct (get_conn n j); reflexivity. Qed.

Lemma send_message_cupd n cid m : cupd n (fst (send_message n cid m)) cid (qout m).
Proof. intros j. apply send_message_get. Qed.

(* ---- node originated requests ------------------------------------------------------------------- *)
Definition bump (c : conn) : conn := set_chbh c (seq_next (c_hbh c)).

Lemma own_request_spec n cid k :
  cupd n (fst (own_request n cid k)) cid bump /\
  frame n (fst (own_request n cid k)) /\
  o_cmd (snd (own_request n cid k)) = k /\ o_req (snd (own_request n cid k)) = true.
Proof.
  unfold own_request. destruct (get_conn n cid) as [cn|] eqn:Hc; cbn [fst snd o_cmd o_req].
  - split; [|repeat split].
    apply (cupd_ext _ _ _ (fun c => set_chbh c (seq_next (c_hbh cn))) bump cn Hc); [reflexivity|].
    intros j. change (get_conn (set_misc ?a _ _ _) j) with (get_conn a j).
    apply get_conn_upd. solve_idp.
  - split; [|repeat split]. apply (cupd_none _ _ _ (fun c => c)); [exact Hc|apply cupd_id].
Qed.

Lemma send_cer_spec n cid :
  exists m, snd (send_cer n cid) = [OQueue cid m] /\ o_cmd m = CE /\ o_req m = true /\
            cupd n (fst (send_cer n cid)) cid (fun c => qout m (bump c)) /\
            frame n (fst (send_cer n cid)).
Proof.
  unfold send_cer. destruct (own_request_spec n cid CE) as [Hu [Hf [Hk Hr]]].
  destruct (own_request n cid CE) as [n1 m]. cbn [fst snd] in *.
  exists m. split; [apply send_message_out|]. split; [exact Hk|]. split; [exact Hr|]. split.
  - eapply cupd_trans; [exact Hu|apply send_message_cupd].
  - eapply frame_trans; [exact Hf|apply send_message_frame].
Qed.

Definition wdmark (now : Z) (c : conn) : conn :=
  set_ctimes (if is_ready_state (c_state c) then set_cstate c SReadyWaitDwa else c) (c_last_read c) now.

Lemma send_dwr_spec n cid :
  exists m, snd (send_dwr n cid) = [OQueue cid m] /\ o_cmd m = DW /\ o_req m = true /\
            cupd n (fst (send_dwr n cid)) cid (fun c => wdmark (n_now n) (qout m (bump c))) /\
            frame n (fst (send_dwr n cid)).
Proof.
  unfold send_dwr. destruct (own_request_spec n cid DW) as [Hu [Hf [Hk Hr]]].
  destruct (own_request n cid DW) as [n1 m]. cbn [fst snd] in *.
  pose proof (send_message_out n1 cid m) as Ho.
  pose proof (send_message_cupd n1 cid m) as Hu2.
  pose proof (send_message_frame n1 cid m) as Hf2.
  destruct (send_message n1 cid m) as [n2 o]. cbn [fst snd] in *.
  exists m. split; [exact Ho|]. split; [exact Hk|]. split; [exact Hr|].
  assert (Hnow : n_now n2 = n_now n).
  { destruct Hf as [_ [_ [_ [H1 _]]]], Hf2 as [_ [_ [_ [H2 _]]]]. congruence. }
  split.
  - rewrite <- Hnow.
    apply (cupd_trans n n2 _ cid (fun c => qout m (bump c)) (wdmark (n_now n2))).
    + eapply cupd_trans; [exact Hu|exact Hu2].
    + apply cupd_upd. unfold wdmark. solve_idp.
  - eapply frame_trans; [exact Hf|]. eapply frame_trans; [exact Hf2|]. repeat split.
Qed.

Lemma send_dpr_spec n cid :
  exists m, snd (send_dpr n cid) = [OQueue cid m] /\ o_cmd m = DP /\ o_req m = true /\
            cupd n (fst (send_dpr n cid)) cid (fun c => qout m (set_cstate (bump c) SDisconnecting)) /\
            frame n (fst (send_dpr n cid)).
Proof.
  unfold send_dpr. destruct (own_request_spec n cid DP) as [Hu [Hf [Hk Hr]]].
  destruct (own_request n cid DP) as [n1 m]. cbn [fst snd] in *.
  exists m. split; [apply send_message_out|]. split; [exact Hk|]. split; [exact Hr|]. split.
  - eapply (cupd_trans _ _ _ cid (fun c => set_cstate (bump c) SDisconnecting) (qout m)); [|apply send_message_cupd].
    eapply (cupd_trans _ _ _ cid bump (fun c => set_cstate c SDisconnecting)); [exact Hu|].
    apply cupd_upd. solve_idp.
  - eapply frame_trans; [exact Hf|]. eapply frame_trans; [|apply send_message_frame]. repeat split.
Qed.

(* C06: the first thing queued on an outbound connection is a CER; the connection is CONNECTED and outbound *)
Theorem C06_outbound_first_is_cer n name h0 p :
  get_peer n name = Some p -> p_conn p = None -> p_has_addr p = true ->
  get_conn n (n_next_cid n) = None ->
  exists cer c',
    snd (connect_to_peer n name h0 DialOk) = [ODial name; OQueue (n_next_cid n) cer] /\
    o_cmd cer = CE /\ o_req cer = true /\
    get_conn (fst (connect_to_peer n name h0 DialOk)) (n_next_cid n) = Some c' /\
    c_state c' = SConnected /\ c_recv c' = false.
Proof.
  intros Hp Hpc Ha Hfresh. unfold connect_to_peer. rewrite Hp, Hpc, Ha. cbn [negb].
  set (cid := n_next_cid n).
  set (c := new_conn cid false SConnecting name (n_now n) h0).
  match goal with |- context [send_cer ?x cid] => set (n4 := x) end.
  assert (H4 : get_conn n4 cid = Some (set_cstate c SConnected)).
  { unfold n4. apply (get_conn_upd_same _ cid (fun x => set_cstate x SConnected) c); [solve_idp|].
    unfold get_conn. cbn [n_conns set_peers set_tables set_misc set_conns].
    rewrite find_app_conn. unfold get_conn in Hfresh. fold cid in Hfresh. rewrite Hfresh. cbn [c_id c new_conn].
    rewrite Nat.eqb_refl. reflexivity. }
  destruct (send_cer_spec n4 cid) as [m [Ho [Hk [Hr [Hu _]]]]].
  destruct (send_cer n4 cid) as [n5 o]. cbn [fst snd] in *. subst o.
  exists m. eexists. split; [reflexivity|]. split; [exact Hk|]. split; [exact Hr|].
  split; [rewrite Hu, Nat.eqb_refl, H4; reflexivity|]. split; reflexivity.
Qed.

(* C06: a CEA whose Result-Code is not 2001 closes the connection (CER_REJECTED) *)
Theorem C06_cea_rejected n cid m :
  m_result m <> Present 2001 ->
  recv_cea n cid m = close_conn n cid R_CER_REJECTED /\
  (forall c, get_conn n cid = Some c -> snd (recv_cea n cid m) = [OClose cid R_CER_REJECTED]).
Proof.
  intros Hr.
  assert (H : recv_cea n cid m = close_conn n cid R_CER_REJECTED).
  { unfold recv_cea. destruct (m_result m) as [| |z]; try reflexivity.
    destruct z as [|q|q]; try reflexivity.
    do 11 (try (destruct q as [q|q|]; try reflexivity)). congruence. }
  split; [exact H|]. intros c Hc. rewrite H. unfold close_conn. rewrite Hc. reflexivity.
Qed.

(* ---- effective timers -------------------------------------------------------------------------- *)
Definition eff (n : node) (c : conn) (sel : peer -> option Z) (d : cfg -> Z) : Z :=
  match find_conn_peer n c with
  | Some p => opt_or (sel p) (d (n_cfg n))
  | None => d (n_cfg n)
  end.
Definition eff_idle n c := eff n c p_idle g_idle.
Definition eff_dwa n c := eff n c p_dwa g_dwa.
Definition eff_cea n c := eff n c p_cea g_cea.
Definition eff_cer n c := eff n c p_cer g_cer.

(* C11: the definitional case analysis of check_timers with the effective timer values named *)
Theorem check_timers_unfold n cid c :
  n_stopping n = false -> get_conn n cid = Some c ->
  check_timers n cid =
  match c_state c with
  | SConnected =>
      if (negb (c_recv c) && (eff_cea n c <? n_now n - c_last_read c))
         || (c_recv c && (eff_cer n c <? n_now n - c_last_read c))
      then close_conn n cid R_FAILED_CE else (n, [])
  | SReadyWaitDwa =>
      if eff_dwa n c <? n_now n - c_last_dwr c then close_conn n cid R_DWA_TIMEOUT else (n, [])
  | SReady => if eff_idle n c <? n_now n - c_last_read c then send_dwr n cid else (n, [])
  | _ => (n, [])
  end.
Proof.
  intros Hs Hc. unfold check_timers, eff_idle, eff_dwa, eff_cea, eff_cer, eff. rewrite Hs, Hc.
  destruct (find_conn_peer n c); reflexivity.
Qed.

(* C11: the peer's own timer values (when set and non-zero) override the node's *)
Theorem C11_peer_overrides n c :
  (forall p, find_conn_peer n c = Some p ->
     eff_idle n c = opt_or (p_idle p) (g_idle (n_cfg n)) /\
     eff_dwa n c = opt_or (p_dwa p) (g_dwa (n_cfg n)) /\
     eff_cea n c = opt_or (p_cea p) (g_cea (n_cfg n)) /\
     eff_cer n c = opt_or (p_cer p) (g_cer (n_cfg n))) /\
  (find_conn_peer n c = None ->
     eff_idle n c = g_idle (n_cfg n) /\ eff_dwa n c = g_dwa (n_cfg n) /\
     eff_cea n c = g_cea (n_cfg n) /\ eff_cer n c = g_cer (n_cfg n)).
Proof.
  unfold eff_idle, eff_dwa, eff_cea, eff_cer, eff. split.
  - intros p ->. repeat split.
  - intros ->. repeat split.
Qed.

Lemma check_timers_stopping n cid : n_stopping n = true -> check_timers n cid = (n, []).
Proof. intros H. unfold check_timers. rewrite H. reflexivity. Qed.

Lemma check_timers_none n cid : get_conn n cid = None -> check_timers n cid = (n, []).
Proof. intros H. unfold check_timers. rewrite H. destruct (n_stopping n); reflexivity. Qed.

(* C06: a CONNECTED connection whose CER / CEA does not arrive within the effective timeout is closed (FAILED_CE) *)
Theorem C06_timeout n cid c :
  n_stopping n = false -> get_conn n cid = Some c -> c_state c = SConnected ->
  let t := if c_recv c then eff_cer n c else eff_cea n c in
  (t < n_now n - c_last_read c -> check_timers n cid = close_conn n cid R_FAILED_CE) /\
  (n_now n - c_last_read c <= t -> check_timers n cid = (n, [])).
Proof.
  intros Hs Hc Hst t. rewrite (check_timers_unfold n cid c Hs Hc), Hst. subst t.
  destruct (c_recv c); cbn [negb andb orb]; split; intros H.
  - apply Z.ltb_lt in H. rewrite H. reflexivity.
  - apply Z.ltb_ge in H. rewrite H. reflexivity.
  - apply Z.ltb_lt in H. rewrite H. reflexivity.
  - apply Z.ltb_ge in H. rewrite H. reflexivity.
Qed.

(* ================================================================================== *)
(* C11: watchdog                                                                      *)
(* ================================================================================== *)

(* C11: an idle READY connection gets exactly one DWR and becomes READY_WAITING_DWA, last_dwr = now *)
Theorem C11_idle_sends_one n cid c :
  n_stopping n = false -> get_conn n cid = Some c -> c_state c = SReady ->
  eff_idle n c < n_now n - c_last_read c ->
  exists dwr c',
    snd (check_timers n cid) = [OQueue cid dwr] /\ o_cmd dwr = DW /\ o_req dwr = true /\
    get_conn (fst (check_timers n cid)) cid = Some c' /\
    c_state c' = SReadyWaitDwa /\ c_last_dwr c' = n_now n.
Proof.
  intros Hs Hc Hst Hidle. rewrite (check_timers_unfold n cid c Hs Hc), Hst.
  apply Z.ltb_lt in Hidle. rewrite Hidle.
  destruct (send_dwr_spec n cid) as [m [Ho [Hk [Hr [Hu _]]]]].
  exists m. eexists. split; [exact Ho|]. split; [exact Hk|]. split; [exact Hr|].
  split; [rewrite Hu, Nat.eqb_refl, Hc; reflexivity|].
  unfold wdmark. cbn. rewrite Hst. cbn. split; reflexivity.
Qed.

(* C11: while the DWA is awaited and its timeout has not expired nothing more is sent *)
Theorem C11_no_second_dwr n cid c :
  get_conn n cid = Some c -> c_state c = SReadyWaitDwa ->
  n_now n - c_last_dwr c <= eff_dwa n c ->
  check_timers n cid = (n, []).
Proof.
  intros Hc Hst Hd. destruct (n_stopping n) eqn:Hs; [apply check_timers_stopping, Hs|].
  rewrite (check_timers_unfold n cid c Hs Hc), Hst. apply Z.ltb_ge in Hd. rewrite Hd. reflexivity.
Qed.

(* C11: a DWA turns READY_WAITING_DWA back into READY and clears last_dwr; nothing is sent *)
Theorem C11_dwa_restores n cid c :
  get_conn n cid = Some c -> c_state c = SReadyWaitDwa ->
  snd (recv_dwa n cid) = [] /\
  exists c', get_conn (fst (recv_dwa n cid)) cid = Some c' /\ c_state c' = SReady /\ c_last_dwr c' = 0.
Proof.
  intros Hc Hst. split; [reflexivity|]. unfold recv_dwa. cbn [fst].
  rewrite get_conn_upd by solve_idp. rewrite Nat.eqb_refl, Hc. cbn [option_map].
  eexists. split; [reflexivity|]. rewrite Hst. cbn. split; reflexivity.
Qed.

(* C11: no DWA within the effective DWA timeout closes the connection (DWA_TIMEOUT) *)
Theorem C11_silence_closes n cid c :
  n_stopping n = false -> get_conn n cid = Some c -> c_state c = SReadyWaitDwa ->
  eff_dwa n c < n_now n - c_last_dwr c ->
  check_timers n cid = close_conn n cid R_DWA_TIMEOUT /\
  snd (check_timers n cid) = [OClose cid R_DWA_TIMEOUT].
Proof.
  intros Hs Hc Hst Hd. rewrite (check_timers_unfold n cid c Hs Hc), Hst.
  apply Z.ltb_lt in Hd. rewrite Hd. split; [reflexivity|].
  rewrite (close_conn_some n cid _ c Hc). reflexivity.
Qed.

(* C11: a READY connection that was read from recently gets no DWR *)
Theorem C11_no_dwr_while_busy n cid c :
  get_conn n cid = Some c -> c_state c = SReady ->
  n_now n - c_last_read c <= eff_idle n c ->
  check_timers n cid = (n, []).
Proof.
  intros Hc Hst Hd. destruct (n_stopping n) eqn:Hs; [apply check_timers_stopping, Hs|].
  rewrite (check_timers_unfold n cid c Hs Hc), Hst. apply Z.ltb_ge in Hd. rewrite Hd. reflexivity.
Qed.

(* C11: a DWR arriving on a ready connection is answered with exactly one DWA 2001 *)
Theorem C11_dwr_answered n cid c m :
  get_conn n cid = Some c -> (c_state c = SReady \/ c_state c = SReadyWaitDwa) ->
  m_cmd m = DW -> m_req m = true -> m_missing m = [] -> m_t m = false ->
  snd (dispatch n cid m) = [OQueue cid (answer_of m (Some 2001) [])].
Proof.
  intros Hc Hst Hk Hr Hmi Ht. unfold dispatch. rewrite Hc.
  assert (Hg : gate_passes c m = true) by (unfold gate_passes; destruct Hst as [-> | ->]; reflexivity).
  rewrite Hg. unfold receive_message. rewrite Hr, Hmi, Ht, Hk.
  match goal with |- context [if ?b then [] else []] => destruct b end;
  destruct (m_origin m); cbn [andb]; unfold recv_dwr, RC_SUCCESS; apply send_message_out.
Qed.

(* C11: a second timer check at the same instant produces nothing *)
Theorem C11_timers_idempotent n cid n1 o1 :
  (forall c, get_conn n cid = Some c -> 0 <= eff_dwa n c) ->
  check_timers n cid = (n1, o1) -> snd (check_timers n1 cid) = [].
Proof.
  intros Hdwa H.
  assert (Hsame : check_timers n cid = (n, []) -> snd (check_timers n1 cid) = []).
  { intros E. rewrite E in H. inversion H; subst. rewrite E. reflexivity. }
  assert (Hclose : forall r, check_timers n cid = close_conn n cid r -> snd (check_timers n1 cid) = []).
  { intros r E. rewrite check_timers_none; [reflexivity|].
    change n1 with (fst (n1, o1)). rewrite <- H, E, close_conn_get, Nat.eqb_refl. reflexivity. }
  destruct (n_stopping n) eqn:Hs; [apply Hsame, check_timers_stopping, Hs|].
  destruct (get_conn n cid) as [c|] eqn:Hc; [|apply Hsame, check_timers_none, Hc].
  pose proof (check_timers_unfold n cid c Hs Hc) as Hu.
  destruct (c_state c) eqn:Hst; try (apply Hsame; exact Hu).
  - (* CONNECTED *)
    match type of Hu with _ = if ?b then _ else _ => destruct b end;
      [eapply Hclose; exact Hu|apply Hsame; exact Hu].
  - (* READY *)
    destruct (eff_idle n c <? n_now n - c_last_read c); [|apply Hsame; exact Hu].
    destruct (send_dwr_spec n cid) as [m [_ [_ [_ [Hcu Hfr]]]]].
    rewrite <- Hu, H in Hcu, Hfr. cbn [fst] in Hcu, Hfr.
    destruct Hfr as [Hp [_ [Hstop [Hnow Hcfg]]]].
    pose proof (Hcu cid) as H1. rewrite Nat.eqb_refl, Hc in H1. cbn [option_map] in H1.
    assert (Hs1 : n_stopping n1 = false) by congruence.
    rewrite (check_timers_unfold n1 cid _ Hs1 H1).
    unfold wdmark at 1. cbn [c_state set_ctimes qout set_cout bump set_chbh]. rewrite Hst.
    cbn [is_ready_state c_state set_cstate].
    assert (Heff : eff_dwa n1 (wdmark (n_now n) (qout m (bump c))) = eff_dwa n c).
    { unfold eff_dwa, eff, find_conn_peer, get_peer, wdmark. rewrite Hp, Hcfg. cbn [c_state qout bump set_cout set_chbh]. rewrite Hst. reflexivity. }
    rewrite Heff. unfold wdmark. cbn [c_last_dwr set_ctimes]. rewrite Hnow.
    specialize (Hdwa c eq_refl).
    destruct (eff_dwa n c <? n_now n - n_now n) eqn:E; [lia|reflexivity].
  - (* READY_WAITING_DWA *)
    destruct (eff_dwa n c <? n_now n - c_last_dwr c);
      [eapply Hclose; exact Hu|apply Hsame; exact Hu].
Qed.
