(* History theorems (whole runs) for C10 (application requests and their answers) and C12
   (Disconnect-Peer-Request), lifted from the per-step facts of NodeA / NodeC / NodeD.

   0. trace / strace: the history of a run, aligned with the events, agreeing with `run`.
   1. C10_history_answer_to_sender       an answer reaches only the application that sent the request
   2. C10_history_answers_le_requests,   per (hop-by-hop, end-to-end) pair: no more answers handed out than
      C10_history_answer_once            requests sent; at most one when the pairs sent are distinct
   3. C10_history_requests_only_to_ready an application request is queued only on a ready connection
   4. C12_history_no_routing_after_dpr   after a DPR read on a ready connection, that connection is never
                                         ready again and never gets an application request again
   5. examples by vm_compute. *)
From DV Require Import Prelude.Base Model.Node.
From DV Require Proofs.NodeA Proofs.NodeD.
From DV Require Import Proofs.NodeC.
From Coq Require String.
From Coq Require Import Lia.
Local Open Scope Z_scope.

(* ================================================================================== *)
(* 0. traces                                                                          *)
(* ================================================================================== *)
(* the history of a run with the node state BEFORE each event: (state, (event, outputs)) *)
Fixpoint strace (n : node) (evs : list (dials * event)) : list (node * (event * list output)) :=
  match evs with
  | [] => []
  | de :: r => let '(n', o) := step n (fst de) (snd de) in (n, (snd de, o)) :: strace n' r
  end.
(* the history of a run: each event with the outputs of its step *)
Definition trace (n : node) (evs : list (dials * event)) : list (event * list output) :=
  List.map snd (strace n evs).

Lemma strace_cons n de r :
  strace n (de :: r) =
  (n, (snd de, snd (step n (fst de) (snd de)))) :: strace (fst (step n (fst de) (snd de))) r.
Proof. cbn [strace]. destruct (step n (fst de) (snd de)) as [n' o]. reflexivity. Qed.

Lemma trace_cons n de r :
  trace n (de :: r) = (snd de, snd (step n (fst de) (snd de))) :: trace (fst (step n (fst de) (snd de))) r.
Proof. unfold trace. rewrite strace_cons. reflexivity. Qed.

Lemma run_snd_acc evs : forall n acc,
  snd (List.fold_left (fun acc de => let '(n, outs) := acc in
         let '(n', o) := step n (fst de) (snd de) in (n', (outs ++ [o])%list)) evs (n, acc)) =
  (acc ++ List.map snd (trace n evs))%list.
Proof.
  induction evs as [|de r IH]; intros n acc.
  - cbn. rewrite List.app_nil_r. reflexivity.
  - rewrite trace_cons. cbn [List.fold_left List.map snd].
    destruct (step n (fst de) (snd de)) as [n' o]. rewrite IH. cbn [fst snd].
    rewrite <- List.app_assoc. reflexivity.
Qed.

(* the trace agrees with run: same outputs, event by event *)
Theorem trace_run n evs :
  List.map snd (trace n evs) = snd (run n evs) /\ List.map fst (trace n evs) = List.map snd evs.
Proof.
  split.
  - unfold run. rewrite run_snd_acc. reflexivity.
  - revert n. induction evs as [|de r IH]; intros n; [reflexivity|].
    rewrite trace_cons. cbn [List.map fst]. rewrite IH. reflexivity.
Qed.

Lemma run_app n a : forall b, fst (run n (a ++ b)%list) = fst (run (fst (run n a)) b).
Proof.
  revert n. induction a as [|de r IH]; intros n b; [reflexivity|].
  cbn [List.app]. rewrite !NodeD.run_cons. apply IH.
Qed.

Lemma strace_app n a : forall b, strace n (a ++ b)%list = (strace n a ++ strace (fst (run n a)) b)%list.
Proof.
  revert n. induction a as [|de r IH]; intros n b; [reflexivity|].
  cbn [List.app]. rewrite !strace_cons, NodeD.run_cons, IH. reflexivity.
Qed.

Lemma trace_app n a b : trace n (a ++ b)%list = (trace n a ++ trace (fst (run n a)) b)%list.
Proof. unfold trace. rewrite strace_app, List.map_app. reflexivity. Qed.

Lemma strace_length n evs : List.length (strace n evs) = List.length evs.
Proof.
  revert n. induction evs as [|de r IH]; intros n; [reflexivity|].
  rewrite strace_cons. cbn [List.length]. rewrite IH. reflexivity.
Qed.

(* every point of the history is a step of `step` from the state the run has reached there *)
Lemma strace_In n evs nk e outs :
  List.In (nk, (e, outs)) (strace n evs) ->
  exists evs1 ds evs2, evs = (evs1 ++ (ds, e) :: evs2)%list /\ nk = fst (run n evs1) /\ outs = snd (step nk ds e).
Proof.
  revert n. induction evs as [|de r IH]; intros n H; [destruct H|].
  rewrite strace_cons in H. destruct H as [H|H].
  - injection H as <- <- <-. exists [], (fst de), r. destruct de. repeat split.
  - destruct (IH _ H) as (evs1 & ds & evs2 & -> & -> & ->).
    exists (de :: evs1), ds, evs2. rewrite NodeD.run_cons. repeat split.
Qed.

(* ================================================================================== *)
(* 1. what every part of the node does to the table of pending application requests    *)
(* ================================================================================== *)
(* outputs other than answers handed to an application *)
Definition noans (o : output) : Prop :=
  match o with OAnswerTo _ _ | OUnexpected _ _ => False | _ => True end.
(* a result that leaves n_app_waiting alone and hands no answer to any application *)
Definition quiet (n : node) (r : node * list output) : Prop :=
  n_app_waiting (fst r) = n_app_waiting n /\ List.Forall noans (snd r).

Lemma quiet_nil n n' : n_app_waiting n' = n_app_waiting n -> quiet n (n', []).
Proof. intros H. split; [exact H|constructor]. Qed.
Lemma quiet_refl n : quiet n (n, []).
Proof. apply quiet_nil. reflexivity. Qed.
Lemma quiet_app n n1 o1 n2 o2 : quiet n (n1, o1) -> quiet n1 (n2, o2) -> quiet n (n2, (o1 ++ o2)%list).
Proof.
  intros [H1 H2] [H3 H4]. cbn [fst snd] in *. split; cbn [fst snd]; [congruence|].
  apply List.Forall_app. split; assumption.
Qed.
Lemma quiet_pre n n0 r : n_app_waiting n0 = n_app_waiting n -> quiet n0 r -> quiet n r.
Proof. intros H [H1 H2]. split; [congruence|exact H2]. Qed.
Lemma quiet_post n n1 o n2 : quiet n (n1, o) -> n_app_waiting n2 = n_app_waiting n1 -> quiet n (n2, o).
Proof. intros [H1 H2] H. cbn [fst snd] in *. split; cbn [fst snd]; [congruence|exact H2]. Qed.
Lemma quiet_cons n n1 o1 x : noans x -> quiet n (n1, o1) -> quiet n (n1, x :: o1).
Proof. intros Hx [H1 H2]. split; [exact H1|constructor; assumption]. Qed.

Lemma record_answer_aw n k h e : n_app_waiting (record_answer n k h e) = n_app_waiting n.
Proof. unfold record_answer. destruct (List.find _ (n_origin_waiting n)) as [[[[k0 a] b] o]|]; reflexivity. Qed.

Lemma send_message_aw n cid m : n_app_waiting (fst (send_message n cid m)) = n_app_waiting n.
Proof.
  unfold send_message, queue_out. cbn [fst]. destruct (o_req m); [reflexivity|].
  rewrite record_answer_aw. destruct (get_conn n cid); reflexivity.
Qed.

Lemma send_message_q n cid m : quiet n (send_message n cid m).
Proof. split; [apply send_message_aw|]. rewrite send_message_out. constructor; [exact I|constructor]. Qed.

Lemma remove_conn_aw n cid r : n_app_waiting (remove_conn n cid r) = n_app_waiting n.
Proof.
  unfold remove_conn. destruct (get_conn n cid) as [c|]; [|reflexivity].
  cbn [n_app_waiting set_apps set_tables set_waiting].
  destruct (find_conn_peer n c) as [p|]; [destruct (p_conn p) as [k|]; [destruct (Nat.eqb k cid)|]|]; reflexivity.
Qed.

Lemma close_conn_q n cid r : quiet n (close_conn n cid r).
Proof.
  unfold close_conn. destruct (get_conn n cid); [|apply quiet_refl].
  split; [apply remove_conn_aw|]. constructor; [exact I|constructor].
Qed.

Lemma flag_ready_aw n cid : n_app_waiting (flag_ready n cid) = n_app_waiting n.
Proof. reflexivity. Qed.

Lemma assign_peer_conn_aw n cid : n_app_waiting (assign_peer_conn n cid) = n_app_waiting n.
Proof.
  unfold assign_peer_conn. destruct (get_conn n cid) as [c|]; [|reflexivity].
  destruct (String.eqb (c_host c) String.EmptyString); [reflexivity|].
  destruct (get_peer n (c_host c)); [|reflexivity].
  destruct (mem_nat cid (n_half_ready n)); reflexivity.
Qed.

Lemma own_request_aw n cid c : n_app_waiting (fst (own_request n cid c)) = n_app_waiting n.
Proof. unfold own_request. destruct (get_conn n cid); reflexivity. Qed.

Lemma send_cer_q n cid : quiet n (send_cer n cid).
Proof.
  unfold send_cer. pose proof (own_request_aw n cid CE) as F.
  destruct (own_request n cid CE) as [n1 m]. cbn [fst] in F.
  eapply quiet_pre; [exact F|apply send_message_q].
Qed.

Lemma send_dwr_q n cid : quiet n (send_dwr n cid).
Proof.
  unfold send_dwr. pose proof (own_request_aw n cid DW) as F.
  destruct (own_request n cid DW) as [n1 m]. cbn [fst] in F.
  pose proof (send_message_q n1 cid m) as G. destruct (send_message n1 cid m) as [n2 o].
  eapply quiet_pre; [exact F|]. eapply quiet_post; [exact G|reflexivity].
Qed.

Lemma send_dpr_q n cid : quiet n (send_dpr n cid).
Proof.
  unfold send_dpr. pose proof (own_request_aw n cid DP) as F.
  destruct (own_request n cid DP) as [n1 m]. cbn [fst] in F.
  eapply quiet_pre; [exact F|]. eapply quiet_pre; [|apply send_message_q]. reflexivity.
Qed.

Lemma check_timers_q n cid : quiet n (check_timers n cid).
Proof.
  unfold check_timers. destruct (n_stopping n); [apply quiet_refl|].
  destruct (get_conn n cid) as [c|]; [|apply quiet_refl].
  destruct (c_state c); try apply quiet_refl;
    match goal with |- context [if ?b then _ else _] => destruct b end;
    first [apply quiet_refl|apply close_conn_q|apply send_dwr_q].
Qed.

Lemma timers_all_q cids0 : forall n, quiet n (timers_all n cids0).
Proof.
  induction cids0 as [|c r IH]; intros n; cbn [timers_all]; [apply quiet_refl|].
  pose proof (check_timers_q n c) as G1. destruct (check_timers n c) as [n1 o1].
  pose proof (IH n1) as G2. destruct (timers_all n1 r) as [n2 o2].
  eapply quiet_app; eassumption.
Qed.

Lemma forall_noans_send cid l : List.Forall noans (List.map (OSend cid) l).
Proof. apply List.Forall_forall. intros x Hx. apply List.in_map_iff in Hx. destruct Hx as [m [<- _]]. exact I. Qed.

Lemma flush_conns_q cids0 : forall n, quiet n (flush_conns n cids0).
Proof.
  induction cids0 as [|cid r IH]; intros n; cbn [flush_conns]; [apply quiet_refl|].
  match goal with |- context [let '(_, _) := ?X in _] => assert (G1 : quiet n X) end.
  { destruct (get_conn n cid) as [c|]; [|apply quiet_refl].
    destruct (c_stalled c || negb (c_sock_open c)); [apply quiet_refl|].
    pose proof (forall_noans_send cid (c_out c)) as HO.
    destruct (c_out c) as [|m0 ms] eqn:Eo; [apply quiet_nil; reflexivity|].
    destruct (cstate_eqb (c_state c) SClosing).
    - pose proof (close_conn_q (set_conns n (upd_conn (n_conns n) cid (fun c0 => set_cout c0 []))) cid R_CLEAN) as G.
      destruct (close_conn _ cid R_CLEAN) as [n'' oc].
      change (quiet n (n'', ((List.map (OSend cid) (m0 :: ms)) ++ oc)%list)).
      eapply quiet_app; [|exact G]. split; [reflexivity|exact HO].
    - split; [reflexivity|exact HO]. }
  match goal with |- context [let '(_, _) := ?X in _] => destruct X as [n1 o1] end.
  pose proof (IH n1) as G2. destruct (flush_conns n1 r) as [n2 o2].
  eapply quiet_app; eassumption.
Qed.

Lemma flush_q n : quiet n (flush n).
Proof. apply flush_conns_q. Qed.

Lemma connect_to_peer_q n name h res : quiet n (connect_to_peer n name h res).
Proof.
  unfold connect_to_peer. destruct (get_peer n name) as [p|]; [|apply quiet_refl].
  destruct (p_conn p); [apply quiet_refl|]. destruct (negb (p_has_addr p)); [apply quiet_refl|].
  cbv zeta. match goal with |- context [close_conn ?x _ _] => set (n3 := x) end.
  assert (F3 : n_app_waiting n3 = n_app_waiting n) by reflexivity. clearbody n3.
  destruct res.
  - match goal with |- context [send_cer ?x ?c] => pose proof (send_cer_q x c) as G; destruct (send_cer x c) as [n5 o] end.
    apply quiet_cons; [exact I|]. eapply quiet_pre; [|exact G]. exact F3.
  - match goal with |- context [close_conn ?x ?c ?r] => pose proof (close_conn_q x c r) as G; destruct (close_conn x c r) as [n4 o] end.
    apply quiet_cons; [exact I|]. eapply quiet_pre; [exact F3|exact G].
  - split; [exact F3|]. constructor; [exact I|constructor].
Qed.

Lemma reconnect_all_q names : forall n ds, quiet n (fst (reconnect_all n names ds)).
Proof.
  induction names as [|nm r IH]; intros n ds; cbn [reconnect_all]; [apply quiet_refl|].
  destruct (get_peer n nm) as [p|]; [|apply IH].
  destruct (wants_reconnect n p && p_has_addr p); [|apply IH].
  destruct ds as [|[h0 res] dr].
  - pose proof (connect_to_peer_q n nm 0 DialOk) as G1. destruct (connect_to_peer n nm 0 DialOk) as [n1 o1].
    pose proof (IH n1 []) as G2. destruct (reconnect_all n1 r []) as [[n2 o2] d2]. cbn [fst] in *.
    eapply quiet_app; eassumption.
  - pose proof (connect_to_peer_q n nm h0 res) as G1. destruct (connect_to_peer n nm h0 res) as [n1 o1].
    pose proof (IH n1 dr) as G2. destruct (reconnect_all n1 r dr) as [[n2 o2] d2]. cbn [fst] in *.
    eapply quiet_app; eassumption.
Qed.

Lemma io_iteration_q n ds : quiet n (fst (io_iteration n ds)).
Proof.
  unfold io_iteration.
  pose proof (timers_all_q (List.map c_id (n_conns n)) n) as G1.
  destruct (timers_all n (List.map c_id (n_conns n))) as [n1 o1].
  pose proof (reconnect_all_q (List.map p_name (n_peers n1)) n1 ds) as G2.
  destruct (reconnect_all n1 (List.map p_name (n_peers n1)) ds) as [[n2 o2] ds']. cbn [fst] in *.
  eapply quiet_post; [eapply quiet_app; eassumption|reflexivity].
Qed.

Lemma settle_q n ds : quiet n (fst (settle n ds)).
Proof.
  unfold settle. pose proof (flush_q n) as G1. destruct (flush n) as [n1 o1].
  pose proof (io_iteration_q n1 ds) as G2. destruct (io_iteration n1 ds) as [[n2 o2] ds']. cbn [fst] in *.
  pose proof (flush_q n2) as G3. destruct (flush n2) as [n3 o3]. cbn [fst].
  eapply quiet_app; [exact G1|]. eapply quiet_app; eassumption.
Qed.

Lemma settle'_q n ds : quiet n (settle' n ds).
Proof. unfold settle'. pose proof (settle_q n ds) as G. destruct (settle n ds) as [[n1 o1] d]. exact G. Qed.

Lemma then_settle_q n n1 o1 ds :
  quiet n (n1, o1) -> quiet n (let '(n2, o2) := settle' n1 ds in (n2, (o1 ++ o2)%list)).
Proof.
  intros G. pose proof (settle'_q n1 ds) as G2. destruct (settle' n1 ds) as [n2 o2].
  eapply quiet_app; eassumption.
Qed.

Lemma settle_app_q n ds : quiet n (fst (settle_app n ds)).
Proof.
  unfold settle_app.
  pose proof (io_iteration_q n ds) as G2. destruct (io_iteration n ds) as [[n2 o2] ds']. cbn [fst] in *.
  pose proof (flush_q n2) as G3. destruct (flush n2) as [n3 o3]. cbn [fst].
  eapply quiet_app; eassumption.
Qed.

Lemma settle_app'_q n ds : quiet n (settle_app' n ds).
Proof. unfold settle_app'. pose proof (settle_app_q n ds) as G. destruct (settle_app n ds) as [[n1 o1] d]. exact G. Qed.

Lemma then_settle_app_q n n1 o1 ds :
  quiet n (n1, o1) -> quiet n (let '(n2, o2) := settle_app' n1 ds in (n2, (o1 ++ o2)%list)).
Proof.
  intros G. pose proof (settle_app'_q n1 ds) as G2. destruct (settle_app' n1 ds) as [n2 o2].
  eapply quiet_app; eassumption.
Qed.

Lemma wake_q target fuel :
  forall n ds acc n0, n_app_waiting n = n_app_waiting n0 -> List.Forall noans acc -> quiet n0 (wake target fuel n ds acc).
Proof.
  induction fuel as [|f IH]; intros n ds acc n0 F Hacc; cbn [wake].
  - split; [exact F|exact Hacc].
  - destruct (n_io_deadline n <=? target).
    + cbv zeta. set (n1 := set_time n (n_io_deadline n) (n_io_deadline n)).
      pose proof (settle_q n1 ds) as G. destruct (settle n1 ds) as [[n2 o2] ds2]. cbn [fst] in G.
      destruct G as [G1 G2]. cbn [fst snd] in G1, G2. apply IH.
      * rewrite G1. exact F.
      * apply List.Forall_app. split; assumption.
    + split; [exact F|exact Hacc].
Qed.

Lemma stop_go_q cids0 :
  forall n acc n0, n_app_waiting n = n_app_waiting n0 -> List.Forall noans acc -> quiet n0 (stop_go cids0 n acc).
Proof.
  induction cids0 as [|c r IH]; intros n acc n0 F Hacc; cbn [stop_go]; [split; assumption|].
  destruct (get_conn n c) as [cn|]; [|apply IH; assumption].
  destruct (is_ready_state (c_state cn)); [|apply IH; assumption].
  pose proof (send_dpr_q n c) as G. destruct (send_dpr n c) as [n1 o1]. destruct G as [G1 G2]. cbn [fst snd] in G1, G2.
  apply IH; [congruence|]. apply List.Forall_app. split; assumption.
Qed.

Lemma finish_go_q cids0 :
  forall n acc n0, n_app_waiting n = n_app_waiting n0 -> List.Forall noans acc -> quiet n0 (finish_go cids0 n acc).
Proof.
  induction cids0 as [|c r IH]; intros n acc n0 F Hacc; cbn [finish_go]; [split; assumption|].
  pose proof (close_conn_q n c R_SHUTDOWN) as G. destruct (close_conn n c R_SHUTDOWN) as [n1 o1].
  destruct G as [G1 G2]. cbn [fst snd] in G1, G2.
  apply IH; [congruence|]. apply List.Forall_app. split; assumption.
Qed.

Lemma start_go_q names :
  forall n ds acc n0, n_app_waiting n = n_app_waiting n0 -> List.Forall noans acc ->
                      quiet n0 (fst (start_go names n ds acc)).
Proof.
  induction names as [|nm r IH]; intros n ds acc n0 F Hacc; cbn [start_go]; [split; assumption|].
  destruct (get_peer n nm) as [p|]; [|apply IH; assumption].
  destruct (p_persistent p); [|apply IH; assumption].
  destruct ds as [|[h0 res] dr].
  - pose proof (connect_to_peer_q n nm 0 DialOk) as G. destruct (connect_to_peer n nm 0 DialOk) as [n1 o1].
    destruct G as [G1 G2]. cbn [fst snd] in G1, G2.
    apply IH; [congruence|]. apply List.Forall_app. split; assumption.
  - pose proof (connect_to_peer_q n nm h0 res) as G. destruct (connect_to_peer n nm h0 res) as [n1 o1].
    destruct G as [G1 G2]. cbn [fst snd] in G1, G2.
    apply IH; [congruence|]. apply List.Forall_app. split; assumption.
Qed.

Lemma close_all_q cids0 r : forall n, quiet n (close_all n cids0 r).
Proof.
  induction cids0 as [|k l IH]; intros n; cbn [close_all]; [apply quiet_refl|].
  pose proof (close_conn_q n k r) as G1. destruct (close_conn n k r) as [n1 o1].
  pose proof (IH n1) as G2. destruct (close_all n1 l r) as [n2 o2].
  eapply quiet_app; eassumption.
Qed.

(* ---- the reader thread: every handler but the one for application answers ------------------ *)
Lemma recv_cer_q n cid m : quiet n (recv_cer n cid m).
Proof.
  unfold recv_cer. destruct (get_conn n cid) as [c0|]; [|apply quiet_refl].
  destruct (negb (cstate_eqb (c_state c0) SConnected)); [apply quiet_nil; reflexivity|].
  destruct (pres_get (m_origin m)) as [host|]; [|apply quiet_refl].
  destruct (get_peer n host) as [p|].
  - cbv zeta.
    set (n0 := set_conns n (upd_conn (n_conns n) cid (fun c =>
                  if String.eqb (c_node_name c) String.EmptyString then set_cident c host (c_host c) (c_auth c) (c_acct c) else c))).
    assert (F0 : n_app_waiting n0 = n_app_waiting n) by reflexivity.
    assert (L : quiet n (send_message (set_conns n0 (upd_conn (n_conns n0) cid (fun c => set_cstate c SClosing))) cid
                                 (answer_of m (Some RC_ELECTION_LOST) []))).
    { eapply quiet_pre; [|apply send_message_q]. exact F0. }
    pose proof (close_all_q (election_rivals n0 cid host) R_CLEAN n0) as G.
    clearbody n0.
    destruct (close_all n0 (election_rivals n0 cid host) R_CLEAN) as [n1 oel].
    assert (G' : quiet n (n1, oel)) by (eapply quiet_pre; eassumption).
    assert (A : quiet n (let '(n2, o) := send_message n1 cid (answer_of m (Some RC_NO_COMMON_APP) []) in (n2, (oel ++ o)%list))).
    { pose proof (send_message_q n1 cid (answer_of m (Some RC_NO_COMMON_APP) [])) as G2.
      destruct (send_message n1 cid (answer_of m (Some RC_NO_COMMON_APP) [])) as [n2 o]. eapply quiet_app; eassumption. }
    match goal with |- context [flag_ready ?x cid] => set (n3 := flag_ready x cid) end.
    assert (F3 : n_app_waiting n3 = n_app_waiting n1).
    { unfold n3. rewrite flag_ready_aw, assign_peer_conn_aw. reflexivity. }
    clearbody n3.
    assert (B : quiet n (let '(n4, o) := send_message n3 cid (answer_of m (Some RC_SUCCESS) []) in (n4, (oel ++ o)%list))).
    { pose proof (send_message_q n3 cid (answer_of m (Some RC_SUCCESS) [])) as G2.
      destruct (send_message n3 cid (answer_of m (Some RC_SUCCESS) [])) as [n4 o].
      eapply quiet_app; [exact G'|]. eapply quiet_pre; eassumption. }
    assert (W : quiet n
                  match inter_z (node_auth n1) (m_auth m), inter_z (node_acct n1) (m_acct m),
                        mem_z APP_RELAY (m_auth m) || mem_z APP_RELAY (m_acct m) with
                  | [], [], false =>
                      let '(n2, o) := send_message n1 cid (answer_of m (Some RC_NO_COMMON_APP) []) in (n2, (oel ++ o)%list)
                  | _, _, _ =>
                      let '(n4, o) := send_message n3 cid (answer_of m (Some RC_SUCCESS) []) in (n4, (oel ++ o)%list)
                  end).
    { destruct (inter_z (node_auth n1) (m_auth m)); [|exact B].
      destruct (inter_z (node_acct n1) (m_acct m)); [|exact B].
      destruct (mem_z APP_RELAY (m_auth m) || mem_z APP_RELAY (m_acct m)); [exact B|exact A]. }
    destruct (election_rivals n0 cid host) as [|k0 ks]; [exact W|].
    destruct (String.ltb host (g_host (n_cfg n0))); [exact W|exact L].
  - eapply quiet_pre; [|apply send_message_q]. reflexivity.
Qed.

Lemma recv_cea_q n cid m : quiet n (recv_cea n cid m).
Proof.
  unfold recv_cea.
  assert (B : quiet n (close_conn n cid R_CER_REJECTED)) by apply close_conn_q.
  destruct (get_conn n cid) as [c0|]; [|apply quiet_refl].
  destruct (negb (cstate_eqb (c_state c0) SConnected)); [apply quiet_refl|].
  match goal with |- context [match pres_get (m_origin m) with Some h => @?f h | None => ?y end] =>
    assert (A : quiet n (match pres_get (m_origin m) with Some h => f h | None => y end)) end.
  { destruct (pres_get (m_origin m)) as [host|]; [|apply quiet_refl]. cbv beta.
    destruct (negb (String.eqb (c_node_name c0) String.EmptyString) && negb (String.eqb host (c_node_name c0))); [exact B|].
    apply quiet_nil. rewrite flag_ready_aw, assign_peer_conn_aw. reflexivity. }
  cbv beta in A.
  destruct (m_result m) as [| |z]; try exact B.
  destruct z as [|p|p]; try exact B.
  do 11 (destruct p as [p|p|]; try exact B). exact A.
Qed.

Lemma recv_dpr_q n cid m : quiet n (recv_dpr n cid m).
Proof.
  unfold recv_dpr. eapply quiet_pre; [|apply send_message_q].
  set (n1 := set_conns n (upd_conn (n_conns n) cid (fun c => set_cstate c SDisconnecting))).
  assert (F1 : n_app_waiting n1 = n_app_waiting n) by reflexivity. clearbody n1.
  destruct (get_conn n1 cid) as [c|]; [|exact F1].
  destruct (find_conn_peer n1 c) as [p|]; exact F1.
Qed.

Lemma recv_dpa_q n cid : quiet n (recv_dpa n cid).
Proof.
  unfold recv_dpa. set (n1 := set_conns n (upd_conn (n_conns n) cid (fun c => set_cstate c SClosing))).
  assert (F1 : n_app_waiting n1 = n_app_waiting n) by reflexivity. clearbody n1.
  destruct (get_conn n1 cid) as [c|]; [|apply quiet_nil, F1].
  destruct (c_out c); [|apply quiet_nil, F1].
  eapply quiet_pre; [exact F1|]. apply close_conn_q.
Qed.

Lemma recv_app_request_q n cid m : quiet n (recv_app_request n cid m).
Proof.
  unfold recv_app_request.
  destruct (get_conn n cid) as [c|]; [|apply quiet_refl].
  destruct (m_drealm m) as [| |realm]; try apply send_message_q.
  destruct (route_lookup n realm) as [entries|]; [|apply send_message_q].
  destruct (List.find _ entries) as [[[i|] l]|]; try apply send_message_q.
  destruct (handler_raises m).
  - cbv zeta.
    match goal with |- context [send_message ?x cid ?a] =>
      pose proof (send_message_q x cid a) as G; destruct (send_message x cid a) as [n2 o] end.
    apply quiet_cons; [exact I|]. eapply quiet_pre; [|exact G]. reflexivity.
  - split; [reflexivity|]. constructor; [exact I|constructor].
Qed.

(* ================================================================================== *)
(* 2. answers: where they come from, and how many                                      *)
(* ================================================================================== *)
(* the application and the message of an answer output *)
Definition ans_of (o : output) : option (nat * msg) :=
  match o with OAnswerTo i m | OUnexpected i m => Some (i, m) | _ => None end.
(* the entry x of n_app_waiting is filed under the pair (h, e) *)
Definition kmatch (h e : Z) (x : Z * Z * nat) : bool := let '(h', e', _) := x in (h' =? h) && (e' =? e).
(* the output hands an answer with the pair (h, e) to an application *)
Definition ans_key (h e : Z) (o : output) : bool :=
  match o with OAnswerTo _ m | OUnexpected _ m => (m_hbh m =? h) && (m_e2e m =? e) | _ => false end.
Definition cntw (h e : Z) (n : node) : nat := List.length (List.filter (kmatch h e) (n_app_waiting n)).
Definition cnta (h e : Z) (outs : list output) : nat := List.length (List.filter (ans_key h e) outs).

Lemma cnta_app h e a b : cnta h e (a ++ b)%list = (cnta h e a + cnta h e b)%nat.
Proof. unfold cnta. rewrite List.filter_app, List.app_length. reflexivity. Qed.

Lemma cnta_noans h e l : List.Forall noans l -> cnta h e l = 0%nat.
Proof.
  unfold cnta. induction 1 as [|o l Ho _ IH]; [reflexivity|]. cbn [List.filter].
  destruct o; cbn [ans_key noans] in *; try exact IH; destruct Ho.
Qed.

Lemma noans_ans_of o i m : noans o -> ans_of o = Some (i, m) -> False.
Proof. destruct o; cbn; intros H E; try discriminate; exact H. Qed.

(* the reader thread's result: entries only disappear, an answer handed out was filed for that
   application, and per pair no more answers are handed out than entries disappear *)
Definition hres (n : node) (r : node * list output) : Prop :=
  (forall x, List.In x (n_app_waiting (fst r)) -> List.In x (n_app_waiting n)) /\
  (forall o i m, List.In o (snd r) -> ans_of o = Some (i, m) -> List.In (m_hbh m, m_e2e m, i) (n_app_waiting n)) /\
  (forall h e, (cnta h e (snd r) + cntw h e (fst r) <= cntw h e n)%nat).

Lemma hres_of_quiet n r : quiet n r -> hres n r.
Proof.
  intros [H1 H2]. split; [|split].
  - intros x Hx. rewrite H1 in Hx. exact Hx.
  - intros o i m Ho E. exfalso. rewrite List.Forall_forall in H2. eapply noans_ans_of; [apply H2, Ho|exact E].
  - intros h e. rewrite (cnta_noans _ _ _ H2). unfold cntw. rewrite H1. lia.
Qed.

Lemma hres_app n n1 o1 n2 o2 : hres n (n1, o1) -> hres n1 (n2, o2) -> hres n (n2, (o1 ++ o2)%list).
Proof.
  intros (A1 & A2 & A3) (B1 & B2 & B3). cbn [fst snd] in *. split; [|split]; cbn [fst snd].
  - intros x Hx. apply A1, B1, Hx.
  - intros o i m Ho E. apply List.in_app_or in Ho. destruct Ho as [Ho|Ho]; [eapply A2; eassumption|].
    apply A1. eapply B2; eassumption.
  - intros h e. rewrite cnta_app. pose proof (A3 h e). pose proof (B3 h e). lia.
Qed.

Lemma hres_pre n n0 r : n_app_waiting n0 = n_app_waiting n -> hres n0 r -> hres n r.
Proof.
  intros H (A1 & A2 & A3). unfold cntw in *. rewrite H in *. split; [exact A1|]. split; [exact A2|].
  intros h e. unfold cntw. apply A3.
Qed.

Lemma filter_filter_le {A} (f g : A -> bool) l :
  (List.length (List.filter f (List.filter g l)) <= List.length (List.filter f l))%nat.
Proof.
  induction l as [|a l IH]; [reflexivity|]. cbn [List.filter].
  destruct (g a); cbn [List.filter]; destruct (f a); cbn [List.length]; lia.
Qed.

Lemma filter_filter_neg {A} (f : A -> bool) l : List.filter f (List.filter (fun x => negb (f x)) l) = [].
Proof.
  induction l as [|a l IH]; [reflexivity|]. cbn [List.filter].
  destruct (f a) eqn:E; cbn [negb List.filter]; [exact IH|]. rewrite E. exact IH.
Qed.

Lemma filter_in_pos {A} (f : A -> bool) l x : List.In x l -> f x = true -> (1 <= List.length (List.filter f l))%nat.
Proof.
  intros Hin Hf. assert (H : List.In x (List.filter f l)) by (apply List.filter_In; split; assumption).
  destruct (List.filter f l); [destruct H|cbn [List.length]; lia].
Qed.

(* the model's filter on n_app_waiting, in terms of kmatch *)
Lemma aw_filter_ext h e (l : list (Z * Z * nat)) :
  List.filter (fun x => let '(h0, e0, _) := x in negb ((h0 =? h) && (e0 =? e))) l =
  List.filter (fun x => negb (kmatch h e x)) l.
Proof. apply List.filter_ext. intros [[h0 e0] j]. reflexivity. Qed.

(* handing out one answer whose entry is dropped *)
Lemma hres_answer n n1 o i m :
  List.In (m_hbh m, m_e2e m, i) (n_app_waiting n) ->
  n_app_waiting n1 = List.filter (fun x => negb (kmatch (m_hbh m) (m_e2e m) x)) (n_app_waiting n) ->
  (o = OAnswerTo i m \/ o = OUnexpected i m) -> hres n (n1, [o]).
Proof.
  intros Hin Haw Ho. split; [|split]; cbn [fst snd].
  - intros x Hx. rewrite Haw in Hx. apply List.filter_In in Hx. apply Hx.
  - intros o0 i0 m0 [<-|[]] E. destruct Ho as [-> | ->]; cbn [ans_of] in E; injection E as <- <-; exact Hin.
  - intros h e. unfold cntw. rewrite Haw.
    assert (Ek : cnta h e [o] = if (m_hbh m =? h) && (m_e2e m =? e) then 1%nat else 0%nat).
    { unfold cnta. cbn [List.filter]. destruct Ho as [-> | ->]; cbn [ans_key];
        destruct ((m_hbh m =? h) && (m_e2e m =? e)); reflexivity. }
    rewrite Ek. destruct ((m_hbh m =? h) && (m_e2e m =? e)) eqn:E.
    + apply andb_true_iff in E. destruct E as [E1 E2]. apply Z.eqb_eq in E1. apply Z.eqb_eq in E2. subst h e.
      rewrite filter_filter_neg. cbn [List.length].
      pose proof (filter_in_pos (kmatch (m_hbh m) (m_e2e m)) _ _ Hin) as P.
      cbn [kmatch] in P. rewrite !Z.eqb_refl in P. specialize (P eq_refl). lia.
    + pose proof (filter_filter_le (kmatch h e) (fun x => negb (kmatch (m_hbh m) (m_e2e m) x)) (n_app_waiting n)). lia.
Qed.

Lemma recv_app_answer_h n m : hres n (recv_app_answer n m).
Proof.
  unfold recv_app_answer.
  destruct (List.find _ (n_app_waiting n)) as [[[h e] i]|] eqn:E; [|apply hres_of_quiet, quiet_refl].
  destruct (List.nth_error (n_apps n) i) as [a|]; [|apply hres_of_quiet, quiet_refl].
  apply List.find_some in E. destruct E as [Hin Hk]. apply andb_true_iff in Hk. destruct Hk as [H1 H2].
  apply Z.eqb_eq in H1. apply Z.eqb_eq in H2. subst h e.
  destruct (mem_z (m_hbh m) (List.map fst (a_waiting a))).
  - eapply hres_answer; [exact Hin| |left; reflexivity].
    cbn [n_app_waiting set_apps set_waiting]. apply aw_filter_ext.
  - eapply hres_answer; [exact Hin| |right; reflexivity].
    cbn [n_app_waiting set_waiting]. apply aw_filter_ext.
Qed.

Lemma receive_message_h n cid m : hres n (receive_message n cid m).
Proof.
  unfold receive_message. cbv zeta.
  match goal with |- context [g_validate (n_cfg ?x)] => set (n0 := x) end.
  assert (F0 : n_app_waiting n0 = n_app_waiting n).
  { unfold n0. destruct (m_origin m); [reflexivity| |]; (destruct (m_req m); reflexivity). }
  clearbody n0. apply (hres_pre _ _ _ F0).
  assert (S : forall r, hres n0 (send_message n0 cid r)) by (intros r; apply hres_of_quiet, send_message_q).
  destruct (if m_req m && g_validate (n_cfg n0) then m_missing m else []); [|apply S].
  match goal with |- context [if ?b then send_message _ _ _ else _] => destruct b end; [apply S|].
  destruct (m_req m), (m_cmd m).
  - destruct (m_origin m); [apply S|apply S|]. apply hres_of_quiet, recv_cer_q.
  - apply hres_of_quiet. unfold recv_dwr. apply send_message_q.
  - apply hres_of_quiet, recv_dpr_q.
  - apply hres_of_quiet, recv_app_request_q.
  - apply hres_of_quiet, recv_cea_q.
  - apply hres_of_quiet. unfold recv_dwa. apply quiet_nil. reflexivity.
  - apply hres_of_quiet, recv_dpa_q.
  - apply recv_app_answer_h.
Qed.

Lemma dispatch_all_h cid ms : forall n, hres n (dispatch_all n cid ms).
Proof.
  induction ms as [|m r IH]; intros n; cbn [dispatch_all]; [apply hres_of_quiet, quiet_refl|].
  assert (D : hres n (dispatch n cid m)).
  { unfold dispatch. destruct (get_conn n cid) as [c|]; [|apply hres_of_quiet, quiet_refl].
    destruct (gate_passes c m); [apply receive_message_h|apply hres_of_quiet, quiet_refl]. }
  destruct (dispatch n cid m) as [n1 o1]. pose proof (IH n1) as D2. destruct (dispatch_all n1 cid r) as [n2 o2].
  eapply hres_app; eassumption.
Qed.

(* ================================================================================== *)
(* 3. every event                                                                     *)
(* ================================================================================== *)
Lemma route_answer_aw n a : n_app_waiting (snd (route_answer n a)) = n_app_waiting n.
Proof.
  unfold route_answer. destruct (List.find _ (n_peer_waiting n)) as [[host l]|]; [|reflexivity].
  match goal with |- context [List.find ?f ?l] => destruct (List.find f l) as [c|] end; [|reflexivity].
  destruct (is_ready_state (c_state c)); reflexivity.
Qed.

(* events other than a network read and Application.send_request *)
Lemma step_other_q n ds e :
  (forall cid ms, e <> ERecv cid ms) -> (forall i a realm pick tmo, e <> EAppRequest i a realm pick tmo) ->
  quiet n (step n ds e).
Proof.
  intros Hne Hnq.
  destruct e as [hbh0|cid ms|cid|cid hard|cid ok|cid b|dt|i m|i m realm pick timeout|force|tclose tend|].
  - (* EAccept *)
    cbn [step]. destruct (n_stopping n).
    + split; [reflexivity|]. constructor; [exact I|constructor].
    + cbv zeta. eapply quiet_pre; [|apply settle'_q]. reflexivity.
  - exfalso. eapply Hne. reflexivity.
  - (* EPeerClose *)
    cbn [step]. pose proof (close_conn_q n cid R_GONE) as G. destruct (close_conn n cid R_GONE) as [n1 o1].
    apply then_settle_q, G.
  - (* EReadErr *)
    cbn [step].
    assert (G : quiet n (if hard then close_conn n cid R_SOCKET_FAIL else (n, []))).
    { destruct hard; [apply close_conn_q|apply quiet_refl]. }
    destruct (if hard then close_conn n cid R_SOCKET_FAIL else (n, [])) as [n1 o1].
    apply then_settle_q, G.
  - (* EConnDone *)
    cbn [step]. destruct (get_conn n cid) as [c|]; [|apply quiet_refl].
    destruct (cstate_eqb (c_state c) SConnecting); [|apply quiet_refl].
    destruct ok.
    + cbv zeta. match goal with |- context [send_cer ?x cid] => set (n2 := x) end.
      assert (F : n_app_waiting n2 = n_app_waiting n).
      { unfold n2. match goal with |- context [find_conn_peer ?a ?b] => destruct (find_conn_peer a b) as [p|] end; reflexivity. }
      clearbody n2.
      pose proof (send_cer_q n2 cid) as G3. destruct (send_cer n2 cid) as [n3 o3].
      assert (G3' : quiet n (n3, o3)) by (eapply quiet_pre; eassumption).
      pose proof (io_iteration_q n3 ds) as G4. destruct (io_iteration n3 ds) as [[n4 o4] ds4].
      cbn [fst] in G4.
      assert (G4' : quiet n (n4, (o3 ++ o4)%list)) by (eapply quiet_app; eassumption).
      pose proof (then_settle_q n n4 (o3 ++ o4)%list ds4 G4') as G5.
      destruct (settle' n4 ds4) as [n5 o5]. rewrite <- List.app_assoc in G5. exact G5.
    + pose proof (close_conn_q n cid R_FAILED_CONNECT) as G.
      destruct (close_conn n cid R_FAILED_CONNECT) as [n1 o1]. apply then_settle_q, G.
  - (* EStall *)
    cbn [step]. destruct (get_conn n cid) as [c|]; [|apply quiet_refl].
    cbv zeta. destruct b; [apply quiet_nil; reflexivity|]. destruct (c_out c); [apply quiet_nil; reflexivity|].
    eapply quiet_pre; [|apply settle'_q]. reflexivity.
  - (* ETick *)
    rewrite step_tick. apply wake_q; [reflexivity|constructor].
  - (* EAppAnswer *)
    cbn [step]. pose proof (route_answer_aw n m) as F. destruct (route_answer n m) as [[cid|] n1]; cbn [snd] in F.
    + pose proof (send_message_q n1 cid m) as G. destruct (send_message n1 cid m) as [n2 o2].
      apply then_settle_app_q. eapply quiet_pre; eassumption.
    + split; [exact F|constructor; [exact I|constructor]].
  - exfalso. eapply Hnq. reflexivity.
  - (* EStop *)
    rewrite step_stop. cbv zeta. set (n0 := set_misc n true (n_next_cid n) (n_e2e n)).
    destruct force; [apply quiet_nil; reflexivity|].
    pose proof (stop_go_q (List.map c_id (n_conns n0)) n0 [] n eq_refl (List.Forall_nil _)) as G.
    destruct (stop_go (List.map c_id (n_conns n0)) n0 []) as [n1 o1]. apply then_settle_q, G.
  - (* EStopFinish *)
    rewrite step_stop_finish. cbv zeta. set (n0 := set_time n tclose (n_io_deadline n)).
    pose proof (finish_go_q (List.map c_id (n_conns n0)) n0 [] n eq_refl (List.Forall_nil _)) as G.
    destruct (finish_go (List.map c_id (n_conns n0)) n0 []) as [n1 o1].
    eapply quiet_post; [exact G|reflexivity].
  - (* EStart *)
    rewrite step_start.
    pose proof (start_go_q (List.map p_name (n_peers n)) n ds [] n eq_refl (List.Forall_nil _)) as G.
    destruct (start_go (List.map p_name (n_peers n)) n ds []) as [[n1 o1] ds1]. cbn [fst] in G.
    apply then_settle_q, G.
Qed.

(* a network read *)
Lemma step_recv_h n ds cid ms : hres n (step n ds (ERecv cid ms)).
Proof.
  cbn [step]. destruct (get_conn n cid); [|apply hres_of_quiet, quiet_refl].
  pose proof (io_iteration_q n ds) as G1. destruct (io_iteration n ds) as [[n1 o1] ds1]. cbn [fst] in G1.
  pose proof (dispatch_all_h cid ms (upd_last_read n1 cid)) as D.
  destruct (dispatch_all (upd_last_read n1 cid) cid ms) as [n3 o3].
  pose proof (settle'_q n3 ds1) as G4. destruct (settle' n3 ds1) as [n4 o4].
  eapply hres_app; [apply hres_of_quiet, G1|]. eapply hres_app; [|apply hres_of_quiet, G4].
  eapply hres_pre; [|exact D]. reflexivity.
Qed.

(* every event but Application.send_request *)
Lemma step_h n ds e : (forall i a realm pick tmo, e <> EAppRequest i a realm pick tmo) -> hres n (step n ds e).
Proof.
  intros Hnq. destruct (event_cases e) as [(cid & ms & ->)|Hne]; [apply step_recv_h|].
  apply hres_of_quiet, step_other_q; assumption.
Qed.

(* ---- Application.send_request ------------------------------------------------------------ *)
Lemma sysout_noans pm o : sysout pm o -> noans o.
Proof. destruct o; cbn; auto. Qed.

Lemma e2e_prep_aw n a : n_app_waiting (fst (e2e_prep n a)) = n_app_waiting n.
Proof. unfold e2e_prep. destruct (o_e2e a =? 0); reflexivity. Qed.

(* the table after Application.send_request: unchanged when the request is not routable; else the
   entry of the request's pair is replaced by one naming the sending application *)
Lemma step_req_aw n ds i a realm pick tmo n' outs :
  step n ds (EAppRequest i a realm pick tmo) = (n', outs) ->
  (outs = [ONotRoutable] /\ n_app_waiting n' = n_app_waiting n) \/
  exists cid m' rest,
    outs = OQueue cid m' :: rest /\
    n_app_waiting n' =
      (List.filter (fun x => negb (kmatch (o_hbh m') (o_e2e m') x)) (n_app_waiting n) ++ [(o_hbh m', o_e2e m', i)])%list.
Proof.
  rewrite step_app_request. pose proof (e2e_prep_aw n a) as F0.
  destruct (e2e_prep n a) as [n0 e2e]. cbn [fst snd] in *. unfold req_core. intros H.
  destruct (route_request n0 i realm) as [usable|]; [|left; injection H as <- <-; split; [reflexivity|exact F0]].
  destruct usable as [|p0 us]; [left; injection H as <- <-; split; [reflexivity|exact F0]|].
  destruct (choose (p0 :: us) pick) as [p|]; [|left; injection H as <- <-; split; [reflexivity|exact F0]].
  destruct (p_conn p) as [cid|]; [|left; injection H as <- <-; split; [reflexivity|exact F0]].
  destruct (get_conn n0 cid) as [c|]; [|left; injection H as <- <-; split; [reflexivity|exact F0]].
  right. exists cid.
  destruct (o_hbh a =? 0); cbv zeta in H.
  - match type of H with context [send_message ?x ?cc ?mm] => set (n3 := x) in H; set (m' := mm) in H end.
    rewrite (send_message_req_eq n3 cid m' eq_refl) in H.
    match type of H with context [settle_app' ?x ds] => set (n4 := x) in H end.
    pose proof (settle_app'_q n4 ds) as [G _]. destruct (settle_app' n4 ds) as [n5 o5]. injection H as <- <-.
    exists m', o5. split; [reflexivity|]. cbn [fst] in G. rewrite G.
    cbn [n4 n3 n_app_waiting set_conns set_apps set_waiting]. rewrite aw_filter_ext, F0. reflexivity.
  - match type of H with context [send_message ?x ?cc ?mm] => set (n3 := x) in H; set (m' := mm) in H end.
    rewrite (send_message_req_eq n3 cid m' eq_refl) in H.
    match type of H with context [settle_app' ?x ds] => set (n4 := x) in H end.
    pose proof (settle_app'_q n4 ds) as [G _]. destruct (settle_app' n4 ds) as [n5 o5]. injection H as <- <-.
    exists m', o5. split; [reflexivity|]. cbn [fst] in G. rewrite G.
    cbn [n4 n3 n_app_waiting set_conns set_apps set_waiting]. rewrite aw_filter_ext, F0. reflexivity.
Qed.

(* Application.send_request, everything the histories need: NotRoutable and nothing else, or the
   request first -- on a connection that is ready when the event starts -- then only what the I/O
   thread does on its own; the table gets the entry of the request *)
Lemma step_req_full n ds i a realm pick tmo n' outs :
  step n ds (EAppRequest i a realm pick tmo) = (n', outs) ->
  (outs = [ONotRoutable] /\ n_app_waiting n' = n_app_waiting n) \/
  exists cid c m' rest,
    outs = OQueue cid m' :: rest /\ List.Forall (sysout (pmap n)) rest /\
    o_req m' = true /\ o_cmd m' = o_cmd a /\ o_tag m' = o_tag a /\
    get_conn n cid = Some c /\ is_ready_state (c_state c) = true /\
    n_app_waiting n' =
      (List.filter (fun x => negb (kmatch (o_hbh m') (o_e2e m') x)) (n_app_waiting n) ++ [(o_hbh m', o_e2e m', i)])%list.
Proof.
  intros Hs. destruct (step_req_aw _ _ _ _ _ _ _ _ _ Hs) as [H|(cid & m' & rest & Ho & Haw)]; [left; exact H|].
  right. apply C10_request_shape in Hs. destruct Hs as [Hs|Hs]; [rewrite Hs in Ho; discriminate|].
  destruct Hs as (usable & p & cid0 & c & m0 & n4 & rest0 & H1 & H2 & H3 & H4 & H5 & H6 & H7 & H8 & H9 & H10 & H11 & _).
  rewrite H6 in Ho. injection Ho as -> -> ->.
  destruct (choose_spec _ _ _ H3) as (Hin & _).
  destruct (route_request_member _ _ _ _ _ H1 Hin) as (_ & _ & _ & _ & k & c1 & Hk & Hc1 & Hr).
  rewrite H4 in Hk. injection Hk as <-. rewrite H5 in Hc1. injection Hc1 as <-.
  exists cid, c, m', rest. repeat (split; [first [reflexivity|assumption]|]). exact Haw.
Qed.

Lemma step_req_noans n ds i a realm pick tmo n' outs :
  step n ds (EAppRequest i a realm pick tmo) = (n', outs) -> List.Forall noans outs.
Proof.
  intros Hs. destruct (step_req_full _ _ _ _ _ _ _ _ _ Hs) as [[-> _]|(cid & c & m' & rest & -> & Hr & _)].
  - constructor; [exact I|constructor].
  - constructor; [exact I|]. eapply List.Forall_impl; [|exact Hr]. apply sysout_noans.
Qed.

(* ================================================================================== *)
(* 4. C10: an answer reaches only the application that sent the request                 *)
(* ================================================================================== *)
(* the history item x is an Application.send_request of application i whose step handed the
   request with the pair (h, e) to a connection *)
Definition req_item (i : nat) (h e : Z) (x : event * list output) : Prop :=
  exists a realm pick tmo cid m' rest,
    x = (EAppRequest i a realm pick tmo, OQueue cid m' :: rest) /\
    o_req m' = true /\ o_hbh m' = h /\ o_e2e m' = e.
Definition sent_in (tr : list (event * list output)) (i : nat) (h e : Z) : Prop :=
  exists x, List.In x tr /\ req_item i h e x.

Lemma sent_in_mono tr tr' i h e : sent_in tr i h e -> sent_in (tr ++ tr')%list i h e.
Proof. intros (x & Hx & Hr). exists x. split; [apply List.in_or_app; left; exact Hx|exact Hr]. Qed.

(* per step: an answer handed out was filed for that application when the event started; an entry
   filed after the step was filed before it, or the step is the send_request that files it *)
Lemma step_aw_origin n ds e n' outs :
  step n ds e = (n', outs) ->
  (forall o i m, List.In o outs -> ans_of o = Some (i, m) -> List.In (m_hbh m, m_e2e m, i) (n_app_waiting n)) /\
  (forall h e0 i, List.In (h, e0, i) (n_app_waiting n') ->
                  List.In (h, e0, i) (n_app_waiting n) \/ req_item i h e0 (e, outs)).
Proof.
  intros Hs.
  assert (Hcase : (exists i a realm pick tmo, e = EAppRequest i a realm pick tmo) \/
                  (forall i a realm pick tmo, e <> EAppRequest i a realm pick tmo)).
  { destruct e; try (right; intros; discriminate). left. eauto 6. }
  destruct Hcase as [(i & a & realm & pick & tmo & ->)|Hnq].
  - split.
    + intros o i0 m Ho E. exfalso. pose proof (step_req_noans _ _ _ _ _ _ _ _ _ Hs) as N.
      rewrite List.Forall_forall in N. eapply noans_ans_of; [apply N, Ho|exact E].
    + intros h e0 j Hin.
      destruct (step_req_full _ _ _ _ _ _ _ _ _ Hs) as [[_ Haw]|(cid & c & m' & rest & -> & _ & Hq & _ & _ & _ & _ & Haw)].
      * left. rewrite Haw in Hin. exact Hin.
      * rewrite Haw in Hin. apply List.in_app_or in Hin. destruct Hin as [Hin|[Hin|[]]].
        -- left. apply List.filter_In in Hin. apply Hin.
        -- right. injection Hin as <- <- <-. exists a, realm, pick, tmo, cid, m', rest. repeat split. exact Hq.
  - pose proof (step_h n ds e Hnq) as (A1 & A2 & _). rewrite Hs in A1, A2. cbn [fst snd] in A1, A2.
    split; [exact A2|]. intros h e0 i Hin. left. apply A1, Hin.
Qed.

Lemma aw_sent evs : forall n past,
  (forall h e i, List.In (h, e, i) (n_app_waiting n) -> sent_in past i h e) ->
  forall tr1 x tr2, trace n evs = (tr1 ++ x :: tr2)%list ->
  forall o i m, List.In o (snd x) -> ans_of o = Some (i, m) -> sent_in (past ++ tr1)%list i (m_hbh m) (m_e2e m).
Proof.
  induction evs as [|de r IH]; intros n past Hinv tr1 x tr2 Htr o i m Ho E.
  - destruct tr1; discriminate.
  - rewrite trace_cons in Htr. destruct (step n (fst de) (snd de)) as [n' outs] eqn:Hs. cbn [fst snd] in Htr.
    destruct (step_aw_origin _ _ _ _ _ Hs) as [A B].
    destruct tr1 as [|y tr1].
    + cbn [List.app] in Htr. injection Htr as <- _. cbn [snd] in Ho.
      rewrite List.app_nil_r. apply Hinv. eapply A; eassumption.
    + cbn [List.app] in Htr. injection Htr as <- Htr.
      assert (Hinv' : forall h e i0, List.In (h, e, i0) (n_app_waiting n') ->
                                     sent_in (past ++ [(snd de, outs)])%list i0 h e).
      { intros h e i0 Hin. destruct (B h e i0 Hin) as [Hin0|Hreq].
        - apply sent_in_mono, Hinv, Hin0.
        - exists (snd de, outs). split; [apply List.in_or_app; right; left; reflexivity|exact Hreq]. }
      pose proof (IH n' _ Hinv' tr1 x tr2 Htr o i m Ho E) as R.
      rewrite <- List.app_assoc in R. exact R.
Qed.

(* a well-formed initial node has no pending application request *)
Lemma wf_init_app_waiting n0 : NodeD.wf_init n0 -> n_app_waiting n0 = [].
Proof. intros H. apply H. Qed.

(* C10 (history): an answer handed to application i (to its blocked caller, or as unexpected) is preceded by a send_request of the SAME application i whose step handed a request with the answer's hop-by-hop and end-to-end ids to a connection *)
Theorem C10_history_answer_to_sender n0 evs tr1 e outs tr2 i m :
  n_app_waiting n0 = [] ->
  trace n0 evs = (tr1 ++ (e, outs) :: tr2)%list ->
  List.In (OAnswerTo i m) outs \/ List.In (OUnexpected i m) outs ->
  exists a realm pick tmo cid m' rest,
    List.In (EAppRequest i a realm pick tmo, OQueue cid m' :: rest) tr1 /\
    o_req m' = true /\ o_hbh m' = m_hbh m /\ o_e2e m' = m_e2e m.
Proof.
  intros H0 Htr Hans.
  assert (Hinv : forall h e0 j, List.In (h, e0, j) (n_app_waiting n0) -> sent_in [] j h e0).
  { intros h e0 j Hin. rewrite H0 in Hin. destruct Hin. }
  assert (R : sent_in ([] ++ tr1)%list i (m_hbh m) (m_e2e m)).
  { destruct Hans as [Ho|Ho].
    - eapply (aw_sent evs n0 [] Hinv tr1 (e, outs) tr2 Htr (OAnswerTo i m)); [exact Ho|reflexivity].
    - eapply (aw_sent evs n0 [] Hinv tr1 (e, outs) tr2 Htr (OUnexpected i m)); [exact Ho|reflexivity]. }
  cbn [List.app] in R. destruct R as (x & Hx & a & realm & pick & tmo & cid & m' & rest & -> & Hq & Hh & He).
  exists a, realm, pick, tmo, cid, m', rest. repeat split; assumption.
Qed.

(* C10 (history), from a well-formed initial node *)
Corollary C10_history_answer_to_sender_wf n0 evs tr1 e outs tr2 i m :
  NodeD.wf_init n0 ->
  trace n0 evs = (tr1 ++ (e, outs) :: tr2)%list ->
  List.In (OAnswerTo i m) outs \/ List.In (OUnexpected i m) outs ->
  exists a realm pick tmo cid m' rest,
    List.In (EAppRequest i a realm pick tmo, OQueue cid m' :: rest) tr1 /\
    o_req m' = true /\ o_hbh m' = m_hbh m /\ o_e2e m' = m_e2e m.
Proof. intros Hw. apply C10_history_answer_to_sender, wf_init_app_waiting, Hw. Qed.

(* ================================================================================== *)
(* 5. C10: an answer is handed out at most once per request                            *)
(* ================================================================================== *)
(* the (hop-by-hop, end-to-end) pair of the request a history item sends, if it is a routed send_request *)
Definition req_key_of (x : event * list output) : option (Z * Z) :=
  match x with
  | (EAppRequest _ _ _ _ _, OQueue _ m' :: _) => Some (o_hbh m', o_e2e m')
  | _ => None
  end.
(* the pairs of the application requests the node sent along the history, in order *)
Definition req_keys (tr : list (event * list output)) : list (Z * Z) :=
  List.flat_map (fun x => match req_key_of x with Some k => [k] | None => [] end) tr.
Definition creq (h e : Z) (x : event * list output) : nat :=
  match req_key_of x with Some (h', e') => if (h' =? h) && (e' =? e) then 1%nat else 0%nat | None => 0%nat end.
(* number of application requests sent with the pair (h, e) / of answers handed out with it *)
Fixpoint nreq (h e : Z) (tr : list (event * list output)) : nat :=
  match tr with [] => 0%nat | x :: r => (creq h e x + nreq h e r)%nat end.
Fixpoint nans (h e : Z) (tr : list (event * list output)) : nat :=
  match tr with [] => 0%nat | x :: r => (cnta h e (snd x) + nans h e r)%nat end.

Lemma nans_concat h e tr : nans h e tr = cnta h e (List.concat (List.map snd tr)).
Proof.
  induction tr as [|x r IH]; [reflexivity|]. cbn [nans List.map List.concat]. rewrite cnta_app, IH. reflexivity.
Qed.

(* per step and pair: answers handed out plus entries left <= entries before plus requests sent *)
Lemma step_count n ds e n' outs h e0 :
  step n ds e = (n', outs) -> (cnta h e0 outs + cntw h e0 n' <= cntw h e0 n + creq h e0 (e, outs))%nat.
Proof.
  intros Hs.
  assert (Hcase : (exists i a realm pick tmo, e = EAppRequest i a realm pick tmo) \/
                  (forall i a realm pick tmo, e <> EAppRequest i a realm pick tmo)).
  { destruct e; try (right; intros; discriminate). left. eauto 6. }
  destruct Hcase as [(i & a & realm & pick & tmo & ->)|Hnq].
  - rewrite (cnta_noans _ _ _ (step_req_noans _ _ _ _ _ _ _ _ _ Hs)).
    destruct (step_req_full _ _ _ _ _ _ _ _ _ Hs) as [[_ Haw]|(cid & c & m' & rest & -> & _ & _ & _ & _ & _ & _ & Haw)].
    + unfold cntw. rewrite Haw. lia.
    + unfold cntw, creq. cbn [req_key_of]. rewrite Haw, List.filter_app, List.app_length.
      cbn [List.filter kmatch]. destruct ((o_hbh m' =? h) && (o_e2e m' =? e0)) eqn:E; cbn [List.length].
      * apply andb_true_iff in E. destruct E as [E1 E2]. apply Z.eqb_eq in E1. apply Z.eqb_eq in E2. subst h e0.
        rewrite filter_filter_neg. cbn [List.length]. lia.
      * pose proof (filter_filter_le (kmatch h e0) (fun x => negb (kmatch (o_hbh m') (o_e2e m') x)) (n_app_waiting n)). lia.
  - pose proof (step_h n ds e Hnq) as (_ & _ & A3). rewrite Hs in A3. cbn [fst snd] in A3.
    pose proof (A3 h e0). lia.
Qed.

Lemma run_count h e evs : forall n,
  (nans h e (trace n evs) + cntw h e (fst (run n evs)) <= cntw h e n + nreq h e (trace n evs))%nat.
Proof.
  induction evs as [|de r IH]; intros n; [cbn; lia|].
  rewrite trace_cons, NodeD.run_cons. cbn [nans nreq snd].
  destruct (step n (fst de) (snd de)) as [n' outs] eqn:Hs. cbn [fst snd].
  pose proof (step_count _ _ _ _ _ h e Hs). pose proof (IH n'). lia.
Qed.

(* C10 (history): for every (hop-by-hop, end-to-end) pair, the node hands out no more answers with that pair than the applications sent requests with it *)
Theorem C10_history_answers_le_requests n0 evs h e :
  n_app_waiting n0 = [] -> (nans h e (trace n0 evs) <= nreq h e (trace n0 evs))%nat.
Proof.
  intros H0. pose proof (run_count h e evs n0) as H. unfold cntw in H at 2. rewrite H0 in H. cbn in H. lia.
Qed.

Definition key_eqb (h e : Z) (k : Z * Z) : bool := (fst k =? h) && (snd k =? e).

Lemma nreq_keys h e tr : nreq h e tr = List.length (List.filter (key_eqb h e) (req_keys tr)).
Proof.
  induction tr as [|x r IH]; [reflexivity|]. cbn [nreq req_keys List.flat_map].
  rewrite List.filter_app, List.app_length. fold (req_keys r). rewrite <- IH. unfold creq.
  destruct (req_key_of x) as [[h' e']|]; [|reflexivity]. cbn [List.filter]. unfold key_eqb at 1. cbn [fst snd].
  destruct ((h' =? h) && (e' =? e)); reflexivity.
Qed.

Lemma nodup_count h e (l : list (Z * Z)) : List.NoDup l -> (List.length (List.filter (key_eqb h e) l) <= 1)%nat.
Proof.
  induction 1 as [|k l Hk _ IH]; [cbn; lia|]. cbn [List.filter].
  destruct (key_eqb h e k) eqn:E; [|exact IH]. cbn [List.length].
  assert (Hnil : List.filter (key_eqb h e) l = []).
  { destruct (List.filter (key_eqb h e) l) as [|k' l'] eqn:F; [reflexivity|]. exfalso.
    assert (Hin : List.In k' (List.filter (key_eqb h e) l)) by (rewrite F; left; reflexivity).
    apply List.filter_In in Hin. destruct Hin as [Hin E'].
    assert (k' = k).
    { destruct k as [a b], k' as [a' b']. unfold key_eqb in E, E'. cbn [fst snd] in E, E'.
      apply andb_true_iff in E. apply andb_true_iff in E'. destruct E as [E1 E2], E' as [E3 E4].
      apply Z.eqb_eq in E1, E2, E3, E4. congruence. }
    subst k'. contradiction. }
  rewrite Hnil. cbn. lia.
Qed.

(* C10 (history): when the pairs of the requests the node sent are pairwise distinct, at most one answer with a given pair is handed to an application in the whole history (copies of an answer are ignored) *)
Theorem C10_history_answer_once n0 evs h e :
  n_app_waiting n0 = [] -> List.NoDup (req_keys (trace n0 evs)) ->
  (List.length (List.filter (ans_key h e) (List.concat (List.map snd (trace n0 evs)))) <= 1)%nat.
Proof.
  intros H0 Hnd. fold (cnta h e (List.concat (List.map snd (trace n0 evs)))). rewrite <- nans_concat.
  pose proof (C10_history_answers_le_requests n0 evs h e H0) as H. rewrite nreq_keys in H.
  pose proof (nodup_count h e _ Hnd). lia.
Qed.

(* ================================================================================== *)
(* 6. C10: application requests go to ready connections only                            *)
(* ================================================================================== *)
(* C10 (history): at every send_request of the history, either nothing but NotRoutable happens, or the request is the first output, it is handed to a connection that is ready in the state in which the event starts, and everything after it is the I/O thread's own doing (its CER / DWR, writes, closes, dials) *)
Theorem C10_history_requests_only_to_ready n0 evs nk i a realm pick tmo outs :
  List.In (nk, (EAppRequest i a realm pick tmo, outs)) (strace n0 evs) ->
  outs = [ONotRoutable] \/
  exists cid c m' rest,
    outs = OQueue cid m' :: rest /\ List.Forall (sysout (pmap nk)) rest /\
    o_req m' = true /\ o_cmd m' = o_cmd a /\ o_tag m' = o_tag a /\
    get_conn nk cid = Some c /\ is_ready_state (c_state c) = true.
Proof.
  intros Hin. destruct (strace_In _ _ _ _ _ Hin) as (evs1 & ds & evs2 & _ & _ & Ho).
  destruct (step nk ds (EAppRequest i a realm pick tmo)) as [n' outs'] eqn:Hs. cbn [snd] in Ho. subst outs'.
  destruct (step_req_full _ _ _ _ _ _ _ _ _ Hs) as [[-> _]|(cid & c & m' & rest & H1 & H2 & H3 & H4 & H5 & H6 & H7 & _)];
    [left; reflexivity|right].
  exists cid, c, m', rest. repeat (split; [assumption|]). exact H7.
Qed.

(* C10 (history): whatever is handed to a connection during a send_request is a request; unless it is one of the I/O thread's own CER / DWR, the connection is ready in the state in which the event starts *)
Corollary C10_history_requests_only_to_ready_in n0 evs nk i a realm pick tmo outs cid m' :
  List.In (nk, (EAppRequest i a realm pick tmo, outs)) (strace n0 evs) ->
  List.In (OQueue cid m') outs ->
  o_req m' = true /\
  (own_req m' \/ exists c, get_conn nk cid = Some c /\ is_ready_state (c_state c) = true).
Proof.
  intros Hin Hq. destruct (C10_history_requests_only_to_ready _ _ _ _ _ _ _ _ _ Hin) as [->|H].
  - destruct Hq as [Hq|[]]. discriminate.
  - destruct H as (cid0 & c & m0 & rest & -> & Hr & H3 & _ & _ & H6 & H7). destruct Hq as [Hq|Hq].
    + injection Hq as <- <-. split; [exact H3|]. right. exists c. split; assumption.
    + rewrite List.Forall_forall in Hr. apply Hr in Hq. cbn [sysout] in Hq. split; [apply Hq|left; exact Hq].
Qed.

(* ================================================================================== *)
(* 7. C12: after a DPR the connection never becomes ready again                         *)
(* ================================================================================== *)
(* connection i, if it still exists, is past the capabilities exchange (at_conn also says that the
   number i has been given out: new connections get other numbers, so "connection i" stays the same) *)
Definition live (i : nat) : node -> Prop := NodeD.at_conn i (fun c => NodeD.live_st (c_state c)).

Lemma astep_live md i n n' : NodeD.astep md n n' -> NodeD.P_ids n -> live i n -> live i n'.
Proof.
  intros H Hi Hk. destruct H; try exact Hk.
  - apply NodeD.at_conn_upd; [apply NodeD.soft_keeps, H| |exact Hk]. intros c _ Q.
    destruct (H c) as [_ [_ [_ [_ D]]]]. rewrite D. exact Q.
  - apply NodeD.at_conn_upd; [apply NodeD.isoft_keeps, H| |exact Hk]. intros c Hc Q.
    destruct (H0 c Hc) as [A|[A1 [A2 _]]]; [rewrite A; exact Q|]. split; [exact A1|].
    intro E. destruct Q as [Q _]. apply Q. apply A2; [exact E|apply Hi].
  - apply NodeD.at_conn_upd; [apply NodeD.keeps_id_name_fn| |exact Hk]. intros c _ Q.
    unfold NodeD.name_fn. destruct (String.eqb _ _); exact Q.
  - apply NodeD.at_conn_upd; [apply NodeD.keeps_id_host| |exact Hk]. intros c _ Q. exact Q.
  - eapply NodeD.at_conn_remove; eassumption.
  - apply NodeD.at_conn_misc; assumption.
  - apply NodeD.at_conn_accept; assumption.
  - apply NodeD.at_conn_dial; assumption.
Qed.

Lemma trans_W_live md i n n' : NodeD.trans md n n' -> NodeD.W n -> live i n -> NodeD.W n' /\ live i n'.
Proof.
  intros Ht HW Hl. apply (NodeD.trans_inv md (fun x => NodeD.W x /\ live i x)) with (n := n); [|exact Ht|split; assumption].
  intros a b Hab [A B]. split; [eapply NodeD.astep_W; eassumption|]. eapply astep_live; [exact Hab|apply A|exact B].
Qed.

(* a connection on its way out: DISCONNECTING, CLOSING or CLOSED *)
Definition dying (c : conn) : Prop := NodeD.live_st (c_state c) /\ is_ready_state (c_state c) = false.

Lemma dying_cases c : dying c <-> (c_state c = SDisconnecting \/ c_state c = SClosing \/ c_state c = SClosed).
Proof.
  unfold dying, NodeD.live_st. split.
  - intros [[H1 H2] H3]. destruct (c_state c); cbn in H3; try discriminate; auto; congruence.
  - intros [H|[H|H]]; rewrite H; (split; [split; discriminate|reflexivity]).
Qed.

(* the I/O thread on its own (no escape clause of NodeA's `evolves`) keeps a dying connection dying *)
Lemma dying_ev0 n n' i :
  NodeD.W n -> NodeD.trans NodeD.MAny n n' -> NodeA.evolves NodeA.NoP NodeA.NoP NodeA.NoP n n' ->
  NodeD.at_conn i dying n -> NodeD.W n' /\ NodeD.at_conn i dying n'.
Proof.
  intros HW Ht Hev [Hlt Hd].
  assert (Hl : live i n) by (split; [exact Hlt|intros c' Hc'; apply (Hd c' Hc')]).
  destruct (trans_W_live _ _ _ _ Ht HW Hl) as [HW' [Hlt' Hl']]. split; [exact HW'|]. split; [exact Hlt'|].
  intros c' Hc'. split; [apply Hl', Hc'|].
  destruct Hev as [_ [_ Hev]]. destruct (Hev i c' Hc') as [Hnew|[c [Hc [_ [Hr _]]]]]; [lia|].
  destruct (is_ready_state (c_state c')) eqn:E; [|reflexivity].
  destruct (Hr eq_refl) as [Hr'|[]]. destruct (Hd c Hc) as [_ Hd']. congruence.
Qed.

(* every event keeps a dying connection dying (C06_cea_never_revives for "not ready", NodeD's
   atomic transitions for "neither CONNECTING nor CONNECTED") *)
Lemma dying_step n ds e i :
  NodeD.W n -> NodeD.at_conn i dying n ->
  NodeD.W (fst (step n ds e)) /\ NodeD.at_conn i dying (fst (step n ds e)).
Proof.
  intros HW [Hlt Hd].
  assert (Ht : NodeD.trans NodeD.MAny n (fst (step n ds e))).
  { apply NodeD.step_t; [apply NodeD.ev_pre_any|apply NodeD.T_refl]. }
  assert (Hl : live i n) by (split; [exact Hlt|intros c' Hc'; apply (Hd c' Hc')]).
  destruct (trans_W_live _ _ _ _ Ht HW Hl) as [HW' [Hlt' Hl']]. split; [exact HW'|]. split; [exact Hlt'|].
  intros c' Hc'. split; [apply Hl', Hc'|].
  destruct (NodeA.ev_step n ds e) as (P & Q & R & _ & _ & Hev).
  destruct (Hev i c' Hc') as [Hnew|[c [Hc _]]]; [lia|].
  eapply NodeA.C06_cea_never_revives; [exact Hlt|exact Hc| |exact Hc'].
  right. apply dying_cases, Hd, Hc.
Qed.

(* a Disconnect-Peer-Request that receive_message hands to receive_dpr: no required AVP missing, not
   flagged as a retransmission *)
Definition plain_dpr (m : msg) : Prop := m_cmd m = DP /\ m_req m = true /\ m_missing m = [] /\ m_t m = false.

Lemma receive_plain_dpr n cid m :
  plain_dpr m ->
  exists nr, receive_message n cid m = recv_dpr nr cid m /\ n_conns nr = n_conns n /\ n_next_cid nr = n_next_cid n.
Proof.
  intros (Hc & Hr & Hm & Ht). unfold receive_message. cbv zeta. rewrite Hr, Hm, Ht, Hc.
  destruct (m_origin m); destruct (g_validate _); cbv beta iota delta [andb];
    (eexists; split; [reflexivity|split; reflexivity]).
Qed.

(* the reader thread, given a plain DPR on a connection past the capabilities exchange: afterwards the
   connection is gone or dying *)
Lemma dispatch_plain_dpr n cid m :
  NodeD.W n -> live cid n -> plain_dpr m ->
  NodeD.W (fst (dispatch n cid m)) /\ NodeD.at_conn cid dying (fst (dispatch n cid m)).
Proof.
  intros HW Hl Hp.
  assert (Ht : NodeD.trans NodeD.MAny n (fst (dispatch n cid m))).
  { apply NodeD.dispatch_t; [|apply NodeD.T_refl]. split; [intros []|].
    intros E. destruct Hp as [Hc _]. rewrite Hc in E. discriminate. }
  destruct (trans_W_live _ _ _ _ Ht HW Hl) as [HW' [Hlt' Hl']]. split; [exact HW'|]. split; [exact Hlt'|].
  clear Hl' Ht HW'. unfold dispatch. destruct (get_conn n cid) as [c2|] eqn:Ec2.
  - destruct (gate_passes c2 m) eqn:Eg.
    + destruct (receive_plain_dpr n cid m Hp) as (nr & -> & Ecs & _). intros c' Hc'.
      assert (Hc2 : get_conn nr cid = Some c2) by (unfold get_conn; rewrite Ecs; exact Ec2).
      destruct (recv_dpr nr cid m) as [n' o] eqn:Er.
      destruct (C12_dpr _ _ _ _ _ _ Hc2 Er) as (_ & (c'' & Hc'' & Hs & Hnr & _) & _).
      cbn [fst] in Hc'. rewrite Hc'' in Hc'. injection Hc' as <-.
      apply dying_cases. left. exact Hs.
    + cbn [fst]. intros c' Hc'. rewrite Ec2 in Hc'. injection Hc' as <-.
      destruct Hl as [_ Hl]. specialize (Hl c2 Ec2). destruct Hl as [Hl1 Hl2].
      apply dying_cases. unfold gate_passes in Eg.
      destruct (c_state c2); try discriminate Eg; try congruence; auto.
  - cbn [fst]. intros c' Hc'. rewrite Ec2 in Hc'. discriminate.
Qed.

(* the whole macro step of reading a plain DPR from a ready connection *)
Lemma dpr_step n ds cid m c :
  NodeD.W n -> get_conn n cid = Some c -> is_ready_state (c_state c) = true -> plain_dpr m ->
  NodeD.W (fst (step n ds (ERecv cid [m]))) /\ NodeD.at_conn cid dying (fst (step n ds (ERecv cid [m]))).
Proof.
  intros HW Hc Hr Hp.
  assert (Hl : live cid n).
  { split.
    - destruct HW as [[_ Hlt] _]. destruct (NodeD.get_conn_some _ _ _ Hc) as [Hin <-]. apply Hlt, Hin.
    - intros c' Hc'. rewrite Hc in Hc'. injection Hc' as <-.
      destruct (c_state c); try discriminate Hr; split; discriminate. }
  cbn [step]. rewrite Hc.
  pose proof (NodeD.io_iteration_t NodeD.MAny n n ds (NodeD.T_refl _ _)) as T1.
  destruct (io_iteration n ds) as [[n1 o1] ds1]. cbn [fst] in T1.
  assert (T2 : NodeD.trans NodeD.MAny n (upd_last_read n1 cid)).
  { unfold upd_last_read. eapply NodeD.t_a; [apply NodeD.A_soft|exact T1]. intros c0. repeat split. }
  destruct (trans_W_live _ _ _ _ T2 HW Hl) as [HW2 Hl2].
  cbn [dispatch_all].
  pose proof (dispatch_plain_dpr _ cid m HW2 Hl2 Hp) as [HW3 Hd3].
  destruct (dispatch (upd_last_read n1 cid) cid m) as [n3 o3]. cbn [fst] in HW3, Hd3.
  pose proof (NodeD.settle'_t NodeD.MAny n3 n3 ds1 (NodeD.T_refl _ _)) as T4.
  pose proof (NodeA.ev_settle' n3 ds1) as E4.
  destruct (settle' n3 ds1) as [n4 o4]. cbn [fst] in *.
  exact (dying_ev0 _ _ _ HW3 T4 E4 Hd3).
Qed.

(* along a run: every later state, and the final one *)
Lemma dying_run evs : forall n cid,
  NodeD.W n -> NodeD.at_conn cid dying n ->
  (forall nk e outs, List.In (nk, (e, outs)) (strace n evs) -> NodeD.W nk /\ NodeD.at_conn cid dying nk) /\
  (NodeD.W (fst (run n evs)) /\ NodeD.at_conn cid dying (fst (run n evs))).
Proof.
  induction evs as [|de r IH]; intros n cid HW Hd.
  - split; [intros nk e outs []|]. split; assumption.
  - destruct (dying_step n (fst de) (snd de) cid HW Hd) as [HW' Hd'].
    destruct (IH _ cid HW' Hd') as [I1 I2]. split.
    + intros nk e outs Hin. rewrite strace_cons in Hin. destruct Hin as [Hin|Hin].
      * injection Hin as <- _ _. split; assumption.
      * eapply I1, Hin.
    + rewrite NodeD.run_cons. exact I2.
Qed.

Lemma run_single n de : fst (run n [de]) = fst (step n (fst de) (snd de)).
Proof. rewrite NodeD.run_cons. reflexivity. Qed.

(* the state right after the DPR event *)
Lemma after_dpr n0 evs1 ds cid dpr c :
  NodeD.wf_init n0 ->
  get_conn (fst (run n0 evs1)) cid = Some c -> is_ready_state (c_state c) = true -> plain_dpr dpr ->
  NodeD.W (fst (run n0 (evs1 ++ [(ds, ERecv cid [dpr])])%list)) /\
  NodeD.at_conn cid dying (fst (run n0 (evs1 ++ [(ds, ERecv cid [dpr])])%list)).
Proof.
  intros Hw Hc Hr Hp. rewrite run_app, run_single. cbn [fst snd].
  apply (dpr_step _ ds cid dpr c); try assumption.
  apply (NodeD.reach_W n0). exists evs1. split; [exact Hw|reflexivity].
Qed.

(* ---- nothing is queued on a dying connection ---------------------------------------------- *)
(* the output hands nothing to connection cid *)
Definition noq (cid : nat) (o : output) : Prop := match o with OQueue k _ => k <> cid | _ => True end.
(* a result in which connection cid is still gone or dying and nothing was handed to it *)
Definition dq (cid : nat) (r : node * list output) : Prop :=
  NodeD.W (fst r) /\ NodeD.at_conn cid dying (fst r) /\ List.Forall (noq cid) (snd r).

Lemma dq_of cid n r :
  NodeD.W n -> NodeD.at_conn cid dying n ->
  NodeD.trans NodeD.MAny n (fst r) -> NodeA.evolves NodeA.NoP NodeA.NoP NodeA.NoP n (fst r) ->
  List.Forall (noq cid) (snd r) -> dq cid r.
Proof.
  intros HW Hd Ht He Ho. destruct (dying_ev0 _ _ _ HW Ht He Hd) as [HW' Hd']. split; [exact HW'|]. split; assumption.
Qed.

Lemma dq_app cid o1 n2 o2 : List.Forall (noq cid) o1 -> dq cid (n2, o2) -> dq cid (n2, (o1 ++ o2)%list).
Proof.
  intros H1 (A & B & C). cbn [fst snd] in *. split; [exact A|]. split; [exact B|]. cbn [snd].
  apply List.Forall_app. split; assumption.
Qed.

Lemma close_conn_noq cid n k r : List.Forall (noq cid) (snd (close_conn n k r)).
Proof. unfold close_conn. destruct (get_conn n k); cbn [snd]; repeat constructor. Qed.

Lemma queued_nil_noq cid l : NodeA.queued l = [] -> List.Forall (noq cid) l.
Proof.
  induction l as [|o l IH]; intros H; [constructor|]. unfold NodeA.queued in H. cbn [List.flat_map] in H.
  destruct o; cbn [List.app] in H; try discriminate H; (constructor; [exact I|apply IH, H]).
Qed.

Lemma check_timers_dq cid n c :
  NodeD.W n -> NodeD.at_conn cid dying n -> dq cid (check_timers n c).
Proof.
  intros HW Hd.
  apply (dq_of cid n); [exact HW|exact Hd|apply NodeD.check_timers_t, NodeD.T_refl|apply NodeA.ev_check_timers|].
  unfold check_timers. destruct (n_stopping n); [constructor|].
  destruct (get_conn n c) as [cn|] eqn:Ec; [|constructor].
  destruct (c_state cn) eqn:Es; try constructor;
    match goal with |- context [if ?b then _ else _] => destruct b end; try constructor; try apply close_conn_noq.
  destruct (NodeA.send_dwr_spec n c) as (m & Ho & _). rewrite Ho. constructor; [|constructor].
  cbn [noq]. intros ->. destruct Hd as [_ Hd]. apply Hd, dying_cases in Ec. rewrite Es in Ec.
  destruct Ec as [E|[E|E]]; discriminate E.
Qed.

Lemma timers_all_dq cid l : forall n,
  NodeD.W n -> NodeD.at_conn cid dying n -> dq cid (timers_all n l).
Proof.
  induction l as [|c r IH]; intros n HW Hd; cbn [timers_all]; [split; [exact HW|split; [exact Hd|constructor]]|].
  pose proof (check_timers_dq cid n c HW Hd) as (A & B & C). destruct (check_timers n c) as [n1 o1]. cbn [fst snd] in *.
  pose proof (IH n1 A B) as G. destruct (timers_all n1 r) as [n2 o2]. apply dq_app; assumption.
Qed.

Lemma flush_dq cid n : NodeD.W n -> NodeD.at_conn cid dying n -> dq cid (flush n).
Proof.
  intros HW Hd.
  apply (dq_of cid n); [exact HW|exact Hd|apply NodeD.flush_t, NodeD.T_refl|apply NodeA.ev_flush|].
  apply queued_nil_noq. unfold flush. apply NodeA.flush_conns_queued.
Qed.

Lemma connect_to_peer_dq cid n name h res :
  NodeD.W n -> NodeD.at_conn cid dying n -> dq cid (connect_to_peer n name h res).
Proof.
  intros HW Hd.
  apply (dq_of cid n); [exact HW|exact Hd|apply NodeD.connect_to_peer_t, NodeD.T_refl|apply NodeA.ev_connect_to_peer|].
  unfold connect_to_peer. destruct (get_peer n name) as [p|]; [|constructor].
  destruct (p_conn p); [constructor|]. destruct (negb (p_has_addr p)); [constructor|].
  cbv zeta. destruct res.
  - match goal with |- context [send_cer ?x ?k] =>
      destruct (NodeA.send_cer_spec x k) as (m & Ho & _); destruct (send_cer x k) as [n5 o] end.
    cbn [snd] in *. subst o. constructor; [exact I|]. constructor; [|constructor].
    cbn [noq]. destruct Hd as [Hlt _]. lia.
  - match goal with |- context [close_conn ?x ?k ?r] =>
      pose proof (close_conn_noq cid x k r) as Ho; destruct (close_conn x k r) as [n4 o] end.
    cbn [snd] in *. constructor; [exact I|exact Ho].
  - cbn [snd]. constructor; [exact I|constructor].
Qed.

Lemma reconnect_all_dq cid names : forall n ds,
  NodeD.W n -> NodeD.at_conn cid dying n -> dq cid (fst (reconnect_all n names ds)).
Proof.
  induction names as [|nm r IH]; intros n ds HW Hd; cbn [reconnect_all];
    [split; [exact HW|split; [exact Hd|constructor]]|].
  destruct (get_peer n nm) as [p|]; [|apply IH; assumption].
  destruct (wants_reconnect n p && p_has_addr p); [|apply IH; assumption].
  destruct ds as [|[h0 res] dr].
  - pose proof (connect_to_peer_dq cid n nm 0 DialOk HW Hd) as (A & B & C).
    destruct (connect_to_peer n nm 0 DialOk) as [n1 o1]. cbn [fst snd] in *.
    pose proof (IH n1 [] A B) as G. destruct (reconnect_all n1 r []) as [[n2 o2] d2]. cbn [fst] in *.
    apply dq_app; assumption.
  - pose proof (connect_to_peer_dq cid n nm h0 res HW Hd) as (A & B & C).
    destruct (connect_to_peer n nm h0 res) as [n1 o1]. cbn [fst snd] in *.
    pose proof (IH n1 dr A B) as G. destruct (reconnect_all n1 r dr) as [[n2 o2] d2]. cbn [fst] in *.
    apply dq_app; assumption.
Qed.

Lemma io_iteration_dq cid n ds :
  NodeD.W n -> NodeD.at_conn cid dying n -> dq cid (fst (io_iteration n ds)).
Proof.
  intros HW Hd. unfold io_iteration.
  pose proof (timers_all_dq cid (List.map c_id (n_conns n)) n HW Hd) as (A & B & C).
  destruct (timers_all n (List.map c_id (n_conns n))) as [n1 o1]. cbn [fst snd] in *.
  pose proof (reconnect_all_dq cid (List.map p_name (n_peers n1)) n1 ds A B) as G.
  destruct (reconnect_all n1 (List.map p_name (n_peers n1)) ds) as [[n2 o2] ds']. cbn [fst] in *.
  apply dq_app; [exact C|]. destruct G as (G1 & G2 & G3). cbn [fst snd] in *.
  split; [|split; [|exact G3]]; cbn [fst].
  - eapply NodeD.astep_W; [apply (NodeD.A_time NodeD.MAny)|exact G1].
  - exact G2.
Qed.

Lemma settle'_dq cid n ds :
  NodeD.W n -> NodeD.at_conn cid dying n -> dq cid (settle' n ds).
Proof.
  intros HW Hd. unfold settle', settle.
  pose proof (flush_dq cid n HW Hd) as (A1 & B1 & C1). destruct (flush n) as [n1 o1]. cbn [fst snd] in *.
  pose proof (io_iteration_dq cid n1 ds A1 B1) as (A2 & B2 & C2).
  destruct (io_iteration n1 ds) as [[n2 o2] ds']. cbn [fst snd] in *.
  pose proof (flush_dq cid n2 A2 B2) as G3. destruct (flush n2) as [n3 o3].
  apply dq_app; [exact C1|]. apply dq_app; assumption.
Qed.

Lemma settle_app'_dq cid n ds :
  NodeD.W n -> NodeD.at_conn cid dying n -> dq cid (settle_app' n ds).
Proof.
  intros HW Hd. unfold settle_app', settle_app.
  pose proof (io_iteration_dq cid n ds HW Hd) as (A2 & B2 & C2).
  destruct (io_iteration n ds) as [[n2 o2] ds']. cbn [fst snd] in *.
  pose proof (flush_dq cid n2 A2 B2) as G3. destruct (flush n2) as [n3 o3].
  apply dq_app; assumption.
Qed.

(* Application.send_request: NotRoutable, or the request followed by the settling of the I/O thread from
   a state n4 that the node reaches by atomic transitions which leave the connection states alone *)
Lemma step_req_decomp n ds i a realm pick tmo :
  snd (step n ds (EAppRequest i a realm pick tmo)) = [ONotRoutable] \/
  exists cid m' n4,
    snd (step n ds (EAppRequest i a realm pick tmo)) = OQueue cid m' :: snd (settle_app' n4 ds) /\
    NodeD.trans NodeD.MAny n n4 /\ NodeA.evolves NodeA.NoP NodeA.NoP NodeA.NoP n n4.
Proof.
  rewrite step_app_request.
  assert (T0 : NodeD.trans NodeD.MAny n (fst (e2e_prep n a)) /\
               NodeA.evolves NodeA.NoP NodeA.NoP NodeA.NoP n (fst (e2e_prep n a))).
  { unfold e2e_prep. destruct (o_e2e a =? 0); cbn [fst].
    - split; [eapply NodeD.t_a; [apply NodeD.A_misc; lia|apply NodeD.T_refl]|apply NodeA.ev_same; reflexivity].
    - split; [apply NodeD.T_refl|apply NodeA.ev_refl]. }
  destruct (e2e_prep n a) as [n0 e2e]. cbn [fst snd] in *. destruct T0 as [T0 E0]. unfold req_core.
  destruct (route_request n0 i realm) as [usable|]; [|left; reflexivity].
  destruct usable as [|p0 us]; [left; reflexivity|].
  destruct (choose (p0 :: us) pick) as [p|]; [|left; reflexivity].
  destruct (p_conn p) as [cid|]; [|left; reflexivity].
  destruct (get_conn n0 cid) as [c|]; [|left; reflexivity].
  right. exists cid.
  assert (Hsoft : forall (n1 : node) (f : conn -> conn),
             (forall x, c_id (f x) = c_id x /\ c_recv (f x) = c_recv x /\ c_node_name (f x) = c_node_name x /\
                        c_host (f x) = c_host x /\ c_state (f x) = c_state x) ->
             NodeD.trans NodeD.MAny n n1 /\ NodeA.evolves NodeA.NoP NodeA.NoP NodeA.NoP n n1 ->
             NodeD.trans NodeD.MAny n (set_conns n1 (upd_conn (n_conns n1) cid f)) /\
             NodeA.evolves NodeA.NoP NodeA.NoP NodeA.NoP n (set_conns n1 (upd_conn (n_conns n1) cid f))).
  { intros n1 f Hf [T E]. split.
    - eapply NodeD.t_a; [apply NodeD.A_soft; exact Hf|exact T].
    - eapply NodeA.ev_trans; [exact E|]. apply NodeA.ev_upd_keep; [intros x; apply Hf|].
      intros x. destruct (Hf x) as (_ & H2 & _ & _ & H5). split; assumption. }
  assert (Htab : forall (n1 : node) aw l,
             NodeD.trans NodeD.MAny n n1 /\ NodeA.evolves NodeA.NoP NodeA.NoP NodeA.NoP n n1 ->
             let n2 := set_waiting n1 aw (n_peer_waiting n1) (n_origin_waiting n1) (n_sent_answers n1) in
             NodeD.trans NodeD.MAny n (set_apps n2 l) /\
             NodeA.evolves NodeA.NoP NodeA.NoP NodeA.NoP n (set_apps n2 l)).
  { intros n1 aw l [T E] n2. split.
    - eapply NodeD.t_a; [apply NodeD.A_apps|]. eapply NodeD.t_a; [apply NodeD.A_wait|exact T].
      + intros x Hx. exact Hx.
      + left. reflexivity.
    - eapply NodeA.ev_trans; [exact E|]. apply NodeA.ev_same; reflexivity. }
  destruct (o_hbh a =? 0); cbv zeta.
  - match goal with |- context [send_message ?x ?cc ?mm] => set (n3 := x); set (m' := mm) end.
    rewrite (send_message_req_eq n3 cid m' eq_refl).
    match goal with |- context [settle_app' ?x ds] => set (n4 := x) end.
    exists m', n4. split; [destruct (settle_app' n4 ds) as [n5 o5]; reflexivity|].
    unfold n4. apply Hsoft; [intros x; repeat split|]. unfold n3. apply Htab.
    apply Hsoft; [intros x; repeat split|]. split; assumption.
  - match goal with |- context [send_message ?x ?cc ?mm] => set (n3 := x); set (m' := mm) end.
    rewrite (send_message_req_eq n3 cid m' eq_refl).
    match goal with |- context [settle_app' ?x ds] => set (n4 := x) end.
    exists m', n4. split; [destruct (settle_app' n4 ds) as [n5 o5]; reflexivity|].
    unfold n4. apply Hsoft; [intros x; repeat split|]. unfold n3. apply Htab. split; assumption.
Qed.

(* a send_request hands nothing at all to a connection that is gone or dying *)
Lemma step_req_noq n ds i a realm pick tmo cid :
  NodeD.W n -> NodeD.at_conn cid dying n ->
  List.Forall (noq cid) (snd (step n ds (EAppRequest i a realm pick tmo))).
Proof.
  intros HW Hd.
  destruct (step_req_decomp n ds i a realm pick tmo) as [->|(cid0 & m' & n4 & Ho & T & E)];
    [constructor; [exact I|constructor]|].
  rewrite Ho. constructor.
  - cbn [noq]. intros ->.
    destruct (step n ds (EAppRequest i a realm pick tmo)) as [n' outs] eqn:Hs. cbn [snd] in Ho.
    destruct (step_req_full _ _ _ _ _ _ _ _ _ Hs) as [[E1 _]|(cid1 & c & m1 & rest & E1 & _ & _ & _ & _ & Hc & Hr & _)];
      rewrite Ho in E1; [discriminate E1|].
    injection E1 as <- _ _. destruct Hd as [_ Hd]. destruct (Hd c Hc) as [_ Hnr]. congruence.
  - destruct (dying_ev0 _ _ _ HW T E Hd) as [HW4 Hd4]. apply (settle_app'_dq cid n4 ds HW4 Hd4).
Qed.

(* C12 (history): once a plain DPR has been read from connection cid while it was ready, then at every later event of the history connection cid -- as long as it exists; its number stays below the connection counter, so it is never given to another connection -- is DISCONNECTING, CLOSING or CLOSED (not ready) when the event starts, and a send_request hands nothing to connection cid: neither the application's request nor anything the I/O thread sends while it settles *)
Theorem C12_history_no_routing_after_dpr n0 evs1 ds cid dpr evs2 c :
  NodeD.wf_init n0 ->
  get_conn (fst (run n0 evs1)) cid = Some c -> is_ready_state (c_state c) = true -> plain_dpr dpr ->
  forall k nk e outs,
    List.nth_error (strace n0 (evs1 ++ (ds, ERecv cid [dpr]) :: evs2)%list) k = Some (nk, (e, outs)) ->
    (List.length evs1 < k)%nat ->
    (cid < n_next_cid nk)%nat /\
    (forall ck, get_conn nk cid = Some ck ->
       is_ready_state (c_state ck) = false /\
       (c_state ck = SDisconnecting \/ c_state ck = SClosing \/ c_state ck = SClosed)) /\
    (forall i a realm pick tmo m', e = EAppRequest i a realm pick tmo -> ~ List.In (OQueue cid m') outs).
Proof.
  intros Hw Hc Hr Hp k nk e outs Hk Hlt.
  destruct (after_dpr n0 evs1 ds cid dpr c Hw Hc Hr Hp) as [HW1 Hd1].
  change ((ds, ERecv cid [dpr]) :: evs2) with ([(ds, ERecv cid [dpr])] ++ evs2)%list in Hk.
  rewrite List.app_assoc, strace_app in Hk.
  rewrite List.nth_error_app2 in Hk by (rewrite strace_length, List.app_length; cbn [List.length]; lia).
  apply List.nth_error_In in Hk.
  destruct (dying_run evs2 _ cid HW1 Hd1) as [Hall _]. destruct (Hall _ _ _ Hk) as [HWk Hdk].
  split; [apply Hdk|]. split; [intros ck Hck; split; [apply (proj2 Hdk ck Hck)|apply dying_cases, (proj2 Hdk ck Hck)]|].
  intros i a realm pick tmo m' -> Hin.
  destruct (strace_In _ _ _ _ _ Hk) as (evsa & ds' & evsb & _ & _ & ->).
  pose proof (step_req_noq nk ds' i a realm pick tmo cid HWk Hdk) as N.
  rewrite List.Forall_forall in N. apply N in Hin. cbn [noq] in Hin. apply Hin. reflexivity.
Qed.

(* C12 (history): ... and in the state the whole history ends in, connection cid is not ready either *)
Theorem C12_history_stays_unready n0 evs1 ds cid dpr evs2 c :
  NodeD.wf_init n0 ->
  get_conn (fst (run n0 evs1)) cid = Some c -> is_ready_state (c_state c) = true -> plain_dpr dpr ->
  (cid < n_next_cid (fst (run n0 (evs1 ++ (ds, ERecv cid [dpr]) :: evs2)%list)))%nat /\
  forall ck, get_conn (fst (run n0 (evs1 ++ (ds, ERecv cid [dpr]) :: evs2)%list)) cid = Some ck ->
             c_state ck = SDisconnecting \/ c_state ck = SClosing \/ c_state ck = SClosed.
Proof.
  intros Hw Hc Hr Hp.
  destruct (after_dpr n0 evs1 ds cid dpr c Hw Hc Hr Hp) as [HW1 Hd1].
  change ((ds, ERecv cid [dpr]) :: evs2) with ([(ds, ERecv cid [dpr])] ++ evs2)%list.
  rewrite List.app_assoc, run_app.
  destruct (dying_run evs2 _ cid HW1 Hd1) as [_ [_ [Hlt Hd]]]. split; [exact Hlt|].
  intros ck Hck. apply dying_cases, Hd, Hck.
Qed.

(* ================================================================================== *)
(* 8. examples: a history with two applications and two peers                          *)
(* ================================================================================== *)
Module Examples.
Import String.
Local Open Scope string_scope.

Definition ex_cfg : cfg :=
  {| g_host := "me"; g_realm := "r"; g_cea := 4; g_cer := 4; g_dwa := 4; g_idle := 3000; g_wakeup := 6;
     g_rsize := 4%nat; g_validate := true; g_state_id := 1 |}.
Definition ex_peer (nm : string) : peer :=
  {| p_name := nm; p_realm := "r"; p_has_addr := true; p_persistent := true; p_always := false;
     p_cea := None; p_cer := None; p_dwa := None; p_idle := None; p_rwait := 30;
     p_conn := None; p_reason := None; p_lastconn := None; p_lastdisc := None; p_reqs := 0 |}.
Definition ex_app (id : Z) : app := {| a_id := id; a_auth := true; a_acct := false; a_ready := false; a_waiting := [] |}.
(* application 0 (id 4) is routed to peer pa only, application 1 (id 5) to peer pb only *)
Definition ex_n0 : node :=
  {| n_cfg := ex_cfg; n_now := 0; n_io_deadline := 6; n_stopping := false;
     n_peers := [ex_peer "pa"; ex_peer "pb"]; n_conns := []; n_next_cid := 0%nat;
     n_half_ready := []; n_socket_peers := [];
     n_routes := [("r", [(RApp 0, ["pa"]); (RApp 1, ["pb"])])]; n_apps := [ex_app 4; ex_app 5];
     n_app_waiting := []; n_peer_waiting := []; n_origin_waiting := []; n_sent_answers := []; n_e2e := 1 |}.
Definition ex_cea (o : string) (hbh : Z) : msg :=
  {| m_cmd := CE; m_req := false; m_p := false; m_e := false; m_t := false; m_app := 0; m_hbh := hbh; m_e2e := hbh;
     m_origin := Present o; m_drealm := Undeclared; m_result := Present 2001;
     m_missing := []; m_has_failed_avp_slot := false; m_auth := [4; 5]; m_acct := []; m_tag := 0 |}.
(* a request whose identifiers are left to the node (0) or chosen by the caller *)
Definition ex_req_ids (tag hbh e2e : Z) : omsg :=
  {| o_cmd := App 272; o_req := true; o_app := 0; o_hbh := hbh; o_e2e := e2e; o_result := None; o_failed := []; o_tag := tag |}.
Definition ex_req (tag : Z) : omsg := ex_req_ids tag 0 0.
Definition ex_ans (o : string) (hbh e2e : Z) : msg :=
  {| m_cmd := App 272; m_req := false; m_p := true; m_e := false; m_t := false; m_app := 4; m_hbh := hbh; m_e2e := e2e;
     m_origin := Present o; m_drealm := Absent; m_result := Present 2001; m_missing := []; m_has_failed_avp_slot := false;
     m_auth := []; m_acct := []; m_tag := 9 |}.
Definition ex_dpr (o : string) : msg :=
  {| m_cmd := DP; m_req := true; m_p := false; m_e := false; m_t := false; m_app := 0; m_hbh := 21; m_e2e := 22;
     m_origin := Present o; m_drealm := Undeclared; m_result := Absent;
     m_missing := []; m_has_failed_avp_slot := false; m_auth := []; m_acct := []; m_tag := 0 |}.

(* both peers are dialled and answer the CER; each application sends a request; the answer to
   application 0 arrives (handed to the blocked caller), arrives again (ignored); an answer with unknown
   identifiers arrives (ignored); application 1's caller times out, then its answer arrives (unexpected) *)
Definition ex_evs1 : list (dials * event) :=
  [ ([(1, DialOk); (1, DialOk)], EStart);
    ([], ERecv 0 [ex_cea "pa" 2]);
    ([], ERecv 1 [ex_cea "pb" 2]);
    ([], EAppRequest 0 (ex_req 7) (Present "r") 0 10);
    ([], EAppRequest 1 (ex_req 8) (Present "r") 0 10);
    ([], ERecv 0 [ex_ans "pa" 3 4]);
    ([], ERecv 0 [ex_ans "pa" 3 4]);
    ([], ERecv 1 [ex_ans "pb" 77 78]);
    ([], ETick 20);
    ([], ERecv 1 [ex_ans "pb" 3 5]) ].
(* after pa's DPR: application 0 has no usable peer left, application 1 still has pb *)
Definition ex_evs2 : list (dials * event) :=
  [ ([], EAppRequest 0 (ex_req 7) (Present "r") 0 10);
    ([], EAppRequest 1 (ex_req 8) (Present "r") 0 10) ].
Definition ex_evs : list (dials * event) := (ex_evs1 ++ ([], ERecv 0 [ex_dpr "pa"]) :: ex_evs2)%list.

Definition ex_show (o : output) : list (string * nat * Z * Z) :=
  match o with
  | OQueue cid m => [((if o_req m then "request" else "answer"), cid, o_hbh m, o_e2e m)]
  | OAnswerTo i m => [("answer-to", i, m_hbh m, m_e2e m)]
  | OUnexpected i m => [("unexpected", i, m_hbh m, m_e2e m)]
  | ONotRoutable => [("not-routable", 0%nat, 0, 0)]
  | _ => []
  end.

Example ex_wf : NodeD.wf_init ex_n0.
Proof.
  unfold NodeD.wf_init. cbn. repeat (split; [reflexivity|]). split; [|split; [|reflexivity]].
  - intros p [<-|[<-|[]]]; repeat split.
  - constructor; [intros [E|[]]; discriminate E|]. constructor; [intros []|constructor].
Qed.

(* the history, event by event: what is handed to connections and to applications *)
Example ex_history :
  List.map (fun x => List.flat_map ex_show (snd x)) (trace ex_n0 ex_evs) =
  [ [("request", 0%nat, 2, 2); ("request", 1%nat, 2, 3)];          (* the two CERs *)
    []; [];
    [("request", 0%nat, 3, 4)];                                    (* application 0 -> pa *)
    [("request", 1%nat, 3, 5)];                                    (* application 1 -> pb *)
    [("answer-to", 0%nat, 3, 4)];
    [];                                                            (* the copy *)
    [];                                                            (* unknown identifiers *)
    [];                                                            (* the clock: application 1's caller gives up *)
    [("unexpected", 1%nat, 3, 5)];
    [("answer", 0%nat, 21, 22)];                                   (* DPA *)
    [("not-routable", 0%nat, 0, 0)];
    [("request", 1%nat, 4, 7)] ]
  /\ List.map snd (trace ex_n0 ex_evs) = snd (run ex_n0 ex_evs).
Proof. split; [vm_compute; reflexivity|apply trace_run]. Qed.

(* C10_history_answer_to_sender on the answer handed to application 0 (event 5) ... *)
Example ex_C10_history_answer_to_sender :
  exists a realm pick tmo cid m' rest,
    List.In (EAppRequest 0 a realm pick tmo, OQueue cid m' :: rest) (List.firstn 5 (trace ex_n0 ex_evs)) /\
    o_req m' = true /\ o_hbh m' = 3 /\ o_e2e m' = 4.
Proof.
  apply (C10_history_answer_to_sender_wf ex_n0 ex_evs (List.firstn 5 (trace ex_n0 ex_evs))
           (ERecv 0 [ex_ans "pa" 3 4]) [OAnswerTo 0 (ex_ans "pa" 3 4)] (List.skipn 6 (trace ex_n0 ex_evs))
           0%nat (ex_ans "pa" 3 4) ex_wf); [vm_compute; reflexivity|left; left; reflexivity].
Qed.

(* ... and on the unexpected answer of application 1 (event 9) *)
Example ex_C10_history_unexpected_to_sender :
  exists a realm pick tmo cid m' rest,
    List.In (EAppRequest 1 a realm pick tmo, OQueue cid m' :: rest) (List.firstn 9 (trace ex_n0 ex_evs)) /\
    o_req m' = true /\ o_hbh m' = 3 /\ o_e2e m' = 5.
Proof.
  apply (C10_history_answer_to_sender_wf ex_n0 ex_evs (List.firstn 9 (trace ex_n0 ex_evs))
           (ERecv 1 [ex_ans "pb" 3 5]) [OUnexpected 1 (ex_ans "pb" 3 5)] (List.skipn 10 (trace ex_n0 ex_evs))
           1%nat (ex_ans "pb" 3 5) ex_wf); [vm_compute; reflexivity|right; left; reflexivity].
Qed.

(* C10_history_answer_once: the pairs sent are distinct; each is answered at most (here: exactly) once
   although the answer (3,4) arrived twice; nothing is handed out for the unknown pair (77,78) *)
Example ex_C10_history_answer_once :
  req_keys (trace ex_n0 ex_evs) = [(3, 4); (3, 5); (4, 7)] /\
  List.NoDup (req_keys (trace ex_n0 ex_evs)) /\
  (forall h e, (List.length (List.filter (ans_key h e) (List.concat (List.map snd (trace ex_n0 ex_evs)))) <= 1)%nat) /\
  List.map (fun k => nans (fst k) (snd k) (trace ex_n0 ex_evs)) [(3, 4); (3, 5); (4, 7); (77, 78)] = [1; 1; 0; 0]%nat.
Proof.
  assert (Hk : req_keys (trace ex_n0 ex_evs) = [(3, 4); (3, 5); (4, 7)]) by (vm_compute; reflexivity).
  assert (Hnd : List.NoDup (req_keys (trace ex_n0 ex_evs))).
  { rewrite Hk. constructor; [intros [E|[E|[]]]; discriminate E|].
    constructor; [intros [E|[]]; discriminate E|]. constructor; [intros []|constructor]. }
  split; [exact Hk|]. split; [exact Hnd|]. split; [|vm_compute; reflexivity].
  intros h e. apply C10_history_answer_once; [reflexivity|exact Hnd].
Qed.

(* without distinct pairs there is no "at most once": the caller of application 0 chooses the
   identifiers (9,9) twice, and gets an answer each time (two answers for two requests) *)
Definition ex_evs_same : list (dials * event) :=
  [ ([(1, DialOk); (1, DialOk)], EStart);
    ([], ERecv 0 [ex_cea "pa" 2]);
    ([], EAppRequest 0 (ex_req_ids 7 9 9) (Present "r") 0 10);
    ([], ERecv 0 [ex_ans "pa" 9 9]);
    ([], EAppRequest 0 (ex_req_ids 7 9 9) (Present "r") 0 10);
    ([], ERecv 0 [ex_ans "pa" 9 9]) ].
Example C10_history_answer_once_needs_distinct :
  req_keys (trace ex_n0 ex_evs_same) = [(9, 9); (9, 9)] /\
  ~ List.NoDup (req_keys (trace ex_n0 ex_evs_same)) /\
  List.length (List.filter (ans_key 9 9) (List.concat (List.map snd (trace ex_n0 ex_evs_same)))) = 2%nat /\
  nans 9 9 (trace ex_n0 ex_evs_same) = 2%nat /\ nreq 9 9 (trace ex_n0 ex_evs_same) = 2%nat.
Proof.
  assert (Hk : req_keys (trace ex_n0 ex_evs_same) = [(9, 9); (9, 9)]) by (vm_compute; reflexivity).
  split; [exact Hk|]. split; [|vm_compute; repeat split].
  rewrite Hk. intros H. inversion H as [|? ? Hn _]. apply Hn. left. reflexivity.
Qed.

(* C10_history_requests_only_to_ready: the connections the requests went to were ready *)
Example ex_C10_history_requests_only_to_ready :
  List.map (fun x => match x with
                     | (nk, (EAppRequest _ _ _ _ _, OQueue cid _ :: _)) =>
                         [(cid, option_map (fun c => is_ready_state (c_state c)) (get_conn nk cid))]
                     | _ => []
                     end) (strace ex_n0 ex_evs) =
  [ []; []; []; [(0%nat, Some true)]; [(1%nat, Some true)]; []; []; []; []; []; []; []; [(1%nat, Some true)] ].
Proof. vm_compute. reflexivity. Qed.

(* C12_history_no_routing_after_dpr: its hypotheses hold at the DPR of the history ... *)
Example ex_C12_hypotheses :
  option_map (fun c => is_ready_state (c_state c)) (get_conn (fst (run ex_n0 ex_evs1)) 0) = Some true /\
  plain_dpr (ex_dpr "pa").
Proof. split; [vm_compute; reflexivity|repeat split]. Qed.

(* ... so at the two later events connection 0 is not ready (it is DISCONNECTING), application 0's
   request is not routable and application 1's goes to connection 1 *)
Example ex_C12_history_no_routing_after_dpr :
  forall k nk e outs,
    List.nth_error (strace ex_n0 ex_evs) k = Some (nk, (e, outs)) -> (10 < k)%nat ->
    (0 < n_next_cid nk)%nat /\
    (forall ck, get_conn nk 0 = Some ck ->
       is_ready_state (c_state ck) = false /\
       (c_state ck = SDisconnecting \/ c_state ck = SClosing \/ c_state ck = SClosed)) /\
    (forall i a realm pick tmo m', e = EAppRequest i a realm pick tmo -> ~ List.In (OQueue 0 m') outs).
Proof.
  destruct (get_conn (fst (run ex_n0 ex_evs1)) 0) as [c|] eqn:Ec; [|vm_compute in Ec; discriminate Ec].
  assert (Hr : is_ready_state (c_state c) = true).
  { vm_compute in Ec. injection Ec as <-. reflexivity. }
  exact (C12_history_no_routing_after_dpr ex_n0 ex_evs1 [] 0 (ex_dpr "pa") ex_evs2 c ex_wf Ec Hr
           (proj2 ex_C12_hypotheses)).
Qed.

Example ex_C12_history_states :
  List.map (fun x => option_map c_state (get_conn (fst x) 0)) (List.skipn 10 (strace ex_n0 ex_evs))
  = [Some SReady; Some SDisconnecting; Some SDisconnecting] /\
  option_map c_state (get_conn (fst (run ex_n0 ex_evs)) 0) = Some SDisconnecting /\
  List.map (fun x => snd (snd x)) (List.skipn 11 (strace ex_n0 ex_evs)) =
  [ [ONotRoutable];
    [OQueue 1 {| o_cmd := App 272; o_req := true; o_app := 5; o_hbh := 4; o_e2e := 7; o_result := None; o_failed := []; o_tag := 8 |};
     OSend 1 {| o_cmd := App 272; o_req := true; o_app := 5; o_hbh := 4; o_e2e := 7; o_result := None; o_failed := []; o_tag := 8 |}] ].
Proof. vm_compute. repeat split. Qed.

(* plain_dpr is needed: a DPR with a required AVP missing is answered 5005 by the validation (g_validate
   is on), the connection stays ready, and application 0's next request is handed to it again *)
Definition ex_dpr_bad : msg :=
  {| m_cmd := DP; m_req := true; m_p := false; m_e := false; m_t := false; m_app := 0; m_hbh := 21; m_e2e := 22;
     m_origin := Present "pa"; m_drealm := Undeclared; m_result := Absent;
     m_missing := [(273, 0)]; m_has_failed_avp_slot := true; m_auth := []; m_acct := []; m_tag := 0 |}.
Example C12_history_invalid_dpr_refuted :
  let evs := (ex_evs1 ++ ([], ERecv 0 [ex_dpr_bad]) :: ex_evs2)%list in
  option_map (fun c => is_ready_state (c_state c)) (get_conn (fst (run ex_n0 ex_evs1)) 0) = Some true /\
  m_cmd ex_dpr_bad = DP /\ m_req ex_dpr_bad = true /\ m_t ex_dpr_bad = false /\ ~ plain_dpr ex_dpr_bad /\
  List.map (fun x => List.flat_map ex_show (snd x)) (List.skipn 10 (trace ex_n0 evs)) =
    [ [("answer", 0%nat, 21, 22)]; [("request", 0%nat, 4, 6)]; [("request", 1%nat, 4, 7)] ] /\
  option_map c_state (get_conn (fst (run ex_n0 evs)) 0) = Some SReady.
Proof.
  cbv zeta. split; [vm_compute; reflexivity|]. repeat (split; [reflexivity|]).
  split; [intros (_ & _ & H & _); discriminate H|]. vm_compute. split; reflexivity.
Qed.
End Examples.

(* ================================================================================== *)
Print Assumptions trace_run.
Print Assumptions C10_history_answer_to_sender.
Print Assumptions C10_history_answer_to_sender_wf.
Print Assumptions C10_history_answers_le_requests.
Print Assumptions C10_history_answer_once.
Print Assumptions C10_history_requests_only_to_ready.
Print Assumptions C10_history_requests_only_to_ready_in.
Print Assumptions C12_history_no_routing_after_dpr.
Print Assumptions C12_history_stays_unready.
Print Assumptions Examples.ex_wf.
Print Assumptions Examples.ex_history.
Print Assumptions Examples.ex_C10_history_answer_to_sender.
Print Assumptions Examples.ex_C10_history_unexpected_to_sender.
Print Assumptions Examples.ex_C10_history_answer_once.
Print Assumptions Examples.C10_history_answer_once_needs_distinct.
Print Assumptions Examples.ex_C10_history_requests_only_to_ready.
Print Assumptions Examples.ex_C12_hypotheses.
Print Assumptions Examples.ex_C12_history_no_routing_after_dpr.
Print Assumptions Examples.ex_C12_history_states.
Print Assumptions Examples.C12_history_invalid_dpr_refuted.
