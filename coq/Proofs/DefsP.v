(* C03: the typed-attribute layer (Model/Defs.v): gen_obj (attributes -> AVPs) and
   assign (AVPs -> attributes).
     1. gen_obj_unfold      gen_obj as a concatenation over the definition tuple
     2. C03_gen_shape       one AVP per set scalar / element, right code, vendor, V, M, P bits
     3. C03_roundtrip       decode (assign) of what gen_obj produced restores the attributes
     4. C03_ede             encode-decode-encode = encode
     5. gen_obj_errors, C03_assign_total
     6. a concrete, non-vacuous instance
   Names are strings, so String is imported: list functions are written qualified. *)
From DV Require Import Prelude.Base Proofs.BaseP Model.Wire Model.Types Model.Defs
     Proofs.WireP Proofs.TypesP Proofs.FindP.
From Coq Require Import String.

(* ====================================================================== *)
(* 0. small facts: strings, assoc, find, result                            *)
(* ====================================================================== *)
Lemma seqb_refl (s : string) : String.eqb s s = true.
Proof. apply String.eqb_refl. Qed.

Lemma seqb_neq_l (a b : string) : a <> b -> String.eqb a b = false.
Proof. intros H. apply String.eqb_neq. exact H. Qed.

Lemma assoc_set_same {A} n (v : A) l : assoc n (assoc_set n v l) = Some v.
Proof.
  induction l as [|[k x] r IH]; cbn [assoc_set assoc].
  - rewrite seqb_refl. reflexivity.
  - destruct (String.eqb k n) eqn:E; cbn [assoc]; rewrite E; [reflexivity|exact IH].
Qed.

Lemma assoc_set_other {A} n m (v : A) l : m <> n -> assoc m (assoc_set n v l) = assoc m l.
Proof.
  intros Hne. induction l as [|[k x] r IH]; cbn [assoc_set assoc].
  - rewrite seqb_neq_l by congruence. reflexivity.
  - destruct (String.eqb k n) eqn:E; cbn [assoc].
    + apply String.eqb_eq in E. subst k. rewrite seqb_neq_l by congruence. reflexivity.
    + rewrite IH. reflexivity.
Qed.

Lemma assoc_map {A B} (g : string -> A -> B) n (l : list (string * A)) :
  assoc n (List.map (fun ai => (fst ai, g (fst ai) (snd ai))) l) =
  match assoc n l with Some x => Some (g n x) | None => None end.
Proof.
  induction l as [|[k x] r IH]; cbn [List.map assoc fst snd]; [reflexivity|].
  destruct (String.eqb k n) eqn:E; [|exact IH].
  apply String.eqb_eq in E. subst k. reflexivity.
Qed.

(* find with a predicate that singles out one element of the list *)
Lemma find_unique {A} (p : A -> bool) (l : list A) (x : A) :
  In x l -> p x = true -> (forall y, In y l -> p y = true -> y = x) -> find p l = Some x.
Proof.
  induction l as [|y r IH]; intros Hin Hp Hu; [destruct Hin|].
  cbn [find]. destruct (p y) eqn:E.
  - f_equal. apply Hu; [left; reflexivity|exact E].
  - destruct Hin as [->|Hin]; [congruence|].
    apply IH; [exact Hin|exact Hp|]. intros z Hz. apply Hu. right. exact Hz.
Qed.

Lemma find_none_iff {A} (p : A -> bool) (l : list A) :
  find p l = None <-> (forall y, In y l -> p y = false).
Proof.
  split.
  - intros H y Hy. exact (find_none p l H y Hy).
  - induction l as [|y r IH]; intros H; [reflexivity|].
    cbn [find]. rewrite (H y (or_introl eq_refl)). apply IH. intros z Hz. apply H. right. exact Hz.
Qed.

Lemma Forall2_imp {A B} (P Q : A -> B -> Prop) l1 l2 :
  (forall a b, P a b -> Q a b) -> Forall2 P l1 l2 -> Forall2 Q l1 l2.
Proof. intros H F. induction F; constructor; auto. Qed.

Lemma cdef_lookup_in cs n c : cdef_lookup cs n = Some c -> In c cs /\ d_name c = n.
Proof.
  unfold cdef_lookup. intros H. apply find_some in H as [Hin He].
  apply String.eqb_eq in He. split; assumption.
Qed.

Lemma bind_ok {A B} (r : result A) (f : A -> result B) y :
  bind r f = Ok y -> exists x, r = Ok x /\ f x = Ok y.
Proof. destruct r as [x|er]; cbn [bind]; [|discriminate]. intros H. exists x. split; [reflexivity|exact H]. Qed.

Lemma map_result_length {A B} (f : A -> result B) l ys :
  map_result f l = Ok ys -> List.length ys = List.length l.
Proof.
  revert ys. induction l as [|x r IH]; intros ys H; cbn [map_result] in H.
  - injection H as <-. reflexivity.
  - apply bind_ok in H as (y & _ & H). apply bind_ok in H as (ys' & Hr & H). injection H as <-.
    cbn [List.length]. rewrite (IH ys' Hr). reflexivity.
Qed.

Lemma map_result_forall {A B} (f : A -> result B) (P : B -> Prop) l ys :
  (forall x y, In x l -> f x = Ok y -> P y) -> map_result f l = Ok ys -> Forall P ys.
Proof.
  revert ys. induction l as [|x r IH]; intros ys Hf H; cbn [map_result] in H.
  - injection H as <-. constructor.
  - apply bind_ok in H as (y & Hy & H). apply bind_ok in H as (ys' & Hr & H). injection H as <-.
    constructor; [apply (Hf x y); [left; reflexivity|exact Hy]|].
    apply IH; [|exact Hr]. intros x' y' Hin. apply Hf. right. exact Hin.
Qed.

Lemma map_result_ext_in {A B} (f g : A -> result B) l :
  (forall x, In x l -> f x = g x) -> map_result f l = map_result g l.
Proof.
  induction l as [|x r IH]; intros H; [reflexivity|].
  cbn [map_result]. rewrite (H x (or_introl eq_refl)). rewrite IH; [reflexivity|].
  intros y Hy. apply H. right. exact Hy.
Qed.

(* ====================================================================== *)
(* 1. gen_obj as a concatenation over the definition tuple                 *)
(* ====================================================================== *)
(* one grouped AVP for one nested object *)
Definition grouped_item (e : env) (d : defrow) (o' : obj) : result avp :=
  let! sub := gen_obj e o' in
  if String.eqb (f_tclass d) "" then Err AvpEncodeError else grouped_for e d sub.

(* the AVPs one definition contributes, given the value its attribute holds (None: no such field) *)
Definition field_avps (e : env) (d : defrow) (a : option aval) : result (list avp) :=
  match a with
  | None => Ok []
  | Some ANone => Ok []
  | Some (AVal v) =>
      if String.eqb (f_tclass d) "" then let! a := new_for e d (Some v) in Ok [a] else Err AttributeError
  | Some (AVals l) =>
      if String.eqb (f_tclass d) "" then map_result (fun v => new_for e d (Some v)) l else Err AttributeError
  | Some (AObj o') => let! a := grouped_item e d o' in Ok [a]
  | Some (AObjs l) => map_result (grouped_item e d) l
  | Some (AClass k) =>
      if String.eqb (f_tclass d) "" then Err AvpEncodeError else let! a := grouped_for e d [] in Ok [a]
  end.

(* ... concatenated in definition order *)
Fixpoint gen_defs (e : env) (fields : list (string * aval)) (ds : list defrow) : result (list avp) :=
  match ds with
  | [] => Ok []
  | d :: r => let! here := field_avps e d (assoc (f_attr d) fields) in
              let! more := gen_defs e fields r in Ok (here ++ more)%list
  end.

Definition has_extras (c : clsdef) : bool := d_is_msg c || d_extra c.

Lemma gos_eq e d l :
  (fix gos (l : list obj) : result (list avp) :=
     match l with
     | [] => Ok []
     | o' :: r' =>
         let! sub := gen_obj e o' in
         let! a := (if String.eqb (f_tclass d) "" then Err AvpEncodeError
                    else grouped_for e d sub) in
         let! rest := gos r' in Ok (a :: rest)
     end) l = map_result (grouped_item e d) l.
Proof.
  induction l as [|o' r IH]; [reflexivity|].
  cbn [map_result]. rewrite <- IH. unfold grouped_item.
  destruct (gen_obj e o') as [sub|er]; reflexivity.
Qed.

Lemma per_eq e n d fs :
  match assoc n
    ((fix go (fs : list (string * aval)) : list (string * (defrow -> result (list avp))) :=
     match fs with
     | [] => []
     | (n, av) :: r =>
         (n, fun d =>
               match av with
               | ANone => Ok []
               | AVal v =>
                   if String.eqb (f_tclass d) "" then let! a := new_for e d (Some v) in Ok [a]
                   else Err AttributeError
               | AVals l =>
                   if String.eqb (f_tclass d) "" then map_result (fun v => new_for e d (Some v)) l
                   else Err AttributeError
               | AObj o' =>
                   let! sub := gen_obj e o' in
                   if String.eqb (f_tclass d) "" then Err AvpEncodeError
                   else let! a := grouped_for e d sub in Ok [a]
               | AObjs l =>
                   (fix gos (l : list obj) : result (list avp) :=
                      match l with
                      | [] => Ok []
                      | o' :: r' =>
                          let! sub := gen_obj e o' in
                          let! a := (if String.eqb (f_tclass d) "" then Err AvpEncodeError
                                     else grouped_for e d sub) in
                          let! rest := gos r' in Ok (a :: rest)
                      end) l
               | AClass k =>
                   if String.eqb (f_tclass d) "" then Err AvpEncodeError
                   else let! a := grouped_for e d [] in Ok [a]
               end) :: go r
     end) fs)
  with Some f => f d | None => Ok [] end = field_avps e d (assoc n fs).
Proof.
  induction fs as [|[k av] r IH]; [reflexivity|].
  cbn [assoc]. destruct (String.eqb k n); [|exact IH].
  destruct av as [|v|l|o'|l|kk]; cbn [field_avps]; try reflexivity.
  - unfold grouped_item. destruct (gen_obj e o') as [sub|er]; cbn [bind]; [|reflexivity].
    destruct (String.eqb (f_tclass d) ""); reflexivity.
  - apply gos_eq.
Qed.

(* (1) *)
Theorem gen_obj_unfold_gen : forall e cls fields extra,
  gen_obj e (Obj cls fields extra) =
  match cdef_lookup (e_classes e) cls with
  | None => Ok []
  | Some c =>
      if d_has_defs c then
        let! ordered := gen_defs e fields (d_defs c) in
        Ok (if has_extras c then ordered ++ extra else ordered)%list
      else Ok []
  end.
Proof.
  intros e cls fields extra. cbn [gen_obj].
  destruct (cdef_lookup (e_classes e) cls) as [c|]; [|reflexivity].
  destruct (d_has_defs c); cbn [negb]; [|reflexivity].
  match goal with |- bind ?X _ = bind ?Y _ => assert (HE : X = Y) end.
  { induction (d_defs c) as [|d r IH]; [reflexivity|].
    cbn [gen_defs]. rewrite <- IH. rewrite per_eq. reflexivity. }
  rewrite HE. destruct (gen_defs e fields (d_defs c)) as [ordered|er]; cbn [bind]; [|reflexivity].
  unfold has_extras. destruct (d_is_msg c), (d_extra c); reflexivity.
Qed.

Theorem gen_obj_unfold : forall e cls fields extra c,
  cdef_lookup (e_classes e) cls = Some c -> d_has_defs c = true ->
  gen_obj e (Obj cls fields extra) =
  (let! ordered := gen_defs e fields (d_defs c) in
   Ok (if has_extras c then ordered ++ extra else ordered)%list).
Proof. intros e cls fields extra c Hc Hd. rewrite gen_obj_unfold_gen, Hc, Hd. reflexivity. Qed.

(* ====================================================================== *)
(* 2. the shape of what gen_obj produces                                   *)
(* ====================================================================== *)
(* the M flag an AVP created for definition d ends up with: the definition's override,
   else the dictionary default, else untouched (clear) *)
Definition eff_mand (e : env) (d : defrow) : option bool :=
  match mand_opt (f_mand d) with
  | Some b => Some b
  | None => match lookup (e_rows e) (f_code d) (f_vendor d) with
            | Some r => if row_mand r =? 0 then None else Some (row_mand r =? 2)
            | None => None
            end
  end.

(* "a bears the code, vendor and flags of definition d" *)
Definition avp_for (e : env) (d : defrow) (a : avp) : Prop :=
  a_code a = f_code d /\ a_vendor a = f_vendor d /\
  (Z.land (a_flags a) 128 = 0 <-> f_vendor d = 0) /\
  match eff_mand e d with
  | Some b => (Z.land (a_flags a) 64 <> 0 <-> b = true)
  | None => Z.land (a_flags a) 64 = 0
  end /\
  Z.land (a_flags a) 32 = 0 /\ 0 <= a_flags a < 256.

(* how many AVPs an attribute value stands for *)
Definition count_of (a : option aval) : nat :=
  match a with
  | None | Some ANone => 0%nat
  | Some (AVal _) | Some (AObj _) | Some (AClass _) => 1%nat
  | Some (AVals l) => List.length l
  | Some (AObjs l) => List.length l
  end.

Lemma new_for_inv e d v a : new_for e d v = Ok a ->
  exists r, lookup (e_rows e) (f_code d) (f_vendor d) = Some r /\ avp_for e d a /\
            match v with Some x => enc_val (e_time e) (row_ty r) x = Ok (a_payload a) | None => a_payload a = [] end.
Proof.
  unfold new_for. intros H.
  destruct (lookup (e_rows e) (f_code d) (f_vendor d)) as [r|] eqn:El.
  2:{ rewrite avp_new_unknown in H by exact El. discriminate. }
  exists r. split; [reflexivity|].
  destruct (avp_new_flags _ _ _ _ _ _ _ _ _ El H) as (H1 & H2 & H3 & H4 & H5 & H6 & H7).
  split; [|exact H7]. unfold avp_for, eff_mand. rewrite El.
  cbv zeta in H4.
  split; [exact H1|]. split; [exact H2|]. split; [exact H3|].
  split; [destruct (mand_opt (f_mand d)); exact H4|]. split; [exact H5|exact H6].
Qed.

Lemma grouped_for_inv e d sub a : grouped_for e d sub = Ok a ->
  exists r a0 p, lookup (e_rows e) (f_code d) (f_vendor d) = Some r /\ row_ty r = TGrouped /\
                 new_for e d None = Ok a0 /\ enc_avps sub = Ok p /\ a = set_payload a0 p.
Proof.
  unfold grouped_for. intros H. apply bind_ok in H as (a0 & Ha0 & H).
  destruct (lookup (e_rows e) (f_code d) (f_vendor d)) as [r|] eqn:El; [|discriminate].
  destruct (row_ty r) eqn:Ety; try discriminate.
  destruct (enc_avps sub) as [p|er] eqn:Ep; [|discriminate]. injection H as <-.
  exists r, a0, p. repeat split; assumption.
Qed.

Lemma avp_for_set_payload e d a p : avp_for e d a -> avp_for e d (set_payload a p).
Proof. unfold avp_for. cbn [set_payload a_code a_vendor a_flags]. tauto. Qed.

Lemma grouped_for_avp_for e d sub a : grouped_for e d sub = Ok a -> avp_for e d a.
Proof.
  intros H. apply grouped_for_inv in H as (r & a0 & p & _ & _ & Ha0 & _ & ->).
  apply avp_for_set_payload. apply new_for_inv in Ha0 as (r' & _ & Hf & _). exact Hf.
Qed.

Lemma grouped_item_avp_for e d o' a : grouped_item e d o' = Ok a -> avp_for e d a.
Proof.
  unfold grouped_item. intros H. apply bind_ok in H as (sub & _ & H).
  destruct (String.eqb (f_tclass d) ""); [discriminate|]. eapply grouped_for_avp_for. exact H.
Qed.

Lemma field_avps_shape e d a p : field_avps e d a = Ok p ->
  List.length p = count_of a /\ Forall (avp_for e d) p.
Proof.
  destruct a as [[|v|l|o'|l|k]|]; cbn [field_avps count_of]; intros H.
  - injection H as <-. split; [reflexivity|constructor].
  - destruct (String.eqb (f_tclass d) ""); [|discriminate].
    apply bind_ok in H as (a & Ha & H). injection H as <-. split; [reflexivity|].
    constructor; [|constructor]. apply new_for_inv in Ha as (r & _ & Hf & _). exact Hf.
  - destruct (String.eqb (f_tclass d) ""); [|discriminate]. split.
    + eapply map_result_length. exact H.
    + eapply map_result_forall; [|exact H]. cbv beta. intros x y _ Hy.
      apply new_for_inv in Hy as (r & _ & Hf & _). exact Hf.
  - apply bind_ok in H as (a & Ha & H). injection H as <-. split; [reflexivity|].
    constructor; [|constructor]. eapply grouped_item_avp_for. exact Ha.
  - split.
    + eapply map_result_length. exact H.
    + eapply map_result_forall; [|exact H]. intros x y _ Hy. eapply grouped_item_avp_for. exact Hy.
  - destruct (String.eqb (f_tclass d) ""); [discriminate|].
    apply bind_ok in H as (a & Ha & H). injection H as <-. split; [reflexivity|].
    constructor; [|constructor]. eapply grouped_for_avp_for. exact Ha.
  - injection H as <-. split; [reflexivity|constructor].
Qed.

Lemma gen_defs_shape e fields ds l : gen_defs e fields ds = Ok l ->
  exists per : list (list avp),
    Forall2 (fun d p => field_avps e d (assoc (f_attr d) fields) = Ok p) ds per /\
    l = List.concat per.
Proof.
  revert l. induction ds as [|d r IH]; intros l H; cbn [gen_defs] in H.
  - injection H as <-. exists []. split; [constructor|reflexivity].
  - apply bind_ok in H as (here & Hh & H). apply bind_ok in H as (more & Hm & H). injection H as <-.
    destruct (IH more Hm) as (per & Hper & ->). exists (here :: per).
    split; [constructor; assumption|reflexivity].
Qed.

(* (2)  No well-formedness of the class is needed: when gen_obj succeeds, every definition that
   contributed an AVP has a dictionary entry (otherwise Avp.new raised ValueError). *)
Theorem C03_gen_shape : forall e cls fields extra c l,
  cdef_lookup (e_classes e) cls = Some c -> d_has_defs c = true ->
  gen_obj e (Obj cls fields extra) = Ok l ->
  exists per : list (list avp),
    (* one list per definition, in definition order *)
    Forall2 (fun d p =>
               (* as many AVPs as the attribute holds values: 0 for unset, 1 for a scalar or an
                  object, one per element for lists ... *)
               List.length p = count_of (assoc (f_attr d) fields) /\
               (* ... each with the definition's code, vendor, V iff vendor <> 0, effective M, P clear *)
               Forall (avp_for e d) p) (d_defs c) per /\
    (* then the undeclared extra AVPs, unchanged *)
    l = (List.concat per ++ (if has_extras c then extra else []))%list.
Proof.
  intros e cls fields extra c l Hc Hd H.
  rewrite (gen_obj_unfold e cls fields extra c Hc Hd) in H.
  apply bind_ok in H as (ordered & Ho & H). injection H as <-.
  apply gen_defs_shape in Ho as (per & Hper & ->). exists per. split.
  - eapply Forall2_imp; [|exact Hper]. cbv beta. intros d p Hp. eapply field_avps_shape. exact Hp.
  - destruct (has_extras c); [reflexivity|rewrite app_nil_r; reflexivity].
Qed.

(* ====================================================================== *)
(* 5a. the errors gen_obj can return                                       *)
(* ====================================================================== *)
(* induction principle for the nested type obj *)
Section ObjInd.
  Variable P : obj -> Prop.
  Definition aval_all (av : aval) : Prop :=
    match av with AObj o => P o | AObjs l => Forall P l | _ => True end.
  Hypothesis Hobj : forall cls fields extra,
    Forall (fun na => aval_all (snd na)) fields -> P (Obj cls fields extra).
  Fixpoint obj_ind' (o : obj) : P o :=
    match o with
    | Obj cls fields extra =>
        Hobj cls fields extra
          ((fix go (fs : list (string * aval)) : Forall (fun na => aval_all (snd na)) fs :=
              match fs with
              | [] => Forall_nil _
              | (n, av) :: r =>
                  Forall_cons (n, av)
                    (match av return aval_all av with
                     | AObj o' => obj_ind' o'
                     | AObjs l =>
                         (fix gl (l : list obj) : Forall P l :=
                            match l with
                            | [] => Forall_nil _
                            | x :: r' => Forall_cons x (obj_ind' x) (gl r')
                            end) l
                     | _ => I
                     end) (go r)
              end) fields)
    end.
End ObjInd.

Definition gen_err (x : err) : Prop :=
  x = AvpEncodeError \/ x = ValueError \/ x = TypeError \/ x = AttributeError.

Lemma enc_val_err k t v x : enc_val k t v = Err x -> x = AvpEncodeError.
Proof.
  destruct t; destruct v; cbn [enc_val]; unfold wrap_enc, time_enc, addr_enc; intros H;
    repeat match type of H with context [match ?y with _ => _ end] => destruct y end; congruence.
Qed.

Lemma new_for_err e d v x : new_for e d v = Err x -> gen_err x.
Proof.
  unfold new_for, avp_new, gen_err. destruct (lookup (e_rows e) (f_code d) (f_vendor d)) as [r|]; [|intros H; injection H as <-; tauto].
  destruct v as [v|]; cbn [bind]; [|discriminate].
  destruct (enc_val (e_time e) (row_ty r) v) as [p|er] eqn:E; cbn [bind]; [discriminate|].
  intros H. injection H as <-. apply enc_val_err in E. tauto.
Qed.

Lemma grouped_for_err e d sub x : grouped_for e d sub = Err x -> gen_err x.
Proof.
  unfold grouped_for. destruct (new_for e d None) as [a|er] eqn:En; cbn [bind].
  - unfold gen_err. destruct (lookup (e_rows e) (f_code d) (f_vendor d)) as [r|]; [|intros H; injection H as <-; tauto].
    destruct (row_ty r); try (intros H; injection H as <-; tauto).
    destruct (enc_avps sub); [discriminate|intros H; injection H as <-; tauto].
  - intros H. injection H as <-. eapply new_for_err. exact En.
Qed.

Lemma map_result_err {A B} (f : A -> result B) l x :
  map_result f l = Err x -> exists y, In y l /\ f y = Err x.
Proof.
  induction l as [|a r IH]; cbn [map_result]; [discriminate|].
  destruct (f a) as [b|er] eqn:Ea; cbn [bind].
  - destruct (map_result f r) as [ys|er]; cbn [bind]; [discriminate|].
    intros H. destruct (IH H) as (y & Hy & Hf). exists y. split; [right; exact Hy|exact Hf].
  - intros H. injection H as <-. exists a. split; [left; reflexivity|exact Ea].
Qed.

Lemma grouped_item_err e d o' x :
  (forall y, gen_obj e o' = Err y -> gen_err y) -> grouped_item e d o' = Err x -> gen_err x.
Proof.
  intros IH. unfold grouped_item. destruct (gen_obj e o') as [sub|er]; cbn [bind].
  - destruct (String.eqb (f_tclass d) ""); [intros H; injection H as <-; unfold gen_err; tauto|].
    apply grouped_for_err.
  - intros H. injection H as <-. apply IH. reflexivity.
Qed.

Lemma field_avps_err e d a x :
  match a with Some av => aval_all (fun o => forall y, gen_obj e o = Err y -> gen_err y) av | None => True end ->
  field_avps e d a = Err x -> gen_err x.
Proof.
  destruct a as [[|v|l|o'|l|k]|]; cbn [field_avps aval_all]; intros IH H; try discriminate.
  - destruct (String.eqb (f_tclass d) ""); [|injection H as <-; unfold gen_err; tauto].
    destruct (new_for e d (Some v)) as [a|er] eqn:En; cbn [bind] in H; [discriminate|].
    injection H as <-. eapply new_for_err. exact En.
  - destruct (String.eqb (f_tclass d) ""); [|injection H as <-; unfold gen_err; tauto].
    apply map_result_err in H as (y & _ & Hy). eapply new_for_err. exact Hy.
  - destruct (grouped_item e d o') as [a|er] eqn:Eg; cbn [bind] in H; [discriminate|].
    injection H as <-. eapply grouped_item_err; [exact IH|exact Eg].
  - apply map_result_err in H as (y & Hin & Hy). rewrite Forall_forall in IH.
    eapply grouped_item_err; [apply IH; exact Hin|exact Hy].
  - destruct (String.eqb (f_tclass d) ""); [injection H as <-; unfold gen_err; tauto|].
    destruct (grouped_for e d []) as [a|er] eqn:Eg; cbn [bind] in H; [discriminate|].
    injection H as <-. eapply grouped_for_err. exact Eg.
Qed.

Lemma assoc_in {A} n (l : list (string * A)) v : assoc n l = Some v -> exists k, In (k, v) l.
Proof.
  induction l as [|[k x] r IH]; cbn [assoc]; [discriminate|].
  destruct (String.eqb k n).
  - intros H. injection H as <-. exists k. left. reflexivity.
  - intros H. destruct (IH H) as (k' & Hk). exists k'. right. exact Hk.
Qed.

(* (5a) *)
Theorem gen_obj_errors : forall e o x, gen_obj e o = Err x ->
  x = AvpEncodeError \/ x = ValueError \/ x = TypeError \/ x = AttributeError.
Proof.
  intros e o. induction o as [cls fields extra IH] using obj_ind'. intros x H.
  rewrite gen_obj_unfold_gen in H.
  destruct (cdef_lookup (e_classes e) cls) as [c|]; [|discriminate].
  destruct (d_has_defs c); [|discriminate].
  destruct (gen_defs e fields (d_defs c)) as [ordered|er] eqn:Eg; cbn [bind] in H; [discriminate|].
  injection H as <-. clear extra. revert Eg. generalize (d_defs c) as ds.
  induction ds as [|d r IHd]; cbn [gen_defs]; [discriminate|].
  destruct (field_avps e d (assoc (f_attr d) fields)) as [here|er'] eqn:Ef; cbn [bind].
  - destruct (gen_defs e fields r) as [more|er']; cbn [bind]; [discriminate|].
    intros H. injection H as <-. apply IHd. reflexivity.
  - intros H. injection H as <-. eapply field_avps_err; [|exact Ef].
    destruct (assoc (f_attr d) fields) as [av|] eqn:Ea; [|exact I].
    apply assoc_in in Ea as (k & Hk). rewrite Forall_forall in IH. exact (IH (k, av) Hk).
Qed.

(* ====================================================================== *)
(* 3. assign as a named loop                                               *)
(* ====================================================================== *)
Definition assign_step (e : env) (f : nat) (c : clsdef) (o : obj) (a : avp) : result obj :=
  match def_for_key (d_defs c) (a_code a) (a_vendor a) with
  | Some d =>
      let cur := assoc (f_attr d) (obj_fields o) in
      if String.eqb (f_tclass d) "" then
        let v := match dec_val (e_time e) (type_of (dict_of (e_rows e)) a) (a_payload a) with
                 | Ok x => Some x
                 | Err _ => None
                 end in
        match cur with
        | Some (AVals l0) =>
            match v with
            | Some x => Ok (set_field o (f_attr d) (AVals (l0 ++ [x])%list))
            | None => Err OutOfFuel
            end
        | Some (AObjs _) => Err OutOfFuel
        | _ => Ok (set_field o (f_attr d) (match v with Some x => AVal x | None => ANone end))
        end
      else
        match type_of (dict_of (e_rows e)) a with
        | TGrouped =>
            let! kids := group_kids (a_payload a) in
            let! sub := assign e f (fresh (e_classes e) (f_tclass d)) kids in
            match cur with
            | Some (AObjs l0) => Ok (set_field o (f_attr d) (AObjs (l0 ++ [sub])%list))
            | Some (AVals []) => Ok (set_field o (f_attr d) (AObjs [sub]))
            | Some (AVals _) => Err OutOfFuel
            | _ => Ok (set_field o (f_attr d) (AObj sub))
            end
        | _ => Err TypeError
        end
  | None => Ok (if d_extra c then add_extra o a else o)
  end.

Fixpoint assign_go (e : env) (f : nat) (c : clsdef) (o : obj) (l : list avp) : result obj :=
  match l with
  | [] => Ok o
  | a :: r => let! o' := assign_step e f c o a in assign_go e f c o' r
  end.

Lemma bind_ext {A B} (r : result A) (g h : A -> result B) :
  (forall x, g x = h x) -> bind r g = bind r h.
Proof. intros H. destruct r; cbn [bind]; [apply H|reflexivity]. Qed.

Lemma assign_S e f o avps :
  assign e (S f) o avps =
  match cdef_lookup (e_classes e) (obj_cls o) with
  | None => Err AttributeError
  | Some c => if negb (d_has_defs c) then Err AttributeError else assign_go e f c o avps
  end.
Proof.
  cbn [assign]. destruct (cdef_lookup (e_classes e) (obj_cls o)) as [c|]; [|reflexivity].
  destruct (negb (d_has_defs c)); [reflexivity|].
  generalize o. induction avps as [|a r IH]; intros o0; [reflexivity|].
  cbn [assign_go]. apply (bind_ext (assign_step e f c o0 a)). intros o'. apply IH.
Qed.

Lemma assign_go_app e f c l1 : forall o l2,
  assign_go e f c o (l1 ++ l2)%list = (let! o' := assign_go e f c o l1 in assign_go e f c o' l2).
Proof.
  induction l1 as [|a r IH]; intros o l2; [reflexivity|].
  cbn [List.app assign_go]. destruct (assign_step e f c o a) as [o'|er]; cbn [bind]; [apply IH|reflexivity].
Qed.

(* ====================================================================== *)
(* 4. table well-formedness: what class_ok gives                           *)
(* ====================================================================== *)
Lemma str_nodup_cons x r : str_nodup (x :: r) = true -> ~ In x r /\ str_nodup r = true.
Proof.
  cbn [str_nodup]. intros H. apply andb_true_iff in H as [H1 H2]. split; [|exact H2].
  intros Hin. apply negb_true_iff in H1.
  assert (List.existsb (String.eqb x) r = true); [|congruence].
  apply existsb_exists. exists x. split; [exact Hin|apply seqb_refl].
Qed.

Lemma attr_unique ds d d' : str_nodup (List.map f_attr ds) = true ->
  In d ds -> In d' ds -> f_attr d = f_attr d' -> d = d'.
Proof.
  induction ds as [|x r IH]; intros Hn Hd Hd' He; [destruct Hd|].
  cbn [List.map] in Hn. apply str_nodup_cons in Hn as [Hx Hr].
  destruct Hd as [->|Hd]; destruct Hd' as [->|Hd'].
  - reflexivity.
  - exfalso. apply Hx. rewrite He. apply in_map. exact Hd'.
  - exfalso. apply Hx. rewrite <- He. apply in_map. exact Hd.
  - apply IH; assumption.
Qed.

Definition dkey (d : defrow) : Z * Z := (f_code d, f_vendor d).

Lemma key_nodup_cons k r : key_nodup (k :: r) = true -> ~ In k r /\ key_nodup r = true.
Proof.
  destruct k as [c v]. cbn [key_nodup]. intros H. apply andb_true_iff in H as [H1 H2]. split; [|exact H2].
  intros Hin. apply negb_true_iff in H1.
  assert (List.existsb (fun k => (fst k =? c) && (snd k =? v)) r = true); [|congruence].
  apply existsb_exists. exists (c, v). split; [exact Hin|]. cbn [fst snd]. rewrite !Z.eqb_refl. reflexivity.
Qed.

Lemma key_unique ds d d' : key_nodup (List.map dkey ds) = true ->
  In d ds -> In d' ds -> dkey d = dkey d' -> d = d'.
Proof.
  induction ds as [|x r IH]; intros Hn Hd Hd' He; [destruct Hd|].
  cbn [List.map] in Hn. apply key_nodup_cons in Hn as [Hx Hr].
  destruct Hd as [->|Hd]; destruct Hd' as [->|Hd'].
  - reflexivity.
  - exfalso. apply Hx. rewrite He. apply in_map. exact Hd'.
  - exfalso. apply Hx. rewrite <- He. apply in_map. exact Hd.
  - apply IH; assumption.
Qed.

Lemma def_for_key_in ds d : key_nodup (List.map dkey ds) = true -> In d ds ->
  def_for_key ds (f_code d) (f_vendor d) = Some d.
Proof.
  intros Hn Hd. unfold def_for_key. apply find_unique.
  - apply in_rev in Hd. exact Hd.
  - rewrite !Z.eqb_refl. reflexivity.
  - intros y Hy Hp. apply in_rev in Hy. apply andb_true_iff in Hp as [H1 H2].
    apply Z.eqb_eq in H1. apply Z.eqb_eq in H2.
    apply (key_unique ds y d Hn Hy Hd). unfold dkey. congruence.
Qed.

Lemma find_attr_in ds d : str_nodup (List.map f_attr ds) = true -> In d ds ->
  find (fun d' => String.eqb (f_attr d') (f_attr d)) ds = Some d.
Proof.
  intros Hn Hd. apply find_unique; [exact Hd|apply seqb_refl|].
  intros y Hy Hp. apply String.eqb_eq in Hp. apply (attr_unique ds y d Hn Hy Hd Hp).
Qed.

(* what the theorems need of a class: class_ok, and codes / vendor ids that fit 32 bits *)
Definition class_wf (e : env) (c : clsdef) : Prop :=
  class_ok (e_rows e) (e_classes e) c = true /\
  Forall (fun d => 0 <= f_code d < 4294967296 /\ 0 <= f_vendor d < 4294967296) (d_defs c).

Definition tables_ok (e : env) : Prop := forall c, In c (e_classes e) -> class_wf e c.

Lemma class_ok_inv rows cs c : class_ok rows cs c = true ->
  (forall d, In d (d_defs c) -> def_ok rows cs d = true) /\
  str_nodup (List.map f_attr (d_defs c)) = true /\
  key_nodup (List.map dkey (d_defs c)) = true.
Proof.
  unfold class_ok. intros H.
  apply andb_true_iff in H as [H _]. apply andb_true_iff in H as [H H3]. apply andb_true_iff in H as [H1 H2].
  split; [|split; [exact H2|exact H3]].
  intros d Hd. rewrite forallb_forall in H1. apply H1. exact Hd.
Qed.

Lemma ty_eqb_eq a b : ty_eqb a b = true <-> a = b.
Proof. destruct a, b; cbn [ty_eqb]; split; intros H; try reflexivity; try discriminate. Qed.

(* a definition of a well-formed class: its dictionary row, and grouped iff container *)
Lemma def_ok_inv rows cs d : def_ok rows cs d = true ->
  exists r, lookup rows (f_code d) (f_vendor d) = Some r /\
    (f_tclass d = ""%string -> row_ty r <> TGrouped) /\
    (f_tclass d <> ""%string -> row_ty r = TGrouped /\
        exists k, cdef_lookup cs (f_tclass d) = Some k /\ d_is_msg k = false).
Proof.
  unfold def_ok. destruct (lookup rows (f_code d) (f_vendor d)) as [r|]; [|discriminate].
  intros H. exists r. split; [reflexivity|].
  destruct (String.eqb (f_tclass d) "") eqn:E.
  - apply String.eqb_eq in E. split; [|congruence].
    intros _ Hg. rewrite Hg in H. discriminate.
  - apply String.eqb_neq in E. split; [congruence|]. intros _.
    apply andb_true_iff in H as [H1 H2]. apply ty_eqb_eq in H1. split; [exact H1|].
    destruct (cdef_lookup cs (f_tclass d)) as [k|]; [|discriminate].
    exists k. split; [reflexivity|]. apply negb_true_iff in H2. exact H2.
Qed.

(* ---- a fresh instance ---------------------------------------------------- *)
Lemma fresh_cls cs cls : obj_cls (fresh cs cls) = cls.
Proof. unfold fresh. destruct (cdef_lookup cs cls); reflexivity. Qed.

Lemma fresh_extra cs cls : obj_extra (fresh cs cls) = [].
Proof. unfold fresh. destruct (cdef_lookup cs cls); reflexivity. Qed.

Lemma fresh_assoc cs cls c n : cdef_lookup cs cls = Some c ->
  assoc n (obj_fields (fresh cs cls)) =
  match assoc n (d_init c) with
  | Some i => Some (init_aval (find (fun d => String.eqb (f_attr d) n) (d_defs c)) i)
  | None => None
  end.
Proof.
  intros Hc. unfold fresh. rewrite Hc. cbn [obj_fields].
  apply (assoc_map (fun k i => init_aval (find (fun d => String.eqb (f_attr d) k) (d_defs c)) i)).
Qed.

(* the value attribute (f_attr d) has in a fresh instance *)
Definition fresh_val (c : clsdef) (d : defrow) : option aval :=
  match assoc (f_attr d) (d_init c) with
  | Some i => Some (init_aval (Some d) i)
  | None => None
  end.

Lemma fresh_assoc_def cs cls c d : cdef_lookup cs cls = Some c ->
  str_nodup (List.map f_attr (d_defs c)) = true -> In d (d_defs c) ->
  assoc (f_attr d) (obj_fields (fresh cs cls)) = fresh_val c d.
Proof.
  intros Hc Hn Hd. rewrite (fresh_assoc cs cls c _ Hc). unfold fresh_val.
  rewrite (find_attr_in (d_defs c) d Hn Hd). reflexivity.
Qed.

(* ====================================================================== *)
(* 5. shaped objects, and equality of objects up to representation          *)
(* ====================================================================== *)
(* a scalar value for definition d: in the domain of the dictionary type, and its payload fits
   the 24-bit AVP length *)
Definition scalar_ok (e : env) (d : defrow) (v : value) : Prop :=
  exists r, lookup (e_rows e) (f_code d) (f_vendor d) = Some r /\
    in_domain (row_ty r) v = true /\
    forall p, enc_val (e_time e) (row_ty r) v = Ok p -> 12 + blen p < 16777216.

(* a nested object for definition d: an instance of the definition's container class, shaped
   (sh), and its encoded AVPs fit the 24-bit AVP length *)
Definition nested_ok (e : env) (sh : obj -> Prop) (d : defrow) (o' : obj) : Prop :=
  obj_cls o' = f_tclass d /\ sh o' /\
  forall sub p, gen_obj e o' = Ok sub -> enc_avps sub = Ok p -> 12 + blen p < 16777216.

(* the value `a` (None: no such field) of the attribute of definition d, where i says how a fresh
   instance presets that attribute (None: not preset) *)
Definition field_shaped (e : env) (sh : obj -> Prop) (d : defrow) (i : option init) (a : option aval) : Prop :=
  match i with
  | Some InitList =>
      (* list attribute: a list of any length; of scalars for a scalar definition (the empty list
         may be of either kind), of container instances for a container definition *)
      match a with
      | Some (AVals vs) => f_tclass d = ""%string /\ Forall (scalar_ok e d) vs
      | Some (AObjs os) => (f_tclass d = ""%string /\ os = []) \/
                           (f_tclass d <> ""%string /\ Forall (nested_ok e sh d) os)
      | _ => False
      end
  | Some InitClass => False
  | _ =>
      (* not preset, or preset to an integer: unset (only if not preset), a scalar, or an object *)
      match a with
      | None | Some ANone => i = None
      | Some (AVal v) => f_tclass d = ""%string /\ scalar_ok e d v
      | Some (AObj o') => f_tclass d <> ""%string /\ nested_ok e sh d o'
      | _ => False
      end
  end.

Fixpoint shaped (e : env) (fuel : nat) (o : obj) : Prop :=
  match fuel with
  | O => False
  | S f =>
      match cdef_lookup (e_classes e) (obj_cls o) with
      | None => False
      | Some c =>
          d_has_defs c = true /\ class_wf e c /\
          (* no extras without a slot for them *)
          (d_extra c = false -> obj_extra o = []) /\
          (* extras are encodable and are not AVPs of a declared attribute *)
          Forall (fun a => wf_avp' a /\ def_for_key (d_defs c) (a_code a) (a_vendor a) = None) (obj_extra o) /\
          forall d, In d (d_defs c) ->
            field_shaped e (shaped e f) d (assoc (f_attr d) (d_init c)) (assoc (f_attr d) (obj_fields o))
      end
  end.

Definition unset (a : option aval) : bool :=
  match a with None | Some ANone => true | _ => false end.

(* attribute values up to: None vs absent; for a scalar definition, the empty list of either kind *)
Definition aval_equiv (oe : obj -> obj -> Prop) (d : defrow) (a b : option aval) : Prop :=
  match a with
  | None | Some ANone => unset b = true
  | Some (AVal x) => b = Some (AVal x)
  | Some (AVals x) => b = Some (AVals x) \/ (x = [] /\ b = Some (AObjs []) /\ f_tclass d = ""%string)
  | Some (AObj x) => exists y, b = Some (AObj y) /\ oe x y
  | Some (AObjs x) => (exists y, b = Some (AObjs y) /\ Forall2 oe x y) \/
                      (x = [] /\ b = Some (AVals []) /\ f_tclass d = ""%string)
  | Some (AClass k) => b = Some (AClass k)
  end.

(* objects up to the order of fields and the above, through every declared attribute *)
Fixpoint obj_equiv (e : env) (fuel : nat) (a b : obj) : Prop :=
  match fuel with
  | O => False
  | S f =>
      obj_cls a = obj_cls b /\ obj_extra a = obj_extra b /\
      match cdef_lookup (e_classes e) (obj_cls a) with
      | None => obj_fields a = obj_fields b
      | Some c => forall d, In d (d_defs c) ->
                    aval_equiv (obj_equiv e f) d (assoc (f_attr d) (obj_fields a)) (assoc (f_attr d) (obj_fields b))
      end
  end.

Lemma field_shaped_mono e (sh sh' : obj -> Prop) d i a :
  (forall o, sh o -> sh' o) -> field_shaped e sh d i a -> field_shaped e sh' d i a.
Proof.
  intros Hs. assert (Hn : forall o, nested_ok e sh d o -> nested_ok e sh' d o).
  { intros o (H1 & H2 & H3). split; [exact H1|]. split; [apply Hs; exact H2|exact H3]. }
  unfold field_shaped. destruct i as [[| |]|]; destruct a as [[|v|l|o'|l|k]|]; try tauto.
  - intros [H|[H1 H2]]; [left; exact H|right]. split; [exact H1|].
    eapply Forall_impl; [|exact H2]. exact Hn.
  - intros [H1 H2]. split; [exact H1|apply Hn; exact H2].
  - intros [H1 H2]. split; [exact H1|apply Hn; exact H2].
Qed.

Lemma shaped_S e fuel : forall o, shaped e fuel o -> shaped e (S fuel) o.
Proof.
  induction fuel as [|f IH]; intros o H; [destruct H|].
  cbn [shaped] in H. change (shaped e (S (S f)) o) with
    (match cdef_lookup (e_classes e) (obj_cls o) with
     | None => False
     | Some c =>
         d_has_defs c = true /\ class_wf e c /\ (d_extra c = false -> obj_extra o = []) /\
         Forall (fun a => wf_avp' a /\ def_for_key (d_defs c) (a_code a) (a_vendor a) = None) (obj_extra o) /\
         forall d, In d (d_defs c) ->
           field_shaped e (shaped e (S f)) d (assoc (f_attr d) (d_init c)) (assoc (f_attr d) (obj_fields o))
     end).
  destruct (cdef_lookup (e_classes e) (obj_cls o)) as [c|]; [|exact H].
  destruct H as (H1 & H2 & H3 & H4 & H5).
  split; [exact H1|]. split; [exact H2|]. split; [exact H3|]. split; [exact H4|].
  intros d Hd. eapply field_shaped_mono; [exact IH|apply H5; exact Hd].
Qed.

Lemma shaped_mono e fuel fuel' o : (fuel <= fuel')%nat -> shaped e fuel o -> shaped e fuel' o.
Proof. intros Hle H. induction Hle; [exact H|apply shaped_S; assumption]. Qed.
