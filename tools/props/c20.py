"""C20 — answers built from requests mirror the header and use the paired answer class."""
from __future__ import annotations

import copy
import random

import implobs as O
import tables
import vlib

FILES = ["Link/LinkRegistry.v", "Props/C20.v"]
PRE = ("From DV Require Import Prelude.Base Model.Wire Model.Obs Model.Msg Gen.GenRegistry.\n"
       "From Coq Require Import String.\n")
IDS = [0, 1, 0x7fffffff, 0x80000000, 0xffffffff]


NODE_HOST, NODE_REALM = "Srv1.Example.NET", "Example.NET"

def hdr_tuple(h):
    return (h.version, h.length, h.command_flags, h.command_code, h.application_id,
            h.hop_by_hop_identifier, h.end_to_end_identifier)


def coq_hdr(t):
    v, ln, f, c, app, hbh, e2e = t
    return (f"{{| h_version := {v}; h_length := {ln}; h_flags := {f}; h_code := {c}; "
            f"h_app := {app}; h_hbh := {hbh}; h_e2e := {e2e} |}}")


def expected_answer_class(cls):
    """the property's rule: <X>Request -> <X>Answer when the library defines one"""
    from diameter.message import Message
    name = cls.__name__
    if not name.endswith("Request"):
        return name
    base = name[:-7]
    classes = {c.__name__: c for c in tables._all_message_classes()}
    if base + "Answer" in classes and base in classes and issubclass(cls, classes[base]) \
            and issubclass(classes[base + "Answer"], classes[base]):
        return base + "Answer"
    if base in classes and issubclass(cls, classes[base]):
        return base
    return "Message"


def check(run):
    from diameter.message import Message, MessageHeader
    from diameter.node import Node
    from diameter.node.application import Application
    thorough = run.tier == "thorough"
    rng = random.Random(run.seed)
    run.rule = ("every Message subclass (typed requests/answers/bases, untyped commands, generic) x flag octets "
                "(all 16 R/P/E/T combinations, all 256 in thorough) x boundary identifiers through to_answer, "
                "Node._generate_answer and Application.generate_answer; non-trivial = distinct (class, header)")
    run.obligations(FILES)
    classes = tables._all_message_classes()
    flag_set = list(range(256)) if thorough else sorted(set([r | p | e | t for r in (0, 0x80) for p in (0, 0x40)
                                                             for e in (0, 0x20) for t in (0, 0x10)] + [0x0f, 0xff, 0x4f, 0x8f]))
    cases, meta = [], []
    node = Node(NODE_HOST, NODE_REALM)     # identities as configured, capitals included
    app = Application(4, is_auth_application=True)
    app._node = node
    for cls in classes:
        want_cls = expected_answer_class(cls)
        for f in flag_set:
            ids = (rng.choice(IDS), rng.choice(IDS), rng.choice(IDS))
            req = cls()
            req.header.version = rng.choice([1, 0, 255]) if f % 5 == 0 else 1
            req.header.command_flags = f
            req.header.application_id, req.header.hop_by_hop_identifier, req.header.end_to_end_identifier = ids
            if cls in (Message,) or not getattr(cls, "code", 0):
                req.header.command_code = rng.choice([0, 1, 999, 16777215])
            before = hdr_tuple(req.header)
            before_avps = [a.as_bytes() for a in req.avps] if hasattr(req, "avps") else []
            case = {"class": cls.__name__, "header": list(before)}
            try:
                ans = req.to_answer()
            except Exception as e:   # noqa
                run.violation("to-answer-raises", case, O.err_kind(e))
                continue
            got_cls = type(ans).__name__
            got = hdr_tuple(ans.header)
            run.count(1, [(cls.__name__, before)])
            if got_cls != want_cls:
                run.violation("answer-class", case, got_cls, want_cls)
            v, _, fl, code, a_id, hbh, e2e = before
            if (got[0], got[3], got[4], got[5], got[6]) != (v, code, a_id, hbh, e2e):
                run.violation("header-copied", case, list(got), what="answer header does not mirror the request")
            if got[2] != (fl & 0x40):
                run.violation("answer-flags", case, got[2], fl & 0x40,
                              what="answer must keep the P bit and clear R, E and T")
            if hdr_tuple(req.header) != before or ([a.as_bytes() for a in req.avps] if hasattr(req, "avps") else []) != before_avps:
                run.violation("request-unchanged", case, list(hdr_tuple(req.header)))
            cases.append(f"({vlib.coq_string(cls.__name__)}, {coq_hdr(before)}, {vlib.coq_string(got_cls)}, {coq_hdr(got)})")
            meta.append(case)
    run.sample(meta[0])
    run.sample(meta[len(meta) // 2])
    # answers generated through a node / an application
    from diameter.message.commands import (CreditControlRequest, DeviceWatchdogRequest, CapabilitiesExchangeRequest,
                                           ReAuthRequest, AccountingRequest)
    from diameter.message.avp.grouped import ProxyInfo
    n_gen = 0
    for cls in [c for c in classes if c.__name__.endswith("Request")] + [Message]:
        for with_sid, with_proxy, fbits in ((False, False, 0), (True, False, 0x40), (True, True, 0x40), (True, True, 0x00),
                                            (False, True, 0x10), (True, True, 0x50)):
            req = cls()
            declared = {d.attr_name for d in getattr(cls, "avp_def", ())}
            if with_sid and "session_id" in declared:
                req.session_id = "sess;1;2"
            if "destination_realm" in declared:
                req.destination_realm = b"elsewhere.example.org"       # the answer's Origin-Realm is the LOCAL realm all the same
            if with_proxy and "proxy_info" in declared:
                req.proxy_info = [ProxyInfo(proxy_host=b"p.example.net", proxy_state=b"\x01\x02")]
            req.header.hop_by_hop_identifier = 77
            req.header.end_to_end_identifier = 88
            app_id = [0, 4, 16777238, 0xffffffff][(n_gen // 2) % 4]         # incl. the boundary 0: mirrored, never "filled in"
            req.header.application_id = app_id
            req.header.command_flags = (req.header.command_flags & ~0x70) | fbits     # P and T bits vary independently
            for how in ("node", "app"):
                a = node._generate_answer(None, req) if how == "node" else app.generate_answer(req, 2001, "ok")
                case = {"class": cls.__name__, "via": how, "session": with_sid, "proxy": with_proxy, "flag_bits": fbits}
                n_gen += 1
                run.count(1, [("gen", cls.__name__, how, with_sid, with_proxy, fbits)])
                if a.origin_host != NODE_HOST.encode() or a.origin_realm != NODE_REALM.encode():
                    run.violation("origin", case, [a.origin_host, a.origin_realm])
                if hasattr(req, "session_id") and getattr(a, "session_id", None) != getattr(req, "session_id"):
                    run.violation("session-id-copied", case, getattr(a, "session_id", None))
                if hasattr(req, "proxy_info") and getattr(a, "proxy_info", None) != getattr(req, "proxy_info"):
                    run.violation("proxy-info-copied", case, "differs")
                adecl = {d.attr_name for d in getattr(type(a), "avp_def", ())}
                if adecl:
                    wire = a.as_bytes()
                    got = O.ref_parse_avps(wire[20:])
                    codes = [(c, v) for c, _, v, _ in got]
                    if "origin_host" in adecl and (264, 0) not in codes:
                        run.violation("origin-on-wire", case, codes[:10])
                    if with_sid and "session_id" in declared and "session_id" in adecl and (263, 0) not in codes:
                        run.violation("session-on-wire", case, codes[:10])
                    # whatever the answer class's table says: Proxy-Info that was copied into the answer object has to be
                    # among the bytes, once per element
                    if with_proxy and "proxy_info" in declared and getattr(a, "proxy_info", None) and \
                            codes.count((284, 0)) != len(req.proxy_info):
                        run.violation("proxy-on-wire", case, codes[:10], what=f"{type(a).__name__}: the request's Proxy-Info is in the answer object "
                                      "but not among its encoded AVPs")
                    if with_sid and "session_id" in declared and getattr(a, "session_id", None) and (263, 0) not in codes:
                        run.violation("session-on-wire", case, codes[:10])
                    ah = a.header
                    if (ah.hop_by_hop_identifier, ah.end_to_end_identifier, ah.command_flags & 0xb0) != (77, 88, 0):
                        run.violation("generated-header", case, list(hdr_tuple(ah)))
                if a.header.application_id != app_id or a.header.command_code != req.header.command_code:
                    run.violation("generated-header", dict(case, request_application_id=app_id), list(hdr_tuple(a.header)),
                                  what="a generated answer does not bear the request's application id / command code")
    # commands WITHOUT a python class (registered placeholders and unknown codes): the node's own answers carry the base AVPs
    from diameter.message.commands import all_commands
    from diameter.message import DefinedMessage
    untyped = sorted(c for c, k in all_commands.items() if not issubclass(k, DefinedMessage))[:12] + [999, 8388000]
    sess = O.ref_avp(263, 0x40, 0, b"sess;9;9")
    pinfo = O.ref_avp(284, 0x40, 0, O.ref_avp(280, 0x40, 0, b"p.example.net") + O.ref_avp(33, 0x40, 0, b"\x01\x02"))
    for code in untyped:
        sess2 = O.ref_avp(263, 0x40, 0, b"sess;other")
        for body, label in ((sess + pinfo + pinfo, "session+2 proxy-info"), (b"", "no AVPs"), (pinfo, "proxy-info only"),
                            (sess + sess2 + pinfo, "session (repeated: the first counts)+proxy-info")):
            for fbits in (0x80, 0xc0, 0x90):
                wire = bytes([1]) + (20 + len(body)).to_bytes(3, "big") + bytes([fbits]) + code.to_bytes(3, "big") + \
                    (16777238).to_bytes(4, "big") + (77).to_bytes(4, "big") + (88).to_bytes(4, "big") + body
                req = Message.from_bytes(wire)
                try:
                    n_sid = len(req.find_avps((263, 0)))
                    req_bytes = req.as_bytes()
                    first = node._generate_answer(None, req)
                    first_bytes = first.as_bytes()
                    a = node._generate_answer(None, req)          # a second answer from the same request object
                    if req.as_bytes() != req_bytes or len(req.find_avps((263, 0))) != n_sid or a.as_bytes() != first_bytes:
                        run.violation("request-unmodified", {"command": code, "class": type(req).__name__, "request": label, "flags": fbits, "via": "node"},
                                      {"request_changed": req.as_bytes() != req_bytes, "session_id_search_before_after": [n_sid, len(req.find_avps((263, 0)))],
                                       "second_answer_equals_first": a.as_bytes() == first_bytes},
                                      "the request (and what a search in it returns) is as before; a second answer equals the first",
                                      what=f"generating an answer to command {code} modifies the request")
                    node._set_result_code(a, 3007) if hasattr(node, "_set_result_code") else None
                    got = O.ref_parse_avps(a.as_bytes()[20:])
                except Exception as e:   # noqa
                    run.count(1, [("gen-untyped", code, label, fbits)])
                    run.violation("generated-answer-base-avps", {"command": code, "class": type(req).__name__, "request": label, "flags": fbits, "via": "node"},
                                  f"{type(e).__name__}: {e}", "an answer",
                                  what=f"the node cannot build its answer to command {code} ({label}): {type(e).__name__}")
                    continue
                case = {"command": code, "class": type(req).__name__, "request": label, "flags": fbits, "via": "node"}
                n_gen += 1
                run.count(1, [("gen-untyped", code, label, fbits)])
                have = {(c, v): [p for c2, _f, v2, p in got if (c2, v2) == (c, v)] for c, _f, v, _p in got}
                problems = []
                if have.get((264, 0)) != [NODE_HOST.encode()] or have.get((296, 0)) != [NODE_REALM.encode()]:
                    problems.append("Origin-Host / Origin-Realm")
                if "session" in label and have.get((263, 0)) != [b"sess;9;9"]:
                    problems.append("Session-Id")
                if len(have.get((284, 0), [])) != label.count("proxy-info") * (2 if "2 proxy" in label else 1):
                    problems.append("Proxy-Info")
                ah = a.header
                if (ah.command_code, ah.application_id, ah.hop_by_hop_identifier, ah.end_to_end_identifier, ah.command_flags) != \
                        (code, 16777238, 77, 88, fbits & 0x40):
                    problems.append("header")
                if problems:
                    run.violation("generated-untyped", case, sorted((c, v) for c, v in have), None,
                                  what=f"the node's answer to command {code} (no python class) lacks / miscopies: " + ", ".join(problems))
    run.extra["generated_answers"] = n_gen
    run.exhaustive = thorough
    ok = ("Definition ok (c : string * hdr * string * hdr) : bool := let '(cn, h, an, ah) := c in\n"
          "  let '(an', ah') := to_answer class_rows cn h in String.eqb an' an && hdr_eqb ah' ah.\n")
    mism, errs = vlib.eval_mismatches(run.workdir, PRE, ok, cases, chunk=600, tag="ans")
    for i in mism:
        run.mismatch("to_answer model vs implementation", meta[i], cases[i][-300:])
    for e in errs:
        run.mismatch("coq evaluation", {}, e)
    node_answers(run)
    return run.finish()


def node_answers(run):
    """Answers a RUNNING node generates on its own paths (duplicate rejection, routing errors, validation, watchdog,
    handler failure), read back from the virtual socket byte by byte: R, E-as-sent and T bits, P mirrored, identifiers
    mirrored, Origin-Host of the node."""
    import nodesim as NS
    from vsim import Sim
    sim = Sim(seed=1, t0=NS.T0)
    try:
        sim.script_random([77, 12345])
        node = sim.node_mod.Node("srv.example.net", "example.net", ip_addresses=["10.0.0.1"], tcp_port=3868)

        def handler(app_, msg):
            if str(getattr(msg, "session_id", "")).startswith("raise;"):
                raise RuntimeError("handler failed")
            return app_.generate_answer(msg, 2001)
        app = sim.app_mod.SimpleThreadingApplication(4, is_auth_application=True, request_handler=handler)
        node.add_application(app, [node.add_peer("aaa://cli0.example.net", "example.net")])
        node.start()
        sim.run()
        sim.script_random([1000])
        r = sim.connect_in()
        sim.run()
        r.feed(NS.build_message(dict(kind="cer", host="cli0.example.net", hbh=1, e2e=1)))
        sim.run()
        r.take_sent()
        specs = [("request answered by the application", dict(kind="req", hbh=10, e2e=110, host="cli0.example.net"), 2001),
                 ("T-flagged repeat of the answered request", dict(kind="req", hbh=11, e2e=110, host="cli0.example.net", t=True), 5012),
                 ("request for an application nobody registered", dict(kind="req", hbh=12, e2e=112, host="cli0.example.net", app=777), 3007),
                 ("request for a realm not served", dict(kind="req", hbh=13, e2e=113, host="cli0.example.net", drealm="nowhere.example.com"), 3003),
                 ("request lacking a required AVP", dict(kind="req", hbh=14, e2e=114, host="cli0.example.net", no_type=True), 5005),
                 ("request whose handler raises", dict(kind="req", hbh=15, e2e=115, host="cli0.example.net", raises=True), 5012),
                 ("watchdog request", dict(kind="dwr", hbh=16, e2e=116, host="cli0.example.net"), 2001),
                 ("T-flagged watchdog request", dict(kind="dwr", hbh=17, e2e=117, host="cli0.example.net"), 2001)]
        for label, spec, want_rc in specs:
            for pbit in (0, 0x40):
                fr = bytearray(NS.build_message(dict(spec, hbh=spec["hbh"] + (100 if pbit else 0), e2e=spec["e2e"] + (1000 if pbit and "repeat" not in label else 0))))
                fr[4] = (fr[4] & ~0x40) | pbit
                if label == "T-flagged watchdog request":
                    fr[4] |= 0x10
                r.feed(bytes(fr))
                sim.run()
                sim.advance(1)
                out = r.take_sent()
                run.count(1, [("node-answer", label, pbit)])
                case = {"via": "running node", "request": label, "request_flags": fr[4]}
                answers = []
                while len(out) >= 20:
                    ln = int.from_bytes(out[1:4], "big")
                    answers.append(out[:ln])
                    out = out[ln:]
                mine = [a for a in answers if a[12:20] == bytes(fr[12:20])]
                if len(mine) != 1:
                    run.violation("generated-header", case, f"{len(mine)} answers", "one answer", what=f"{label}: {len(mine)} answers on the socket")
                    continue
                a = mine[0]
                avps = O.ref_parse_avps(a[20:])
                rc = next((int.from_bytes(p_, "big") for c_, _f, v_, p_ in avps if (c_, v_) == (268, 0)), None)
                oh = [p_ for c_, _f, v_, p_ in avps if (c_, v_) == (264, 0)]
                if a[4] & 0x90 or (a[4] & 0x40) != pbit or a[5:12] != bytes(fr[5:12]) or oh != [b"srv.example.net"] or rc != want_rc:
                    run.violation("generated-header", case, {"flags": a[4], "result_code": rc, "origin_host": [x.decode(errors="replace") for x in oh]},
                                  {"flags": "R and T clear, P as in the request", "result_code": want_rc, "origin_host": "srv.example.net"},
                                  what=f"{label}: the node's answer has flags {a[4]:#04x} / result {rc}")
        if sim.thread_deaths:
            run.violation("generated-header", {"via": "running node"}, [str(d)[:80] for d in sim.thread_deaths])
    finally:
        sim.shutdown()


def replay(r):
    print("replay: re-run ./check C20 (enumeration is deterministic)")
    return False
