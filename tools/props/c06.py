"""C06 — node-layer property; see tools/nodecheck.py and tools/nodeoracles.py."""
import nodecheck

PROFILE = dict(outbound=0.5)
W = nodecheck.weights(pre_handshake=4, cer_plus=3, cea=8, request=3, stall=1)
N_QUICK, N_THOROUGH, LENGTH = 60, 1500, 14
THEMES = (("handshake_in", 2, 60, 3, 600), ("handshake_out", 2, 60, 3, 600), ("ready", 1, 30, 2, 300))
FILES = ["Props/C06.v"]


def check(run):
    return nodecheck.run(run, "C06", FILES, PROFILE, W, N_QUICK, N_THOROUGH, LENGTH, themes=THEMES)


replay = nodecheck.replay_generic
