(* Inductive invariants of the node model (Model/Node.v): properties of every state reachable
   from a well-formed initial state by ANY list of events.

   Method.  Every function of the model is shown to be a finite composition of a dozen ATOMIC
   transitions (`astep`, closure `trans`): one lemma per model function, independent of the
   invariants (section 2).  Every invariant is then shown to be preserved by each atomic
   transition, hence by `step`, hence (induction over the event list) by `run`.

   Unconditional (`reach`):   I_ids, C13_tables_subset, C13_closed_nowhere, C13_closed_stays_closed,
                              C13_reason_set, remove_conn_sets_reason, C19_windows_bounded,
                              C06_ready_inbound_known, C12_outbound_owned, C12_single_outbound
                              (C12 no longer needs "no peer named the empty string").
   Under `reach_c` (no peer named "", clause (i') below):
                              C13_peer_conn_live(_strong), C13_peer_conn_exact (the run-level
                              converse), C13_one_conn_per_peer, C13_no_conns_no_peer_conn.
   Under `reach_nc` (no peer named "", clause (iii) below):
                              C19_waiting_hosts, C19_no_conns_no_waiting.
   Under `reach_g` (no peer named "", clauses (i') and (iii)):
                              C06_ready_known_g, C19_no_conns_no_tables.
   Under `reach_ga` (= reach_g + `ans_disc`: every EAppAnswer of the history carries o_req = false):
                              C19_origin_backed (every entry (k, h, e, o) of the origin table: connection k
                              exists, has a host identity, and the waiting set of that host lists (h, e)),
                              C19_no_conns_no_origin.  The discipline is needed:
                              C19_origin_backed_request_flag_refuted; so is the guard, now that the table is
                              keyed by connection: C19_origin_backed_unguarded_refuted (the statement used to
                              hold under `reach_a` = wf_init + ans_disc alone).
   Step level:                C13_ready_flag_partial, C13_ready_flag_removed,
                              C13_peer_conn_converse_partial, C13_election_clears_rivals.

   The model is the REPAIRED implementation: receive_cer acts only while the connection awaits the CER
   (CONNECTED) and runs the RFC 6733 5.6.4 election among the connections that carry the CER's
   Origin-Host as node name; receive_cea acts only while the answer is awaited and closes the connection
   when the Origin-Host is not the dialled peer; the gate drops a CE request on an outbound and a CE answer
   on an inbound CONNECTED connection.  The former clauses (i) "at most one CER per connection" and (ii)
   "no CER is read from an outbound connection" of the guard are gone (second_cer_ignored,
   outbound_cer_ignored).  What is left:
     (i')  a CER that receive_cer PROCESSES (dispatched while its connection is inbound and CONNECTED)
           carries the connection's node name as Origin-Host unless the connection has no node name yet.
           A CONNECTED inbound connection has a node name exactly when an earlier CER on it was answered
           5010 NO_COMMON_APPLICATION.  `cer_guard`; a sufficient condition on the input alone is
           `cer_guard_syn` (cer_guard_syn_sufficient);
     (iii) nothing is read from a connection whose connect() has not completed (`conn_guard`).
   Each is needed (vm_compute witnesses):
     - (i'):  C13_cer_origin_change_refuted (a history satisfying (iii)),
              C13_peer_conn_exact_unguarded_refuted, C13_one_conn_per_peer_unguarded_refuted
     - (iii): C19_connecting_read_refuted, C06_connecting_read_refuted (histories satisfying (i'))
     - "no peer named the empty string": C13_empty_name_refuted, C19_empty_name_refuted.
   No longer counterexamples, deleted: C13_second_cer_refuted, C13_outbound_cer_refuted,
   C19_waiting_hosts_refuted (their histories are now second_cer_ignored / outbound_cer_ignored, and
   C19_waiting_hosts is proved without any condition on CE messages), the old history of
   C13_peer_conn_exact_unguarded_refuted (replaced by one that starts with a 5010 answer), and
   C12_empty_name_refuted (C12 is unconditional now). *)
From DV Require Import Prelude.Base Model.Node.
From Coq Require Import String.
From Coq Require Import List Lia Bool Arith.
Import ListNotations.
Local Open Scope nat_scope.


(* ---------------------------------------------------------------------------------------- *)
(* 0. list helpers                                                                            *)
(* ---------------------------------------------------------------------------------------- *)
Lemma NoDup_map_filter {A B} (f : A -> B) (g : A -> bool) (l : list A) :
  NoDup (List.map f l) -> NoDup (List.map f (List.filter g l)).
Proof.
  induction l as [|a l IH]; cbn [List.map List.filter]; intros H; [constructor|].
  inversion H as [|x xs Hnin Hnd]; subst.
  destruct (g a); cbn [List.map]; auto.
  constructor; auto. intro Hin. apply Hnin.
  apply in_map_iff in Hin. destruct Hin as [y [Hy Hin]]. apply filter_In in Hin.
  apply in_map_iff. exists y. tauto.
Qed.

Lemma NoDup_filter' {A} (g : A -> bool) (l : list A) : NoDup l -> NoDup (List.filter g l).
Proof.
  intros H. rewrite <- (map_id (List.filter g l)). apply NoDup_map_filter. now rewrite map_id.
Qed.

Lemma NoDup_app_fresh {A} (l : list A) (x : A) : NoDup l -> ~ List.In x l -> NoDup (l ++ [x])%list.
Proof.
  intros Hnd Hnin. induction l as [|a l IH]; cbn; [constructor; [tauto|constructor]|].
  inversion Hnd; subst. constructor.
  - rewrite in_app_iff. cbn. intros [H|[H|[]]]; [tauto|]. subst. apply Hnin. now left.
  - apply IH; auto. intro. apply Hnin. now right.
Qed.

Lemma in_remove_nat x y l : List.In x (remove_nat y l) <-> List.In x l /\ x <> y.
Proof.
  unfold remove_nat. rewrite filter_In. split; intros [H1 H2]; split; auto.
  - intro; subst. rewrite Nat.eqb_refl in H2. discriminate.
  - apply negb_true_iff. apply Nat.eqb_neq. auto.
Qed.

(* ---- connections ---- *)
Definition soft (f : conn -> conn) : Prop :=
  forall c, c_id (f c) = c_id c /\ c_recv (f c) = c_recv c /\ c_node_name (f c) = c_node_name c /\ c_host (f c) = c_host c /\
            c_state (f c) = c_state c.
(* as soft, but the connection state may change *)
Definition isoft (f : conn -> conn) : Prop :=
  forall c, c_id (f c) = c_id c /\ c_recv (f c) = c_recv c /\ c_node_name (f c) = c_node_name c /\ c_host (f c) = c_host c.
Definition keeps_id (f : conn -> conn) : Prop := forall c, c_id (f c) = c_id c.
Lemma soft_keeps f : soft f -> keeps_id f.
Proof. intros H c. apply H. Qed.
Lemma isoft_keeps f : isoft f -> keeps_id f.
Proof. intros H c. apply H. Qed.
Lemma soft_isoft f : soft f -> isoft f.
Proof. intros H c. destruct (H c) as [A [B [C [D _]]]]. auto. Qed.

Lemma map_id_upd_conn l i f : keeps_id f -> List.map c_id (upd_conn l i f) = List.map c_id l.
Proof.
  intros Hf. induction l as [|c l IH]; cbn; auto.
  destruct (Nat.eqb (c_id c) i); cbn; [now rewrite Hf|now rewrite IH].
Qed.

Lemma in_upd_conn l i f c' :
  List.In c' (upd_conn l i f) -> List.In c' l \/ exists c, List.In c l /\ c' = f c /\ c_id c = i.
Proof.
  induction l as [|c l IH]; cbn; [tauto|].
  destruct (Nat.eqb (c_id c) i) eqn:E; cbn.
  - intros [H|H]; [right; exists c; apply Nat.eqb_eq in E; auto|auto].
  - intros [H|H]; [auto|]. destruct (IH H) as [H1|[c0 [H1 H2]]]; [auto|right; exists c0; tauto].
Qed.

(* the other direction: every old connection has an image *)
Lemma upd_conn_image l i f c :
  List.In c l -> List.In c (upd_conn l i f) \/ (c_id c = i /\ List.In (f c) (upd_conn l i f)).
Proof.
  induction l as [|a l IH]; cbn; [tauto|].
  destruct (Nat.eqb (c_id a) i) eqn:E; cbn.
  - intros [H|H]; [subst; right; apply Nat.eqb_eq in E; auto|auto].
  - intros [H|H]; [auto|]. destruct (IH H) as [H1|[H1 H2]]; auto.
Qed.

Lemma find_conn_some l i c : List.find (fun c => Nat.eqb (c_id c) i) l = Some c -> List.In c l /\ c_id c = i.
Proof. intros H. apply find_some in H. destruct H as [H1 H2]. apply Nat.eqb_eq in H2. auto. Qed.

Lemma get_conn_some n i c : get_conn n i = Some c -> List.In c (n_conns n) /\ c_id c = i.
Proof. apply find_conn_some. Qed.

Lemma get_conn_none n i : get_conn n i = None -> ~ List.In i (List.map c_id (n_conns n)).
Proof.
  unfold get_conn. intros H Hin. apply in_map_iff in Hin. destruct Hin as [c [E Hin]].
  eapply find_none in H; eauto. cbn in H. rewrite E, Nat.eqb_refl in H. discriminate.
Qed.

Lemma find_upd_conn l i f : keeps_id f ->
  List.find (fun c => Nat.eqb (c_id c) i) (upd_conn l i f) = option_map f (List.find (fun c => Nat.eqb (c_id c) i) l).
Proof.
  intros Hf. induction l as [|c l IH]; cbn; auto.
  destruct (Nat.eqb (c_id c) i) eqn:E; cbn; [rewrite Hf, E; auto|rewrite E; auto].
Qed.

Lemma find_upd_conn_other l i j f : keeps_id f -> i <> j ->
  List.find (fun c => Nat.eqb (c_id c) j) (upd_conn l i f) = List.find (fun c => Nat.eqb (c_id c) j) l.
Proof.
  intros Hf Hij. induction l as [|c l IH]; cbn; auto.
  destruct (Nat.eqb (c_id c) i) eqn:E; cbn.
  - rewrite Hf. apply Nat.eqb_eq in E. destruct (Nat.eqb (c_id c) j) eqn:E2; auto.
    apply Nat.eqb_eq in E2. congruence.
  - destruct (Nat.eqb (c_id c) j) eqn:E2; auto.
Qed.

(* with distinct ids, find returns the element itself *)
Lemma find_conn_in l c : NoDup (List.map c_id l) -> List.In c l ->
  List.find (fun x => Nat.eqb (c_id x) (c_id c)) l = Some c.
Proof.
  induction l as [|a l IH]; cbn; [tauto|]. intros Hnd [H|H].
  - subst. now rewrite Nat.eqb_refl.
  - inversion Hnd; subst. destruct (Nat.eqb (c_id a) (c_id c)) eqn:E; [|auto].
    apply Nat.eqb_eq in E. exfalso. apply H2. rewrite E. now apply in_map.
Qed.

(* ---- peers ---- *)
Definition keeps_name (f : peer -> peer) : Prop := forall p, p_name (f p) = p_name p.

Lemma map_name_upd_peer l nm f : keeps_name f -> List.map p_name (upd_peer l nm f) = List.map p_name l.
Proof.
  intros Hf. induction l as [|p l IH]; cbn; auto.
  destruct (String.eqb (p_name p) nm); cbn; [now rewrite Hf|now rewrite IH].
Qed.

Lemma in_upd_peer l nm f p' : NoDup (List.map p_name l) ->
  List.In p' (upd_peer l nm f) ->
  (List.In p' l /\ p_name p' <> nm) \/ (exists p, List.In p l /\ p' = f p /\ p_name p = nm).
Proof.
  induction l as [|p l IH]; cbn; [tauto|]. intros Hnd.
  inversion Hnd as [|x xs Hnin Hnd']; subst.
  destruct (String.eqb (p_name p) nm) eqn:E; cbn.
  - apply String.eqb_eq in E. intros [H|H].
    + right. exists p. auto.
    + left. split; auto. intro D. apply Hnin. rewrite E, <- D. now apply in_map.
  - apply String.eqb_neq in E. intros [H|H]; [subst; left; auto|].
    destruct (IH Hnd' H) as [[H1 H2]|[q [H1 H2]]]; [left; auto|right; exists q; tauto].
Qed.

Lemma upd_peer_image l nm f p : NoDup (List.map p_name l) -> List.In p l ->
  (p_name p <> nm /\ List.In p (upd_peer l nm f)) \/ (p_name p = nm /\ List.In (f p) (upd_peer l nm f)).
Proof.
  induction l as [|a l IH]; cbn; [tauto|]. intros Hnd.
  inversion Hnd as [|x xs Hnin Hnd']; subst.
  destruct (String.eqb (p_name a) nm) eqn:E; cbn.
  - apply String.eqb_eq in E. intros [H|H].
    + subst. right. auto.
    + left. split; auto. intro D. apply Hnin. rewrite E, <- D. now apply in_map.
  - apply String.eqb_neq in E. intros [H|H]; [subst; left; auto|].
    destruct (IH Hnd' H) as [[H1 H2]|[H1 H2]]; auto.
Qed.

Lemma get_peer_some n nm p : get_peer n nm = Some p -> List.In p (n_peers n) /\ p_name p = nm.
Proof. intros H. apply find_some in H. destruct H as [H1 H2]. apply String.eqb_eq in H2. auto. Qed.

Lemma get_peer_in n p : NoDup (List.map p_name (n_peers n)) -> List.In p (n_peers n) ->
  get_peer n (p_name p) = Some p.
Proof.
  unfold get_peer. generalize (n_peers n). intros l. induction l as [|a l IH]; cbn; [tauto|].
  intros Hnd [H|H].
  - subst. now rewrite String.eqb_refl.
  - inversion Hnd; subst. destruct (String.eqb (p_name a) (p_name p)) eqn:E; [|auto].
    apply String.eqb_eq in E. exfalso. apply H2. rewrite E. now apply in_map.
Qed.

(* ---------------------------------------------------------------------------------------- *)
(* 1. atomic transitions                                                                      *)
(* ---------------------------------------------------------------------------------------- *)
(* MAny: no restriction.  MG nc w: (identity guard) a host identity is only ever set to the
   connection's node name; node names are written (name_fn) only as allowed by w (WAll: any name
   anywhere, WOn k h: the name h on connection k, WNone: nowhere); if nc = true, in addition nothing
   is read from a connection that is still CONNECTING.  MN: only the CONNECTING clause. *)
Inductive wmode : Set := WAll | WOn (k : nat) (h : string) | WNone.
Inductive mode : Set := MAny | MN | MG (nc : bool) (w : wmode).
Definition writes (md : mode) (cid : nat) (host : string) : Prop :=
  match md with MAny | MN | MG _ WAll => True | MG _ (WOn k h) => k = cid /\ h = host | MG _ WNone => False end.
Definition guarded (md : mode) : Prop :=
  match md with MG _ _ => True | _ => False end.
Definition noconn (md : mode) : Prop :=
  match md with MG true _ | MN => True | _ => False end.

(* the states in which a connection has been through a capabilities exchange *)
Definition est (s : cstate) : Prop :=
  match s with SReady | SReadyWaitDwa | SDisconnecting => True | _ => False end.
(* host identity h agrees with the node name of c (an outbound connection always has a node name:
   the second alternative is empty in reachable states when no peer is named "") *)
Definition id_ok (c : conn) (h : string) : Prop :=
  c_node_name c = h \/ (c_node_name c = ""%string /\ c_recv c = false).
(* an inbound connection whose capabilities exchange has just succeeded: the election has removed
   every other connection of the same node name, and the peer has a connection *)
Definition fresh_in (n : node) (c : conn) : Prop :=
  (forall c', List.In c' (n_conns n) -> c_node_name c' = c_node_name c -> c_id c' = c_id c) /\
  (c_host c <> ""%string -> forall p, get_peer n (c_host c) = Some p -> p_conn p <> None).
(* what is known of connection c when its capabilities exchange has just succeeded *)
Definition fresh_ce (md : mode) (n : node) (c : conn) : Prop :=
  (id_ok c (c_host c) \/ List.In (c_host c) (List.map p_name (n_peers n))) /\
  (guarded md -> id_ok c (c_host c)) /\
  (c_recv c = true -> c_node_name c <> ""%string \/ List.In (c_node_name c) (List.map p_name (n_peers n))) /\
  (guarded md -> c_recv c = true -> fresh_in n c).
(* a legal change of the state of connection c to s': never back to CONNECTING; to CONNECTED only from
   CONNECTING (the premise "connection ids are distinct" is there for the decomposition lemmas, which do
   not depend on the invariants) *)
Definition st_ok (md : mode) (n : node) (c : conn) (s' : cstate) : Prop :=
  s' = c_state c \/
  (s' <> SConnecting /\
   (s' = SConnected -> NoDup (List.map c_id (n_conns n)) -> c_state c = SConnecting) /\
   (est s' -> est (c_state c) \/ (c_state c = SConnecting /\ ~ noconn md) \/ fresh_ce md n c)).
Definition passes (md : mode) (c : conn) : Prop :=
  est (c_state c) \/ (c_state c = SConnecting /\ ~ noconn md).

Definition soft_peer (f : peer -> peer) : Prop :=
  forall p, p_name (f p) = p_name p /\ p_conn (f p) = p_conn p /\ p_lastdisc (f p) = p_lastdisc p /\
            (p_reason (f p) = p_reason p \/ p_reason (f p) <> None).

Definition name_fn (host : string) : conn -> conn :=
  fun c => if String.eqb (c_node_name c) "" then set_cident c host (c_host c) (c_auth c) (c_acct c) else c.

Definition assign_fn (cid : nat) (lc : peer -> option Z) : peer -> peer :=
  fun p => set_pconn p (match p_conn p with Some k => Some k | None => Some cid end) None (lc p) (p_lastdisc p).

(* the state right after accept() registered the new connection *)
Definition accept_conn (n : node) (hbh0 : Z) : node :=
  let cid := n_next_cid n in
  let c := new_conn cid true SConnected "" (n_now n) hbh0 in
  let n1 := set_misc (set_conns n (n_conns n ++ [c])%list) (n_stopping n) (S cid) (n_e2e n) in
  set_tables n1 (n_half_ready n1 ++ [cid])%list (n_socket_peers n1 ++ [cid])%list.

(* the state right after _connect_to_peer registered the new connection *)
Definition dial_conn (n : node) (name : string) (hbh0 : Z) : node :=
  let cid := n_next_cid n in
  let c := new_conn cid false SConnecting name (n_now n) hbh0 in
  let n1 := set_misc (set_conns n (n_conns n ++ [c])%list) (n_stopping n) (S cid) (n_e2e n) in
  let n2 := set_tables n1 (n_half_ready n1) (n_socket_peers n1 ++ [cid])%list in
  set_peers n2 (upd_peer (n_peers n2) name (fun p => set_pconn p (Some cid) None (Some (n_now n2)) (p_lastdisc p))).

Inductive astep (md : mode) : node -> node -> Prop :=
| A_soft n cid f : soft f -> astep md n (set_conns n (upd_conn (n_conns n) cid f))
| A_state n cid f : isoft f -> (forall c, get_conn n cid = Some c -> st_ok md n c (c_state (f c))) ->
    astep md n (set_conns n (upd_conn (n_conns n) cid f))
| A_name n cid host p : writes md cid host -> get_peer n host = Some p ->
    (forall c, get_conn n cid = Some c -> c_recv c = true) ->
    astep md n (set_conns n (upd_conn (n_conns n) cid (name_fn host)))
| A_host n cid host au ac :
    (guarded md -> forall c, get_conn n cid = Some c -> id_ok c host) ->
    (forall c, get_conn n cid = Some c -> c_state c = SConnected) ->
    astep md n (set_conns n (upd_conn (n_conns n) cid (fun c => set_cident c (c_node_name c) host (au c) (ac c))))
| A_wait n aw pw ow sa :
    incl (List.map fst pw) (List.map fst (n_peer_waiting n)) ->
    (sa = n_sent_answers n \/ exists o e, sa = sa_append (g_rsize (n_cfg n)) (n_sent_answers n) o e) ->
    astep md n (set_waiting n aw pw ow sa)
| A_pw_add n cid c k : get_conn n cid = Some c -> passes md c ->
    astep md n (set_waiting n (n_app_waiting n) (pw_add (n_peer_waiting n) (c_host c) k)
                            (n_origin_waiting n) (n_sent_answers n))
| A_peer_soft n nm f : soft_peer f -> astep md n (set_peers n (upd_peer (n_peers n) nm f))
| A_assign n cid c p lc : get_conn n cid = Some c -> c_host c <> ""%string -> get_peer n (c_host c) = Some p ->
    astep md n (set_peers n (upd_peer (n_peers n) (c_host c) (assign_fn cid lc)))
| A_hr n x : astep md n (set_tables n (remove_nat x (n_half_ready n)) (n_socket_peers n))
| A_remove n cid r c : get_conn n cid = Some c -> astep md n (remove_conn n cid r)
| A_apps n l : astep md n (set_apps n l)
| A_time n a b : astep md n (set_time n a b)
| A_misc n st k e : n_next_cid n <= k -> astep md n (set_misc n st k e)
| A_new_in n h : astep md n (accept_conn n h)
| A_new_out n name h p : get_peer n name = Some p -> p_conn p = None -> astep md n (dial_conn n name h).

Inductive trans (md : mode) : node -> node -> Prop :=
| T_refl n : trans md n n
| T_snoc n1 n2 n3 : trans md n1 n2 -> astep md n2 n3 -> trans md n1 n3.

Lemma trans_trans md n1 n2 n3 : trans md n1 n2 -> trans md n2 n3 -> trans md n1 n3.
Proof. intros H1 H2. induction H2 as [|a b c H IH Hs]; [exact H1|]. eapply T_snoc; [apply IH; exact H1|exact Hs]. Qed.

(* conversions between modes *)
Lemma st_ok_any md n c s : st_ok md n c s -> st_ok MAny n c s.
Proof.
  intros [H0|[H1 [H1' H2]]]; [now left|]. right. split; auto. split; auto. intros He.
  destruct (H2 He) as [A|[[A B]|[A0 [A [B C]]]]];
    [auto|right; left; split; [auto|intros []]|
     right; right; split; [exact A0|split; [intros []|split; [auto|intros []]]]].
Qed.
Lemma astep_any md n n' : astep md n n' -> astep MAny n n'.
Proof.
  intros H. destruct H; try (econstructor; eauto; fail).
  - apply A_state; auto. intros c Hc. eapply st_ok_any; eauto.
  - eapply A_name; cbn; eauto.
  - eapply A_host; cbn; eauto. tauto.
  - eapply A_pw_add; eauto. destruct H0 as [A|[A B]]; [left; auto|right; split; auto].
Qed.
Lemma trans_any md n n' : trans md n n' -> trans MAny n n'.
Proof. intros H. induction H; [constructor|]. eapply T_snoc; eauto. eapply astep_any; eauto. Qed.

(* a guarded derivation is a derivation in every mode with the same CONNECTING clause that allows at
   least the same name writes *)
Lemma astep_w nc w w' n n' : (forall k h, writes (MG nc w) k h -> writes (MG nc w') k h) ->
  astep (MG nc w) n n' -> astep (MG nc w') n n'.
Proof.
  intros Hw H. inversion H; subst; try (econstructor; eauto; fail).
Qed.
Lemma trans_w nc w w' n n' : (forall k h, writes (MG nc w) k h -> writes (MG nc w') k h) ->
  trans (MG nc w) n n' -> trans (MG nc w') n n'.
Proof. intros Hw H. induction H; [constructor|]. eapply T_snoc; eauto. eapply astep_w; eauto. Qed.
Lemma trans_all nc w n n' : trans (MG nc w) n n' -> trans (MG nc WAll) n n'.
Proof. apply trans_w. intros k h _. exact I. Qed.
Lemma trans_none nc w n n' : trans (MG nc WNone) n n' -> trans (MG nc w) n n'.
Proof. apply trans_w. intros k h []. Qed.

(* ---------------------------------------------------------------------------------------- *)
(* 2. every model function is a composition of atomic transitions                            *)
(* ---------------------------------------------------------------------------------------- *)
Lemma t_a md n0 n n' : astep md n n' -> trans md n0 n -> trans md n0 n'.
Proof. intros H1 H2. eapply T_snoc; eauto. Qed.

Ltac soft_tac :=
  let c := fresh "c" in
  intro c; repeat (match goal with |- context [if ?b then _ else _] => destruct b end); cbn; auto.
Ltac t_soft := eapply t_a; [apply A_soft; soft_tac|].
Lemma st_ok_triv md n c s : s <> SConnecting -> s <> SConnected -> ~ est s -> st_ok md n c s.
Proof. intros H1 H2 H3. right. split; auto. split; [intros E; congruence|tauto]. Qed.
(* a state change to a state that is neither CONNECTING, CONNECTED nor established *)
Ltac t_state_triv :=
  eapply t_a; [apply A_state; [soft_tac|intros ? _; apply st_ok_triv; [discriminate|discriminate|cbn; tauto]]|].
(* a state change among the established states, or none *)
Ltac t_state_cond :=
  eapply t_a; [apply A_state; [soft_tac|
    let c := fresh "c" in let Es := fresh "Es" in
    intros c _; unfold st_ok; destruct (c_state c) eqn:Es; cbn; rewrite ?Es; cbn;
    try (left; reflexivity); right;
    (split; [discriminate|split; [let E := fresh "E" in intro E; discriminate E|intros _; left; exact I]])]|].
Ltac dpair X :=
  let a := fresh "nn" in let b := fresh "oo" in let E := fresh "E" in
  destruct X as [a b] eqn:E; apply (f_equal fst) in E; cbn [fst] in E; subst a.
Ltac dtriple X :=
  let a := fresh "nn" in let b := fresh "oo" in let c := fresh "dd" in let E := fresh "E" in
  destruct X as [[a b] c] eqn:E; apply (f_equal (fun x => fst (fst x))) in E; cbn [fst] in E; subst a.

Lemma map_fst_pw_remove pw h k : List.map fst (pw_remove pw h k) = List.map fst pw.
Proof. unfold pw_remove. rewrite map_map. apply map_ext. intros e. destruct (String.eqb (fst e) h); auto. Qed.

Lemma incl_map_filter {A B} (f : A -> B) g (l : list A) : incl (List.map f (List.filter g l)) (List.map f l).
Proof. intros x H. apply in_map_iff in H. destruct H as [y [E H]]. apply filter_In in H. apply in_map_iff. exists y; tauto. Qed.

Section Prims.
Variable md : mode.

Lemma queue_out_t n0 n cid m : trans md n0 n -> trans md n0 (fst (queue_out n cid m)).
Proof. intros H. unfold queue_out; cbn [fst]. t_soft. exact H. Qed.

Lemma record_answer_t n0 n k h e : trans md n0 n -> trans md n0 (record_answer n k h e).
Proof.
  intros H. unfold record_answer. destruct (List.find _ _) as [[[[k' a] b] o]|]; auto.
  eapply t_a; [apply A_wait|exact H]. apply incl_refl. right; eauto.
Qed.

Lemma drop_origin_t n0 n k h e : trans md n0 n -> trans md n0 (drop_origin n k h e).
Proof. intros H. unfold drop_origin. eapply t_a; [apply A_wait|exact H]. apply incl_refl. now left. Qed.

Lemma send_message_t n0 n cid m : trans md n0 n -> trans md n0 (fst (send_message n cid m)).
Proof.
  intros H. unfold send_message, queue_out. destruct (o_req m); cbn [fst].
  - t_soft. exact H.
  - apply record_answer_t. t_soft. destruct (get_conn n cid); auto.
    eapply t_a; [apply A_wait|exact H]. rewrite map_fst_pw_remove. apply incl_refl. now left.
Qed.

Lemma flag_ready_t n0 n cid : (forall c, get_conn n cid = Some c -> st_ok md n c SReady) ->
  trans md n0 n -> trans md n0 (flag_ready n cid).
Proof.
  intros Hs H. unfold flag_ready. eapply t_a; [apply A_apps|].
  eapply t_a; [apply A_state; [soft_tac|exact Hs]|]. exact H.
Qed.

Lemma assign_peer_conn_t n0 n cid : trans md n0 n -> trans md n0 (assign_peer_conn n cid).
Proof.
  intros H. unfold assign_peer_conn. destruct (get_conn n cid) as [c|] eqn:Ec; auto.
  destruct (String.eqb (c_host c) "") eqn:Eh; auto. apply String.eqb_neq in Eh.
  destruct (get_peer n (c_host c)) as [p|] eqn:Ep; auto.
  assert (H1 : trans md n0 (set_peers n (upd_peer (n_peers n) (c_host c)
             (assign_fn cid (fun p => if mem_nat cid (n_half_ready n) then Some (n_now n) else p_lastconn p))))).
  { eapply t_a; [eapply A_assign; eauto|exact H]. }
  unfold assign_fn in H1.
  destruct (mem_nat cid (n_half_ready n)); auto.
  eapply t_a; [apply A_hr|]. exact H1.
Qed.

Lemma close_conn_t n0 n cid r : trans md n0 n -> trans md n0 (fst (close_conn n cid r)).
Proof.
  intros H. unfold close_conn. destruct (get_conn n cid) eqn:E; cbn [fst]; auto.
  eapply t_a; [eapply A_remove; eauto|exact H].
Qed.

Lemma recv_dwr_t n0 n cid m : trans md n0 n -> trans md n0 (fst (recv_dwr n cid m)).
Proof. intros H. unfold recv_dwr. now apply send_message_t. Qed.

Lemma recv_dwa_t n0 n cid : trans md n0 n -> trans md n0 (fst (recv_dwa n cid)).
Proof. intros H. unfold recv_dwa; cbn [fst]. t_state_cond. exact H. Qed.

Lemma recv_dpr_t n0 n cid m : (forall c, get_conn n cid = Some c -> passes md c) ->
  trans md n0 n -> trans md n0 (fst (recv_dpr n cid m)).
Proof.
  intros Hp H. unfold recv_dpr. apply send_message_t.
  match goal with |- trans _ _ (match get_conn ?N cid with _ => _ end) => assert (H1 : trans md n0 N) end.
  { eapply t_a; [apply A_state; [soft_tac|]|exact H]. intros c Hc. right. split; [discriminate|].
    split; [intros E; discriminate E|]. intros _. destruct (Hp c Hc); auto. }
  clear Hp.
  destruct (get_conn _ cid) as [c|]; auto. destruct (find_conn_peer _ c) as [p|]; auto.
  eapply t_a; [apply A_peer_soft|exact H1]. intros q; cbn. repeat split; auto. right; discriminate.
Qed.

Lemma recv_dpa_t n0 n cid : trans md n0 n -> trans md n0 (fst (recv_dpa n cid)).
Proof.
  intros H. unfold recv_dpa.
  match goal with |- trans _ _ (fst (match get_conn ?N cid with _ => _ end)) => assert (H1 : trans md n0 N) by (t_state_triv; exact H) end.
  destruct (get_conn _ cid) as [c|]; auto. destruct (c_out c); auto. now apply close_conn_t.
Qed.

Lemma recv_app_request_t n0 n cid m : (forall c, get_conn n cid = Some c -> passes md c) ->
  trans md n0 n -> trans md n0 (fst (recv_app_request n cid m)).
Proof.
  intros Hp H. unfold recv_app_request. destruct (get_conn n cid) as [c|] eqn:Ec; auto.
  destruct (m_drealm m); try now apply send_message_t.
  destruct (route_lookup n a); try now apply send_message_t.
  destruct (List.find _ l) as [[[i|] x]|]; try now apply send_message_t.
  cbv zeta.
  match goal with |- context [send_message ?N cid _] => assert (H1 : trans md n0 N) end.
  { eapply t_a; [eapply A_pw_add; eauto|exact H]. }
  destruct (handler_raises m); cbn [fst]; auto.
  match goal with |- context [send_message ?N ?C ?M] => dpair (send_message N C M) end. cbn [fst].
  now apply send_message_t.
Qed.

Lemma recv_app_answer_t n0 n m : trans md n0 n -> trans md n0 (fst (recv_app_answer n m)).
Proof.
  intros H. unfold recv_app_answer. destruct (List.find _ _) as [[[a b] i]|]; auto.
  destruct (List.nth_error _ i); auto.
  match goal with |- trans _ _ (fst (if _ then (set_apps ?N _, _) else _)) => assert (H1 : trans md n0 N) end.
  { eapply t_a; [apply A_wait|exact H]. apply incl_refl. now left. }
  destruct (mem_z _ _); cbn [fst]; auto. eapply t_a; [apply A_apps|exact H1].
Qed.

Lemma own_request_t n0 n cid c : trans md n0 n -> trans md n0 (fst (own_request n cid c)).
Proof.
  intros H. unfold own_request. destruct (get_conn n cid); cbn [fst]; auto.
  eapply t_a; [apply A_misc; cbn; lia|]. t_soft. exact H.
Qed.

Lemma send_cer_t n0 n cid : trans md n0 n -> trans md n0 (fst (send_cer n cid)).
Proof. intros H. unfold send_cer. dpair (own_request n cid CE). apply send_message_t. now apply own_request_t. Qed.

Lemma send_dwr_t n0 n cid : trans md n0 n -> trans md n0 (fst (send_dwr n cid)).
Proof.
  intros H. unfold send_dwr. dpair (own_request n cid DW).
  match goal with |- context [send_message ?N ?C ?M] => dpair (send_message N C M) end.
  cbn [fst]. t_state_cond. apply send_message_t. now apply own_request_t.
Qed.

Lemma own_request_conn n cid x c' : get_conn (fst (own_request n cid x)) cid = Some c' ->
  exists c, get_conn n cid = Some c /\ c_state c' = c_state c.
Proof.
  unfold own_request. destruct (get_conn n cid) as [cn|] eqn:E; cbn [fst]; [|congruence].
  unfold get_conn. cbn. rewrite find_upd_conn by (intro; reflexivity). unfold get_conn in E. rewrite E. cbn.
  intros H; inversion H. exists cn. auto.
Qed.

Lemma send_dpr_t n0 n cid : (forall c, get_conn n cid = Some c -> est (c_state c)) ->
  trans md n0 n -> trans md n0 (fst (send_dpr n cid)).
Proof.
  intros He H. unfold send_dpr. dpair (own_request n cid DP). apply send_message_t.
  eapply t_a; [apply A_state; [soft_tac|]|now apply own_request_t].
  intros c' Hc'. destruct (own_request_conn _ _ _ _ Hc') as [c [Hc Es]]. right. split; [discriminate|].
  split; [intros E; discriminate E|]. intros _. left. rewrite Es. auto.
Qed.

Lemma check_timers_t n0 n cid : trans md n0 n -> trans md n0 (fst (check_timers n cid)).
Proof.
  intros H. unfold check_timers. destruct (n_stopping n); auto. destruct (get_conn n cid) as [c|]; auto.
  destruct (c_state c); auto;
    match goal with |- context [if ?b then _ else _] => destruct b end; auto;
    try now apply close_conn_t. now apply send_dwr_t.
Qed.

Lemma timers_all_t cids : forall n0 n, trans md n0 n -> trans md n0 (fst (timers_all n cids)).
Proof.
  induction cids as [|c r IH]; intros n0 n H; cbn [timers_all fst]; auto.
  dpair (check_timers n c). dpair (timers_all (fst (check_timers n c)) r). cbn [fst].
  apply IH. now apply check_timers_t.
Qed.

(* the connection just registered by _connect_to_peer is CONNECTING *)
Lemma dial_conn_new n name h c : NoDup (List.map c_id (n_conns (dial_conn n name h))) ->
  get_conn (dial_conn n name h) (n_next_cid n) = Some c -> c_state c = SConnecting.
Proof.
  unfold dial_conn, get_conn. cbn [n_conns set_peers set_tables set_misc set_conns]. intros Hnd Hc.
  set (x := new_conn (n_next_cid n) false SConnecting name (n_now n) h) in *.
  assert (Hin : List.In x (n_conns n ++ [x])) by (apply in_or_app; right; left; reflexivity).
  pose proof (find_conn_in _ x Hnd Hin) as F. change (c_id x) with (n_next_cid n) in F.
  rewrite F in Hc. inversion Hc. reflexivity.
Qed.

Lemma connect_to_peer_t n0 n name h res : trans md n0 n -> trans md n0 (fst (connect_to_peer n name h res)).
Proof.
  intros H. unfold connect_to_peer. destruct (get_peer n name) as [p|] eqn:Ep; auto.
  destruct (p_conn p) eqn:Ec; auto. destruct (negb (p_has_addr p)); auto.
  assert (H1 : trans md n0 (dial_conn n name h)) by (eapply t_a; [eapply A_new_out; eauto|exact H]).
  unfold dial_conn in H1. cbv zeta.
  destruct res.
  - match goal with |- context [send_cer ?N ?C] => dpair (send_cer N C) end. cbn [fst].
    apply send_cer_t. eapply t_a; [apply A_state; [soft_tac|]|exact H1].
    intros c Hc. right. split; [discriminate|]. split; [|cbn; tauto].
    intros _ Hnd. exact (dial_conn_new n name h c Hnd Hc).
  - match goal with |- context [close_conn ?N ?C ?R] => dpair (close_conn N C R) end. cbn [fst].
    apply close_conn_t. exact H1.
  - cbn [fst]. exact H1.
Qed.

Lemma reconnect_all_t names : forall n0 n ds, trans md n0 n -> trans md n0 (fst (fst (reconnect_all n names ds))).
Proof.
  induction names as [|nm r IH]; intros n0 n ds H; cbn [reconnect_all fst]; auto.
  destruct (get_peer n nm) as [p|]; auto.
  destruct (wants_reconnect n p && p_has_addr p); auto.
  destruct ds as [|[h0 res] dr].
  - dpair (connect_to_peer n nm 0 DialOk). dtriple (reconnect_all (fst (connect_to_peer n nm 0 DialOk)) r []).
    cbn [fst]. apply IH. now apply connect_to_peer_t.
  - dpair (connect_to_peer n nm h0 res). dtriple (reconnect_all (fst (connect_to_peer n nm h0 res)) r dr).
    cbn [fst]. apply IH. now apply connect_to_peer_t.
Qed.

Lemma io_iteration_t n0 n ds : trans md n0 n -> trans md n0 (fst (fst (io_iteration n ds))).
Proof.
  intros H. unfold io_iteration. dpair (timers_all n (List.map c_id (n_conns n))).
  match goal with |- context [reconnect_all ?N ?L ?D] => dtriple (reconnect_all N L D) end.
  cbn [fst]. eapply t_a; [apply A_time|]. apply reconnect_all_t. now apply timers_all_t.
Qed.

Lemma flush_conns_t cids : forall n0 n, trans md n0 n -> trans md n0 (fst (flush_conns n cids)).
Proof.
  induction cids as [|cid r IH]; intros n0 n H; cbn [flush_conns fst]; auto.
  match goal with |- context [let '(n1, o1) := ?X in _] => 
    assert (H1 : trans md n0 (fst X)); [|dpair X] end.
  { destruct (get_conn n cid) as [c|]; auto. destruct (c_stalled c || negb (c_sock_open c)); auto.
    assert (H2 : trans md n0 (set_conns n (upd_conn (n_conns n) cid (fun c => set_cout c [])))) by (t_soft; exact H).
    destruct (c_out c); auto. destruct (cstate_eqb (c_state c) SClosing); auto.
    match goal with |- context [close_conn ?N ?C ?R] => dpair (close_conn N C R) end. cbn [fst].
    now apply close_conn_t. }
  match goal with |- context [flush_conns ?N r] => dpair (flush_conns N r) end. cbn [fst].
  apply IH. exact H1.
Qed.

Lemma flush_t n0 n : trans md n0 n -> trans md n0 (fst (flush n)).
Proof. intros H. unfold flush. now apply flush_conns_t. Qed.

Lemma settle_t n0 n ds : trans md n0 n -> trans md n0 (fst (fst (settle n ds))).
Proof.
  intros H. unfold settle. dpair (flush n).
  match goal with |- context [io_iteration ?N ?D] => dtriple (io_iteration N D) end.
  match goal with |- context [flush ?N] => dpair (flush N) end. cbn [fst].
  apply flush_t. apply io_iteration_t. now apply flush_t.
Qed.

Lemma settle'_t n0 n ds : trans md n0 n -> trans md n0 (fst (settle' n ds)).
Proof. intros H. unfold settle'. dtriple (settle n ds). cbn [fst]. now apply settle_t. Qed.

Lemma settle_app_t n0 n ds : trans md n0 n -> trans md n0 (fst (fst (settle_app n ds))).
Proof.
  intros H. unfold settle_app.
  match goal with |- context [io_iteration ?N ?D] => dtriple (io_iteration N D) end.
  match goal with |- context [flush ?N] => dpair (flush N) end. cbn [fst].
  apply flush_t. now apply io_iteration_t.
Qed.

Lemma settle_app'_t n0 n ds : trans md n0 n -> trans md n0 (fst (settle_app' n ds)).
Proof. intros H. unfold settle_app'. dtriple (settle_app n ds). cbn [fst]. now apply settle_app_t. Qed.

End Prims.

(* ---- the capabilities-exchange handlers: the only writers of identities ---- *)
(* what a capabilities-exchange request with Origin-Host `host` must satisfy when it is read from
   connection c = cid while c awaits it (CONNECTED, inbound; in every other case receive_cer or the gate
   ignores it): under the identity guard the node name of c is empty or `host` *)
Definition cer_pre (md : mode) (cid : nat) (c : conn) (host : string) : Prop :=
  writes md cid host /\
  (guarded md -> c_node_name c = host \/ c_node_name c = ""%string).
Definition msg_pre (md : mode) (n : node) (cid : nat) (m : msg) : Prop :=
  (noconn md -> forall c, get_conn n cid = Some c -> c_state c <> SConnecting) /\
  (m_cmd m = CE -> m_req m = true -> forall c host, get_conn n cid = Some c -> c_state c = SConnected ->
     c_recv c = true -> m_origin m = Present host -> cer_pre md cid c host).

Lemma match3 {T} (P : T -> Prop) (a b : list Z) (c : bool) (X Y : T) :
  P X -> P Y -> P (match a, b, c with [], [], false => X | _, _, _ => Y end).
Proof. destruct a, b, c; auto. Qed.

Lemma match_2001 {T} (P : T -> Prop) (r : pres Z) (A B : T) :
  P A -> P B -> P (match r with Present 2001%Z => A | _ => B end).
Proof. intros HA HB. destruct r as [| |z]; auto. destruct z as [|p|p]; auto. do 11 (destruct p as [p|p|]; auto). Qed.

Lemma get_conn_upd n cid f : keeps_id f ->
  get_conn (set_conns n (upd_conn (n_conns n) cid f)) cid = option_map f (get_conn n cid).
Proof. intros Hf. unfold get_conn. cbn. now apply find_upd_conn. Qed.

Lemma keeps_id_name_fn host : keeps_id (name_fn host).
Proof. intros c. unfold name_fn. destruct (String.eqb _ _); auto. Qed.

Lemma assign_conns n cid : n_conns (assign_peer_conn n cid) = n_conns n.
Proof.
  unfold assign_peer_conn. destruct (get_conn n cid) as [c|]; auto. destruct (String.eqb (c_host c) ""); auto.
  destruct (get_peer n (c_host c)); auto. destruct (mem_nat cid (n_half_ready n)); reflexivity.
Qed.
Lemma assign_names n cid : List.map p_name (n_peers (assign_peer_conn n cid)) = List.map p_name (n_peers n).
Proof.
  unfold assign_peer_conn. destruct (get_conn n cid) as [c|]; auto. destruct (String.eqb (c_host c) ""); auto.
  destruct (get_peer n (c_host c)); auto.
  destruct (mem_nat cid (n_half_ready n)); cbn; apply map_name_upd_peer; intro; reflexivity.
Qed.

Lemma find_upd_peer l nm f : keeps_name f ->
  List.find (fun p => String.eqb (p_name p) nm) (upd_peer l nm f) =
  option_map f (List.find (fun p => String.eqb (p_name p) nm) l).
Proof.
  intros Hf. induction l as [|p l IH]; cbn; auto.
  destruct (String.eqb (p_name p) nm) eqn:E; cbn; [rewrite Hf, E; auto|rewrite E; auto].
Qed.

(* after _assign_peer_connection the peer named by the host identity has a connection *)
Lemma assign_sets n cid c : get_conn n cid = Some c -> c_host c <> ""%string ->
  forall p, get_peer (assign_peer_conn n cid) (c_host c) = Some p -> p_conn p <> None.
Proof.
  intros Hg Hh p. unfold assign_peer_conn. rewrite Hg. apply String.eqb_neq in Hh. rewrite Hh.
  destruct (get_peer n (c_host c)) as [q|] eqn:Ep; [|congruence].
  assert (Hf : get_peer (set_peers n (upd_peer (n_peers n) (c_host c)
             (assign_fn cid (fun p => if mem_nat cid (n_half_ready n) then Some (n_now n) else p_lastconn p)))) (c_host c) = Some p ->
             p_conn p <> None).
  { unfold get_peer. cbn [n_peers set_peers]. rewrite find_upd_peer by (intro; reflexivity).
    unfold get_peer in Ep. rewrite Ep. cbn [option_map]. intros E; inversion E. unfold assign_fn; cbn.
    destruct (p_conn q); discriminate. }
  unfold assign_fn in Hf. destruct (mem_nat cid (n_half_ready n)); exact Hf.
Qed.

(* ---- the election: close_all ---- *)
Lemma find_filter_id l cid k c' :
  List.find (fun c => Nat.eqb (c_id c) cid) (List.filter (fun x => negb (Nat.eqb (c_id x) k)) l) = Some c' ->
  List.find (fun c => Nat.eqb (c_id c) cid) l = Some c'.
Proof.
  induction l as [|a l IH]; cbn; auto.
  destruct (Nat.eqb (c_id a) k) eqn:Ek; cbn.
  - intros H. destruct (Nat.eqb (c_id a) cid) eqn:Ec; auto. exfalso.
    apply find_some in H. destruct H as [H1 H2]. apply filter_In in H1. destruct H1 as [_ H1].
    apply Nat.eqb_eq in Ek, Ec, H2. apply negb_true_iff, Nat.eqb_neq in H1. congruence.
  - destruct (Nat.eqb (c_id a) cid); auto.
Qed.

Lemma remove_conn_conns n cid r c : get_conn n cid = Some c ->
  n_conns (remove_conn n cid r) = List.filter (fun x => negb (Nat.eqb (c_id x) cid)) (n_conns n).
Proof.
  intros Hg. unfold remove_conn. rewrite Hg.
  destruct (find_conn_peer n c) as [p|]; [destruct (p_conn p) as [k|]; [destruct (Nat.eqb k cid)|]|]; reflexivity.
Qed.
Lemma remove_conn_names n cid r : List.map p_name (n_peers (remove_conn n cid r)) = List.map p_name (n_peers n).
Proof.
  unfold remove_conn. destruct (get_conn n cid) as [c|]; auto.
  destruct (find_conn_peer n c) as [p|]; [destruct (p_conn p) as [k|]; [destruct (Nat.eqb k cid)|]|]; cbn; auto.
  apply map_name_upd_peer. intro; reflexivity.
Qed.

Lemma close_conn_in n k r c' : List.In c' (n_conns (fst (close_conn n k r))) -> List.In c' (n_conns n) /\ c_id c' <> k.
Proof.
  unfold close_conn. destruct (get_conn n k) as [c|] eqn:E; cbn [fst].
  - erewrite remove_conn_conns by eauto. intros H. apply filter_In in H. destruct H as [H1 H2].
    split; auto. now apply negb_true_iff, Nat.eqb_neq in H2.
  - intros H. split; auto. intro D. apply get_conn_none in E. apply E. rewrite <- D. now apply in_map.
Qed.
Lemma close_conn_get n k r cid x : get_conn (fst (close_conn n k r)) cid = Some x -> get_conn n cid = Some x.
Proof.
  unfold close_conn. destruct (get_conn n k) as [c|] eqn:E; cbn [fst]; auto.
  unfold get_conn. erewrite remove_conn_conns by eauto. apply find_filter_id.
Qed.
Lemma close_conn_names n k r : List.map p_name (n_peers (fst (close_conn n k r))) = List.map p_name (n_peers n).
Proof. unfold close_conn. destruct (get_conn n k); cbn [fst]; auto. apply remove_conn_names. Qed.

Lemma close_all_in ks : forall n r c', List.In c' (n_conns (fst (close_all n ks r))) ->
  List.In c' (n_conns n) /\ ~ List.In (c_id c') ks.
Proof.
  induction ks as [|k ks IH]; intros n r c'; cbn [close_all fst]; [tauto|].
  dpair (close_conn n k r). dpair (close_all (fst (close_conn n k r)) ks r). cbn [fst].
  intros H. apply IH in H. destruct H as [H1 H2]. apply close_conn_in in H1. destruct H1 as [H1 H3].
  split; auto. intros [D|D]; auto.
Qed.
Lemma close_all_get ks : forall n r cid x, get_conn (fst (close_all n ks r)) cid = Some x -> get_conn n cid = Some x.
Proof.
  induction ks as [|k ks IH]; intros n r cid x; cbn [close_all fst]; auto.
  dpair (close_conn n k r). dpair (close_all (fst (close_conn n k r)) ks r). cbn [fst].
  intros H. apply IH in H. now apply close_conn_get in H.
Qed.
Lemma close_all_names ks : forall n r, List.map p_name (n_peers (fst (close_all n ks r))) = List.map p_name (n_peers n).
Proof.
  induction ks as [|k ks IH]; intros n r; cbn [close_all fst]; auto.
  dpair (close_conn n k r). dpair (close_all (fst (close_conn n k r)) ks r). cbn [fst].
  rewrite IH. apply close_conn_names.
Qed.
Lemma close_all_t md ks : forall n0 n r, trans md n0 n -> trans md n0 (fst (close_all n ks r)).
Proof.
  induction ks as [|k ks IH]; intros n0 n r H; cbn [close_all fst]; auto.
  dpair (close_conn n k r). dpair (close_all (fst (close_conn n k r)) ks r). cbn [fst].
  apply IH. now apply close_conn_t.
Qed.

(* what the gate of PeerConnection lets through *)
Lemma gate_passes_cases md c m : gate_passes c m = true -> (noconn md -> c_state c <> SConnecting) ->
  passes md c \/
  (c_state c = SConnected /\ m_cmd m = CE /\ (if c_recv c then m_req m = true else m_req m = false)).
Proof.
  unfold gate_passes, passes. intros Hg Hn. destruct (c_state c) eqn:Es; cbn; try discriminate; auto.
  - left. right. split; auto. intro G. now apply Hn.
  - right. apply andb_true_iff in Hg. destruct Hg as [H1 H2]. split; auto. split.
    + destruct (m_cmd m); cbn in H1; try discriminate; auto.
    + destruct (c_recv c); auto. now apply negb_true_iff.
Qed.

(* the part of receive_cer after a won (or empty) election *)
Definition cer_tail (n0 : node) (rivals : list nat) (cid : nat) (host : string) (m : msg) : node * list output :=
  let '(n1, oel) := close_all n0 rivals R_CLEAN in
  let sup_auth := inter_z (node_auth n1) (m_auth m) in
  let sup_acct := inter_z (node_acct n1) (m_acct m) in
  let relay := mem_z APP_RELAY (m_auth m) || mem_z APP_RELAY (m_acct m) in
  match sup_auth, sup_acct, relay with
  | [], [], false =>
      let '(n2, o) := send_message n1 cid (answer_of m (Some RC_NO_COMMON_APP) []) in (n2, (oel ++ o)%list)
  | _, _, _ =>
      let n2 := set_conns n1 (upd_conn (n_conns n1) cid (fun c => set_cident c (c_node_name c) host sup_auth sup_acct)) in
      let n3 := flag_ready (assign_peer_conn n2 cid) cid in
      let '(n4, o) := send_message n3 cid (answer_of m (Some RC_SUCCESS) []) in (n4, (oel ++ o)%list)
  end.

Section Handlers.
Variable md : mode.

Lemma cer_tail_t s0 n cid host m rivals pr :
  get_peer n host = Some pr ->
  (guarded md -> forall c, get_conn n cid = Some c -> c_node_name c = host) ->
  (forall c, get_conn n cid = Some c -> c_recv c = true ->
     c_node_name c <> ""%string \/ List.In (c_node_name c) (List.map p_name (n_peers n))) ->
  (forall c', List.In c' (n_conns n) -> c_id c' <> cid -> c_node_name c' = host -> List.In (c_id c') rivals) ->
  (forall c, get_conn n cid = Some c -> c_state c = SConnected) ->
  trans md s0 n -> trans md s0 (fst (cer_tail n rivals cid host m)).
Proof.
  intros Ep Hnm Hkn Hriv Hsc H. unfold cer_tail.
  destruct (close_all n rivals R_CLEAN) as [n1 oel] eqn:Eca.
  assert (En1 : n1 = fst (close_all n rivals R_CLEAN)) by now rewrite Eca.
  assert (H1 : trans md s0 n1) by (rewrite En1; now apply close_all_t).
  assert (Hget : forall x, get_conn n1 cid = Some x -> get_conn n cid = Some x).
  { intros x. rewrite En1. apply close_all_get. }
  assert (Hin1 : forall c', List.In c' (n_conns n1) -> List.In c' (n_conns n) /\ ~ List.In (c_id c') rivals).
  { intros c'. rewrite En1. apply close_all_in. }
  assert (Hnames : List.map p_name (n_peers n1) = List.map p_name (n_peers n)).
  { rewrite En1. apply close_all_names. }
  clear Eca En1. cbv zeta.
  apply (match3 (fun x => trans md s0 (fst x))).
  - match goal with |- context [send_message ?N ?C ?M] => dpair (send_message N C M) end. cbn [fst].
    now apply send_message_t.
  - match goal with |- context [send_message ?N ?C ?M] => dpair (send_message N C M) end. cbn [fst].
    apply send_message_t.
    match goal with |- context [upd_conn (n_conns n1) cid ?F] => set (hf := F) end.
    assert (Hk : keeps_id hf) by (intro; reflexivity).
    assert (H2 : trans md s0 (set_conns n1 (upd_conn (n_conns n1) cid hf))).
    { eapply t_a; [|exact H1].
      apply (A_host md n1 cid host (fun _ => inter_z (node_auth n1) (m_auth m)) (fun _ => inter_z (node_acct n1) (m_acct m))).
      - intros G c Ec. left. apply Hnm; auto.
      - intros c Ec. apply Hsc; auto. }
    apply flag_ready_t; [|apply assign_peer_conn_t; exact H2].
    intros c''. unfold get_conn at 1. rewrite assign_conns.
    change (get_conn (set_conns n1 (upd_conn (n_conns n1) cid hf)) cid = Some c'' ->
            st_ok md (assign_peer_conn (set_conns n1 (upd_conn (n_conns n1) cid hf)) cid) c'' SReady).
    intros Ec''. pose proof Ec'' as Ec2. rewrite get_conn_upd in Ec2 by exact Hk.
    destruct (get_conn n1 cid) as [x|] eqn:Ex; cbn [option_map] in Ec2; [|discriminate].
    inversion Ec2; subst c''. clear Ec2. pose proof (Hget x eq_refl) as Exn.
    right. split; [discriminate|]. split; [intros E; discriminate E|]. intros _. right. right.
    split; [|split; [|split]].
    + right. rewrite assign_names. cbn [n_peers set_conns]. rewrite Hnames. subst hf. cbn.
      destruct (get_peer_some _ _ _ Ep) as [Hin E1]. rewrite <- E1. now apply in_map.
    + intros G. left. subst hf. cbn. now apply Hnm.
    + intros Hr. rewrite assign_names. cbn [n_peers set_conns]. rewrite Hnames. subst hf. cbn. apply Hkn; auto.
    + intros G Hr. split.
      * intros c' Hc' En. rewrite assign_conns in Hc'. cbn [n_conns set_conns] in Hc'.
        assert (Eid : c_id (hf x) = cid) by (rewrite Hk; apply (get_conn_some _ _ _ Exn)).
        rewrite Eid. apply in_upd_conn in Hc'. destruct Hc' as [Hc'|[y [Hy [E Ey]]]].
        -- destruct (Nat.eq_dec (c_id c') cid) as [D|D]; auto. exfalso.
           destruct (Hin1 c' Hc') as [A B]. apply B. apply Hriv; auto.
           rewrite En. subst hf. cbn. now apply Hnm.
        -- subst c'. now rewrite Hk.
      * apply assign_sets. exact Ec''.
Qed.

Lemma recv_cer_t n0 n cid m :
  (forall c host, get_conn n cid = Some c -> c_state c = SConnected -> m_origin m = Present host ->
     c_recv c = true /\ cer_pre md cid c host) ->
  trans md n0 n -> trans md n0 (fst (recv_cer n cid m)).
Proof.
  intros Hpre H. unfold recv_cer. destruct (get_conn n cid) as [c0|] eqn:Ec0; auto.
  destruct (cstate_eqb (c_state c0) SConnected) eqn:Es; cbn [negb]; [|cbn [fst]; now apply drop_origin_t].
  assert (Es' : c_state c0 = SConnected) by (destruct (c_state c0); try discriminate; reflexivity).
  destruct (m_origin m) as [| |host] eqn:Eo; cbn [pres_get]; auto.
  destruct (Hpre c0 host eq_refl Es' eq_refl) as [Hr [Hq Hg]].
  destruct (get_peer n host) as [p|] eqn:Ep.
  - assert (H1 : trans md n0 (set_conns n (upd_conn (n_conns n) cid (name_fn host)))).
    { eapply t_a; [eapply A_name; eauto|exact H]. intros c E. rewrite Ec0 in E. inversion E; subst c. exact Hr. }
    unfold name_fn in H1. cbv zeta.
    match goal with |- context [election_rivals ?N cid host] => set (nn := N) in * end.
    assert (Egn : get_conn nn cid = Some (name_fn host c0)).
    { subst nn. fold (name_fn host). rewrite get_conn_upd by apply keeps_id_name_fn. now rewrite Ec0. }
    assert (Htail : trans md n0 (fst (cer_tail nn (election_rivals nn cid host) cid host m))).
    { apply (cer_tail_t n0 nn cid host m _ p); auto.
      - intros G c'. rewrite Egn. intros E; inversion E. unfold name_fn. destruct (Hg G) as [D|D].
        + destruct (String.eqb (c_node_name c0) ""); cbn; auto.
        + rewrite D. cbn. auto.
      - intros c'. rewrite Egn. intros E; inversion E. intros _. subst nn. cbn [n_peers set_conns]. unfold name_fn.
        destruct (String.eqb (c_node_name c0) "") eqn:En; cbn.
        + right. destruct (get_peer_some _ _ _ Ep) as [Hin E1]. rewrite <- E1. now apply in_map.
        + left. now apply String.eqb_neq.
      - intros c' Hc' Hid Hn. unfold election_rivals. apply in_map. apply filter_In. split; auto.
        apply andb_true_iff. split; [now apply negb_true_iff, Nat.eqb_neq|now apply String.eqb_eq].
      - intros c'. rewrite Egn. intros E; inversion E. unfold name_fn.
        destruct (String.eqb (c_node_name c0) ""); cbn; exact Es'. }
    unfold cer_tail in Htail.
    destruct (election_rivals nn cid host) as [|k ks]; [exact Htail|].
    destruct (String.ltb host (g_host (n_cfg nn))); [exact Htail|].
    apply send_message_t. t_state_triv. exact H1.
  - cbv zeta. apply send_message_t. t_state_triv. exact H.
Qed.

Lemma recv_cea_t n0 n cid m :
  (forall c, get_conn n cid = Some c -> c_recv c = false \/ passes md c) ->
  trans md n0 n -> trans md n0 (fst (recv_cea n cid m)).
Proof.
  intros Hst H. unfold recv_cea. destruct (get_conn n cid) as [c0|] eqn:Ec; auto.
  destruct (cstate_eqb (c_state c0) SConnected) eqn:Es; cbn [negb]; auto.
  assert (Hr : c_recv c0 = false).
  { destruct (Hst c0 eq_refl) as [R|[A|[A _]]]; auto; destruct (c_state c0); try discriminate; destruct A. }
  apply (match_2001 (fun x => trans md n0 (fst x))); [|now apply close_conn_t].
  destruct (m_origin m) as [| |host] eqn:Eo; cbn [pres_get fst]; auto.
  match goal with |- context [if ?b then _ else _] => destruct b eqn:Econd end; [now apply close_conn_t|].
  assert (Hok : id_ok c0 host).
  { apply andb_false_iff in Econd. destruct Econd as [E|E]; apply negb_false_iff in E.
    - right. split; auto. now apply String.eqb_eq.
    - left. symmetry. now apply String.eqb_eq. }
  cbv zeta. cbn [fst].
  match goal with |- context [upd_conn (n_conns n) cid ?F] => set (hf := F) end.
  assert (Hk : keeps_id hf) by (intro; reflexivity).
  assert (H2 : trans md n0 (set_conns n (upd_conn (n_conns n) cid hf))).
  { eapply t_a; [|exact H].
    apply (A_host md n cid host (fun _ => inter_z (node_auth n) (m_auth m)) (fun _ => inter_z (node_acct n) (m_acct m))).
    - intros G c Ec'. rewrite Ec in Ec'. inversion Ec'; subst c. exact Hok.
    - intros c Ec'. rewrite Ec in Ec'. inversion Ec'; subst c.
      destruct (c_state c0); try discriminate; reflexivity. }
  apply flag_ready_t; [|apply assign_peer_conn_t; exact H2].
  intros c''. unfold get_conn at 1. rewrite assign_conns.
  change (get_conn (set_conns n (upd_conn (n_conns n) cid hf)) cid = Some c'' ->
          st_ok md (assign_peer_conn (set_conns n (upd_conn (n_conns n) cid hf)) cid) c'' SReady).
  rewrite get_conn_upd by exact Hk. rewrite Ec. cbn [option_map]. intros E; inversion E; subst c''.
  right. split; [discriminate|]. split; [intros E'; discriminate E'|]. intros _. right. right.
  split; [|split; [|split]].
  - left. subst hf. exact Hok.
  - intros _. subst hf. exact Hok.
  - subst hf. cbn. congruence.
  - subst hf. cbn. congruence.
Qed.

Lemma receive_message_t n0 n cid m : msg_pre md n cid m ->
  (forall c, get_conn n cid = Some c -> gate_passes c m = true) ->
  trans md n0 n -> trans md n0 (fst (receive_message n cid m)).
Proof.
  intros [Hnc Hpre] Hgate H. unfold receive_message. cbv zeta.
  match goal with |- context [g_validate (n_cfg ?N)] => set (n1 := N) end.
  assert (Hc : get_conn n1 cid = get_conn n cid).
  { subst n1. destruct (m_origin m); auto; destruct (m_req m); auto. }
  assert (H1 : trans md n0 n1).
  { subst n1. destruct (m_origin m); auto; destruct (m_req m); auto;
      (eapply t_a; [apply A_wait|exact H]; [apply incl_refl|now left]). }
  assert (Hcase : forall c, get_conn n1 cid = Some c -> passes md c \/
            (c_state c = SConnected /\ m_cmd m = CE /\ (if c_recv c then m_req m = true else m_req m = false))).
  { intros c Ec. rewrite Hc in Ec. apply gate_passes_cases; [apply Hgate; auto|intros G; eapply Hnc; eauto]. }
  clearbody n1.
  destruct (if m_req m && g_validate (n_cfg n1) then m_missing m else []); [|now apply send_message_t].
  match goal with |- context [if ?b then _ else _] => destruct b end; [now apply send_message_t|].
  rewrite <- Hc in Hpre.
  destruct (m_req m) eqn:Er, (m_cmd m) eqn:Em.
  - destruct (m_origin m) eqn:Eo; try now apply send_message_t.
    apply recv_cer_t; auto. rewrite Eo. intros c host Ec Es E.
    assert (Hrc : c_recv c = true).
    { destruct (Hcase c Ec) as [[A|[A _]]|[_ [_ A]]].
      - rewrite Es in A. destruct A.
      - rewrite Es in A. discriminate.
      - destruct (c_recv c); [reflexivity|discriminate]. }
    split; [exact Hrc|]. apply (Hpre eq_refl eq_refl c host); auto.
  - now apply recv_dwr_t.
  - apply recv_dpr_t; auto. intros c Ec. destruct (Hcase c Ec) as [A|[_ [A _]]]; [auto|discriminate].
  - apply recv_app_request_t; auto. intros c Ec. destruct (Hcase c Ec) as [A|[_ [A _]]]; [auto|discriminate].
  - apply recv_cea_t; auto.
    intros c Ec. destruct (Hcase c Ec) as [A|[_ [_ A]]]; auto. destruct (c_recv c); [discriminate|auto].
  - now apply recv_dwa_t.
  - now apply recv_dpa_t.
  - now apply recv_app_answer_t.
Qed.

Lemma dispatch_t n0 n cid m : msg_pre md n cid m ->
  trans md n0 n -> trans md n0 (fst (dispatch n cid m)).
Proof.
  intros Hpre H. unfold dispatch. destruct (get_conn n cid) as [c|] eqn:Ec; auto.
  destruct (gate_passes c m) eqn:Eg; auto. apply receive_message_t; auto.
  intros c' E. rewrite Ec in E. inversion E; subst c'. exact Eg.
Qed.

Fixpoint msgs_pre (n : node) (cid : nat) (ms : list msg) : Prop :=
  match ms with
  | [] => True
  | m :: r => msg_pre md n cid m /\ msgs_pre (fst (dispatch n cid m)) cid r
  end.

Lemma dispatch_all_t ms : forall n0 n cid, msgs_pre n cid ms ->
  trans md n0 n -> trans md n0 (fst (dispatch_all n cid ms)).
Proof.
  induction ms as [|m r IH]; intros n0 n cid Hpre H; cbn [dispatch_all fst]; auto.
  destruct Hpre as [Hm Hr]. dpair (dispatch n cid m). dpair (dispatch_all (fst (dispatch n cid m)) cid r).
  cbn [fst]. apply IH; auto. now apply dispatch_t.
Qed.

End Handlers.

(* ---- the step function ---- *)
Definition ev_pre (md : mode) (n : node) (ds : dials) (e : event) : Prop :=
  match e with
  | ERecv cid ms => msgs_pre md (upd_last_read (fst (fst (io_iteration n ds))) cid) cid ms
  | _ => True
  end.

Section Step.
Variable md : mode.

Lemma wake_t target : forall fuel n0 n ds acc, trans md n0 n ->
  trans md n0 (fst ((fix wake (fuel : nat) (n : node) (ds : dials) (acc : list output) {struct fuel} : node * list output :=
         let expire := fun (n : node) =>
           set_apps n (List.map (fun a => set_awaiting a (List.filter (fun w => (target <? snd w)%Z) (a_waiting a))) (n_apps n)) in
         match fuel with
         | O => (expire (set_time n target (n_io_deadline n)), acc)
         | S f =>
             if (n_io_deadline n <=? target)%Z then
               let n1 := set_time n (n_io_deadline n) (n_io_deadline n) in
               let '(n2, o2, ds2) := settle n1 ds in
               wake f n2 ds2 (acc ++ o2)%list
             else (expire (set_time n target (n_io_deadline n)), acc)
         end) fuel n ds acc)).
Proof.
  induction fuel as [|f IH]; intros n0 n ds acc H.
  - cbn [fst]. eapply t_a; [apply A_apps|]. eapply t_a; [apply A_time|exact H].
  - destruct (n_io_deadline n <=? target)%Z.
    + cbv zeta. dtriple (settle (set_time n (n_io_deadline n) (n_io_deadline n)) ds).
      apply IH. apply settle_t. eapply t_a; [apply A_time|exact H].
    + cbn [fst]. eapply t_a; [apply A_apps|]. eapply t_a; [apply A_time|exact H].
Qed.

Lemma stop_go_t cids : forall n0 n acc, trans md n0 n ->
  trans md n0 (fst ((fix go (cids : list nat) (n : node) (acc : list output) {struct cids} : node * list output :=
             match cids with
             | [] => (n, acc)
             | c :: r => match get_conn n c with
                         | Some cn => if is_ready_state (c_state cn)
                                      then let '(n', o') := send_dpr n c in go r n' (acc ++ o')%list
                                      else go r n acc
                         | None => go r n acc
                         end
             end) cids n acc)).
Proof.
  induction cids as [|c r IH]; intros n0 n acc H; [exact H|].
  destruct (get_conn n c) as [cn|] eqn:Ec; [|now apply IH].
  destruct (is_ready_state (c_state cn)) eqn:Er; [|now apply IH].
  dpair (send_dpr n c). apply IH. apply send_dpr_t; auto.
  intros c' E. rewrite Ec in E. inversion E; subst c'. destruct (c_state cn); try discriminate; exact I.
Qed.

Lemma finish_go_t cids : forall n0 n acc, trans md n0 n ->
  trans md n0 (fst ((fix go (cids : list nat) (n : node) (acc : list output) {struct cids} : node * list output :=
           match cids with
           | [] => (n, acc)
           | c :: r => let '(n', o') := close_conn n c R_SHUTDOWN in go r n' (acc ++ o')%list
           end) cids n acc)).
Proof.
  induction cids as [|c r IH]; intros n0 n acc H; [exact H|].
  dpair (close_conn n c R_SHUTDOWN). apply IH. now apply close_conn_t.
Qed.

Lemma start_go_t names : forall n0 n ds acc, trans md n0 n ->
  trans md n0 (fst (fst ((fix go (names : list string) (n : node) (ds : dials) (acc : list output) {struct names} : node * list output * dials :=
           match names with
           | [] => (n, acc, ds)
           | nm :: r =>
               match get_peer n nm with
               | Some p =>
                   if p_persistent p then
                     match ds with
                     | (h0, res) :: dr => let '(n1, o1) := connect_to_peer n nm h0 res in go r n1 dr (acc ++ o1)%list
                     | [] => let '(n1, o1) := connect_to_peer n nm 0%Z DialOk in go r n1 [] (acc ++ o1)%list
                     end
                   else go r n ds acc
               | None => go r n ds acc
               end
           end) names n ds acc))).
Proof.
  induction names as [|nm r IH]; intros n0 n ds acc H; [exact H|].
  destruct (get_peer n nm) as [p|]; [|now apply IH].
  destruct (p_persistent p); [|now apply IH].
  destruct ds as [|[h0 res] dr].
  - dpair (connect_to_peer n nm 0%Z DialOk). apply IH. now apply connect_to_peer_t.
  - dpair (connect_to_peer n nm h0 res). apply IH. now apply connect_to_peer_t.
Qed.

Lemma step_t n0 n ds e : ev_pre md n ds e -> trans md n0 n -> trans md n0 (fst (step n ds e)).
Proof.
  intros Hpre H. destruct e; unfold step.
  - (* EAccept *)
    assert (H1 : trans md n0 (accept_conn n hbh0)) by (eapply t_a; [apply A_new_in|exact H]).
    unfold accept_conn in H1.
    destruct (n_stopping n); cbn [fst].
    + eapply t_a; [apply A_misc; lia|exact H].
    + apply settle'_t. exact H1.
  - (* ERecv *)
    destruct (get_conn n cid); auto. cbn [ev_pre] in Hpre.
    dtriple (io_iteration n ds).
    match goal with |- context [dispatch_all ?N cid ms] => dpair (dispatch_all N cid ms) end.
    match goal with |- context [settle' ?N ?D] => dpair (settle' N D) end. cbn [fst].
    apply settle'_t. apply dispatch_all_t; auto.
    unfold upd_last_read. t_soft. now apply io_iteration_t.
  - (* EPeerClose *)
    dpair (close_conn n cid R_GONE). match goal with |- context [settle' ?N ?D] => dpair (settle' N D) end. cbn [fst].
    apply settle'_t. now apply close_conn_t.
  - (* EReadErr *)
    match goal with |- context [let '(n1, o1) := ?X in _] => assert (H1 : trans md n0 (fst X)); [|dpair X] end.
    { destruct hard; auto. now apply close_conn_t. }
    match goal with |- context [settle' ?N ?D] => dpair (settle' N D) end. cbn [fst].
    now apply settle'_t.
  - (* EConnDone *)
    destruct (get_conn n cid) as [c|] eqn:Ec; auto. destruct (cstate_eqb (c_state c) SConnecting) eqn:Esc; auto.
    destruct ok.
    + cbv zeta.
      match goal with |- context [send_cer ?N cid] => assert (H1 : trans md n0 N); [|dpair (send_cer N cid)] end.
      { match goal with |- trans _ _ (match find_conn_peer ?N c with _ => _ end) =>
          assert (H2 : trans md n0 N) end.
        { eapply t_a; [apply A_state; [soft_tac|]|exact H].
          intros c' Ec'. rewrite Ec in Ec'. inversion Ec'; subst c'. right. split; [discriminate|].
          split; [|cbn; tauto]. intros _ _. destruct (c_state c); try discriminate; reflexivity. }
        destruct (find_conn_peer _ c); auto.
        eapply t_a; [apply A_peer_soft|exact H2]. intros q; cbn. repeat split; auto. }
      match goal with |- context [io_iteration ?N ?D] => dtriple (io_iteration N D) end.
      match goal with |- context [settle' ?N ?D] => dpair (settle' N D) end. cbn [fst].
      apply settle'_t. apply io_iteration_t. now apply send_cer_t.
    + dpair (close_conn n cid R_FAILED_CONNECT).
      match goal with |- context [settle' ?N ?D] => dpair (settle' N D) end. cbn [fst].
      apply settle'_t. now apply close_conn_t.
  - (* EStall *)
    destruct (get_conn n cid) as [c|]; auto. cbv zeta.
    match goal with |- context [settle' ?N ds] => assert (H1 : trans md n0 N) by (t_soft; exact H) end.
    destruct b; auto. destruct (c_out c); auto. now apply settle'_t.
  - (* ETick *)
    exact (wake_t (n_now n + dt)%Z (S (Z.to_nat dt)) n0 n ds [] H).
  - (* EAppAnswer *)
    unfold route_answer. destruct (List.find _ (n_peer_waiting n)) as [[host l]|]; cbn [fst]; auto.
    match goal with |- context [List.find _ (n_conns ?N)] => assert (H1 : trans md n0 N) end.
    { eapply t_a; [apply A_wait|exact H]. rewrite map_fst_pw_remove. apply incl_refl. now left. }
    destruct (List.find _ (n_conns _)) as [c|]; cbn [fst]; [|exact H1].
    destruct (is_ready_state (c_state c)); cbn [fst]; [|now apply drop_origin_t].
    match goal with |- context [send_message ?N ?C ?M] => dpair (send_message N C M) end.
    match goal with |- context [settle_app' ?N ?D] => dpair (settle_app' N D) end. cbn [fst].
    apply settle_app'_t. now apply send_message_t.
  - (* EAppRequest *)
    match goal with |- context [let '(n0, e2e) := ?X in _] => assert (H1 : trans md n0 (fst X)); [|destruct X as [n1 e2e]; cbn [fst] in H1] end.
    { destruct (o_e2e m =? 0)%Z; cbn [fst]; auto. eapply t_a; [apply A_misc; lia|exact H]. }
    destruct (route_request n1 app realm) as [[|p0 l]|]; auto.
    match goal with |- context [match ?X with Some p => _ | None => (n1, [ONotRoutable]) end] => destruct X as [p|]; auto end.
    destruct (p_conn p) as [cid|]; auto. destruct (get_conn n1 cid) as [c|]; auto.
    match goal with |- context [let '(n1, hbh) := ?X in _] => assert (H2 : trans md n0 (fst X)); [|destruct X as [n2 hbh]; cbn [fst] in H2] end.
    { destruct (o_hbh m =? 0)%Z; cbn [fst]; auto. t_soft. exact H1. }
    cbv zeta.
    match goal with |- context [send_message ?N ?C ?M] => dpair (send_message N C M) end.
    match goal with |- context [settle_app' ?N ?D] => dpair (settle_app' N D) end. cbn [fst].
    apply settle_app'_t. apply send_message_t. eapply t_a; [apply A_apps|].
    eapply t_a; [apply A_wait|exact H2]. apply incl_refl. now left.
  - (* EStop *)
    cbv zeta. assert (H1 : trans md n0 (set_misc n true (n_next_cid n) (n_e2e n))) by (eapply t_a; [apply A_misc; lia|exact H]).
    destruct force; auto.
    match goal with |- context [let '(n1, o1) := ?X in _] => assert (H2 : trans md n0 (fst X)); [|dpair X] end.
    { now apply stop_go_t. }
    match goal with |- context [settle' ?N ?D] => dpair (settle' N D) end. cbn [fst].
    now apply settle'_t.
  - (* EStopFinish *)
    cbv zeta.
    match goal with |- context [let '(n1, o1) := ?X in _] => assert (H2 : trans md n0 (fst X)); [|dpair X] end.
    { apply finish_go_t. eapply t_a; [apply A_time|exact H]. }
    cbn [fst]. eapply t_a; [apply A_time|]. eapply t_a; [apply A_apps|]. exact H2.
  - (* EStart *)
    match goal with |- trans _ _ (fst (match ?X with _ => _ end)) => assert (H2 : trans md n0 (fst (fst X))); [|dtriple X] end.
    { now apply start_go_t. }
    match goal with |- context [settle' ?N ?D] => dpair (settle' N D) end. cbn [fst].
    now apply settle'_t.
Qed.

End Step.

(* ---------------------------------------------------------------------------------------- *)
(* 3. runs                                                                                    *)
(* ---------------------------------------------------------------------------------------- *)
Definition wf_init (n : node) : Prop :=
  n_conns n = [] /\ n_half_ready n = [] /\ n_socket_peers n = [] /\ n_peer_waiting n = [] /\
  n_app_waiting n = [] /\ n_origin_waiting n = [] /\ n_sent_answers n = [] /\
  (forall p, List.In p (n_peers n) -> p_conn p = None /\ p_reason p = None /\ p_lastdisc p = None) /\
  NoDup (List.map p_name (n_peers n)) /\ n_next_cid n = 0.

Definition reach (n0 n : node) : Prop := exists evs : list (dials * event), wf_init n0 /\ n = fst (run n0 evs).

Lemma run_acc evs : forall n o1 o2,
  fst (List.fold_left (fun acc de => let '(n, outs) := acc in
         let '(n', o) := step n (fst de) (snd de) in (n', (outs ++ [o])%list)) evs (n, o1)) =
  fst (List.fold_left (fun acc de => let '(n, outs) := acc in
         let '(n', o) := step n (fst de) (snd de) in (n', (outs ++ [o])%list)) evs (n, o2)).
Proof.
  induction evs as [|de r IH]; intros n o1 o2; cbn [List.fold_left fst]; auto.
  destruct (step n (fst de) (snd de)) as [n' o]. apply IH.
Qed.

Lemma run_cons n de r : fst (run n (de :: r)) = fst (run (fst (step n (fst de) (snd de))) r).
Proof.
  unfold run. cbn [List.fold_left]. destruct (step n (fst de) (snd de)) as [n' o]. cbn [fst]. apply run_acc.
Qed.

Lemma run_nil n : fst (run n []) = n.
Proof. reflexivity. Qed.

Fixpoint evs_pre (md : mode) (n : node) (evs : list (dials * event)) : Prop :=
  match evs with
  | [] => True
  | de :: r => ev_pre md n (fst de) (snd de) /\ evs_pre md (fst (step n (fst de) (snd de))) r
  end.

Lemma ev_pre_any n ds e : ev_pre MAny n ds e.
Proof.
  destruct e; cbn; auto. generalize (upd_last_read (fst (fst (io_iteration n ds))) cid). intros n1.
  revert n1. induction ms as [|m r IH]; intros n1; cbn; auto. split; auto.
  unfold msg_pre, cer_pre. split; [intros []|]. intros _ _ c host _ _ _ _. split; cbn; tauto.
Qed.

Lemma run_t md evs : forall n0 n, evs_pre md n evs -> trans md n0 n -> trans md n0 (fst (run n evs)).
Proof.
  induction evs as [|de r IH]; intros n0 n Hpre H; [exact H|].
  destruct Hpre as [H1 H2]. rewrite run_cons. apply IH; auto. now apply step_t.
Qed.

Lemma evs_pre_any evs : forall n, evs_pre MAny n evs.
Proof. induction evs; cbn; auto. intros n. split; auto. apply ev_pre_any. Qed.

(* an invariant of the atomic transitions is an invariant of every run *)
Lemma trans_inv md (P : node -> Prop) :
  (forall n n', astep md n n' -> P n -> P n') -> forall n n', trans md n n' -> P n -> P n'.
Proof. intros HP n n' H. induction H; eauto. Qed.

Lemma reach_inv (P : node -> Prop) :
  (forall n, wf_init n -> P n) -> (forall n n', astep MAny n n' -> P n -> P n') ->
  forall n0 n, reach n0 n -> P n.
Proof.
  intros Hi Hs n0 n [evs [Hw E]]. subst n.
  eapply (trans_inv MAny P Hs n0); [|auto]. apply run_t; [apply evs_pre_any|constructor].
Qed.

(* ---------------------------------------------------------------------------------------- *)
(* 4. projections of remove_conn                                                              *)
(* ---------------------------------------------------------------------------------------- *)
Definition clear_fn (reason now : Z) : peer -> peer :=
  fun p => set_pconn p None (match p_reason p with Some r => Some r | None => Some reason end)
                     (p_lastconn p) (Some now).

Definition removed_peers (n : node) (cid : nat) (r : Z) (c : conn) : list peer :=
  match find_conn_peer n c with
  | Some p => match p_conn p with
              | Some k => if Nat.eqb k cid then upd_peer (n_peers n) (p_name p) (clear_fn r (n_now n)) else n_peers n
              | None => n_peers n
              end
  | None => n_peers n
  end.

Section RemoveProj.
Variables (n : node) (cid : nat) (r : Z) (c : conn).
Hypothesis Hget : get_conn n cid = Some c.

Ltac rc := unfold remove_conn, removed_peers; rewrite Hget;
           destruct (find_conn_peer n c) as [p|]; [destruct (p_conn p) as [k|]; [destruct (Nat.eqb k cid)|]|]; reflexivity.

Lemma rc_conns : n_conns (remove_conn n cid r) = List.filter (fun x => negb (Nat.eqb (c_id x) cid)) (n_conns n).
Proof. rc. Qed.
Lemma rc_next : n_next_cid (remove_conn n cid r) = n_next_cid n.
Proof. rc. Qed.
Lemma rc_cfg : n_cfg (remove_conn n cid r) = n_cfg n.
Proof. rc. Qed.
Lemma rc_now : n_now (remove_conn n cid r) = n_now n.
Proof. rc. Qed.
Lemma rc_hr : n_half_ready (remove_conn n cid r) = remove_nat cid (n_half_ready n).
Proof. rc. Qed.
Lemma rc_sp : n_socket_peers (remove_conn n cid r) = remove_nat cid (n_socket_peers n).
Proof. rc. Qed.
Lemma rc_sa : n_sent_answers (remove_conn n cid r) = n_sent_answers n.
Proof. rc. Qed.
Lemma rc_pw : n_peer_waiting (remove_conn n cid r) =
  List.filter (fun e => negb (String.eqb (fst e) (c_host c))) (n_peer_waiting n).
Proof. rc. Qed.
Lemma rc_routes : n_routes (remove_conn n cid r) = n_routes n.
Proof. rc. Qed.
Lemma rc_peers : n_peers (remove_conn n cid r) = removed_peers n cid r c.
Proof. rc. Qed.
End RemoveProj.

Lemma in_upd_peer_find l nm f p' :
  List.In p' (upd_peer l nm f) ->
  List.In p' l \/ exists p, List.find (fun p => String.eqb (p_name p) nm) l = Some p /\ p' = f p.
Proof.
  induction l as [|a l IH]; cbn; [tauto|].
  destruct (String.eqb (p_name a) nm) eqn:E; cbn.
  - intros [H|H]; [right; exists a; auto|auto].
  - intros [H|H]; [auto|]. destruct (IH H) as [H1|[q [H1 H2]]]; [auto|right; exists q; auto].
Qed.

Lemma find_conn_peer_some n c p : find_conn_peer n c = Some p ->
  get_peer n (p_name p) = Some p /\ List.In p (n_peers n) /\ (p_name p = c_node_name c \/ p_name p = c_host c).
Proof.
  unfold find_conn_peer. destruct (get_peer n (c_node_name c)) as [q|] eqn:E.
  - intros H; inversion H; subst q. destruct (get_peer_some _ _ _ E) as [H1 H2]. rewrite H2. auto.
  - intros H. destruct (get_peer_some _ _ _ H) as [H1 H2]. rewrite H2. auto.
Qed.

Lemma in_removed_peers n cid r c p' :
  List.In p' (removed_peers n cid r c) ->
  List.In p' (n_peers n) \/
  exists p, find_conn_peer n c = Some p /\ p' = clear_fn r (n_now n) p /\ p_conn p = Some cid.
Proof.
  unfold removed_peers. destruct (find_conn_peer n c) as [p|] eqn:Ef; auto.
  destruct (p_conn p) as [k|] eqn:Ek; auto. destruct (Nat.eqb k cid) eqn:E; auto.
  apply Nat.eqb_eq in E. subst k. intros H.
  apply in_upd_peer_find in H. destruct H as [H|[q [H1 H2]]]; auto.
  right. exists p. apply find_conn_peer_some in Ef. destruct Ef as [Ef _].
  unfold get_peer in Ef. rewrite Ef in H1. inversion H1; subst q. auto.
Qed.

Lemma map_name_removed_peers n cid r c : List.map p_name (removed_peers n cid r c) = List.map p_name (n_peers n).
Proof.
  unfold removed_peers. destruct (find_conn_peer n c) as [p|]; auto.
  destruct (p_conn p) as [k|]; auto. destruct (Nat.eqb k cid); auto.
  apply map_name_upd_peer. intro; reflexivity.
Qed.

(* ---------------------------------------------------------------------------------------- *)
(* 5. unconditional invariants                                                                *)
(* ---------------------------------------------------------------------------------------- *)
(* 5.0 what never changes *)
Lemma astep_const md n n' : astep md n n' ->
  n_cfg n' = n_cfg n /\ List.map p_name (n_peers n') = List.map p_name (n_peers n) /\ n_routes n' = n_routes n.
Proof.
  intros H. destruct H; cbn; auto.
  - split; auto. split; auto. apply map_name_upd_peer. intro q. apply H.
  - split; auto. split; auto. apply map_name_upd_peer. intro q. reflexivity.
  - erewrite rc_cfg, rc_peers, rc_routes by eauto. rewrite map_name_removed_peers. auto.
  - split; auto. split; auto. apply map_name_upd_peer. intro q. reflexivity.
Qed.

(* 5.1 connection ids *)
Definition P_ids (n : node) : Prop :=
  NoDup (List.map c_id (n_conns n)) /\ (forall c, List.In c (n_conns n) -> c_id c < n_next_cid n).

Lemma P_ids_upd n cid f : keeps_id f -> P_ids n -> P_ids (set_conns n (upd_conn (n_conns n) cid f)).
Proof.
  intros Hf [H1 H2]. split; cbn.
  - now rewrite map_id_upd_conn.
  - intros c' Hin. apply in_upd_conn in Hin. destruct Hin as [Hin|[c [Hin [E _]]]]; auto.
    subst c'. rewrite Hf. auto.
Qed.

Lemma get_conn_in n c : P_ids n -> List.In c (n_conns n) -> get_conn n (c_id c) = Some c.
Proof. intros [H _] Hin. unfold get_conn. now apply find_conn_in. Qed.

Lemma P_ids_new n c : c_id c = n_next_cid n -> P_ids n ->
  NoDup (List.map c_id (n_conns n ++ [c])) /\ (forall x, List.In x (n_conns n ++ [c]) -> c_id x < S (n_next_cid n)).
Proof.
  intros E [H1 H2]. split.
  - rewrite map_app. cbn. apply NoDup_app_fresh; auto. intro Hin. apply in_map_iff in Hin.
    destruct Hin as [x [Ex Hin]]. apply H2 in Hin. lia.
  - intros x Hin. apply in_app_iff in Hin. destruct Hin as [Hin|[Hin|[]]]; [apply H2 in Hin; lia|subst; lia].
Qed.

Lemma keeps_id_host host au ac : keeps_id (fun c => set_cident c (c_node_name c) host (au c) (ac c)).
Proof. intro; reflexivity. Qed.

Lemma astep_ids md n n' : astep md n n' -> P_ids n -> P_ids n'.
Proof.
  intros H Hi. destruct H; try exact Hi.
  - apply P_ids_upd; auto. now apply soft_keeps.
  - apply P_ids_upd; auto. now apply isoft_keeps.
  - apply P_ids_upd; auto. apply keeps_id_name_fn.
  - apply P_ids_upd; auto. apply keeps_id_host.
  - destruct Hi as [H1 H2]. split.
    + erewrite rc_conns by eauto. now apply NoDup_map_filter.
    + erewrite rc_conns, rc_next by eauto. intros x Hin. apply filter_In in Hin. apply H2. tauto.
  - destruct Hi as [H1 H2]. split; cbn; auto. intros c Hc. apply H2 in Hc. lia.
  - unfold accept_conn. apply (P_ids_new n (new_conn (n_next_cid n) true SConnected "" (n_now n) h) eq_refl Hi).
  - unfold dial_conn. apply (P_ids_new n (new_conn (n_next_cid n) false SConnecting name (n_now n) h) eq_refl Hi).
Qed.

(* 5.2 peer names *)
Definition P_names (n : node) : Prop := NoDup (List.map p_name (n_peers n)).
Lemma astep_names md n n' : astep md n n' -> P_names n -> P_names n'.
Proof. intros H. unfold P_names. destruct (astep_const _ _ _ H) as [_ [E _]]. now rewrite E. Qed.

(* 5.3 _half_ready_connections and socket_peers *)
Definition P_tabs (n : node) : Prop :=
  (forall x, List.In x (n_half_ready n) -> List.In x (List.map c_id (n_conns n))) /\ NoDup (n_half_ready n) /\
  (forall x, List.In x (n_socket_peers n) -> List.In x (List.map c_id (n_conns n))) /\ NoDup (n_socket_peers n).

Lemma P_tabs_upd n cid f : keeps_id f -> P_tabs n -> P_tabs (set_conns n (upd_conn (n_conns n) cid f)).
Proof. intros Hf H. unfold P_tabs. cbn. now rewrite map_id_upd_conn. Qed.

Lemma fresh_not_in n l : P_ids n -> (forall x, List.In x l -> List.In x (List.map c_id (n_conns n))) -> ~ List.In (n_next_cid n) l.
Proof.
  intros [_ H2] Hs Hin. apply Hs in Hin. apply in_map_iff in Hin. destruct Hin as [c [E Hin]].
  apply H2 in Hin. lia.
Qed.

Lemma astep_tabs md n n' : astep md n n' -> P_ids n -> P_tabs n -> P_tabs n'.
Proof.
  intros H Hi Ht. destruct H; try exact Ht.
  - apply P_tabs_upd; auto. now apply soft_keeps.
  - apply P_tabs_upd; auto. now apply isoft_keeps.
  - apply P_tabs_upd; auto. apply keeps_id_name_fn.
  - apply P_tabs_upd; auto. apply keeps_id_host.
  - destruct Ht as [H1 [H2 [H3 H4]]]. split; [|split; [|split]]; cbn; auto.
    + intros y Hy. apply in_remove_nat in Hy. apply H1. tauto.
    + now apply NoDup_filter'.
  - destruct Ht as [H1 [H2 [H3 H4]]]. unfold P_tabs. erewrite rc_conns, rc_hr, rc_sp by eauto.
    assert (Hf : forall l, (forall x, List.In x l -> List.In x (List.map c_id (n_conns n))) ->
              forall x, List.In x (remove_nat cid l) ->
              List.In x (List.map c_id (List.filter (fun x => negb (Nat.eqb (c_id x) cid)) (n_conns n)))).
    { intros l Hl x Hx. apply in_remove_nat in Hx. destruct Hx as [Hx Hne]. apply Hl in Hx.
      apply in_map_iff in Hx. destruct Hx as [y [E Hy]]. apply in_map_iff. exists y. split; auto.
      apply filter_In. split; auto. apply negb_true_iff. apply Nat.eqb_neq. congruence. }
    split; [apply Hf; auto|]. split; [now apply NoDup_filter'|]. split; [apply Hf; auto|now apply NoDup_filter'].
  - (* accept *)
    destruct Ht as [H1 [H2 [H3 H4]]]. unfold accept_conn, P_tabs. cbn. rewrite map_app. cbn.
    assert (Hs : forall l, (forall x, List.In x l -> List.In x (List.map c_id (n_conns n))) ->
                 forall x, List.In x (l ++ [n_next_cid n]) -> List.In x (List.map c_id (n_conns n) ++ [n_next_cid n])).
    { intros l Hl x Hx. apply in_app_iff in Hx. apply in_app_iff. destruct Hx; auto. }
    split; [apply Hs; auto|]. split; [apply NoDup_app_fresh; auto; eapply fresh_not_in; eauto|].
    split; [apply Hs; auto|apply NoDup_app_fresh; auto; eapply fresh_not_in; eauto].
  - destruct Ht as [H1 [H2 [H3 H4]]]. unfold dial_conn, P_tabs. cbn. rewrite map_app. cbn.
    split; [|split; [auto|split]].
    + intros x Hx. apply in_app_iff. auto.
    + intros x Hx. apply in_app_iff in Hx. apply in_app_iff. destruct Hx; auto.
    + apply NoDup_app_fresh; auto; eapply fresh_not_in; eauto.
Qed.

(* 5.4 disconnect reason *)
Definition P_reason (n : node) : Prop :=
  forall p, List.In p (n_peers n) -> p_conn p = None -> p_lastdisc p <> None -> p_reason p <> None.

Lemma in_upd_peer_weak l nm f p' :
  List.In p' (upd_peer l nm f) -> List.In p' l \/ exists p, List.In p l /\ p' = f p.
Proof.
  intros H. apply in_upd_peer_find in H. destruct H as [H|[p [H1 H2]]]; auto.
  right. exists p. apply find_some in H1. tauto.
Qed.

Lemma astep_reason md n n' : astep md n n' -> P_reason n -> P_reason n'.
Proof.
  intros H Hr. destruct H; try exact Hr.
  - intros p' Hin. cbn in Hin. apply in_upd_peer_weak in Hin. destruct Hin as [Hin|[p [Hin E]]]; auto.
    subst p'. destruct (H p) as [_ [E1 [E2 E3]]]. rewrite E1, E2. intros A B.
    destruct E3 as [E3|E3]; auto. rewrite E3. auto.
  - intros p' Hin. cbn in Hin. apply in_upd_peer_weak in Hin. destruct Hin as [Hin|[q [Hin E]]]; auto.
    subst p'. unfold assign_fn. cbn. destruct (p_conn q); discriminate.
  - intros p' Hin. erewrite rc_peers in Hin by eauto. apply in_removed_peers in Hin.
    destruct Hin as [Hin|[p [_ [E _]]]]; auto. subst p'. unfold clear_fn. cbn.
    intros _ _. destruct (p_reason p); discriminate.
  - intros p' Hin. unfold dial_conn in Hin. cbn in Hin. apply in_upd_peer_weak in Hin.
    destruct Hin as [Hin|[q [Hin E]]]; auto. subst p'. cbn. discriminate.
Qed.

(* 5.5 the retransmission windows *)
Definition P_sa (n : node) : Prop :=
  (forall o l, List.In (o, l) (n_sent_answers n) -> List.length l <= g_rsize (n_cfg n)) /\
  NoDup (List.map fst (n_sent_answers n)).

Lemma bounded_append_len k l x : List.length (bounded_append k l x) <= k.
Proof. unfold bounded_append. rewrite skipn_length. lia. Qed.

Local Arguments bounded_append : simpl never.

Lemma sa_append_len k sa o e :
  (forall o' l, List.In (o', l) sa -> List.length l <= k) ->
  forall o' l, List.In (o', l) (sa_append k sa o e) -> List.length l <= k.
Proof.
  induction sa as [|[o1 l1] r IH]; cbn; intros Hs o' l.
  - intros [H|[]]. inversion H; subst. apply bounded_append_len.
  - destruct (String.eqb o1 o); cbn.
    + intros [H|H]; [inversion H; subst; apply bounded_append_len|eauto].
    + intros [H|H]; [inversion H; subst; eauto|]. eapply IH; eauto.
Qed.

Lemma sa_append_keys k sa o e :
  List.map fst (sa_append k sa o e) = List.map fst sa \/
  (~ List.In o (List.map fst sa) /\ List.map fst (sa_append k sa o e) = (List.map fst sa ++ [o])%list).
Proof.
  induction sa as [|[o1 l1] r IH]; cbn.
  - right. split; auto.
  - destruct (String.eqb o1 o) eqn:E; cbn; auto.
    apply String.eqb_neq in E. destruct IH as [IH|[IH1 IH2]].
    + left. now rewrite IH.
    + right. split; [|now rewrite IH2]. intros [H|H]; auto.
Qed.

Lemma astep_sa md n n' : astep md n n' -> P_sa n -> P_sa n'.
Proof.
  intros H Hs. destruct H; try exact Hs.
  - destruct H0 as [E|[o [e E]]]; subst sa; [exact Hs|]. destruct Hs as [H1 H2]. split; cbn.
    + now apply sa_append_len.
    + destruct (sa_append_keys (g_rsize (n_cfg n)) (n_sent_answers n) o e) as [E|[E1 E2]].
      * now rewrite E.
      * rewrite E2. now apply NoDup_app_fresh.
  - unfold P_sa. erewrite rc_sa, rc_cfg by eauto. exact Hs.
Qed.

(* 5.6 together *)
Definition W (n : node) : Prop := P_ids n /\ P_names n /\ P_tabs n /\ P_reason n /\ P_sa n.

Lemma astep_W md n n' : astep md n n' -> W n -> W n'.
Proof.
  intros H [H1 [H2 [H3 [H4 H5]]]]. repeat split.
  - eapply astep_ids; eauto. - eapply astep_ids; eauto. - eapply astep_names; eauto.
  - eapply astep_tabs; eauto. - eapply astep_tabs; eauto. - eapply astep_tabs; eauto. - eapply astep_tabs; eauto.
  - eapply astep_reason; eauto. - eapply astep_sa; eauto. - eapply astep_sa; eauto.
Qed.

Lemma W_init n : wf_init n -> W n.
Proof.
  intros [H1 [H2 [H3 [H4 [H5 [H6 [H7 [H8 [H9 H10]]]]]]]]]. unfold W, P_ids, P_names, P_tabs, P_reason, P_sa.
  rewrite H1, H2, H3, H7. cbn. repeat split; auto; try constructor; try tauto.
  intros p Hp Hc Hd. apply H8 in Hp. tauto.
Qed.

Lemma trans_W md n n' : trans md n n' -> W n -> W n'.
Proof. apply trans_inv. apply astep_W. Qed.

Lemma reach_trans n0 n : reach n0 n -> wf_init n0 /\ trans MAny n0 n.
Proof.
  intros [evs [Hw E]]. subst n. split; auto. apply run_t; [apply evs_pre_any|constructor].
Qed.

Lemma reach_W n0 n : reach n0 n -> W n.
Proof. intros H. apply reach_trans in H. destruct H as [Hw H]. eapply trans_W; eauto. now apply W_init. Qed.

Lemma trans_const md n n' : trans md n n' ->
  n_cfg n' = n_cfg n /\ List.map p_name (n_peers n') = List.map p_name (n_peers n) /\ n_routes n' = n_routes n.
Proof.
  intros H. induction H; auto. apply astep_const in H0. destruct IHtrans as [A [B C]], H0 as [A' [B' C']].
  repeat split; congruence.
Qed.

(* ---- invariant 1 ---- *)
Theorem I_ids : forall n0 n, reach n0 n ->
  NoDup (List.map c_id (n_conns n)) /\
  (forall c, List.In c (n_conns n) -> c_id c < n_next_cid n) /\
  NoDup (List.map p_name (n_peers n)) /\
  List.map p_name (n_peers n) = List.map p_name (n_peers n0).
Proof.
  intros n0 n H. destruct (reach_W _ _ H) as [[H1 H2] [H3 _]]. apply reach_trans in H.
  destruct H as [_ H]. apply trans_const in H. repeat split; auto. tauto.
Qed.

(* ---- invariant 2 (C13 / C19: the id tables) ---- *)
Theorem C13_tables_subset : forall n0 n, reach n0 n ->
  (forall x, List.In x (n_half_ready n) -> List.In x (List.map c_id (n_conns n))) /\ NoDup (n_half_ready n) /\
  (forall x, List.In x (n_socket_peers n) -> List.In x (List.map c_id (n_conns n))) /\ NoDup (n_socket_peers n).
Proof. intros n0 n H. apply reach_W in H. apply H. Qed.

(* close_conn removes the id from the three tables (no reachability needed) *)
Theorem C13_closed_nowhere : forall n cid r c, get_conn n cid = Some c ->
  let n' := fst (close_conn n cid r) in
  snd (close_conn n cid r) = [OClose cid r] /\
  ~ List.In cid (List.map c_id (n_conns n')) /\ ~ List.In cid (n_half_ready n') /\ ~ List.In cid (n_socket_peers n').
Proof.
  intros n cid r c H. unfold close_conn. rewrite H. cbn [fst snd]. split; auto.
  erewrite rc_conns, rc_hr, rc_sp by eauto. repeat split.
  - intros Hin. apply in_map_iff in Hin. destruct Hin as [x [E Hin]]. apply filter_In in Hin.
    destruct Hin as [_ Hin]. rewrite E, Nat.eqb_refl in Hin. discriminate.
  - intros Hin. apply in_remove_nat in Hin. tauto.
  - intros Hin. apply in_remove_nat in Hin. tauto.
Qed.

(* ... and a closed id never comes back: ids are not reused *)
Definition dead (cid : nat) (n : node) : Prop := cid < n_next_cid n /\ ~ List.In cid (List.map c_id (n_conns n)).

Lemma astep_dead md cid n n' : astep md n n' -> dead cid n -> dead cid n'.
Proof.
  intros H [H1 H2]. destruct H; try (split; assumption); unfold dead; cbn.
  - rewrite map_id_upd_conn; auto. now apply soft_keeps.
  - rewrite map_id_upd_conn; auto. now apply isoft_keeps.
  - rewrite map_id_upd_conn; auto. apply keeps_id_name_fn.
  - rewrite map_id_upd_conn; auto. apply keeps_id_host.
  - erewrite rc_next, rc_conns by eauto. split; auto. intro Hin. apply H2.
    eapply incl_map_filter; eauto.
  - split; [lia|auto].
  - rewrite map_app. cbn. split; [lia|]. intro Hin. apply in_app_iff in Hin. destruct Hin as [Hin|[Hin|[]]]; [auto|lia].
  - rewrite map_app. cbn. split; [lia|]. intro Hin. apply in_app_iff in Hin. destruct Hin as [Hin|[Hin|[]]]; [auto|lia].
Qed.

Theorem C13_closed_stays_closed : forall n0 n cid r c evs, reach n0 n -> get_conn n cid = Some c ->
  let n' := fst (run (fst (close_conn n cid r)) evs) in
  ~ List.In cid (List.map c_id (n_conns n')) /\ ~ List.In cid (n_half_ready n') /\ ~ List.In cid (n_socket_peers n').
Proof.
  intros n0 n cid r c evs Hr Hg n'.
  assert (HW : W n) by (eapply reach_W; eauto).
  assert (Ht : trans MAny n n').
  { subst n'. apply run_t; [apply evs_pre_any|]. apply close_conn_t. constructor. }
  assert (Hd : dead cid n').
  { subst n'. eapply (trans_inv MAny (dead cid)); [intros; eapply astep_dead; eauto| |].
    - apply run_t; [apply evs_pre_any|constructor].
    - destruct (C13_closed_nowhere n cid r c Hg) as [_ [A _]]. split; auto.
      unfold close_conn. rewrite Hg. cbn [fst]. erewrite rc_next by eauto.
      destruct HW as [[_ Hlt] _]. apply get_conn_some in Hg. destruct Hg as [Hin E]. apply Hlt in Hin. lia. }
  destruct (trans_W _ _ _ Ht HW) as [_ [_ [[T1 [_ [T3 _]]] _]]]. destruct Hd as [_ Hd]. repeat split; auto.
Qed.

(* ---- invariant 5 (C13: disconnect reason) ---- *)
Theorem C13_reason_set : forall n0 n, reach n0 n ->
  forall p, List.In p (n_peers n) -> p_conn p = None /\ p_lastdisc p <> None -> p_reason p <> None.
Proof. intros n0 n H p Hp [A B]. apply reach_W in H. destruct H as [_ [_ [_ [H _]]]]. now apply H. Qed.

Theorem remove_conn_sets_reason : forall n cid r c p,
  get_conn n cid = Some c -> find_conn_peer n c = Some p -> p_conn p = Some cid ->
  exists p', get_peer (remove_conn n cid r) (p_name p) = Some p' /\
             p_conn p' = None /\ p_lastdisc p' = Some (n_now n) /\ p_reason p' <> None.
Proof.
  intros n cid r c p Hg Hf Hc. exists (clear_fn r (n_now n) p).
  unfold get_peer. erewrite rc_peers by eauto. unfold removed_peers. rewrite Hf, Hc, Nat.eqb_refl.
  rewrite find_upd_peer by (intro; reflexivity).
  apply find_conn_peer_some in Hf. destruct Hf as [Hf _]. unfold get_peer in Hf. rewrite Hf. cbn.
  repeat split; auto. destruct (p_reason p); discriminate.
Qed.

(* ---- invariant 7 (C19: retransmission windows) ---- *)
Theorem C19_windows_bounded : forall n0 n, reach n0 n ->
  (forall o l, List.In (o, l) (n_sent_answers n) -> List.length l <= g_rsize (n_cfg n)) /\
  NoDup (List.map fst (n_sent_answers n)) /\
  n_cfg n = n_cfg n0.
Proof.
  intros n0 n H. destruct (reach_W _ _ H) as [_ [_ [_ [_ [H1 H2]]]]]. apply reach_trans in H.
  destruct H as [_ H]. apply trans_const in H. repeat split; auto. tauto.
Qed.

(* ---------------------------------------------------------------------------------------- *)
(* 6. C12: an outbound connection is its peer's connection                                    *)
(* ---------------------------------------------------------------------------------------- *)
Definition P_ne (n : node) : Prop := ~ List.In ""%string (List.map p_name (n_peers n)).
Definition P_own (n : node) : Prop :=
  forall c, List.In c (n_conns n) -> c_recv c = false ->
  exists p, List.In p (n_peers n) /\ p_name p = c_node_name c /\ p_conn p = Some (c_id c).

Lemma peer_unique n p q : P_names n -> List.In p (n_peers n) -> List.In q (n_peers n) -> p_name p = p_name q -> p = q.
Proof.
  intros Hn Hp Hq E. pose proof (get_peer_in n p Hn Hp) as A. pose proof (get_peer_in n q Hn Hq) as B.
  rewrite E in A. congruence.
Qed.

Lemma conn_unique n c1 c2 : NoDup (List.map c_id (n_conns n)) ->
  List.In c1 (n_conns n) -> List.In c2 (n_conns n) -> c_id c1 = c_id c2 -> c1 = c2.
Proof.
  intros Hn H1 H2 E. pose proof (find_conn_in _ c1 Hn H1) as A. pose proof (find_conn_in _ c2 Hn H2) as B.
  rewrite E in A. congruence.
Qed.

Lemma astep_ne md n n' : astep md n n' -> P_ne n -> P_ne n'.
Proof. intros H. unfold P_ne. destruct (astep_const _ _ _ H) as [_ [E _]]. now rewrite E. Qed.

Lemma P_own_upd n cid f :
  (forall c, c_id (f c) = c_id c /\ c_recv (f c) = c_recv c /\
             (c_recv c = false -> (exists p, List.In p (n_peers n) /\ p_name p = c_node_name c) -> c_node_name (f c) = c_node_name c)) ->
  P_own n -> P_own (set_conns n (upd_conn (n_conns n) cid f)).
Proof.
  intros Hf Ho c' Hin Hr. cbn in Hin |- *. apply in_upd_conn in Hin.
  destruct Hin as [Hin|[c [Hin [E _]]]]; [now apply Ho|].
  subst c'. destruct (Hf c) as [E1 [E2 E3]]. rewrite E2 in Hr. destruct (Ho c Hin Hr) as [p [Hp [Hn Hc]]].
  exists p. rewrite E1, E3; eauto.
Qed.

Lemma astep_own md n n' : astep md n n' -> P_ids n -> P_names n -> P_own n -> P_own n'.
Proof.
  intros H Hi Hn Ho. destruct H; try exact Ho.
  - apply P_own_upd; auto. intros c. destruct (H c) as [A [B [C D]]]. auto.
  - apply P_own_upd; auto. intros c. destruct (H c) as [A [B [C D]]]. auto.
  - (* node names are written on inbound connections only *)
    intros c' Hin Hr. cbn in Hin |- *. apply in_upd_conn in Hin.
    destruct Hin as [Hin|[c [Hin [E Eid]]]]; [now apply Ho|]. subst c' cid. exfalso.
    pose proof (H1 c (get_conn_in n c Hi Hin)) as R.
    unfold name_fn in Hr. destruct (String.eqb (c_node_name c) "") in Hr; cbn in Hr; congruence.
  - apply P_own_upd; auto.
  - (* peer_soft *)
    intros c Hin Hr. cbn in Hin |- *. destruct (Ho c Hin Hr) as [p [Hp [En Ec]]].
    destruct (upd_peer_image (n_peers n) nm f p Hn Hp) as [[_ Hi']|[_ Hi']]; [exists p; auto|].
    exists (f p). destruct (H p) as [A [B _]]. rewrite A, B. auto.
  - (* assign *)
    intros c0 Hin Hr. cbn in Hin |- *. destruct (Ho c0 Hin Hr) as [q [Hq [En Ec]]].
    destruct (upd_peer_image (n_peers n) (c_host c) (assign_fn cid lc) q Hn Hq) as [[_ Hi']|[_ Hi']]; [exists q; auto|].
    exists (assign_fn cid lc q). split; [exact Hi'|]. unfold assign_fn; cbn. rewrite Ec. auto.
  - (* remove *)
    intros c0 Hin Hr. erewrite rc_conns in Hin by eauto. erewrite rc_peers by eauto.
    apply filter_In in Hin. destruct Hin as [Hin Hne']. apply negb_true_iff, Nat.eqb_neq in Hne'.
    destruct (Ho c0 Hin Hr) as [q [Hq [En Ec]]]. exists q. split; auto.
    unfold removed_peers. destruct (find_conn_peer n c) as [p|] eqn:Ef; auto.
    destruct (p_conn p) as [k|] eqn:Ek; auto. destruct (Nat.eqb k cid) eqn:E; auto.
    apply Nat.eqb_eq in E. subst k. apply find_conn_peer_some in Ef. destruct Ef as [_ [Hp _]].
    destruct (upd_peer_image (n_peers n) (p_name p) (clear_fn r (n_now n)) q Hn Hq) as [[_ Hi']|[En' _]]; auto.
    exfalso. assert (q = p) by (eapply peer_unique; eauto). subst q. congruence.
  - (* accept *)
    intros c Hin Hr. unfold accept_conn in Hin |- *. cbn in Hin |- *. apply in_app_iff in Hin.
    destruct Hin as [Hin|[Hin|[]]]; [now apply Ho|]. subst c. discriminate.
  - (* dial *)
    intros c Hin Hr. unfold dial_conn in Hin |- *. cbn in Hin |- *. apply in_app_iff in Hin.
    destruct (get_peer_some _ _ _ H) as [Hp Enm].
    destruct Hin as [Hin|[Hin|[]]].
    + destruct (Ho c Hin Hr) as [q [Hq [En Ec]]]. exists q. split; auto.
      match goal with |- List.In q (upd_peer _ _ ?F) =>
        destruct (upd_peer_image (n_peers n) name F q Hn Hq) as [[_ Hi']|[En' _]]; auto end.
      exfalso. assert (q = p) by (eapply peer_unique; eauto; congruence). subst q. congruence.
    + subst c. cbn.
      match goal with |- exists _, List.In _ (upd_peer _ _ ?F) /\ _ =>
        destruct (upd_peer_image (n_peers n) name F p Hn Hp) as [[Hx _]|[_ Hi']]; [congruence|] end.
      eexists; split; [exact Hi'|]. cbn. auto.
Qed.

Definition WO (n : node) : Prop := W n /\ P_own n.

Lemma astep_WO md n n' : astep md n n' -> WO n -> WO n'.
Proof.
  intros H [HW Ho]. split; [eapply astep_W; eauto|].
  destruct HW as [Hi [Hn _]]. eapply astep_own; eauto.
Qed.

Lemma WO_init n : wf_init n -> WO n.
Proof.
  intros Hw. split; [now apply W_init|]. destruct Hw as [H1 _].
  intros c Hin. rewrite H1 in Hin. destruct Hin.
Qed.

Lemma reach_WO n0 n : reach n0 n -> WO n.
Proof.
  intros H. apply reach_trans in H. destruct H as [Hw H].
  eapply (trans_inv MAny WO); eauto. apply astep_WO. now apply WO_init.
Qed.

(* ---- invariant 4 (unconditional since receive_cer acts only on a connection that awaits the CER:
   the node name of an outbound connection is never rewritten) ---- *)
Theorem C12_outbound_owned : forall n0 n, reach n0 n ->
  forall c, List.In c (n_conns n) -> c_recv c = false ->
  exists p, List.In p (n_peers n) /\ p_name p = c_node_name c /\ p_conn p = Some (c_id c).
Proof. intros n0 n H. destruct (reach_WO _ _ H) as [_ Ho]. exact Ho. Qed.

Theorem C12_single_outbound : forall n0 n, reach n0 n ->
  forall c1 c2, List.In c1 (n_conns n) -> List.In c2 (n_conns n) ->
  c_recv c1 = false -> c_recv c2 = false -> c_node_name c1 = c_node_name c2 -> c1 = c2.
Proof.
  intros n0 n H c1 c2 H1 H2 R1 R2 E. destruct (reach_WO _ _ H) as [[[Hnd _] [Hn _]] Ho].
  destruct (Ho c1 H1 R1) as [p1 [Hp1 [N1 C1]]]. destruct (Ho c2 H2 R2) as [p2 [Hp2 [N2 C2]]].
  assert (p1 = p2) by (eapply peer_unique; eauto; congruence). subst p2.
  eapply conn_unique; eauto. congruence.
Qed.

(* ---------------------------------------------------------------------------------------- *)
(* 6b. C06: connection states and the handshake                                               *)
(* ---------------------------------------------------------------------------------------- *)
Definition K2 (n : node) : Prop :=
  forall c, List.In c (n_conns n) -> c_recv c = true -> c_state c <> SConnecting.
Definition K0 (n : node) : Prop :=
  forall c, List.In c (n_conns n) -> c_recv c = true ->
  c_node_name c = ""%string \/ List.In (c_node_name c) (List.map p_name (n_peers n)).
Definition K1 (n : node) : Prop :=
  forall c, List.In c (n_conns n) -> c_recv c = true -> est (c_state c) ->
  List.In (c_node_name c) (List.map p_name (n_peers n)).

Lemma astep_K2 md n n' : astep md n n' -> P_ids n -> K2 n -> K2 n'.
Proof.
  intros H Hi Hk. destruct H; try exact Hk.
  - intros c' Hin Hr. cbn in Hin. apply in_upd_conn in Hin. destruct Hin as [Hin|[c [Hin [E _]]]]; auto.
    subst c'. destruct (H c) as [_ [B [_ [_ D]]]]. rewrite D. rewrite B in Hr. auto.
  - intros c' Hin Hr. cbn in Hin. apply in_upd_conn in Hin. destruct Hin as [Hin|[c [Hin [E Eid]]]]; auto.
    subst c' cid. destruct (H c) as [_ [B _]]. rewrite B in Hr.
    destruct (H0 c (get_conn_in n c Hi Hin)) as [A|[A _]]; auto. rewrite A. auto.
  - intros c' Hin Hr. cbn in Hin. apply in_upd_conn in Hin. destruct Hin as [Hin|[c [Hin [E _]]]]; auto.
    subst c'. unfold name_fn in *. destruct (String.eqb (c_node_name c) ""); cbn in *; auto.
  - intros c' Hin Hr. cbn in Hin. apply in_upd_conn in Hin. destruct Hin as [Hin|[c [Hin [E _]]]]; auto.
    subst c'. cbn in *. auto.
  - intros c' Hin. erewrite rc_conns in Hin by eauto. apply filter_In in Hin. apply Hk. tauto.
  - intros c' Hin Hr. unfold accept_conn in Hin. cbn in Hin. apply in_app_iff in Hin.
    destruct Hin as [Hin|[Hin|[]]]; auto. subst c'. discriminate.
  - intros c' Hin Hr. unfold dial_conn in Hin. cbn in Hin. apply in_app_iff in Hin.
    destruct Hin as [Hin|[Hin|[]]]; auto. subst c'. discriminate.
Qed.

Lemma astep_K0 md n n' : astep md n n' -> K0 n -> K0 n'.
Proof.
  intros H Hk. destruct (astep_const _ _ _ H) as [_ [En _]]. unfold K0. rewrite En. clear En.
  destruct H; try exact Hk.
  - intros c' Hin Hr. cbn in Hin. apply in_upd_conn in Hin. destruct Hin as [Hin|[c [Hin [E _]]]]; auto.
    subst c'. destruct (H c) as [_ [B [C _]]]. rewrite C. rewrite B in Hr. auto.
  - intros c' Hin Hr. cbn in Hin. apply in_upd_conn in Hin. destruct Hin as [Hin|[c [Hin [E _]]]]; auto.
    subst c'. destruct (H c) as [_ [B [C _]]]. rewrite C. rewrite B in Hr. auto.
  - intros c' Hin Hr. cbn in Hin. apply in_upd_conn in Hin. destruct Hin as [Hin|[c [Hin [E _]]]]; auto.
    subst c'. unfold name_fn in *. destruct (String.eqb (c_node_name c) ""); cbn in *; auto.
    right. destruct (get_peer_some _ _ _ H0) as [Hp E1]. rewrite <- E1. now apply in_map.
  - intros c' Hin Hr. cbn in Hin. apply in_upd_conn in Hin. destruct Hin as [Hin|[c [Hin [E _]]]]; auto.
    subst c'. cbn in *. auto.
  - intros c' Hin. erewrite rc_conns in Hin by eauto. apply filter_In in Hin. apply Hk. tauto.
  - intros c' Hin Hr. unfold accept_conn in Hin. cbn in Hin. apply in_app_iff in Hin.
    destruct Hin as [Hin|[Hin|[]]]; auto. subst c'. auto.
  - intros c' Hin Hr. unfold dial_conn in Hin. cbn in Hin. apply in_app_iff in Hin.
    destruct Hin as [Hin|[Hin|[]]]; auto. subst c'. discriminate.
Qed.

Lemma astep_K1 md n n' : astep md n n' -> P_ids n -> K2 n -> K0 n -> K1 n -> K1 n'.
Proof.
  intros H Hi Hk2 Hk0 Hk. destruct (astep_const _ _ _ H) as [_ [En _]]. unfold K1. rewrite En. clear En.
  destruct H; try exact Hk.
  - intros c' Hin Hr. cbn in Hin. apply in_upd_conn in Hin. destruct Hin as [Hin|[c [Hin [E _]]]]; auto.
    subst c'. destruct (H c) as [_ [B [C [_ D]]]]. rewrite C, D. rewrite B in Hr. auto.
  - intros c' Hin Hr He. cbn in Hin. apply in_upd_conn in Hin. destruct Hin as [Hin|[c [Hin [E Eid]]]]; auto.
    subst c' cid. destruct (H c) as [_ [B [C _]]]. rewrite C. rewrite B in Hr.
    destruct (H0 c (get_conn_in n c Hi Hin)) as [A|[_ [_ A]]].
    + rewrite A in He. auto.
    + destruct (A He) as [A1|[[A1 _]|[_ [_ [A1 _]]]]]; auto.
      * exfalso. eapply Hk2; eauto.
      * destruct (A1 Hr) as [A2|A2]; auto. destruct (Hk0 c Hin Hr); auto. congruence.
  - intros c' Hin Hr He. cbn in Hin. apply in_upd_conn in Hin. destruct Hin as [Hin|[c [Hin [E _]]]]; auto.
    subst c'. unfold name_fn in *. destruct (String.eqb (c_node_name c) ""); cbn in *; auto.
    destruct (get_peer_some _ _ _ H0) as [Hp E1]. rewrite <- E1. now apply in_map.
  - intros c' Hin Hr He. cbn in Hin. apply in_upd_conn in Hin. destruct Hin as [Hin|[c [Hin [E _]]]]; auto.
    subst c'. cbn in *. auto.
  - intros c' Hin. erewrite rc_conns in Hin by eauto. apply filter_In in Hin. apply Hk. tauto.
  - intros c' Hin Hr He. unfold accept_conn in Hin. cbn in Hin. apply in_app_iff in Hin.
    destruct Hin as [Hin|[Hin|[]]]; auto. subst c'. destruct He.
  - intros c' Hin Hr. unfold dial_conn in Hin. cbn in Hin. apply in_app_iff in Hin.
    destruct Hin as [Hin|[Hin|[]]]; auto. subst c'. discriminate.
Qed.

Definition WK (n : node) : Prop := W n /\ K2 n /\ K0 n /\ K1 n.

Lemma astep_WK md n n' : astep md n n' -> WK n -> WK n'.
Proof.
  intros H [HW [H2 [H0 H1]]]. pose proof HW as [Hi _].
  split; [eapply astep_W; eauto|]. split; [eapply astep_K2; eauto|].
  split; [eapply astep_K0; eauto|eapply astep_K1; eauto].
Qed.

Lemma WK_init n : wf_init n -> WK n.
Proof.
  intros Hw. split; [now apply W_init|]. destruct Hw as [H1 _]. unfold K2, K0, K1. rewrite H1. cbn. tauto.
Qed.

Lemma reach_WK n0 n : reach n0 n -> WK n.
Proof.
  intros H. apply reach_trans in H. destruct H as [Hw H].
  eapply (trans_inv MAny WK); eauto. apply astep_WK. now apply WK_init.
Qed.

(* ---- invariant 8 (C06): an inbound connection that is READY, READY_WAITING_DWA or DISCONNECTING
   has been through a successful CER, and is named after a configured peer ---- *)
Theorem C06_ready_inbound_known : forall n0 n, reach n0 n ->
  forall c, List.In c (n_conns n) -> c_recv c = true ->
  is_ready_state (c_state c) = true \/ c_state c = SDisconnecting ->
  exists p, List.In p (n_peers n) /\ p_name p = c_node_name c.
Proof.
  intros n0 n H c Hin Hr Hs. destruct (reach_WK _ _ H) as [_ [_ [_ H1]]].
  assert (He : est (c_state c)).
  { destruct Hs as [Hs|Hs]; [destruct (c_state c); try discriminate; exact I|rewrite Hs; exact I]. }
  pose proof (H1 c Hin Hr He) as A. apply in_map_iff in A. destruct A as [p [A B]]. eauto.
Qed.

(* ---------------------------------------------------------------------------------------- *)
(* 7. guarded invariants: identities are stable                                              *)
(* ---------------------------------------------------------------------------------------- *)
Definition G_ident (n : node) : Prop :=
  forall c, List.In c (n_conns n) -> c_host c = ""%string \/ c_host c = c_node_name c.
Definition G_live (n : node) : Prop :=
  forall p cid, List.In p (n_peers n) -> p_conn p = Some cid ->
  exists c, List.In c (n_conns n) /\ c_id c = cid /\ c_node_name c = p_name p.
(* the converse: the peer of an established connection points to it *)
Definition G_conv (n : node) : Prop :=
  forall c p, List.In c (n_conns n) -> est (c_state c) -> List.In p (n_peers n) -> p_name p = c_node_name c ->
  p_conn p = Some (c_id c).
(* the keys of _peer_waiting are host identities of connections that are past CONNECTED *)
Definition live_st (s : cstate) : Prop := s <> SConnecting /\ s <> SConnected.
Lemma est_live s : est s -> live_st s.
Proof. destruct s; cbn; intros []; split; discriminate. Qed.
Definition G_pw (n : node) : Prop :=
  forall h, List.In h (List.map fst (n_peer_waiting n)) ->
  h <> ""%string /\ exists c, List.In c (n_conns n) /\ c_host c = h /\ live_st (c_state c).
(* an established connection has a host identity *)
Definition KH (n : node) : Prop :=
  forall c, List.In c (n_conns n) -> est (c_state c) -> c_host c <> ""%string.

Lemma out_named n c : P_ne n -> P_own n -> List.In c (n_conns n) -> c_recv c = false -> c_node_name c <> ""%string.
Proof.
  intros Hne Ho Hin Hr E. destruct (Ho c Hin Hr) as [p [Hp [En _]]]. apply Hne. rewrite <- E, <- En. now apply in_map.
Qed.
Lemma id_ok_eq n c h : P_ne n -> P_own n -> List.In c (n_conns n) -> id_ok c h -> c_node_name c = h.
Proof. intros Hne Ho Hin [A|[A B]]; auto. exfalso. eapply out_named; eauto. Qed.

Lemma name_nonempty n c : P_ne n -> P_own n -> K1 n -> List.In c (n_conns n) -> est (c_state c) ->
  c_node_name c <> ""%string.
Proof.
  intros Hne Ho Hk Hin He E. apply Hne. rewrite <- E. destruct (c_recv c) eqn:Er.
  - now apply Hk.
  - destruct (Ho c Hin Er) as [p [Hp [En _]]]. rewrite <- En. now apply in_map.
Qed.

Lemma astep_ident md n n' : guarded md -> astep md n n' -> P_ids n -> P_ne n -> P_own n -> G_ident n -> G_ident n'.
Proof.
  intros G H Hi Hne Ho Hg. destruct H; try exact Hg.
  - intros c' Hin. cbn in Hin. apply in_upd_conn in Hin. destruct Hin as [Hin|[c [Hin [E _]]]]; auto.
    subst c'. destruct (H c) as [_ [_ [A [B _]]]]. rewrite A, B. auto.
  - intros c' Hin. cbn in Hin. apply in_upd_conn in Hin. destruct Hin as [Hin|[c [Hin [E _]]]]; auto.
    subst c'. destruct (H c) as [_ [_ [A B]]]. rewrite A, B. auto.
  - intros c' Hin. cbn in Hin. apply in_upd_conn in Hin. destruct Hin as [Hin|[c [Hin [E _]]]]; auto.
    subst c'. unfold name_fn. destruct (String.eqb (c_node_name c) "") eqn:E; auto. cbn.
    apply String.eqb_eq in E. destruct (Hg c Hin) as [A|A]; auto. left. congruence.
  - intros c' Hin. cbn in Hin. apply in_upd_conn in Hin. destruct Hin as [Hin|[c [Hin [E Eid]]]]; auto.
    subst c'. cbn. right. symmetry. eapply id_ok_eq; eauto. apply H; [exact G|]. subst cid. now apply get_conn_in.
  - intros c' Hin. erewrite rc_conns in Hin by eauto. apply filter_In in Hin. apply Hg. tauto.
  - intros c' Hin. unfold accept_conn in Hin. cbn in Hin. apply in_app_iff in Hin.
    destruct Hin as [Hin|[Hin|[]]]; auto. subst c'. auto.
  - intros c' Hin. unfold dial_conn in Hin. cbn in Hin. apply in_app_iff in Hin.
    destruct Hin as [Hin|[Hin|[]]]; auto. subst c'. auto.
Qed.

Lemma G_live_upd n cid f :
  (forall c, c_id (f c) = c_id c /\
             ((exists p, List.In p (n_peers n) /\ p_name p = c_node_name c) -> c_node_name (f c) = c_node_name c)) ->
  G_live n -> G_live (set_conns n (upd_conn (n_conns n) cid f)).
Proof.
  intros Hf Hg p k Hp Hk. cbn in Hp |- *. destruct (Hg p k Hp Hk) as [c [Hin [E1 E2]]].
  destruct (upd_conn_image (n_conns n) cid f c Hin) as [Hi'|[_ Hi']]; [exists c; auto|].
  exists (f c). destruct (Hf c) as [A B]. rewrite A, B; eauto.
Qed.

Lemma astep_live md n n' : guarded md -> astep md n n' -> P_ids n -> P_names n -> P_ne n -> G_ident n -> G_live n -> G_live n'.
Proof.
  intros _ H Hi Hn Hne Hid Hg. destruct H; try exact Hg.
  - apply G_live_upd; auto. intros c. destruct (H c) as [A [_ [B _]]]. auto.
  - apply G_live_upd; auto. intros c. destruct (H c) as [A [_ [B _]]]. auto.
  - apply G_live_upd; auto. intros c. unfold name_fn.
    destruct (String.eqb (c_node_name c) "") eqn:E; cbn; auto.
    apply String.eqb_eq in E. split; auto. intros [q [Hq Eq]]. exfalso. apply Hne.
    rewrite E in Eq. rewrite <- Eq. now apply in_map.
  - apply G_live_upd; auto.
  - (* peer_soft *)
    intros p' k Hp Hk. cbn in Hp |- *. apply in_upd_peer_weak in Hp. destruct Hp as [Hp|[p [Hp E]]]; eauto.
    subst p'. destruct (H p) as [A [B _]]. rewrite A. rewrite B in Hk. eauto.
  - (* assign *)
    intros p' k Hp Hk. cbn in Hp |- *. apply in_upd_peer in Hp; auto.
    destruct Hp as [[Hp _]|[q [Hq [E En]]]]; eauto. subst p'. unfold assign_fn in Hk |- *; cbn in Hk |- *.
    destruct (p_conn q) as [k0|] eqn:Eq.
    + inversion Hk; subst k0. eauto.
    + inversion Hk; subst k. destruct (get_conn_some _ _ _ H) as [Hin Eid]. exists c. repeat split; auto.
      destruct (Hid c Hin) as [A|A]; congruence.
  - (* remove *)
    intros p' k Hp Hk. pose proof Hp as Hp0. erewrite rc_peers in Hp by eauto. erewrite rc_conns by eauto.
    apply in_removed_peers in Hp. destruct Hp as [Hp|[q [_ [E _]]]]; [|subst p'; discriminate].
    destruct (Hg p' k Hp Hk) as [c0 [Hin [E1 E2]]].
    destruct (Nat.eq_dec k cid) as [D|D].
    + exfalso. subst k. destruct (get_conn_some _ _ _ H) as [Hin' Eid].
      assert (c0 = c) by (eapply conn_unique; eauto; [apply Hi|congruence]). subst c0.
      erewrite rc_peers in Hp0 by eauto. unfold removed_peers, find_conn_peer in Hp0.
      rewrite E2, (get_peer_in n p' Hn Hp), Hk in Hp0.
      match type of Hp0 with context [Nat.eqb ?a ?b] => replace (Nat.eqb a b) with true in Hp0
        by (symmetry; apply Nat.eqb_eq; congruence) end.
      apply in_upd_peer in Hp0; auto. destruct Hp0 as [[_ A]|[q [_ [A _]]]]; [congruence|].
      subst p'. discriminate.
    + exists c0. repeat split; auto. apply filter_In. split; auto. apply negb_true_iff, Nat.eqb_neq. congruence.
  - (* accept *)
    intros p' k Hp Hk. unfold accept_conn in Hp |- *. cbn in Hp |- *. destruct (Hg p' k Hp Hk) as [c0 [Hin E]].
    exists c0. split; auto. apply in_app_iff. auto.
  - (* dial *)
    intros p' k Hp Hk. unfold dial_conn in Hp |- *. cbn in Hp |- *. apply in_upd_peer in Hp; auto.
    destruct Hp as [[Hp _]|[q [Hq [E En]]]].
    + destruct (Hg p' k Hp Hk) as [c0 [Hin E]]. exists c0. split; auto. apply in_app_iff. auto.
    + subst p'. cbn in Hk |- *. inversion Hk; subst k. eexists. split; [apply in_app_iff; right; left; reflexivity|].
      cbn. auto.
Qed.

(* ---- the converse ---- *)
Lemma G_conv_upd n cid f :
  (forall c, List.In c (n_conns n) -> c_id c = cid ->
     c_id (f c) = c_id c /\ c_node_name (f c) = c_node_name c /\
     (est (c_state (f c)) -> est (c_state c) \/
        forall p, List.In p (n_peers n) -> p_name p = c_node_name c -> p_conn p = Some (c_id c))) ->
  G_conv n -> G_conv (set_conns n (upd_conn (n_conns n) cid f)).
Proof.
  intros Hf Hg c' p Hin He Hp En. cbn in Hin, Hp. apply in_upd_conn in Hin.
  destruct Hin as [Hin|[c [Hin [E Eid]]]]; [eapply Hg; eauto|]. subst c'.
  destruct (Hf c Hin Eid) as [A [B C]]. rewrite A. rewrite B in En.
  destruct (C He) as [D|D]; [eapply Hg; eauto|apply D; auto].
Qed.

Lemma own_conv n c : P_names n -> P_own n -> List.In c (n_conns n) -> c_recv c = false ->
  forall p, List.In p (n_peers n) -> p_name p = c_node_name c -> p_conn p = Some (c_id c).
Proof.
  intros Hn Ho Hin Hr p Hp En. destruct (Ho c Hin Hr) as [q [Hq [Eq Ec]]].
  assert (p = q) by (eapply peer_unique; eauto; congruence). subst q. exact Ec.
Qed.

Lemma astep_conv md n n' : guarded md -> astep md n n' ->
  P_ids n -> P_names n -> P_ne n -> P_own n -> K2 n -> K1 n -> G_live n -> G_conv n -> G_conv n'.
Proof.
  intros G H Hi Hn Hne Ho Hk2 Hk1 Hl Hg. destruct H; try exact Hg.
  - (* soft *)
    apply G_conv_upd; auto. intros c _ _. destruct (H c) as [A [_ [B [_ D]]]]. rewrite D. auto.
  - (* state *)
    apply G_conv_upd; auto. intros c Hin Eid. destruct (H c) as [A [_ [B _]]]. split; auto. split; auto.
    intros He. subst cid. destruct (H0 c (get_conn_in n c Hi Hin)) as [S|[_ [_ S]]]; [rewrite S in He; auto|].
    assert (Er : c_recv c = true \/ c_recv c = false) by (destruct (c_recv c); auto).
    destruct Er as [Er|Er]; [|right; now apply own_conv].
    destruct (S He) as [S1|[[S1 _]|[_ [F1 [F2 F3]]]]]; auto.
    + exfalso. eapply Hk2; eauto.
    + right. intros p Hp En. destruct (F3 G Er) as [U V].
      assert (Eh : c_node_name c = c_host c).
      { destruct (F1 G) as [X|[_ X]]; [auto|congruence]. }
      assert (Hnn : c_node_name c <> ""%string).
      { destruct (F2 Er) as [X|X]; auto. intro E. apply Hne. now rewrite <- E. }
      pose proof (get_peer_in n p Hn Hp) as Egp. rewrite En, Eh in Egp.
      assert (Hpc : p_conn p <> None) by (eapply V; eauto; congruence).
      destruct (p_conn p) as [k|] eqn:Ek; [|congruence].
      destruct (Hl p k Hp Ek) as [c1 [Hin1 [E1 E2]]]. f_equal. rewrite <- E1. apply U; auto. congruence.
  - (* name *)
    intros c' q Hin He Hq En. cbn in Hin, Hq. apply in_upd_conn in Hin.
    destruct Hin as [Hin|[c [Hin [E _]]]]; [eapply Hg; eauto|]. subst c'. unfold name_fn in *.
    destruct (String.eqb (c_node_name c) "") eqn:E0.
    + exfalso. cbn in He. apply String.eqb_eq in E0. eapply name_nonempty; eauto.
    + eapply Hg; eauto.
  - (* host *)
    apply G_conv_upd; auto.
  - (* peer_soft *)
    intros c q' Hin He Hq En. cbn in Hin, Hq. apply in_upd_peer_weak in Hq.
    destruct Hq as [Hq|[q [Hq E]]]; [eapply Hg; eauto|]. subst q'. destruct (H q) as [A [B _]].
    rewrite B. rewrite A in En. eapply Hg; eauto.
  - (* assign *)
    intros c0 q' Hin He Hq En. cbn in Hin, Hq. apply in_upd_peer_weak in Hq.
    destruct Hq as [Hq|[q [Hq E]]]; [eapply Hg; eauto|]. subst q'. unfold assign_fn in *. cbn in En |- *.
    rewrite (Hg c0 q Hin He Hq En). reflexivity.
  - (* remove *)
    intros c0 q' Hin He Hq En. erewrite rc_conns in Hin by eauto. erewrite rc_peers in Hq by eauto.
    apply filter_In in Hin. destruct Hin as [Hin Hd]. apply negb_true_iff, Nat.eqb_neq in Hd.
    apply in_removed_peers in Hq. destruct Hq as [Hq|[q [Ef [E Ec]]]]; [eapply Hg; eauto|].
    exfalso. subst q'. cbn in En. apply find_conn_peer_some in Ef. destruct Ef as [_ [Hq _]].
    pose proof (Hg c0 q Hin He Hq En) as X. congruence.
  - (* accept *)
    intros c0 q Hin He Hq En. unfold accept_conn in Hin, Hq. cbn in Hin, Hq. apply in_app_iff in Hin.
    destruct Hin as [Hin|[Hin|[]]]; [eapply Hg; eauto|]. subst c0. destruct He.
  - (* dial *)
    intros c0 q' Hin He Hq En. unfold dial_conn in Hin, Hq. cbn in Hin, Hq. apply in_app_iff in Hin.
    destruct Hin as [Hin|[Hin|[]]]; [|subst c0; destruct He].
    apply in_upd_peer_find in Hq. destruct Hq as [Hq|[q [Ef E]]]; [eapply Hg; eauto|].
    exfalso. subst q'. cbn in En. unfold get_peer in H. rewrite H in Ef. inversion Ef; subst q.
    destruct (get_peer_some _ _ _ H) as [Hp _]. pose proof (Hg c0 p Hin He Hp En) as X. congruence.
Qed.

Lemma in_pw_add pw host k h : List.In h (List.map fst (pw_add pw host k)) -> List.In h (List.map fst pw) \/ h = host.
Proof.
  unfold pw_add. destruct (List.existsb _ pw).
  - rewrite map_map. intros H. left. apply in_map_iff in H. destruct H as [e [E H]].
    apply in_map_iff. exists e. split; auto. destruct (String.eqb (fst e) host); auto.
  - rewrite map_app. cbn. intros H. apply in_app_iff in H. destruct H as [H|[H|[]]]; auto.
Qed.

(* ---- with the CONNECTING clause alone (no identity guard): host identities of established
   connections, _peer_waiting.  A host identity is written only while the connection is CONNECTED, a
   connection never returns to CONNECTED, and requests are filed only for established connections. ---- *)
Lemma astep_KH md n n' : noconn md -> astep md n n' -> P_ids n -> P_ne n -> P_own n -> KH n -> KH n'.
Proof.
  intros NC H Hi Hne Ho Hk. destruct H; try exact Hk.
  - intros c' Hin. cbn in Hin. apply in_upd_conn in Hin. destruct Hin as [Hin|[c [Hin [E _]]]]; auto.
    subst c'. destruct (H c) as [_ [_ [_ [C D]]]]. rewrite C, D. auto.
  - intros c' Hin He. cbn in Hin. apply in_upd_conn in Hin. destruct Hin as [Hin|[c [Hin [E Eid]]]]; auto.
    subst c' cid. destruct (H c) as [_ [B [C D]]]. rewrite D.
    destruct (H0 c (get_conn_in n c Hi Hin)) as [A|[_ [_ A]]].
    + rewrite A in He. auto.
    + destruct (A He) as [A1|[[_ A1]|[A0 [_ [A2 _]]]]].
      * auto.
      * exfalso. apply A1. exact NC.
      * destruct A0 as [A0|A0].
        -- rewrite <- (id_ok_eq n c _ Hne Ho Hin A0). intro E.
           assert (Er : c_recv c = true \/ c_recv c = false) by (destruct (c_recv c); auto). destruct Er as [Er|Er].
           ++ destruct (A2 Er) as [A3|A3]; auto. apply Hne. now rewrite <- E.
           ++ eapply out_named; eauto.
        -- intro E. apply Hne. now rewrite <- E.
  - intros c' Hin He. cbn in Hin. apply in_upd_conn in Hin. destruct Hin as [Hin|[c [Hin [E _]]]]; auto.
    subst c'. unfold name_fn in *. destruct (String.eqb (c_node_name c) ""); cbn in *; auto.
  - intros c' Hin He. cbn in Hin. apply in_upd_conn in Hin. destruct Hin as [Hin|[c [Hin [E Eid]]]]; auto.
    subst c' cid. cbn in He. rewrite (H0 c (get_conn_in n c Hi Hin)) in He. destruct He.
  - intros c' Hin. erewrite rc_conns in Hin by eauto. apply filter_In in Hin. apply Hk. tauto.
  - intros c' Hin He. unfold accept_conn in Hin. cbn in Hin. apply in_app_iff in Hin.
    destruct Hin as [Hin|[Hin|[]]]; auto. subst c'. destruct He.
  - intros c' Hin He. unfold dial_conn in Hin. cbn in Hin. apply in_app_iff in Hin.
    destruct Hin as [Hin|[Hin|[]]]; auto. subst c'. destruct He.
Qed.

Lemma G_pw_upd n cid f : (forall c, c_host (f c) = c_host c /\ c_state (f c) = c_state c) ->
  G_pw n -> G_pw (set_conns n (upd_conn (n_conns n) cid f)).
Proof.
  intros Hf Hg h Hh. cbn in Hh |- *. destruct (Hg h Hh) as [A [c [Hin [E L]]]]. split; auto.
  destruct (upd_conn_image (n_conns n) cid f c Hin) as [Hi'|[_ Hi']]; [exists c; auto|].
  exists (f c). destruct (Hf c) as [F1 F2]. rewrite F1, F2. auto.
Qed.

Lemma astep_pw md n n' : noconn md -> astep md n n' -> P_ids n -> KH n -> G_pw n -> G_pw n'.
Proof.
  intros NC H Hi Hkh Hg. destruct H; try exact Hg.
  - apply G_pw_upd; auto. intros c. destruct (H c) as [_ [_ [_ [A B]]]]. auto.
  - (* state: the connection does not return to CONNECTED *)
    intros h Hh. cbn in Hh |- *. destruct (Hg h Hh) as [A [c [Hin [E L]]]]. split; auto.
    destruct (upd_conn_image (n_conns n) cid f c Hin) as [Hi'|[Eid Hi']]; [exists c; auto|].
    exists (f c). destruct (H c) as [_ [_ [_ D]]]. rewrite D. split; auto. split; auto.
    subst cid. destruct (H0 c (get_conn_in n c Hi Hin)) as [S|[S1 [S2 _]]].
    + rewrite S. exact L.
    + split; auto. intro E2. destruct L as [L1 _]. apply L1. apply S2; auto. apply Hi.
  - apply G_pw_upd; auto. intros c. unfold name_fn. destruct (String.eqb _ _); auto.
  - (* host: written only on a CONNECTED connection *)
    intros h Hh. cbn in Hh |- *. destruct (Hg h Hh) as [A [c [Hin [E L]]]]. split; auto.
    match goal with |- exists _, List.In _ (upd_conn _ _ ?F) /\ _ =>
      destruct (upd_conn_image (n_conns n) cid F c Hin) as [Hi'|[Eid _]] end; [exists c; auto|].
    exfalso. subst cid. destruct L as [_ L2]. apply L2. apply H0. now apply get_conn_in.
  - intros h Hh. cbn in Hh |- *. apply H in Hh. auto.
  - intros h Hh. cbn in Hh |- *. apply in_pw_add in Hh. destruct Hh as [Hh|Hh]; auto.
    destruct (get_conn_some _ _ _ H) as [Hin _]. subst h.
    assert (He : est (c_state c)) by (destruct H0 as [A|[_ A]]; [exact A|exfalso; apply A; exact NC]).
    split; [now apply Hkh|]. exists c. split; auto. split; auto. now apply est_live.
  - (* remove *)
    intros h Hh. erewrite rc_pw in Hh by eauto. erewrite rc_conns by eauto.
    apply in_map_iff in Hh. destruct Hh as [e [E Hh]]. apply filter_In in Hh. destruct Hh as [Hh Hne'].
    apply negb_true_iff, String.eqb_neq in Hne'.
    destruct (Hg h) as [A [c0 [Hin [E0 L]]]]; [apply in_map_iff; eauto|]. split; auto.
    exists c0. split; auto. apply filter_In. split; auto. apply negb_true_iff, Nat.eqb_neq.
    intro D. destruct (get_conn_some _ _ _ H) as [Hin' Eid].
    assert (c0 = c) by (eapply conn_unique; eauto; [apply Hi|congruence]). subst c0. congruence.
  - intros hh Hh. unfold accept_conn in Hh |- *. cbn in Hh |- *. destruct (Hg hh Hh) as [A [c0 [Hin E0]]].
    split; auto. exists c0. split; auto. apply in_app_iff. auto.
  - intros hh Hh. unfold dial_conn in Hh |- *. cbn in Hh |- *. destruct (Hg hh Hh) as [A [c0 [Hin E0]]].
    split; auto. exists c0. split; auto. apply in_app_iff. auto.
Qed.

(* the invariants under the identity guard ... *)
Definition GC (n : node) : Prop := WO n /\ P_ne n /\ (K2 n /\ K0 n /\ K1 n) /\ G_ident n /\ G_live n /\ G_conv n.
(* ... and under the CONNECTING clause *)
Definition NI (n : node) : Prop := WO n /\ P_ne n /\ K2 n /\ KH n /\ G_pw n.

Lemma astep_GC md n n' : guarded md -> astep md n n' -> GC n -> GC n'.
Proof.
  intros G H [HW [Hne [[K2' [K0' K1']] [H1 [H2 H3]]]]]. pose proof HW as [[Hi [Hn _]] Ho].
  split; [eapply astep_WO; eauto|]. split; [eapply astep_ne; eauto|].
  split; [split; [eapply astep_K2; eauto|split; [eapply astep_K0; eauto|eapply astep_K1; eauto]]|].
  split; [eapply astep_ident; eauto|].
  split; [eapply astep_live; eauto|eapply astep_conv; eauto].
Qed.

Lemma astep_NI md n n' : noconn md -> astep md n n' -> NI n -> NI n'.
Proof.
  intros NC H [HW [Hne [H2 [H3 H4]]]]. pose proof HW as [[Hi [Hn _]] Ho].
  split; [eapply astep_WO; eauto|]. split; [eapply astep_ne; eauto|]. split; [eapply astep_K2; eauto|].
  split; [eapply astep_KH; eauto|eapply astep_pw; eauto].
Qed.

Lemma GC_init n : wf_init n -> P_ne n -> GC n.
Proof.
  intros Hw Hne. split; [now apply WO_init|]. split; [exact Hne|].
  destruct (WK_init n Hw) as [_ HK]. split; [exact HK|].
  destruct Hw as [H1 [_ [_ [H4 [_ [_ [_ [H8 _]]]]]]]].
  unfold G_ident, G_live, G_conv. rewrite H1. cbn. repeat split; try tauto.
  intros p cid Hp Hc. apply H8 in Hp. destruct Hp as [A _]. congruence.
Qed.

Lemma NI_init n : wf_init n -> P_ne n -> NI n.
Proof.
  intros Hw Hne. split; [now apply WO_init|]. split; [exact Hne|].
  destruct Hw as [H1 [_ [_ [H4 _]]]]. unfold K2, KH, G_pw. rewrite H1, H4. cbn. tauto.
Qed.

(* ---------------------------------------------------------------------------------------- *)
(* 8. the guard on the environment's inputs                                                   *)
(* ---------------------------------------------------------------------------------------- *)
(* The repaired receive_cer ignores a capabilities-exchange request unless the connection still awaits
   it (state CONNECTED), and the gate drops a CE request on an OUTBOUND connection in that state.  The
   former clauses (i) "at most one CER per connection" and (ii) "no CER is read from an outbound
   connection" are therefore gone.  What is left of (i):
   (i')  [cer_guard] a CER that receive_cer PROCESSES -- it is dispatched while its connection is inbound
         and CONNECTED -- carries the node name of the connection as Origin-Host, unless the connection has
         no node name yet (`cer_ok`, evaluated in the state in which the reader thread dispatches the
         frame).  A CONNECTED inbound connection has a node name exactly when an earlier CER on it named a
         configured peer and was answered 5010 NO_COMMON_APPLICATION (the only outcome that leaves the
         connection CONNECTED).  The model accepts a further CER with another Origin-Host on such a
         connection, keeps the node name and files the connection under the new host identity
         (C13_cer_origin_change_refuted).  Nothing is required of CERs that are ignored (read in any other
         state, or from an outbound connection), of CERs without Origin-Host, or of answers.
         A sufficient condition on the input alone is `cer_guard_syn` (cer_guard_syn_sufficient): the CERs
         of one read from an inbound CONNECTED connection agree on the Origin-Host, and with the node
         name the connection has at the time of the read if it has one.
   (iii) [conn_guard] nothing is read from a connection whose connect() has not completed (state
         CONNECTING at the time of the read) (C19_connecting_read_refuted, C06_connecting_read_refuted).
   ce_guard = (i') and (iii). *)
Definition is_cer (m : msg) : bool := cmd_eqb (m_cmd m) CE && m_req m.

Definition cer_ok (n : node) (cid : nat) (m : msg) : Prop :=
  is_cer m = true -> forall c h, get_conn n cid = Some c -> c_recv c = true -> c_state c = SConnected ->
  m_origin m = Present h -> c_node_name c = h \/ c_node_name c = ""%string.
Fixpoint cers_ok (n : node) (cid : nat) (ms : list msg) : Prop :=
  match ms with
  | [] => True
  | m :: r => cer_ok n cid m /\ cers_ok (fst (dispatch n cid m)) cid r
  end.
(* the state in which the reader thread starts on the frames of a read (see `step`) *)
Definition read_state (n : node) (ds : dials) (cid : nat) : node :=
  upd_last_read (fst (fst (io_iteration n ds))) cid.

Definition ev_guard (id nc : bool) (n : node) (ds : dials) (e : event) : Prop :=
  match e with
  | ERecv cid ms =>
      forall c, get_conn n cid = Some c ->
        (if nc then c_state c <> SConnecting else True) /\
        (if id then cers_ok (read_state n ds cid) cid ms else True)
  | _ => True
  end.

Fixpoint guard_from (id nc : bool) (n : node) (evs : list (dials * event)) : Prop :=
  match evs with
  | [] => True
  | de :: r => ev_guard id nc n (fst de) (snd de) /\ guard_from id nc (fst (step n (fst de) (snd de))) r
  end.
Definition cer_guard (n0 : node) (evs : list (dials * event)) : Prop := guard_from true false n0 evs.
Definition conn_guard (n0 : node) (evs : list (dials * event)) : Prop := guard_from false true n0 evs.
Definition ce_guard (n0 : node) (evs : list (dials * event)) : Prop := guard_from true true n0 evs.

(* the sufficient condition on the input *)
Fixpoint cers_agree (nm : string) (ms : list msg) : Prop :=
  match ms with
  | [] => True
  | m :: r => if is_cer m then
                match m_origin m with
                | Present h => (nm = ""%string \/ h = nm) /\ cers_agree h r
                | _ => cers_agree nm r
                end
              else cers_agree nm r
  end.
Definition ev_guard_syn (n : node) (e : event) : Prop :=
  match e with
  | ERecv cid ms =>
      forall c, get_conn n cid = Some c -> c_recv c = true -> c_state c = SConnected ->
                cers_agree (c_node_name c) ms
  | _ => True
  end.
Fixpoint cer_guard_syn (n : node) (evs : list (dials * event)) : Prop :=
  match evs with
  | [] => True
  | de :: r => ev_guard_syn n (snd de) /\ cer_guard_syn (fst (step n (fst de) (snd de))) r
  end.

Definition wf_init_g (n : node) : Prop := wf_init n /\ ~ List.In ""%string (List.map p_name (n_peers n)).
(* no peer is named "" and: reach_c: clause (i');  reach_nc: clause (iii);  reach_g: both *)
Definition reach_c (n0 n : node) : Prop :=
  exists evs : list (dials * event), wf_init_g n0 /\ cer_guard n0 evs /\ n = fst (run n0 evs).
Definition reach_nc (n0 n : node) : Prop :=
  exists evs : list (dials * event), wf_init_g n0 /\ conn_guard n0 evs /\ n = fst (run n0 evs).
Definition reach_g (n0 n : node) : Prop :=
  exists evs : list (dials * event), wf_init_g n0 /\ ce_guard n0 evs /\ n = fst (run n0 evs).

Lemma guard_from_weaken (id nc id' nc' : bool) evs :
  (id' = true -> id = true) -> (nc' = true -> nc = true) ->
  forall n, guard_from id nc n evs -> guard_from id' nc' n evs.
Proof.
  intros Hi Hn. induction evs as [|de r IH]; intros n; cbn [guard_from]; auto. intros [H1 H2]. split; auto.
  destruct (snd de); cbn [ev_guard] in *; auto. intros c Hc. destruct (H1 c Hc) as [A B]. split.
  - destruct nc'; auto. rewrite (Hn eq_refl) in A. exact A.
  - destruct id'; auto. rewrite (Hi eq_refl) in B. exact B.
Qed.
Lemma reach_g_reach_c n0 n : reach_g n0 n -> reach_c n0 n.
Proof.
  intros [evs [Hw [Hg E]]]. exists evs. split; auto. split; auto.
  revert Hg. apply guard_from_weaken; auto.
Qed.
Lemma reach_g_reach_nc n0 n : reach_g n0 n -> reach_nc n0 n.
Proof.
  intros [evs [Hw [Hg E]]]. exists evs. split; auto. split; auto.
  revert Hg. apply guard_from_weaken; auto.
Qed.
Lemma reach_c_reach n0 n : reach_c n0 n -> reach n0 n.
Proof. intros [evs [[Hw _] [_ E]]]. exists evs. auto. Qed.
Lemma reach_nc_reach n0 n : reach_nc n0 n -> reach n0 n.
Proof. intros [evs [[Hw _] [_ E]]]. exists evs. auto. Qed.
Lemma reach_g_reach n0 n : reach_g n0 n -> reach n0 n.
Proof. intros H. apply reach_c_reach. now apply reach_g_reach_c. Qed.

Lemma is_cer_false m : is_cer m = false -> m_cmd m = CE -> m_req m = true -> False.
Proof. unfold is_cer. intros H E R. rewrite E, R in H. discriminate. Qed.

Lemma find_app_fresh l x cid : c_id x <> cid ->
  List.find (fun c => Nat.eqb (c_id c) cid) (l ++ [x]) = List.find (fun c => Nat.eqb (c_id c) cid) l.
Proof.
  intros H. induction l as [|a l IH]; cbn.
  - apply Nat.eqb_neq in H. now rewrite H.
  - destruct (Nat.eqb (c_id a) cid); auto.
Qed.

Lemma get_conn_upd_cases n k f cid c' : keeps_id f ->
  get_conn (set_conns n (upd_conn (n_conns n) k f)) cid = Some c' ->
  (k = cid /\ exists c, get_conn n cid = Some c /\ c' = f c) \/ get_conn n cid = Some c'.
Proof.
  intros Hf. destruct (Nat.eq_dec k cid) as [D|D].
  - subst k. rewrite get_conn_upd by auto. destruct (get_conn n cid) as [c|]; cbn; [|discriminate].
    intros E; inversion E. left. split; auto. exists c. auto.
  - unfold get_conn. cbn. rewrite find_upd_conn_other; auto.
Qed.

(* a property of "connection i, if it still exists" that new connections, removals and the other
   connections cannot disturb *)
Definition at_conn (i : nat) (Q : conn -> Prop) (n : node) : Prop :=
  i < n_next_cid n /\ forall c', get_conn n i = Some c' -> Q c'.

Lemma at_conn_upd i (Q : conn -> Prop) n k f : keeps_id f ->
  (forall c, get_conn n k = Some c -> Q c -> Q (f c)) ->
  at_conn i Q n -> at_conn i Q (set_conns n (upd_conn (n_conns n) k f)).
Proof.
  intros Hf Hs [H1 H2]. split; auto. intros c' Hc. apply get_conn_upd_cases in Hc; auto.
  destruct Hc as [[E [c [Hc E']]]|Hc]; [|now apply H2]. subst k c'. apply Hs; auto.
Qed.

Lemma at_conn_remove i (Q : conn -> Prop) n cid r c : get_conn n cid = Some c -> at_conn i Q n -> at_conn i Q (remove_conn n cid r).
Proof.
  intros H [H1 H2]. split; [erewrite rc_next by eauto; auto|].
  intros c'. unfold get_conn. erewrite rc_conns by eauto. intros E. apply find_filter_id in E. now apply H2.
Qed.
Lemma at_conn_misc i (Q : conn -> Prop) n st k e : n_next_cid n <= k -> at_conn i Q n -> at_conn i Q (set_misc n st k e).
Proof. intros H [H1 H2]. split; [cbn; lia|exact H2]. Qed.
Lemma at_conn_accept i (Q : conn -> Prop) n h : at_conn i Q n -> at_conn i Q (accept_conn n h).
Proof.
  intros [H1 H2]. unfold accept_conn. split; [cbn; lia|]. intros c'. unfold get_conn. cbn.
  rewrite find_app_fresh by (cbn; lia). apply H2.
Qed.
Lemma at_conn_dial i (Q : conn -> Prop) n name h : at_conn i Q n -> at_conn i Q (dial_conn n name h).
Proof.
  intros [H1 H2]. unfold dial_conn. split; [cbn; lia|]. intros c'. unfold get_conn. cbn.
  rewrite find_app_fresh by (cbn; lia). apply H2.
Qed.

(* connection i, once past CONNECTING, never returns to it (any mode) *)
Definition ncon (i : nat) : node -> Prop := at_conn i (fun c => c_state c <> SConnecting).

Lemma astep_ncon md i n n' : astep md n n' -> ncon i n -> ncon i n'.
Proof.
  intros H Hk. destruct H; try exact Hk.
  - apply at_conn_upd; auto. now apply soft_keeps. intros c _. destruct (H c) as [_ [_ [_ [_ D]]]]. now rewrite D.
  - apply at_conn_upd; auto. now apply isoft_keeps. intros c Hc Q. destruct (H0 c Hc) as [A|[A _]]; auto. now rewrite A.
  - apply at_conn_upd; auto. apply keeps_id_name_fn. intros c _. unfold name_fn. destruct (String.eqb _ _); auto.
  - apply at_conn_upd; auto. apply keeps_id_host.
  - eapply at_conn_remove; eauto.
  - now apply at_conn_misc.
  - now apply at_conn_accept.
  - now apply at_conn_dial.
Qed.

Lemma trans_ncon md i n n' : trans md n n' -> ncon i n -> ncon i n'.
Proof. apply trans_inv. intros a b. apply astep_ncon. Qed.

(* the node name of connection i is nm or still empty: kept by every derivation that writes no other
   name on i *)
Definition nm_ok (i : nat) (nm : string) : node -> Prop :=
  at_conn i (fun c => c_node_name c = nm \/ c_node_name c = ""%string).

Lemma astep_nm_ok md i nm n n' : (forall h, writes md i h -> h = nm) -> astep md n n' -> nm_ok i nm n -> nm_ok i nm n'.
Proof.
  intros Hw H Hk. destruct H; try exact Hk.
  - apply at_conn_upd; auto. now apply soft_keeps. intros c _. destruct (H c) as [_ [_ [C _]]]. now rewrite C.
  - apply at_conn_upd; auto. now apply isoft_keeps. intros c _. destruct (H c) as [_ [_ [C _]]]. now rewrite C.
  - destruct Hk as [K1' K2']. split; auto. intros c' Hc. apply get_conn_upd_cases in Hc; [|apply keeps_id_name_fn].
    destruct Hc as [[E [c [Hc E']]]|Hc]; [|now apply K2']. subst cid c'. unfold name_fn.
    destruct (String.eqb (c_node_name c) "") eqn:E0; [cbn; left; now apply Hw|now apply K2'].
  - apply at_conn_upd; auto. apply keeps_id_host.
  - eapply at_conn_remove; eauto.
  - now apply at_conn_misc.
  - now apply at_conn_accept.
  - now apply at_conn_dial.
Qed.

(* connection i is outbound, or past CONNECTED: receive_cer will ignore whatever it reads from it *)
Definition ign (i : nat) : node -> Prop := at_conn i (fun c => c_recv c = false \/ live_st (c_state c)).

Lemma astep_ign md i n n' : astep md n n' -> P_ids n -> ign i n -> ign i n'.
Proof.
  intros H Hi Hk. destruct H; try exact Hk.
  - apply at_conn_upd; auto. now apply soft_keeps. intros c _. destruct (H c) as [_ [B [_ [_ D]]]]. now rewrite B, D.
  - apply at_conn_upd; auto. now apply isoft_keeps. intros c Hc Q. destruct (H c) as [_ [B _]]. rewrite B.
    destruct Q as [Q|Q]; auto. right. destruct (H0 c Hc) as [A|[A1 [A2 _]]]; [now rewrite A|].
    split; auto. intro E. destruct Q as [Q _]. apply Q. apply A2; auto. apply Hi.
  - apply at_conn_upd; auto. apply keeps_id_name_fn. intros c _. unfold name_fn. destruct (String.eqb _ _); auto.
  - apply at_conn_upd; auto. apply keeps_id_host.
  - eapply at_conn_remove; eauto.
  - now apply at_conn_misc.
  - now apply at_conn_accept.
  - now apply at_conn_dial.
Qed.

Lemma trans_W_ign md i n n' : trans md n n' -> W n -> ign i n -> W n' /\ ign i n'.
Proof.
  intros Ht HW Hi. apply (trans_inv md (fun x => W x /\ ign i x)) with (n := n); auto.
  intros a b Hab [A B]. split; [eapply astep_W; eauto|eapply astep_ign; eauto; apply A].
Qed.

(* ---- the precondition of a read, from the guard ---- *)
Lemma msgs_pre_ign md ms : forall n i, W n -> (noconn md -> ncon i n) -> ign i n -> msgs_pre md n i ms.
Proof.
  induction ms as [|m r IH]; intros n i HW Hn Hi; cbn [msgs_pre]; auto.
  assert (Hm : msg_pre md n i m).
  { split; [intros G; apply (Hn G)|]. intros _ _ c host Ec Es Er _. exfalso.
    destruct Hi as [_ Hi]. destruct (Hi c Ec) as [A|[_ A]]; congruence. }
  assert (Ht : trans md n (fst (dispatch n i m))) by (apply dispatch_t; [exact Hm|constructor]).
  split; auto. destruct (trans_W_ign _ _ _ _ Ht HW Hi) as [A B]. apply IH; auto.
  intros G. eapply trans_ncon; [exact Ht|exact (Hn G)].
Qed.

Lemma msgs_pre_ung md ms : ~ guarded md -> (forall k h, writes md k h) ->
  forall n i, (noconn md -> ncon i n) -> msgs_pre md n i ms.
Proof.
  intros Hg Hw. induction ms as [|m r IH]; intros n i Hn; cbn [msgs_pre]; auto.
  assert (Hm : msg_pre md n i m).
  { split; [intros G; apply (Hn G)|]. intros _ _ c host _ _ _ _. split; [apply Hw|intros G; destruct (Hg G)]. }
  split; auto. apply IH. intros G. eapply trans_ncon; [|exact (Hn G)]. apply dispatch_t; [exact Hm|constructor].
Qed.

Lemma guard_msg_step nc i w nm n1 m :
  (forall h, writes (MG nc w) i h -> h = nm) ->
  msg_pre (MG nc w) n1 i m -> (noconn (MG nc WAll) -> ncon i n1) -> nm_ok i nm n1 ->
  msg_pre (MG nc WAll) n1 i m /\ (noconn (MG nc WAll) -> ncon i (fst (dispatch n1 i m))) /\
  nm_ok i nm (fst (dispatch n1 i m)).
Proof.
  intros Hw Hm Hn Hk.
  assert (Ht : trans (MG nc w) n1 (fst (dispatch n1 i m))) by (apply dispatch_t; [exact Hm|constructor]).
  split; [|split].
  - destruct Hm as [A B]. split; [exact A|]. intros E R c host Ec Es Er Eo.
    destruct (B E R c host Ec Es Er Eo) as [_ B2]. split; [exact I|exact B2].
  - intros G. eapply trans_ncon; [exact Ht|exact (Hn G)].
  - eapply (trans_inv (MG nc w) (nm_ok i nm)); [|exact Ht|exact Hk]. intros a b Hab. eapply astep_nm_ok; eauto.
Qed.

Lemma guard_msgs_pre nc i : forall ms nm n1,
  (noconn (MG nc WAll) -> ncon i n1) -> nm_ok i nm n1 -> cers_agree nm ms -> msgs_pre (MG nc WAll) n1 i ms.
Proof.
  induction ms as [|m r IH]; intros nm n1 Hn Hk Ha; cbn [msgs_pre]; auto.
  cbn [cers_agree] in Ha.
  assert (Hcase : exists nm', nm_ok i nm' (fst (dispatch n1 i m)) /\ cers_agree nm' r /\
                  msg_pre (MG nc WAll) n1 i m /\ (noconn (MG nc WAll) -> ncon i (fst (dispatch n1 i m)))).
  { destruct (is_cer m) eqn:Ei; [destruct (m_origin m) as [| |h] eqn:Eo|].
    - assert (Hm : msg_pre (MG nc WNone) n1 i m).
      { split; [intros G; apply (Hn G)|]. intros _ _ c host _ _ _ E. rewrite Eo in E. discriminate E. }
      destruct (guard_msg_step nc i WNone nm n1 m) as [M1 [M2 M3]]; auto. { intros h []. }
      exists nm. auto.
    - assert (Hm : msg_pre (MG nc WNone) n1 i m).
      { split; [intros G; apply (Hn G)|]. intros _ _ c host _ _ _ E. rewrite Eo in E. discriminate E. }
      destruct (guard_msg_step nc i WNone nm n1 m) as [M1 [M2 M3]]; auto. { intros h []. }
      exists nm. auto.
    - destruct Ha as [Ha1 Ha2].
      assert (Hk' : nm_ok i h n1).
      { destruct Hk as [K1' K2']. split; auto. intros c' Ec. destruct (K2' c' Ec) as [A|A]; auto.
        destruct Ha1 as [B|B]; [right|left]; congruence. }
      assert (Hm : msg_pre (MG nc (WOn i h)) n1 i m).
      { split; [intros G; apply (Hn G)|]. intros _ _ c host Ec _ _ E. rewrite Eo in E. inversion E; subst host. split; [split; reflexivity|].
        intros _. destruct Hk' as [_ K2']. exact (K2' c Ec). }
      destruct (guard_msg_step nc i (WOn i h) h n1 m) as [M1 [M2 M3]]; auto. { intros h' [_ E]. auto. }
      exists h. auto.
    - assert (Hm : msg_pre (MG nc WNone) n1 i m).
      { split; [intros G; apply (Hn G)|]. intros E R. exfalso. eapply is_cer_false; eauto. }
      destruct (guard_msg_step nc i WNone nm n1 m) as [M1 [M2 M3]]; auto. { intros h []. }
      exists nm. auto. }
  destruct Hcase as [nm' [C1 [C2 [C3 C4]]]]. split; [exact C3|]. apply (IH nm'); auto.
Qed.

Lemma cers_ok_msgs_pre nc i ms : forall n1,
  (noconn (MG nc WAll) -> ncon i n1) -> cers_ok n1 i ms -> msgs_pre (MG nc WAll) n1 i ms.
Proof.
  induction ms as [|m r IH]; intros n1 Hn Hc; cbn [msgs_pre]; auto. destruct Hc as [H1 H2].
  assert (Hm : msg_pre (MG nc WAll) n1 i m).
  { split; [intros G; apply (Hn G)|]. intros E R c host Ec Es Er Eo. split; [exact I|]. intros _.
    apply (H1 (eq_trans (f_equal2 andb (f_equal (fun x => cmd_eqb x CE) E) R) eq_refl) c host); auto. }
  split; auto. apply IH; auto. intros G. eapply trans_ncon; [|exact (Hn G)]. apply dispatch_t; [exact Hm|constructor].
Qed.

Lemma msgs_pre_cers_ok nc i ms : forall n1, msgs_pre (MG nc WAll) n1 i ms -> cers_ok n1 i ms.
Proof.
  induction ms as [|m r IH]; intros n1; cbn [msgs_pre cers_ok]; auto. intros [[_ H1] H2]. split; auto.
  intros Ei c h Ec Er Es Eo. unfold is_cer in Ei. apply andb_true_iff in Ei. destruct Ei as [E1 E2].
  assert (Em : m_cmd m = CE) by (destruct (m_cmd m); cbn in E1; try discriminate; reflexivity).
  destruct (H1 Em E2 c h Ec Es Er Eo) as [_ B]. apply B. exact I.
Qed.

Definition mode_of (id nc : bool) : mode := if id then MG nc WAll else if nc then MN else MAny.

(* one guarded event: the step is a derivation in the mode of the guard *)
Lemma step_guarded id nc n ds e : W n -> ev_guard id nc n ds e ->
  trans (mode_of id nc) n (fst (step n ds e)).
Proof.
  intros HW Hg.
  assert (Hq : ev_pre (mode_of id nc) n ds e -> trans (mode_of id nc) n (fst (step n ds e))).
  { intros Hp. apply step_t; [exact Hp|constructor]. }
  destruct e; try (apply Hq; exact I).
  destruct (get_conn n cid) as [c|] eqn:Ec.
  2:{ unfold step. rewrite Ec. constructor. }
  cbn [ev_guard] in Hg. destruct (Hg c Ec) as [Hst Hid].
  destruct (get_conn_some _ _ _ Ec) as [Hin Eid].
  assert (Hlt : cid < n_next_cid n) by (destruct HW as [[_ Hlt] _]; apply Hlt in Hin; lia).
  apply Hq. cbn [ev_pre]. fold (read_state n ds cid) in *. set (n1 := read_state n ds cid) in *.
  assert (Hn : forall md, (noconn md -> nc = true) -> noconn md -> ncon cid n1).
  { intros md Hnc G. eapply (trans_ncon md cid n).
    - unfold n1, read_state, upd_last_read. t_soft. apply io_iteration_t. constructor.
    - split; [exact Hlt|]. intros c' E'. rewrite Ec in E'. inversion E'; subst c'. rewrite (Hnc G) in Hst. exact Hst. }
  destruct id; cbn [mode_of].
  - apply cers_ok_msgs_pre; [|exact Hid]. apply Hn. destruct nc; cbn; [reflexivity|intros []].
  - destruct nc; cbn [mode_of].
    + apply msgs_pre_ung; [intros []|intros; exact I|]. apply Hn; auto.
    + apply msgs_pre_ung; [intros []|intros; exact I|intros []].
Qed.

(* an invariant of the atomic transitions of the guard's mode is an invariant of every guarded run *)
Lemma run_guarded id nc (P : node -> Prop) :
  (forall n n', astep (mode_of id nc) n n' -> P n -> P n') -> (forall n, P n -> W n) ->
  forall evs n, P n -> guard_from id nc n evs -> P (fst (run n evs)).
Proof.
  intros HP HPW. induction evs as [|de r IH]; intros n HG Hc; [exact HG|].
  destruct Hc as [H1 H2]. rewrite run_cons.
  apply IH; auto. eapply (trans_inv (mode_of id nc) P); eauto. apply step_guarded; auto.
Qed.

(* the condition on the input implies clause (i') *)
Lemma ev_guard_syn_sem n ds e : W n -> K2 n -> ev_guard_syn n e -> ev_guard true false n ds e.
Proof.
  intros HW HK2 Hg. destruct e; try exact I. cbn [ev_guard]. intros c Ec. split; [exact I|].
  cbn [ev_guard_syn] in Hg. pose proof (Hg c Ec) as Hid.
  destruct (get_conn_some _ _ _ Ec) as [Hin Eid].
  assert (Hlt : cid < n_next_cid n) by (destruct HW as [[_ Hlt] _]; apply Hlt in Hin; lia).
  set (n1 := read_state n ds cid).
  assert (Ht1 : forall md, trans md n n1).
  { intros md. unfold n1, read_state, upd_last_read. t_soft. apply io_iteration_t. constructor. }
  apply (msgs_pre_cers_ok false).
  assert (Hn : noconn (MG false WAll) -> ncon cid n1) by intros [].
  assert (Hign : ign cid n -> msgs_pre (MG false WAll) n1 cid ms).
  { intros Hi. destruct (trans_W_ign _ _ _ _ (Ht1 MAny) HW Hi) as [A B]. apply msgs_pre_ign; auto. }
  destruct (c_recv c) eqn:Er; [destruct (cstate_eqb (c_state c) SConnected) eqn:Es|].
  - apply (guard_msgs_pre false cid ms (c_node_name c)); auto.
    + eapply (trans_inv (MG false WNone) (nm_ok cid (c_node_name c))); [|apply Ht1|].
      * intros a b Hab. eapply astep_nm_ok; eauto. intros h [].
      * split; auto. intros c' E'. rewrite Ec in E'. inversion E'. auto.
    + apply Hid; auto. destruct (c_state c); try discriminate; reflexivity.
  - apply Hign. split; auto. intros c' E'. rewrite Ec in E'. inversion E'; subst c'. right. split.
    + now apply HK2.
    + intro E. rewrite E in Es. discriminate.
  - apply Hign. split; auto. intros c' E'. rewrite Ec in E'. inversion E'; subst c'. auto.
Qed.

Theorem cer_guard_syn_sufficient : forall n0 evs, wf_init n0 -> cer_guard_syn n0 evs -> cer_guard n0 evs.
Proof.
  intros n0 evs Hw. pose proof (WK_init n0 Hw) as HK. clear Hw. revert n0 HK.
  induction evs as [|de r IH]; intros n HK; cbn [cer_guard_syn]; [intros _; exact I|]. intros [H1 H2].
  unfold cer_guard. cbn [guard_from]. pose proof HK as [HW [HK2 _]]. split.
  - now apply ev_guard_syn_sem.
  - apply IH; auto. eapply (trans_inv MAny WK); [apply astep_WK| |exact HK].
    apply step_t; [apply ev_pre_any|constructor].
Qed.

Lemma reach_c_GC n0 n : reach_c n0 n -> GC n.
Proof.
  intros [evs [[Hw Hne] [Hc E]]]. subst n. apply (run_guarded true false GC); auto.
  - intros a b. apply astep_GC. exact I.
  - intros a H. apply H.
  - now apply GC_init.
Qed.

Lemma reach_nc_NI n0 n : reach_nc n0 n -> NI n.
Proof.
  intros [evs [[Hw Hne] [Hc E]]]. subst n. apply (run_guarded false true NI); auto.
  - intros a b. apply astep_NI. exact I.
  - intros a H. apply H.
  - now apply NI_init.
Qed.

Lemma GC_parts n : GC n -> W n /\ P_ne n /\ P_own n /\ K1 n /\ G_ident n /\ G_live n /\ G_conv n.
Proof. intros [[HW Ho] [Hne [[_ [_ K]] [A [B C]]]]]. tauto. Qed.

Definition past_ce (c : conn) : Prop := is_ready_state (c_state c) = true \/ c_state c = SDisconnecting.
Lemma past_ce_est c : past_ce c -> est (c_state c).
Proof. intros [Hs|Hs]; [destruct (c_state c); try discriminate; exact I|rewrite Hs; exact I]. Qed.

(* ---- invariant 3 (C13): under cer_guard (no peer named "", clause i') ---- *)
Theorem C13_peer_conn_live : forall n0 n, reach_c n0 n ->
  forall p cid, List.In p (n_peers n) -> p_conn p = Some cid ->
  exists c, List.In c (n_conns n) /\ c_id c = cid /\ c_node_name c = p_name p.
Proof.
  intros n0 n H p cid Hp Hc. destruct (GC_parts _ (reach_c_GC _ _ H)) as [_ [_ [_ [_ [_ [Hl _]]]]]].
  exact (Hl p cid Hp Hc).
Qed.

(* host identities: empty, or the node name *)
Theorem C13_peer_conn_live_strong : forall n0 n, reach_c n0 n ->
  (forall c, List.In c (n_conns n) -> c_host c = ""%string \/ c_host c = c_node_name c) /\
  (forall p cid, List.In p (n_peers n) -> p_conn p = Some cid ->
   exists c, List.In c (n_conns n) /\ c_id c = cid /\ c_node_name c = p_name p).
Proof. intros n0 n H. destruct (GC_parts _ (reach_c_GC _ _ H)) as [_ [_ [_ [_ [Hi [Hl _]]]]]]. auto. Qed.

(* the converse, run level: the peer of a connection that is past the capabilities exchange points to it *)
Theorem C13_peer_conn_exact : forall n0 n, reach_c n0 n ->
  forall c p, List.In c (n_conns n) -> List.In p (n_peers n) -> c_node_name c = p_name p ->
  is_ready_state (c_state c) = true \/ c_state c = SDisconnecting ->
  p_conn p = Some (c_id c).
Proof.
  intros n0 n H c p Hc Hp En Hs. destruct (GC_parts _ (reach_c_GC _ _ H)) as [_ [_ [_ [_ [_ [_ Hv]]]]]].
  apply Hv; auto. now apply past_ce_est.
Qed.

(* what the election buys: one connection per peer past the capabilities exchange *)
Theorem C13_one_conn_per_peer : forall n0 n, reach_c n0 n ->
  forall c1 c2, List.In c1 (n_conns n) -> List.In c2 (n_conns n) ->
  c_node_name c1 = c_node_name c2 ->
  is_ready_state (c_state c1) = true \/ c_state c1 = SDisconnecting ->
  is_ready_state (c_state c2) = true \/ c_state c2 = SDisconnecting ->
  c1 = c2 /\ c_node_name c1 <> ""%string.
Proof.
  intros n0 n H c1 c2 H1 H2 En S1 S2.
  destruct (GC_parts _ (reach_c_GC _ _ H)) as [[[Hnd _] _] [Hne [Ho [Hk [_ [_ Hv]]]]]].
  apply past_ce_est in S1, S2.
  assert (Hp : exists p, List.In p (n_peers n) /\ p_name p = c_node_name c1).
  { destruct (c_recv c1) eqn:Er.
    - pose proof (Hk c1 H1 Er S1) as A. apply in_map_iff in A. destruct A as [p [A B]]. eauto.
    - destruct (Ho c1 H1 Er) as [p [A [B _]]]. eauto. }
  destruct Hp as [p [Hp Ep]]. split; [|eapply name_nonempty; eauto].
  pose proof (Hv c1 p H1 S1 Hp Ep) as A. rewrite En in Ep. pose proof (Hv c2 p H2 S2 Hp Ep) as B.
  eapply conn_unique; eauto. congruence.
Qed.

Theorem C13_no_conns_no_peer_conn : forall n0 n, reach_c n0 n -> n_conns n = [] ->
  n_half_ready n = [] /\ n_socket_peers n = [] /\ (forall p, List.In p (n_peers n) -> p_conn p = None).
Proof.
  intros n0 n H E. destruct (GC_parts _ (reach_c_GC _ _ H)) as [[_ [_ [[T1 [_ [T3 _]]] _]]] [_ [_ [_ [_ [Hl _]]]]]].
  unfold G_live in Hl. rewrite E in T1, T3, Hl. cbn in T1, T3.
  split; [|split].
  - destruct (n_half_ready n) as [|x l]; auto. destruct (T1 x (or_introl eq_refl)).
  - destruct (n_socket_peers n) as [|x l]; auto. destruct (T3 x (or_introl eq_refl)).
  - intros p Hin. destruct (p_conn p) as [k|] eqn:Ek; auto. destruct (Hl p k Hin Ek) as [c [[] _]].
Qed.

(* ---- invariant 8 under ce_guard (i' and iii): every established connection (either direction) carries
   the name of a configured peer both as node name and as host identity ---- *)
Theorem C06_ready_known_g : forall n0 n, reach_g n0 n ->
  forall c, List.In c (n_conns n) ->
  is_ready_state (c_state c) = true \/ c_state c = SDisconnecting ->
  c_host c = c_node_name c /\ exists p, List.In p (n_peers n) /\ p_name p = c_node_name c.
Proof.
  intros n0 n H c Hin Hs.
  destruct (reach_nc_NI _ _ (reach_g_reach_nc _ _ H)) as [_ [_ [_ [Hh _]]]].
  destruct (GC_parts _ (reach_c_GC _ _ (reach_g_reach_c _ _ H))) as [_ [_ [Ho [Hk [Hi _]]]]].
  pose proof (past_ce_est _ Hs) as He.
  split.
  - destruct (Hi c Hin) as [A|A]; auto. exfalso. eapply Hh; eauto.
  - destruct (c_recv c) eqn:Er.
    + pose proof (Hk c Hin Er He) as A. apply in_map_iff in A. destruct A as [p [A B]]. eauto.
    + destruct (Ho c Hin Er) as [p [A [B _]]]. eauto.
Qed.

(* ---- invariant 6 (C19), under conn_guard alone (no peer named "", clause iii): every key of
   _peer_waiting is the host identity of a live connection.  No condition on capabilities-exchange
   messages is needed: a host identity is written only while the connection is CONNECTED, requests are
   filed only for connections past that state, and remove_peer_connection drops the entries of the host
   identity the connection has at that time. ---- *)
Theorem C19_waiting_hosts : forall n0 n, reach_nc n0 n ->
  forall h, List.In h (List.map fst (n_peer_waiting n)) ->
  h <> ""%string /\ exists c, List.In c (n_conns n) /\ c_host c = h.
Proof.
  intros n0 n H h Hh. destruct (reach_nc_NI _ _ H) as [_ [_ [_ [_ Hp]]]].
  destruct (Hp h Hh) as [A [c [B [C _]]]]. eauto.
Qed.

Theorem C19_no_conns_no_waiting : forall n0 n, reach_nc n0 n -> n_conns n = [] ->
  n_half_ready n = [] /\ n_socket_peers n = [] /\ n_peer_waiting n = [].
Proof.
  intros n0 n H E. destruct (reach_nc_NI _ _ H) as [[[_ [_ [[T1 [_ [T3 _]]] _]]] _] [_ [_ [_ Hp]]]].
  unfold G_pw in Hp. rewrite E in T1, T3, Hp. cbn in T1, T3.
  split; [|split].
  - destruct (n_half_ready n) as [|x l]; auto. destruct (T1 x (or_introl eq_refl)).
  - destruct (n_socket_peers n) as [|x l]; auto. destruct (T3 x (or_introl eq_refl)).
  - destruct (n_peer_waiting n) as [|e l]; auto. destruct (Hp (fst e) (or_introl eq_refl)) as [_ [c [[] _]]].
Qed.

(* with the peers' connections: ce_guard *)
Theorem C19_no_conns_no_tables : forall n0 n, reach_g n0 n -> n_conns n = [] ->
  n_half_ready n = [] /\ n_socket_peers n = [] /\ n_peer_waiting n = [] /\
  (forall p, List.In p (n_peers n) -> p_conn p = None).
Proof.
  intros n0 n H E. destruct (C13_no_conns_no_peer_conn _ _ (reach_g_reach_c _ _ H) E) as [A [B C]].
  destruct (C19_no_conns_no_waiting _ _ (reach_g_reach_nc _ _ H) E) as [_ [_ D]]. auto.
Qed.

(* ---------------------------------------------------------------------------------------- *)
(* 8b. C19: the origin table is backed by the waiting table (origin_backed)                   *)
(*     Not an invariant of the atomic transitions (inside a step a request is first entered   *)
(*     in the origin table and then either answered or delivered), hence a separate walk      *)
(*     through the model: ZR n n' = R n n' (the origin table shrinks, what stays keeps its    *)
(*     backing) and Zo n' (a connection with a host identity is the connection of the peer    *)
(*     of that name, hence one connection per host identity) is shown for every function but  *)
(*     the three that need the entry in hand (obx / settled).  The handlers that write host   *)
(*     identities (receive_cer / receive_cea) use the invariants of the guarded atomic        *)
(*     transitions (Good = GC /\ NI), which hold in every intermediate state.                 *)
(* ---------------------------------------------------------------------------------------- *)
Definition pw_get (pw : list (string * list (Z * Z))) (host : string) : list (Z * Z) :=
  match List.find (fun e => String.eqb (fst e) host) pw with Some e => snd e | None => [] end.

Lemma pw_get_map (F : string * list (Z * Z) -> string * list (Z * Z)) pw host : (forall e, fst (F e) = fst e) ->
  pw_get (List.map F pw) host =
  match List.find (fun e => String.eqb (fst e) host) pw with Some e => snd (F e) | None => [] end.
Proof.
  intros HF. unfold pw_get. induction pw as [|a r IH]; cbn; auto. rewrite HF.
  destruct (String.eqb (fst a) host); auto.
Qed.

Lemma pw_get_remove pw host' k host :
  pw_get (pw_remove pw host' k) host = if String.eqb host host' then remove_zz k (pw_get pw host) else pw_get pw host.
Proof.
  unfold pw_remove. rewrite pw_get_map by (intros e; destruct (String.eqb (fst e) host'); auto).
  unfold pw_get. destruct (List.find _ pw) as [a|] eqn:E.
  - apply find_some in E. destruct E as [_ E]. apply String.eqb_eq in E. rewrite E.
    destruct (String.eqb host host'); auto.
  - destruct (String.eqb host host'); auto.
Qed.

Lemma pw_get_filter pw hc host :
  pw_get (List.filter (fun e => negb (String.eqb (fst e) hc)) pw) host =
  if String.eqb host hc then [] else pw_get pw host.
Proof.
  unfold pw_get. induction pw as [|a r IH]; cbn.
  - destruct (String.eqb host hc); auto.
  - destruct (String.eqb (fst a) hc) eqn:E1; cbn.
    + rewrite IH. destruct (String.eqb host hc) eqn:E2; auto.
      destruct (String.eqb (fst a) host) eqn:E3; auto.
      apply String.eqb_eq in E1, E3. subst. rewrite String.eqb_refl in E2. discriminate.
    + destruct (String.eqb (fst a) host) eqn:E3.
      * apply String.eqb_eq in E3. subst host. rewrite E1. auto.
      * exact IH.
Qed.

Lemma pw_get_app_none pw host x : List.existsb (fun e => String.eqb (fst e) host) pw = false ->
  pw_get (pw ++ [x]) host = pw_get [x] host.
Proof.
  unfold pw_get. induction pw as [|a r IH]; cbn; auto. intros H. apply orb_false_iff in H. destruct H as [H1 H2].
  rewrite H1. auto.
Qed.
Lemma pw_get_app_other pw host x : String.eqb (fst x) host = false -> pw_get (pw ++ [x]) host = pw_get pw host.
Proof.
  intros H. unfold pw_get. induction pw as [|a r IH]; cbn.
  - rewrite H. auto.
  - destruct (String.eqb (fst a) host); auto.
Qed.

Lemma mem_zz_app x l k : mem_zz x (l ++ [k]) = mem_zz x l || mem_zz x [k].
Proof. unfold mem_zz. apply existsb_app. Qed.
Lemma mem_zz_self k : mem_zz k [k] = true.
Proof. unfold mem_zz. cbn. now rewrite !Z.eqb_refl. Qed.
Lemma mem_zz_remove x k l : mem_zz x l = true -> ~ (fst k = fst x /\ snd k = snd x) ->
  mem_zz x (remove_zz k l) = true.
Proof.
  unfold mem_zz, remove_zz. intros H Hn. apply existsb_exists in H. destruct H as [y [Hy E]].
  apply existsb_exists. exists y. split; auto. apply filter_In. split; auto.
  apply negb_true_iff. apply not_true_iff_false. intros C. apply Hn.
  apply andb_true_iff in C, E. destruct C as [C1 C2], E as [E1 E2].
  apply Z.eqb_eq in C1, C2, E1, E2. split; congruence.
Qed.

Lemma pw_get_add pw host' k host :
  pw_get (pw_add pw host' k) host =
  if String.eqb host host' then (if mem_zz k (pw_get pw host) then pw_get pw host else pw_get pw host ++ [k])%list
  else pw_get pw host.
Proof.
  unfold pw_add. destruct (List.existsb _ pw) eqn:Ex.
  - rewrite pw_get_map by (intros e; destruct (String.eqb (fst e) host'); auto).
    unfold pw_get. destruct (List.find _ pw) as [a|] eqn:E.
    + apply find_some in E. destruct E as [_ E]. apply String.eqb_eq in E. rewrite E.
      destruct (String.eqb host host'); auto.
    + destruct (String.eqb host host') eqn:Eh; auto. apply String.eqb_eq in Eh. subst host'.
      apply existsb_exists in Ex. destruct Ex as [y [Hy Ey]].
      pose proof (find_none _ _ E y Hy) as C. cbn in C. congruence.
  - destruct (String.eqb host host') eqn:Eh.
    + apply String.eqb_eq in Eh. subst host'. rewrite pw_get_app_none by exact Ex.
      assert (E0 : pw_get pw host = []).
      { unfold pw_get. destruct (List.find _ pw) as [a|] eqn:E; auto. apply find_some in E.
        destruct E as [Hin E]. assert (C : List.existsb (fun e => String.eqb (fst e) host) pw = true)
          by (apply existsb_exists; eauto). congruence. }
      rewrite E0. unfold pw_get. cbn. rewrite String.eqb_refl. reflexivity.
    + apply pw_get_app_other. cbn. rewrite String.eqb_sym. exact Eh.
Qed.

(* the host identity of connection k; the connection of the peer named h *)
Definition hostl (l : list conn) (k : nat) : option string :=
  option_map c_host (List.find (fun c => Nat.eqb (c_id c) k) l).
Definition ownl (l : list peer) (h : string) : option nat :=
  match List.find (fun p => String.eqb (p_name p) h) l with Some p => p_conn p | None => None end.
Definition hostof (n : node) (k : nat) : option string := hostl (n_conns n) k.
Definition owner (n : node) (h : string) : option nat := ownl (n_peers n) h.

Lemma hostof_get n k c : get_conn n k = Some c -> hostof n k = Some (c_host c).
Proof. unfold hostof, hostl, get_conn. intros E. now rewrite E. Qed.
Lemma hostof_some n k h : hostof n k = Some h -> exists c, get_conn n k = Some c /\ c_host c = h.
Proof.
  unfold hostof, hostl, get_conn. destruct (List.find _ _) as [c|]; cbn; [|discriminate].
  intros E; inversion E. eauto.
Qed.
Lemma owner_get n h p : get_peer n h = Some p -> owner n h = p_conn p.
Proof. unfold owner, ownl, get_peer. intros E. now rewrite E. Qed.

Lemma hostl_upd l cid f k : keeps_id f -> (forall c, c_host (f c) = c_host c) ->
  hostl (upd_conn l cid f) k = hostl l k.
Proof.
  intros Hk Hh. unfold hostl. destruct (Nat.eq_dec cid k) as [D|D].
  - subst k. rewrite find_upd_conn by exact Hk. destruct (List.find _ l); cbn; auto. now rewrite Hh.
  - rewrite find_upd_conn_other by auto. reflexivity.
Qed.
Lemma hostl_upd_other l cid f k : keeps_id f -> cid <> k -> hostl (upd_conn l cid f) k = hostl l k.
Proof. intros Hk D. unfold hostl. rewrite find_upd_conn_other by auto. reflexivity. Qed.
Lemma hostl_app l x k h : hostl l k = Some h -> hostl (l ++ [x]) k = Some h.
Proof.
  unfold hostl. induction l as [|a l IH]; cbn; [discriminate|]. destruct (Nat.eqb (c_id a) k); auto.
Qed.
Lemma hostl_app_inv l x k h : c_host x = ""%string -> hostl (l ++ [x]) k = Some h -> h <> ""%string -> hostl l k = Some h.
Proof.
  unfold hostl. intros Hx. induction l as [|a l IH]; cbn.
  - destruct (Nat.eqb (c_id x) k); cbn; [|discriminate]. intros E; inversion E. congruence.
  - destruct (Nat.eqb (c_id a) k); auto.
Qed.
Lemma hostl_filter l cid k : k <> cid ->
  hostl (List.filter (fun x => negb (Nat.eqb (c_id x) cid)) l) k = hostl l k.
Proof.
  intros D. unfold hostl. induction l as [|a l IH]; cbn; auto.
  destruct (Nat.eqb (c_id a) cid) eqn:E1; cbn.
  - destruct (Nat.eqb (c_id a) k) eqn:E2; auto. apply Nat.eqb_eq in E1, E2. congruence.
  - destruct (Nat.eqb (c_id a) k); auto.
Qed.
Lemma hostl_filter_self l cid : hostl (List.filter (fun x => negb (Nat.eqb (c_id x) cid)) l) cid = None.
Proof.
  unfold hostl. destruct (List.find _ (List.filter _ l)) as [c|] eqn:E; auto. exfalso.
  apply find_some in E. destruct E as [E1 E2]. apply filter_In in E1. destruct E1 as [_ E1].
  rewrite E2 in E1. discriminate.
Qed.

Lemma ownl_upd l nm f h : keeps_name f -> (forall p, p_conn (f p) = p_conn p) ->
  ownl (upd_peer l nm f) h = ownl l h.
Proof.
  intros Hk Hc. unfold ownl. induction l as [|p l IH]; cbn; auto.
  destruct (String.eqb (p_name p) nm); cbn.
  - rewrite Hk. destruct (String.eqb (p_name p) h); auto.
  - destruct (String.eqb (p_name p) h); auto.
Qed.
Lemma ownl_upd_other l nm f h : keeps_name f -> nm <> h -> ownl (upd_peer l nm f) h = ownl l h.
Proof.
  intros Hk D. unfold ownl. induction l as [|p l IH]; cbn; auto.
  destruct (String.eqb (p_name p) nm) eqn:E; cbn.
  - rewrite Hk. destruct (String.eqb (p_name p) h) eqn:E2; auto. apply String.eqb_eq in E, E2. congruence.
  - destruct (String.eqb (p_name p) h); auto.
Qed.
Lemma ownl_upd_self l nm f : keeps_name f ->
  ownl (upd_peer l nm f) nm = match List.find (fun p => String.eqb (p_name p) nm) l with Some p => p_conn (f p) | None => None end.
Proof. intros Hk. unfold ownl. rewrite find_upd_peer by exact Hk. destruct (List.find _ l); reflexivity. Qed.

(* the pair (h, e) of connection k is in the waiting set of the connection's host identity (the FIRST entry of
   that host: the one remove_conn looks at) *)
Definition bk (n : node) (k : nat) (h e : Z) : Prop :=
  exists host, hostof n k = Some host /\ host <> ""%string /\ mem_zz (h, e) (pw_get (n_peer_waiting n) host) = true.
Definition ob (n : node) : Prop := forall k h e o, List.In (k, h, e, o) (n_origin_waiting n) -> bk n k h e.
(* ... except possibly the entry that is being handled *)
Definition obx (n : node) (k0 : nat) (h0 e0 : Z) : Prop :=
  forall k h e o, List.In (k, h, e, o) (n_origin_waiting n) -> (k = k0 /\ h = h0 /\ e = e0) \/ bk n k h e.
Definition clean (n : node) (k0 : nat) (h0 e0 : Z) : Prop := forall o, ~ List.In (k0, h0, e0, o) (n_origin_waiting n).
Definition settled (n : node) (k0 : nat) (h0 e0 : Z) : Prop := clean n k0 h0 e0 \/ bk n k0 h0 e0.
(* the origin table shrinks and what stays keeps its backing *)
Definition R (n n' : node) : Prop :=
  forall k h e o, List.In (k, h, e, o) (n_origin_waiting n') ->
    List.In (k, h, e, o) (n_origin_waiting n) /\ (bk n k h e -> bk n' k h e).
(* a connection that has a host identity is the connection of the peer of that name: at most one connection per
   host identity (Zo_uh) *)
Definition Zo (n : node) : Prop := forall k h, hostof n k = Some h -> h <> ""%string -> owner n h = Some k.
Definition ZR (n0 n : node) : Prop := Zo n /\ R n0 n.

Lemma Zo_uh n k1 k2 h : Zo n -> hostof n k1 = Some h -> hostof n k2 = Some h -> h <> ""%string -> k1 = k2.
Proof. intros HZ H1 H2 Hh. pose proof (HZ _ _ H1 Hh) as A. pose proof (HZ _ _ H2 Hh) as B. congruence. Qed.

Lemma R_refl n : R n n.
Proof. intros k h e o H. auto. Qed.
Lemma R_trans n1 n2 n3 : R n1 n2 -> R n2 n3 -> R n1 n3.
Proof.
  intros H1 H2 k h e o H. destruct (H2 k h e o H) as [A B]. destruct (H1 k h e o A) as [C D]. auto.
Qed.
Lemma ob_R n n' : R n n' -> ob n -> ob n'.
Proof. intros HR H k h e o Hin. destruct (HR k h e o Hin) as [A B]. eauto. Qed.
Lemma obx_R n n' k0 h0 e0 : R n n' -> obx n k0 h0 e0 -> obx n' k0 h0 e0.
Proof. intros HR H k h e o Hin. destruct (HR k h e o Hin) as [A B]. destruct (H k h e o A); auto. Qed.
Lemma clean_R n n' k0 h0 e0 : R n n' -> clean n k0 h0 e0 -> clean n' k0 h0 e0.
Proof. intros HR H o Hin. destruct (HR _ _ _ _ Hin) as [A _]. exact (H o A). Qed.
Lemma ob_obx n k0 h0 e0 : ob n -> obx n k0 h0 e0.
Proof. intros H k h e o Hin. right. eauto. Qed.
Lemma obx_settled n k0 h0 e0 : obx n k0 h0 e0 -> settled n k0 h0 e0 -> ob n.
Proof.
  intros H S k h e o Hin. destruct (H k h e o Hin) as [[E0 [E1 E2]]|B]; auto. subst.
  destruct S as [C|B]; auto. destruct (C o Hin).
Qed.

(* frames: the connections keep their host identities, the peers their connections, the origin table shrinks, the
   waiting sets grow *)
Definition FrZ (n n' : node) : Prop :=
  (forall k h, hostof n k = Some h -> hostof n' k = Some h) /\
  (forall k h, hostof n' k = Some h -> h <> ""%string -> hostof n k = Some h) /\
  (forall h k, owner n h = Some k -> owner n' h = Some k).
Definition Fr (n n' : node) : Prop :=
  FrZ n n' /\ incl (n_origin_waiting n') (n_origin_waiting n) /\
  (forall host x, mem_zz x (pw_get (n_peer_waiting n) host) = true -> mem_zz x (pw_get (n_peer_waiting n') host) = true).

Lemma FrZ_Zo n n' : FrZ n n' -> Zo n -> Zo n'.
Proof. intros [F1 [F2 F3]] HZ k h Hk Hh. apply F3. apply HZ; auto. Qed.
Lemma Fr_R n n' : Fr n n' -> R n n'.
Proof.
  intros [[F1 _] [F4 F5]] k h e o Hin. apply F4 in Hin. split; auto.
  intros [host [A [B C]]]. exists host. auto.
Qed.
Lemma Fr_ZR n0 n n' : Fr n n' -> ZR n0 n -> ZR n0 n'.
Proof. intros HF [HZ HR]. split; [eapply FrZ_Zo; [apply HF|auto]|eapply R_trans; [exact HR|now apply Fr_R]]. Qed.
Lemma FrZ_eq n n' :
  (forall k, hostl (n_conns n') k = hostl (n_conns n) k) -> (forall h, ownl (n_peers n') h = ownl (n_peers n) h) ->
  FrZ n n'.
Proof. intros E1 E2. unfold FrZ, hostof, owner. repeat split; intros *; rewrite ?E1, ?E2; auto. Qed.
Lemma Fr_eq n n' :
  (forall k, hostl (n_conns n') k = hostl (n_conns n) k) -> (forall h, ownl (n_peers n') h = ownl (n_peers n) h) ->
  n_origin_waiting n' = n_origin_waiting n -> n_peer_waiting n' = n_peer_waiting n -> Fr n n'.
Proof.
  intros E1 E2 E3 E4. split; [now apply FrZ_eq|]. rewrite E3, E4. split; [apply incl_refl|auto].
Qed.

Ltac fr_fn := let c := fresh "c" in
  intro c; repeat (match goal with |- context [if ?b then _ else _] => destruct b end); reflexivity.
Ltac fr_tac :=
  apply Fr_eq;
  cbn [n_conns n_peers n_origin_waiting n_peer_waiting set_conns set_peers set_apps set_tables set_waiting set_time set_misc];
  [ intro; try reflexivity; apply hostl_upd; fr_fn
  | intro; try reflexivity; apply ownl_upd; fr_fn
  | reflexivity | reflexivity ].
Ltac z_fr H := (eapply Fr_ZR; [|exact H]); fr_tac.
Ltac z_frs N := (apply (Fr_ZR _ N); [fr_tac|]).

(* the origin-table filter of record_answer / drop_origin / receive_message *)
Lemma ow_key_true k0 h0 e0 k h e (o : string) : ow_key k0 h0 e0 (k, h, e, o) = true <-> k = k0 /\ h = h0 /\ e = e0.
Proof.
  unfold ow_key. rewrite !andb_true_iff, Nat.eqb_eq, !Z.eqb_eq. tauto.
Qed.
Lemma in_ofilter k0 h0 e0 (l : list (nat * Z * Z * string)) k h e o :
  List.In (k, h, e, o) (List.filter (fun x => negb (ow_key k0 h0 e0 x)) l) <->
  List.In (k, h, e, o) l /\ ~ (k = k0 /\ h = h0 /\ e = e0).
Proof.
  rewrite filter_In, negb_true_iff, <- not_true_iff_false, ow_key_true. tauto.
Qed.

Lemma rc_ow n cid r c : get_conn n cid = Some c ->
  n_origin_waiting (remove_conn n cid r) =
  List.filter (fun x => let '(k, h, e, _) := x in
                 negb (Nat.eqb k cid && mem_zz (h, e) (pw_get (n_peer_waiting n) (c_host c))))
              (n_origin_waiting n).
Proof.
  intros Hget. unfold remove_conn, pw_get. rewrite Hget.
  destruct (find_conn_peer n c) as [p|]; [destruct (p_conn p) as [k|]; [destruct (Nat.eqb k cid)|]|]; reflexivity.
Qed.

Lemma rc_owner n cid r c h k : get_conn n cid = Some c -> k <> cid ->
  owner n h = Some k -> owner (remove_conn n cid r) h = Some k.
Proof.
  intros Hget D Ho. unfold owner. rewrite (rc_peers _ _ r _ Hget). unfold removed_peers.
  destruct (find_conn_peer n c) as [p|] eqn:Ef; auto.
  destruct (p_conn p) as [k'|] eqn:Ek; auto. destruct (Nat.eqb k' cid) eqn:E; auto.
  apply Nat.eqb_eq in E. subst k'. apply find_conn_peer_some in Ef. destruct Ef as [Ef _].
  destruct (String.eqb (p_name p) h) eqn:En.
  - apply String.eqb_eq in En. subst h. rewrite (owner_get _ _ _ Ef) in Ho. congruence.
  - apply String.eqb_neq in En. rewrite ownl_upd_other; auto. intro; reflexivity.
Qed.

Lemma remove_conn_ZR n0 n cid r : ZR n0 n -> ZR n0 (remove_conn n cid r).
Proof.
  intros [HZ H]. destruct (get_conn n cid) as [c|] eqn:Ec.
  2:{ unfold remove_conn. rewrite Ec. split; auto. }
  assert (Hh : forall k, k <> cid -> hostof (remove_conn n cid r) k = hostof n k).
  { intros k D. unfold hostof. rewrite (rc_conns _ _ r _ Ec). now apply hostl_filter. }
  assert (Hs : hostof (remove_conn n cid r) cid = None).
  { unfold hostof. rewrite (rc_conns _ _ r _ Ec). apply hostl_filter_self. }
  split.
  - intros k h Hk Hne. destruct (Nat.eq_dec k cid) as [D|D]; [subst k; congruence|].
    rewrite Hh in Hk by exact D. eapply rc_owner; eauto.
  - eapply R_trans; [exact H|]. intros k h e o Hin. rewrite (rc_ow _ _ _ _ Ec) in Hin.
    apply filter_In in Hin. destruct Hin as [Hin Hn]. split; auto.
    intros [host [A [B C]]]. exists host.
    destruct (Nat.eq_dec k cid) as [D|D].
    + subst k. rewrite (hostof_get _ _ _ Ec) in A. inversion A; subst host.
      rewrite Nat.eqb_refl, C in Hn. discriminate.
    + rewrite Hh by exact D. split; auto. split; auto.
      rewrite (rc_pw _ _ r _ Ec), pw_get_filter.
      destruct (String.eqb host (c_host c)) eqn:Eh; auto. apply String.eqb_eq in Eh. subst host.
      exfalso. apply D. eapply Zo_uh; eauto. now apply hostof_get.
Qed.
Lemma close_conn_ZR n0 n cid r : ZR n0 n -> ZR n0 (fst (close_conn n cid r)).
Proof. intros H. unfold close_conn. destruct (get_conn n cid); cbn [fst]; auto. now apply remove_conn_ZR. Qed.
Lemma close_all_ZR ks : forall n0 n r, ZR n0 n -> ZR n0 (fst (close_all n ks r)).
Proof.
  induction ks as [|k ks IH]; intros n0 n r H; cbn [close_all fst]; auto.
  dpair (close_conn n k r). dpair (close_all (fst (close_conn n k r)) ks r). cbn [fst].
  apply IH. now apply close_conn_ZR.
Qed.

Lemma record_answer_ZR n0 n k h e : ZR n0 n -> ZR n0 (record_answer n k h e).
Proof.
  intros H. unfold record_answer. destruct (List.find _ _) as [[[[k' a] b] o]|]; auto.
  eapply Fr_ZR; [|exact H]. split; [apply FrZ_eq; reflexivity|]. cbn. split; [apply incl_filter|auto].
Qed.
Lemma record_answer_clean n k h e : clean (record_answer n k h e) k h e.
Proof.
  unfold record_answer. destruct (List.find _ _) as [[[[k' a] b] o]|] eqn:E.
  - intros o1 Hin. cbn in Hin. apply in_ofilter in Hin. destruct Hin as [_ Hn]. apply Hn. auto.
  - intros o1 Hin. pose proof (find_none _ _ E _ Hin) as C. cbn in C. rewrite Nat.eqb_refl, !Z.eqb_refl in C. discriminate.
Qed.
Lemma drop_origin_ZR n0 n k h e : ZR n0 n -> ZR n0 (drop_origin n k h e).
Proof.
  intros H. eapply Fr_ZR; [|exact H]. split; [apply FrZ_eq; reflexivity|]. cbn. split; [apply incl_filter|auto].
Qed.
Lemma drop_origin_clean n k h e : clean (drop_origin n k h e) k h e.
Proof. intros o1 Hin. cbn in Hin. apply in_ofilter in Hin. destruct Hin as [_ Hn]. apply Hn. auto. Qed.

(* the waiting entry (h, e) of connection cid's host is taken and (cid, h, e) has left the origin table *)
Lemma take_R n n' cid hc h e : Zo n -> hostof n cid = Some hc ->
  (forall k, hostof n' k = hostof n k) -> n_peer_waiting n' = pw_remove (n_peer_waiting n) hc (h, e) ->
  incl (n_origin_waiting n') (n_origin_waiting n) -> clean n' cid h e -> R n n'.
Proof.
  intros HZ Hc Hh Hp Hi Hcl k h1 e1 o Hin. split; [now apply Hi|].
  intros [host [A [B C]]]. exists host. rewrite Hh. split; auto. split; auto.
  rewrite Hp, pw_get_remove. destruct (String.eqb host hc) eqn:Eh; auto.
  apply String.eqb_eq in Eh. subst host. apply mem_zz_remove; auto. cbn. intros [X Y]. subst.
  assert (k = cid) by (eapply Zo_uh; eauto). subst k. exact (Hcl _ Hin).
Qed.

Lemma send_message_ZR n0 n cid m : ZR n0 n -> ZR n0 (fst (send_message n cid m)).
Proof.
  intros H. unfold send_message, queue_out. destruct (o_req m); cbn [fst].
  - z_fr H.
  - destruct (get_conn n cid) as [c|] eqn:Ec.
    + destruct H as [HZ H]. split.
      * eapply FrZ_Zo; [|exact HZ]. unfold record_answer. destruct (List.find _ _) as [[[[k' a] b] o]|];
          apply FrZ_eq; cbn [n_conns n_peers set_conns set_waiting]; intro; try reflexivity; apply hostl_upd; fr_fn.
      * eapply R_trans; [exact H|]. eapply (take_R _ _ cid (c_host c)); auto.
        -- now apply hostof_get.
        -- intros k. unfold record_answer. destruct (List.find _ _) as [[[[k' a] b] o]|];
             unfold hostof; cbn [n_conns set_conns set_waiting]; apply hostl_upd; fr_fn.
        -- unfold record_answer. destruct (List.find _ _) as [[[[k' a] b] o]|]; reflexivity.
        -- unfold record_answer. destruct (List.find _ _) as [[[[k' a] b] o]|]; cbn; [apply incl_filter|apply incl_refl].
        -- apply record_answer_clean.
    + apply record_answer_ZR. z_fr H.
Qed.
Lemma send_message_clean n cid m : o_req m = false -> clean (fst (send_message n cid m)) cid (o_hbh m) (o_e2e m).
Proof. intros E. unfold send_message, queue_out. rewrite E. cbn [fst]. apply record_answer_clean. Qed.
(* ZR and settled together *)
Definition RS (n0 n : node) (k : nat) (h e : Z) : Prop := ZR n0 n /\ settled n k h e.
Lemma send_answer_RS n0 n cid m r f : ZR n0 n -> RS n0 (fst (send_message n cid (answer_of m r f))) cid (m_hbh m) (m_e2e m).
Proof.
  intros H. split; [now apply send_message_ZR|]. left.
  exact (send_message_clean n cid (answer_of m r f) eq_refl).
Qed.

Lemma ownl_upd_mono l nm f h k : keeps_name f -> (forall p, p_conn p = Some k -> p_conn (f p) = Some k) ->
  ownl l h = Some k -> ownl (upd_peer l nm f) h = Some k.
Proof.
  intros Hk Hm. unfold ownl. induction l as [|p l IH]; cbn; auto.
  destruct (String.eqb (p_name p) nm); cbn.
  - rewrite Hk. destruct (String.eqb (p_name p) h); auto.
  - destruct (String.eqb (p_name p) h); auto.
Qed.
Lemma ownl_upd_none l nm f h k : keeps_name f -> ownl l nm = None ->
  ownl l h = Some k -> ownl (upd_peer l nm f) h = Some k.
Proof.
  intros Hk Hn Hh. destruct (String.eqb nm h) eqn:E.
  - apply String.eqb_eq in E. congruence.
  - apply String.eqb_neq in E. rewrite ownl_upd_other; auto.
Qed.
Lemma Fr_new n n' x : n_conns n' = (n_conns n ++ [x])%list -> c_host x = ""%string ->
  (forall h k, owner n h = Some k -> owner n' h = Some k) ->
  n_origin_waiting n' = n_origin_waiting n -> n_peer_waiting n' = n_peer_waiting n -> Fr n n'.
Proof.
  intros Ec Hx Ho E3 E4. split; [|rewrite E3, E4; split; [apply incl_refl|auto]].
  unfold FrZ, hostof. rewrite Ec. split; [|split; auto].
  - intros k h. apply hostl_app.
  - intros k h. now apply hostl_app_inv.
Qed.

Lemma flag_ready_ZR n0 n cid : ZR n0 n -> ZR n0 (flag_ready n cid).
Proof. intros H. unfold flag_ready. z_fr H. Qed.
Lemma assign_Fr n cid : Fr n (assign_peer_conn n cid).
Proof.
  assert (H0 : Fr n n) by (apply Fr_eq; reflexivity).
  unfold assign_peer_conn. destruct (get_conn n cid) as [c|]; auto.
  destruct (String.eqb (c_host c) ""); auto. destruct (get_peer n (c_host c)); auto.
  destruct (mem_nat cid (n_half_ready n)); (split; [|cbn; split; [apply incl_refl|auto]]);
    (split; [|split]; [intros k h E; exact E|intros k h E _; exact E|]);
    intros h k; unfold owner; cbn [n_peers set_peers set_tables]; apply ownl_upd_mono;
    try (intro; reflexivity); intros q Eq; cbn; now rewrite Eq.
Qed.
Lemma assign_peer_conn_ZR n0 n cid : ZR n0 n -> ZR n0 (assign_peer_conn n cid).
Proof. apply Fr_ZR, assign_Fr. Qed.
Lemma recv_dwa_ZR n0 n cid : ZR n0 n -> ZR n0 (fst (recv_dwa n cid)).
Proof. intros H. unfold recv_dwa; cbn [fst]. z_fr H. Qed.
Lemma recv_dpa_ZR n0 n cid : ZR n0 n -> ZR n0 (fst (recv_dpa n cid)).
Proof.
  intros H. unfold recv_dpa.
  match goal with |- ZR _ (fst (match get_conn ?N cid with _ => _ end)) => assert (H1 : ZR n0 N) by (z_fr H) end.
  destruct (get_conn _ cid) as [c|]; auto. destruct (c_out c); auto. now apply close_conn_ZR.
Qed.
Lemma recv_app_answer_ZR n0 n m : ZR n0 n -> ZR n0 (fst (recv_app_answer n m)).
Proof.
  intros H. unfold recv_app_answer. destruct (List.find _ _) as [[[a b] i]|]; auto.
  destruct (List.nth_error _ i); auto. destruct (mem_z _ _); cbn [fst]; z_fr H.
Qed.
Lemma own_request_ZR n0 n cid c : ZR n0 n -> ZR n0 (fst (own_request n cid c)).
Proof. intros H. unfold own_request. destruct (get_conn n cid); cbn [fst]; auto. z_fr H. Qed.
Lemma send_cer_ZR n0 n cid : ZR n0 n -> ZR n0 (fst (send_cer n cid)).
Proof. intros H. unfold send_cer. dpair (own_request n cid CE). apply send_message_ZR. now apply own_request_ZR. Qed.
Lemma send_dwr_ZR n0 n cid : ZR n0 n -> ZR n0 (fst (send_dwr n cid)).
Proof.
  intros H. unfold send_dwr. dpair (own_request n cid DW).
  match goal with |- context [send_message ?N ?C ?M] => dpair (send_message N C M) end.
  cbn [fst]. match goal with |- ZR _ (set_conns ?N _) => z_frs N end. apply send_message_ZR. now apply own_request_ZR.
Qed.
Lemma send_dpr_ZR n0 n cid : ZR n0 n -> ZR n0 (fst (send_dpr n cid)).
Proof.
  intros H. unfold send_dpr. dpair (own_request n cid DP). apply send_message_ZR. match goal with |- ZR _ (set_conns ?N _) => z_frs N end. now apply own_request_ZR.
Qed.

Lemma check_timers_ZR n0 n cid : ZR n0 n -> ZR n0 (fst (check_timers n cid)).
Proof.
  intros H. unfold check_timers. destruct (n_stopping n); auto. destruct (get_conn n cid) as [c|]; auto.
  destruct (c_state c); auto;
    match goal with |- context [if ?b then _ else _] => destruct b end; auto;
    try now apply close_conn_ZR. now apply send_dwr_ZR.
Qed.
Lemma timers_all_ZR cids : forall n0 n, ZR n0 n -> ZR n0 (fst (timers_all n cids)).
Proof.
  induction cids as [|c r IH]; intros n0 n H; cbn [timers_all fst]; auto.
  dpair (check_timers n c). dpair (timers_all (fst (check_timers n c)) r). cbn [fst].
  apply IH. now apply check_timers_ZR.
Qed.
Lemma connect_to_peer_ZR n0 n name h res : ZR n0 n -> ZR n0 (fst (connect_to_peer n name h res)).
Proof.
  intros H. unfold connect_to_peer. destruct (get_peer n name) as [p|] eqn:Ep; auto.
  destruct (p_conn p) eqn:Epc; auto. destruct (negb (p_has_addr p)); auto. cbv zeta.
  match goal with |- context [close_conn ?N _ R_SOCKET_FAIL] => assert (H3 : ZR n0 N) end.
  { eapply Fr_ZR; [|exact H]. eapply Fr_new; [reflexivity|reflexivity| |reflexivity|reflexivity].
    intros h0 k. unfold owner. cbn [n_peers set_peers set_tables set_misc set_conns].
    apply ownl_upd_none; [intro; reflexivity|]. change (owner n name = None). now rewrite (owner_get _ _ _ Ep). }
  destruct res.
  - match goal with |- context [send_cer ?N ?C] => dpair (send_cer N C) end. cbn [fst].
    apply send_cer_ZR. z_fr H3.
  - match goal with |- context [close_conn ?N ?C ?R] => dpair (close_conn N C R) end. cbn [fst].
    apply close_conn_ZR. exact H3.
  - cbn [fst]. exact H3.
Qed.
Lemma reconnect_all_ZR names : forall n0 n ds, ZR n0 n -> ZR n0 (fst (fst (reconnect_all n names ds))).
Proof.
  induction names as [|nm r IH]; intros n0 n ds H; cbn [reconnect_all fst]; auto.
  destruct (get_peer n nm) as [p|]; auto.
  destruct (wants_reconnect n p && p_has_addr p); auto.
  destruct ds as [|[h0 res] dr].
  - dpair (connect_to_peer n nm 0 DialOk). dtriple (reconnect_all (fst (connect_to_peer n nm 0 DialOk)) r []).
    cbn [fst]. apply IH. now apply connect_to_peer_ZR.
  - dpair (connect_to_peer n nm h0 res). dtriple (reconnect_all (fst (connect_to_peer n nm h0 res)) r dr).
    cbn [fst]. apply IH. now apply connect_to_peer_ZR.
Qed.
Lemma io_iteration_ZR n0 n ds : ZR n0 n -> ZR n0 (fst (fst (io_iteration n ds))).
Proof.
  intros H. unfold io_iteration. dpair (timers_all n (List.map c_id (n_conns n))).
  match goal with |- context [reconnect_all ?N ?L ?D] => dtriple (reconnect_all N L D) end.
  cbn [fst]. match goal with |- ZR _ (set_time ?N _ _) => z_frs N end. apply reconnect_all_ZR. now apply timers_all_ZR.
Qed.
Lemma flush_conns_ZR cids : forall n0 n, ZR n0 n -> ZR n0 (fst (flush_conns n cids)).
Proof.
  induction cids as [|cid r IH]; intros n0 n H; cbn [flush_conns fst]; auto.
  match goal with |- context [let '(n1, o1) := ?X in _] =>
    assert (H1 : ZR n0 (fst X)); [|dpair X] end.
  { destruct (get_conn n cid) as [c|]; auto. destruct (c_stalled c || negb (c_sock_open c)); auto.
    assert (H2 : ZR n0 (set_conns n (upd_conn (n_conns n) cid (fun c => set_cout c [])))) by (z_fr H).
    destruct (c_out c); auto. destruct (cstate_eqb (c_state c) SClosing); auto.
    match goal with |- context [close_conn ?N ?C ?R] => dpair (close_conn N C R) end. cbn [fst].
    now apply close_conn_ZR. }
  match goal with |- context [flush_conns ?N r] => dpair (flush_conns N r) end. cbn [fst].
  apply IH. exact H1.
Qed.
Lemma flush_ZR n0 n : ZR n0 n -> ZR n0 (fst (flush n)).
Proof. intros H. unfold flush. now apply flush_conns_ZR. Qed.
Lemma settle_ZR n0 n ds : ZR n0 n -> ZR n0 (fst (fst (settle n ds))).
Proof.
  intros H. unfold settle. dpair (flush n).
  match goal with |- context [io_iteration ?N ?D] => dtriple (io_iteration N D) end.
  match goal with |- context [flush ?N] => dpair (flush N) end. cbn [fst].
  apply flush_ZR. apply io_iteration_ZR. now apply flush_ZR.
Qed.
Lemma settle'_ZR n0 n ds : ZR n0 n -> ZR n0 (fst (settle' n ds)).
Proof. intros H. unfold settle'. dtriple (settle n ds). cbn [fst]. now apply settle_ZR. Qed.
Lemma settle_app_ZR n0 n ds : ZR n0 n -> ZR n0 (fst (fst (settle_app n ds))).
Proof.
  intros H. unfold settle_app.
  match goal with |- context [io_iteration ?N ?D] => dtriple (io_iteration N D) end.
  match goal with |- context [flush ?N] => dpair (flush N) end. cbn [fst].
  apply flush_ZR. now apply io_iteration_ZR.
Qed.
Lemma settle_app'_ZR n0 n ds : ZR n0 n -> ZR n0 (fst (settle_app' n ds)).
Proof. intros H. unfold settle_app'. dtriple (settle_app n ds). cbn [fst]. now apply settle_app_ZR. Qed.

(* the mode of ce_guard, and the invariants of its atomic transitions: they hold in every intermediate state *)
Definition gm : mode := MG true WAll.
Definition Good (n : node) : Prop := GC n /\ NI n.
Lemma Good_trans n n' : trans gm n n' -> Good n -> Good n'.
Proof.
  apply (trans_inv gm Good). intros a b Hs [A B]. split; [eapply astep_GC; eauto; exact I|eapply astep_NI; eauto; exact I].
Qed.

Lemma recv_dwr_RS n0 n cid m : ZR n0 n -> RS n0 (fst (recv_dwr n cid m)) cid (m_hbh m) (m_e2e m).
Proof. intros H. unfold recv_dwr. now apply send_answer_RS. Qed.
Lemma recv_dpr_RS n0 n cid m : ZR n0 n -> RS n0 (fst (recv_dpr n cid m)) cid (m_hbh m) (m_e2e m).
Proof.
  intros H. unfold recv_dpr. apply send_answer_RS.
  assert (H1 : ZR n0 (set_conns n (upd_conn (n_conns n) cid (fun c => set_cstate c SDisconnecting)))) by z_fr H.
  destruct (get_conn _ cid) as [c|]; [|exact H1]. destruct (find_conn_peer _ c); [|exact H1]. z_fr H1.
Qed.

Lemma find_name_in l h : List.In h (List.map p_name l) -> List.find (fun p => String.eqb (p_name p) h) l <> None.
Proof.
  intros Hin E. apply in_map_iff in Hin. destruct Hin as [p [Ep Hp]].
  pose proof (find_none _ _ E p Hp) as C. cbn in C. rewrite Ep, String.eqb_refl in C. discriminate.
Qed.

Lemma assign_owner n cid c p : get_conn n cid = Some c -> c_host c <> ""%string -> get_peer n (c_host c) = Some p ->
  owner (assign_peer_conn n cid) (c_host c) = Some (match p_conn p with Some k => k | None => cid end).
Proof.
  intros Ec Hh Ep. unfold assign_peer_conn. rewrite Ec. apply String.eqb_neq in Hh. rewrite Hh, Ep.
  destruct (mem_nat cid (n_half_ready n)); unfold owner; cbn [n_peers set_peers set_tables];
    (rewrite ownl_upd_self by (intro; reflexivity)); unfold get_peer in Ep; rewrite Ep; cbn; destruct (p_conn p); reflexivity.
Qed.

(* the capabilities exchange succeeds: the host identity is set and the peer gets its connection *)
Lemma sethost_ZR n0 n cid c host au ac :
  ZR n0 n -> get_conn n cid = Some c -> (c_host c <> ""%string -> c_host c = host) ->
  (host <> ""%string -> get_peer n host <> None /\ (owner n host = None \/ owner n host = Some cid)) ->
  ZR n0 (assign_peer_conn (set_conns n (upd_conn (n_conns n) cid (fun c => set_cident c (c_node_name c) host au ac))) cid).
Proof.
  intros [HZ H] Ec Hold Hown.
  match goal with |- context [upd_conn _ cid ?F] => set (hf := F) end.
  assert (Hk : keeps_id hf) by (intro; reflexivity).
  set (n2 := set_conns n (upd_conn (n_conns n) cid hf)).
  assert (E2 : get_conn n2 cid = Some (hf c)) by (unfold n2; rewrite get_conn_upd by exact Hk; now rewrite Ec).
  assert (Hs : hostof n2 cid = Some host) by (rewrite (hostof_get _ _ _ E2); reflexivity).
  assert (Ho : forall k, k <> cid -> hostof n2 k = hostof n k).
  { intros k D. unfold hostof, n2. cbn [n_conns set_conns]. apply hostl_upd_other; auto. }
  destruct (assign_Fr n2 cid) as [[F1 [F2 F3]] [F4 F5]].
  split.
  - intros k h Hk' Hh. apply F2 in Hk'; auto. destruct (Nat.eq_dec k cid) as [D|D].
    + subst k. rewrite Hs in Hk'. inversion Hk'; subst h. destruct (Hown Hh) as [Hp Hc].
      destruct (get_peer n host) as [p|] eqn:Ep; [clear Hp|congruence].
      pose proof (assign_owner n2 cid (hf c) p E2 Hh Ep) as A. cbn [hf c_host set_cident] in A. rewrite A.
      rewrite (owner_get _ _ _ Ep) in Hc. destruct Hc as [Hc|Hc]; rewrite Hc; reflexivity.
    + rewrite Ho in Hk' by exact D. apply F3. exact (HZ _ _ Hk' Hh).
  - eapply R_trans; [exact H|]. intros k h e o Hin. apply F4 in Hin. split; [exact Hin|].
    intros [hk [A [B C]]]. exists hk. split; [|split; auto].
    apply F1. destruct (Nat.eq_dec k cid) as [D|D].
    + subst k. rewrite (hostof_get _ _ _ Ec) in A. inversion A; subst hk. rewrite Hs. f_equal. symmetry. now apply Hold.
    + rewrite Ho; auto.
Qed.

Lemma upd_conn_none l cid f : List.find (fun c => Nat.eqb (c_id c) cid) l = None -> upd_conn l cid f = l.
Proof.
  induction l as [|a l IH]; cbn; auto. destruct (Nat.eqb (c_id a) cid); [discriminate|]. intros E. now rewrite IH.
Qed.

Lemma cer_tail_RS n0 n rivals cid host m pr : Good n ->
  get_peer n host = Some pr ->
  (forall c, get_conn n cid = Some c -> c_node_name c = host) ->
  (forall c', List.In c' (n_conns n) -> c_id c' <> cid -> c_node_name c' = host -> List.In (c_id c') rivals) ->
  ZR n0 n -> RS n0 (fst (cer_tail n rivals cid host m)) cid (m_hbh m) (m_e2e m).
Proof.
  intros HG Ep Hnm Hriv H. unfold cer_tail. dpair (close_all n rivals R_CLEAN).
  set (n1 := fst (close_all n rivals R_CLEAN)).
  assert (H1 : ZR n0 n1) by now apply close_all_ZR.
  assert (HG1 : Good n1) by (eapply Good_trans; [apply close_all_t; constructor|exact HG]).
  apply (match3 (fun x => RS n0 (fst x) cid (m_hbh m) (m_e2e m))).
  - match goal with |- context [send_message ?N ?C ?M] => dpair (send_message N C M) end. cbn [fst].
    now apply send_answer_RS.
  - cbv zeta. match goal with |- context [send_message ?N ?C ?M] => dpair (send_message N C M) end. cbn [fst].
    apply send_answer_RS. apply flag_ready_ZR.
    destruct (get_conn n1 cid) as [c1|] eqn:E1.
    2:{ unfold get_conn in E1. rewrite (upd_conn_none _ _ _ E1).
        replace (set_conns n1 (n_conns n1)) with n1 by (destruct n1; reflexivity).
        unfold assign_peer_conn, get_conn. rewrite E1. exact H1. }
    destruct (GC_parts _ (proj1 HG1)) as [_ [_ [_ [_ [Hid [Hlv _]]]]]].
    pose proof (close_all_get _ _ _ _ _ E1 : get_conn n cid = Some c1) as E0.
    eapply sethost_ZR; eauto.
    + intros Hh. destruct (Hid c1 (proj1 (get_conn_some _ _ _ E1))) as [A|A]; [congruence|]. rewrite A. now apply Hnm.
    + intros _. assert (Hp : get_peer n1 host <> None).
      { apply find_name_in. unfold n1. rewrite close_all_names. destruct (get_peer_some _ _ _ Ep) as [A B].
        rewrite <- B. now apply in_map. }
      split; [exact Hp|]. destruct (get_peer n1 host) as [p|] eqn:Ep1; [|congruence].
      rewrite (owner_get _ _ _ Ep1). destruct (p_conn p) as [k|] eqn:Ek; auto. right. f_equal.
      destruct (get_peer_some _ _ _ Ep1) as [Hin En].
      destruct (Hlv p k Hin Ek) as [c' [Hc' [Eid Enm]]].
      destruct (close_all_in _ _ _ _ Hc') as [A B].
      destruct (Nat.eq_dec k cid) as [D|D]; auto. exfalso. apply B. apply Hriv; congruence.
Qed.

Lemma recv_cer_RS n0 n cid m host : Good n -> get_conn n cid <> None -> m_origin m = Present host ->
  (forall c, get_conn n cid = Some c -> c_state c = SConnected ->
     c_recv c = true /\ (c_node_name c = host \/ c_node_name c = ""%string)) ->
  ZR n0 n -> RS n0 (fst (recv_cer n cid m)) cid (m_hbh m) (m_e2e m).
Proof.
  intros HG Hc Eo Hpre H. unfold recv_cer. destruct (get_conn n cid) as [c0|] eqn:Ec0; [clear Hc|congruence].
  destruct (cstate_eqb (c_state c0) SConnected) eqn:Es; cbn [negb].
  2:{ cbn [fst]. split; [now apply drop_origin_ZR|left; apply drop_origin_clean]. }
  assert (Es' : c_state c0 = SConnected) by (destruct (c_state c0); try discriminate; reflexivity).
  destruct (Hpre c0 eq_refl Es') as [Hr Hg].
  rewrite Eo. cbn [pres_get]. destruct (get_peer n host) as [p|] eqn:Ep.
  - cbv zeta. fold (name_fn host).
    match goal with |- context [election_rivals ?N cid host] => set (nn := N) in * end.
    assert (H1 : ZR n0 nn) by (subst nn; unfold name_fn; z_fr H).
    assert (HG1 : Good nn).
    { eapply Good_trans; [|exact HG]. eapply t_a; [|constructor]. eapply A_name; eauto. exact I.
      intros c E. rewrite Ec0 in E. inversion E; subst c. exact Hr. }
    assert (Egn : get_conn nn cid = Some (name_fn host c0)).
    { subst nn. rewrite get_conn_upd by apply keeps_id_name_fn. now rewrite Ec0. }
    assert (Htail : RS n0 (fst (cer_tail nn (election_rivals nn cid host) cid host m)) cid (m_hbh m) (m_e2e m)).
    { apply (cer_tail_RS n0 nn _ cid host m p); auto.
      - intros c'. rewrite Egn. intros E; inversion E. unfold name_fn. destruct Hg as [D|D].
        + destruct (String.eqb (c_node_name c0) ""); cbn; auto.
        + rewrite D. cbn. auto.
      - intros c' Hc' Hid Hn. unfold election_rivals. apply in_map. apply filter_In. split; auto.
        apply andb_true_iff. split; [now apply negb_true_iff, Nat.eqb_neq|now apply String.eqb_eq]. }
    unfold cer_tail in Htail.
    destruct (election_rivals nn cid host) as [|k ks]; [exact Htail|].
    destruct (String.ltb host (g_host (n_cfg nn))); [exact Htail|].
    apply send_answer_RS. z_fr H1.
  - cbv zeta. apply send_answer_RS. z_fr H.
Qed.

Lemma recv_cea_ZR n0 n cid m : Good n ->
  (forall c, get_conn n cid = Some c -> c_recv c = false \/ passes gm c) ->
  ZR n0 n -> ZR n0 (fst (recv_cea n cid m)).
Proof.
  intros HG Hst H. unfold recv_cea. destruct (get_conn n cid) as [c0|] eqn:Ec; auto.
  destruct (cstate_eqb (c_state c0) SConnected) eqn:Es; cbn [negb]; auto.
  assert (Hr : c_recv c0 = false).
  { destruct (Hst c0 eq_refl) as [Rr|[A|[A _]]]; auto; destruct (c_state c0); try discriminate; destruct A. }
  apply (match_2001 (fun x => ZR n0 (fst x))); [|now apply close_conn_ZR].
  destruct (m_origin m) as [| |host] eqn:Eo; cbn [pres_get fst]; auto.
  match goal with |- context [if ?b then _ else _] => destruct b eqn:Econd end; [now apply close_conn_ZR|].
  assert (Hok : id_ok c0 host).
  { apply andb_false_iff in Econd. destruct Econd as [E|E]; apply negb_false_iff in E.
    - right. split; auto. now apply String.eqb_eq.
    - left. symmetry. now apply String.eqb_eq. }
  cbv zeta. cbn [fst]. apply flag_ready_ZR.
  destruct (GC_parts _ (proj1 HG)) as [[_ [Hn _]] [Hne [Ho [_ [Hid _]]]]].
  destruct (get_conn_some _ _ _ Ec) as [Hin Eid].
  assert (Enm : c_node_name c0 = host) by (eapply id_ok_eq; eauto).
  eapply sethost_ZR; eauto.
  - intros Hh. destruct (Hid c0 Hin) as [A|A]; congruence.
  - intros _. destruct (Ho c0 Hin Hr) as [p [Hp [En Epc]]].
    pose proof (get_peer_in n p Hn Hp) as Eg. rewrite En, Enm in Eg.
    split; [congruence|]. right. rewrite (owner_get _ _ _ Eg). congruence.
Qed.

Lemma pw_add_Fr n n1 host k : n_conns n1 = n_conns n -> n_peers n1 = n_peers n ->
  n_origin_waiting n1 = n_origin_waiting n -> n_peer_waiting n1 = pw_add (n_peer_waiting n) host k -> Fr n n1.
Proof.
  intros E1 E2 E3 E4. split; [apply FrZ_eq; intro; now rewrite ?E1, ?E2|]. rewrite E3. split; [apply incl_refl|].
  intros hs x Hb. rewrite E4, pw_get_add. destruct (String.eqb hs host); auto.
  destruct (mem_zz k _); auto. rewrite mem_zz_app, Hb. reflexivity.
Qed.
Lemma pw_add_bk n1 n cid c h e : n_conns n1 = n_conns n -> get_conn n cid = Some c -> c_host c <> ""%string ->
  n_peer_waiting n1 = pw_add (n_peer_waiting n) (c_host c) (h, e) -> bk n1 cid h e.
Proof.
  intros E1 Ec Hh E. exists (c_host c). split; [|split; auto].
  - unfold hostof. rewrite E1. now apply hostof_get.
  - rewrite E, pw_get_add, String.eqb_refl.
    destruct (mem_zz (h, e) (pw_get (n_peer_waiting n) (c_host c))) eqn:Em; auto.
    rewrite mem_zz_app, mem_zz_self. apply orb_true_r.
Qed.

Lemma recv_app_request_RS n0 n cid m : get_conn n cid <> None ->
  (forall c, get_conn n cid = Some c -> c_host c <> ""%string) -> ZR n0 n ->
  RS n0 (fst (recv_app_request n cid m)) cid (m_hbh m) (m_e2e m).
Proof.
  intros Hc Hh H. unfold recv_app_request. destruct (get_conn n cid) as [c|] eqn:Ec; [clear Hc|congruence].
  destruct (m_drealm m); try now apply send_answer_RS.
  destruct (route_lookup n a); try now apply send_answer_RS.
  destruct (List.find _ l) as [[[i|] x]|]; try now apply send_answer_RS.
  cbv zeta.
  match goal with |- context [send_message ?N cid _] => assert (H1 : ZR n0 N) end.
  { eapply Fr_ZR; [|exact H]. eapply pw_add_Fr; reflexivity. }
  destruct (handler_raises m); cbn [fst].
  - match goal with |- context [send_message ?N ?C ?M] => dpair (send_message N C M) end. cbn [fst].
    now apply send_answer_RS.
  - split; [exact H1|]. right. apply (pw_add_bk _ n cid c); [reflexivity|exact Ec|exact (Hh c eq_refl)|reflexivity].
Qed.

Lemma record_obx n k0 h0 e0 o n1 : ob n -> n_conns n1 = n_conns n -> n_peer_waiting n1 = n_peer_waiting n ->
  n_origin_waiting n1 =
    (List.filter (fun x => negb (ow_key k0 h0 e0 x)) (n_origin_waiting n) ++ [(k0, h0, e0, o)])%list ->
  obx n1 k0 h0 e0.
Proof.
  intros H E0 E1 E2 k h e o1 Hin. rewrite E2 in Hin. apply in_app_or in Hin. destruct Hin as [Hin|[Hin|[]]].
  - apply in_ofilter in Hin. destruct Hin as [Hin _]. right. destruct (H _ _ _ _ Hin) as [hs Hb]. exists hs.
    unfold hostof. now rewrite E0, E1.
  - inversion Hin. auto.
Qed.

Definition Zob (n : node) : Prop := Zo n /\ ob n.

Lemma receive_message_ob n cid m : Good n -> msg_pre gm n cid m ->
  (forall c, get_conn n cid = Some c -> gate_passes c m = true) ->
  get_conn n cid <> None -> Zob n -> Zob (fst (receive_message n cid m)).
Proof.
  intros HG [Hnc Hpre] Hgate Hget [HZ H]. unfold receive_message. cbv zeta.
  match goal with |- context [g_validate (n_cfg ?N)] => set (n1 := N) end.
  assert (Hc : get_conn n1 cid = get_conn n cid).
  { subst n1. destruct (m_origin m); auto; destruct (m_req m); auto. }
  assert (HG1 : Good n1).
  { eapply Good_trans; [|exact HG]. subst n1. destruct (m_origin m); try constructor; destruct (m_req m); try constructor;
      (eapply t_a; [apply A_wait|constructor]; [apply incl_refl|now left]). }
  assert (HZ1 : ZR n1 n1).
  { split; [|apply R_refl]. eapply FrZ_Zo; [|exact HZ]. apply FrZ_eq; intro; subst n1;
      destruct (m_origin m); try reflexivity; destruct (m_req m); reflexivity. }
  assert (Hx : obx n1 cid (m_hbh m) (m_e2e m)).
  { subst n1. destruct (m_origin m); try (now apply ob_obx); destruct (m_req m); try (now apply ob_obx);
      eapply record_obx; eauto; reflexivity. }
  assert (FinS : forall n', RS n1 n' cid (m_hbh m) (m_e2e m) -> Zob n').
  { intros n' [[HZ' HR] HS]. split; [exact HZ'|]. eapply obx_settled; [eapply obx_R; eauto|exact HS]. }
  assert (FinR : m_req m = false -> forall n', ZR n1 n' -> Zob n').
  { intros Er n' [HZ' HR]. split; [exact HZ'|]. eapply ob_R; [exact HR|]. subst n1. rewrite Er. destruct (m_origin m); exact H. }
  assert (Hcase : forall c, get_conn n1 cid = Some c -> passes gm c \/
            (c_state c = SConnected /\ m_cmd m = CE /\ (if c_recv c then m_req m = true else m_req m = false))).
  { intros c Ec. rewrite Hc in Ec. apply gate_passes_cases; [apply Hgate; auto|intros G; eapply Hnc; eauto]. }
  rewrite <- Hc in Hpre, Hget.
  clearbody n1. clear H Hx HZ HG Hnc Hgate Hc.
  destruct (if m_req m && g_validate (n_cfg n1) then m_missing m else []);
    [|now apply FinS, send_answer_RS].
  match goal with |- context [if ?b then _ else _] => destruct b end; [now apply FinS, send_answer_RS|].
  destruct (m_req m) eqn:Er, (m_cmd m) eqn:Em.
  - destruct (m_origin m) eqn:Eo; try (now apply FinS, send_answer_RS).
    apply FinS. eapply recv_cer_RS; eauto. intros c Ec Es.
    assert (Hrc : c_recv c = true).
    { destruct (Hcase c Ec) as [[A|[A _]]|[_ [_ A]]].
      - rewrite Es in A. destruct A.
      - rewrite Es in A. discriminate.
      - destruct (c_recv c); [reflexivity|discriminate]. }
    split; [exact Hrc|]. destruct (Hpre eq_refl eq_refl c a Ec Es Hrc eq_refl) as [_ B]. exact (B I).
  - now apply FinS, recv_dwr_RS.
  - now apply FinS, recv_dpr_RS.
  - apply FinS, recv_app_request_RS; auto. intros c Ec.
    destruct HG1 as [_ [_ [_ [_ [Hkh _]]]]]. apply Hkh; [exact (proj1 (get_conn_some _ _ _ Ec))|].
    destruct (Hcase c Ec) as [[A|[_ A]]|[_ [A _]]]; [exact A|destruct (A I)|discriminate].
  - apply FinR; auto. apply recv_cea_ZR; auto.
    intros c Ec. destruct (Hcase c Ec) as [A|[_ [_ A]]]; auto. destruct (c_recv c); [discriminate|auto].
  - apply FinR; auto. now apply recv_dwa_ZR.
  - apply FinR; auto. now apply recv_dpa_ZR.
  - apply FinR; auto. now apply recv_app_answer_ZR.
Qed.

Lemma dispatch_ob n cid m : Good n -> msg_pre gm n cid m -> Zob n -> Zob (fst (dispatch n cid m)).
Proof.
  intros HG Hp H. unfold dispatch. destruct (get_conn n cid) as [c|] eqn:Ec; auto.
  destruct (gate_passes c m) eqn:Eg; auto. apply receive_message_ob; auto; [|congruence].
  intros c' E. rewrite Ec in E. inversion E; subst c'. exact Eg.
Qed.
Lemma dispatch_all_ob ms : forall n cid, Good n -> msgs_pre gm n cid ms -> Zob n -> Zob (fst (dispatch_all n cid ms)).
Proof.
  induction ms as [|m r IH]; intros n cid HG Hp H; cbn [dispatch_all fst]; auto.
  destruct Hp as [Hm Hr]. dpair (dispatch n cid m). dpair (dispatch_all (fst (dispatch n cid m)) cid r).
  cbn [fst]. apply IH; auto; [|now apply dispatch_ob].
  eapply Good_trans; [|exact HG]. apply dispatch_t; [exact Hm|constructor].
Qed.
Lemma wake_ZR target : forall fuel n0 n ds acc, ZR n0 n ->
  ZR n0 (fst ((fix wake (fuel : nat) (n : node) (ds : dials) (acc : list output) {struct fuel} : node * list output :=
         let expire := fun (n : node) =>
           set_apps n (List.map (fun a => set_awaiting a (List.filter (fun w => (target <? snd w)%Z) (a_waiting a))) (n_apps n)) in
         match fuel with
         | O => (expire (set_time n target (n_io_deadline n)), acc)
         | S f =>
             if (n_io_deadline n <=? target)%Z then
               let n1 := set_time n (n_io_deadline n) (n_io_deadline n) in
               let '(n2, o2, ds2) := settle n1 ds in
               wake f n2 ds2 (acc ++ o2)%list
             else (expire (set_time n target (n_io_deadline n)), acc)
         end) fuel n ds acc)).
Proof.
  induction fuel as [|f IH]; intros n0 n ds acc H.
  - cbn [fst]. z_fr H.
  - destruct (n_io_deadline n <=? target)%Z.
    + cbv zeta. dtriple (settle (set_time n (n_io_deadline n) (n_io_deadline n)) ds).
      apply IH. apply settle_ZR. z_fr H.
    + cbn [fst]. z_fr H.
Qed.

Lemma stop_go_ZR cids : forall n0 n acc, ZR n0 n ->
  ZR n0 (fst ((fix go (cids : list nat) (n : node) (acc : list output) {struct cids} : node * list output :=
             match cids with
             | [] => (n, acc)
             | c :: r => match get_conn n c with
                         | Some cn => if is_ready_state (c_state cn)
                                      then let '(n', o') := send_dpr n c in go r n' (acc ++ o')%list
                                      else go r n acc
                         | None => go r n acc
                         end
             end) cids n acc)).
Proof.
  induction cids as [|c r IH]; intros n0 n acc H; [exact H|].
  destruct (get_conn n c) as [cn|] eqn:Ec; [|now apply IH].
  destruct (is_ready_state (c_state cn)) eqn:Er; [|now apply IH].
  dpair (send_dpr n c). apply IH. now apply send_dpr_ZR.
Qed.

Lemma finish_go_ZR cids : forall n0 n acc, ZR n0 n ->
  ZR n0 (fst ((fix go (cids : list nat) (n : node) (acc : list output) {struct cids} : node * list output :=
           match cids with
           | [] => (n, acc)
           | c :: r => let '(n', o') := close_conn n c R_SHUTDOWN in go r n' (acc ++ o')%list
           end) cids n acc)).
Proof.
  induction cids as [|c r IH]; intros n0 n acc H; [exact H|].
  dpair (close_conn n c R_SHUTDOWN). apply IH. now apply close_conn_ZR.
Qed.

Lemma start_go_ZR names : forall n0 n ds acc, ZR n0 n ->
  ZR n0 (fst (fst ((fix go (names : list string) (n : node) (ds : dials) (acc : list output) {struct names} : node * list output * dials :=
           match names with
           | [] => (n, acc, ds)
           | nm :: r =>
               match get_peer n nm with
               | Some p =>
                   if p_persistent p then
                     match ds with
                     | (h0, res) :: dr => let '(n1, o1) := connect_to_peer n nm h0 res in go r n1 dr (acc ++ o1)%list
                     | [] => let '(n1, o1) := connect_to_peer n nm 0%Z DialOk in go r n1 [] (acc ++ o1)%list
                     end
                   else go r n ds acc
               | None => go r n ds acc
               end
           end) names n ds acc))).
Proof.
  induction names as [|nm r IH]; intros n0 n ds acc H; [exact H|].
  destruct (get_peer n nm) as [p|]; [|now apply IH].
  destruct (p_persistent p); [|now apply IH].
  destruct ds as [|[h0 res] dr].
  - dpair (connect_to_peer n nm 0%Z DialOk). apply IH. now apply connect_to_peer_ZR.
  - dpair (connect_to_peer n nm h0 res). apply IH. now apply connect_to_peer_ZR.
Qed.

(* the event discipline: what Application.send_answer sends is an answer *)
Definition ans_ok (e : event) : Prop := match e with EAppAnswer _ m => o_req m = false | _ => True end.

(* route_answer takes the waiting entry (h, e) of `host` *)
Lemma take_bk n n1 host h e k h1 e1 : (forall k, hostof n1 k = hostof n k) ->
  n_peer_waiting n1 = pw_remove (n_peer_waiting n) host (h, e) ->
  bk n k h1 e1 -> hostof n k = Some host \/ bk n1 k h1 e1.
Proof.
  intros Hh Hp [hk [A [B C]]]. destruct (String.eqb hk host) eqn:Eh.
  - apply String.eqb_eq in Eh. subst hk. now left.
  - right. exists hk. rewrite Hh, Hp, pw_get_remove, Eh. auto.
Qed.
Lemma take_obx n n1 k0 host h e : Zo n -> ob n -> hostof n k0 = Some host ->
  (forall k, hostof n1 k = hostof n k) -> n_origin_waiting n1 = n_origin_waiting n ->
  n_peer_waiting n1 = pw_remove (n_peer_waiting n) host (h, e) -> obx n1 k0 h e.
Proof.
  intros HZ H Hk0 Hh Ho Hp k h1 e1 o Hin. rewrite Ho in Hin. pose proof (H _ _ _ _ Hin) as Hb.
  destruct (take_bk n n1 host h e k h1 e1 Hh Hp Hb) as [A|A]; [|now right].
  destruct Hb as [hk [B [C D]]]. rewrite A in B. inversion B; subst hk.
  assert (k = k0) by (eapply Zo_uh; eauto). subst k.
  destruct (Z.eq_dec h1 h) as [E1|E1]; [destruct (Z.eq_dec e1 e) as [E2|E2]; [now left|]|];
    right; exists host; rewrite Hh, Hp, pw_get_remove, String.eqb_refl; (split; [exact A|split; [exact C|]]);
    (apply mem_zz_remove; [exact D|cbn; intros [X Y]; congruence]).
Qed.

Lemma step_answer_ob n ds i m : Good n -> o_req m = false -> Zob n -> Zob (fst (step n ds (EAppAnswer i m))).
Proof.
  intros HG Eq [HZ H]. unfold step, route_answer.
  destruct (List.find _ (n_peer_waiting n)) as [[host l]|]; cbn [fst]; [|split; auto].
  match goal with |- context [List.find _ (n_conns ?N)] => set (n1 := N) end.
  assert (Hh : forall k, hostof n1 k = hostof n k) by reflexivity.
  assert (HZ1 : ZR n1 n1) by (split; [exact HZ|apply R_refl]).
  destruct (List.find _ (n_conns n1)) as [c|] eqn:Ef; cbn [fst].
  - apply find_some in Ef. destruct Ef as [Hin Eh]. apply String.eqb_eq in Eh.
    destruct (GC_parts _ (proj1 HG)) as [[[Hnd _] _] _].
    assert (Hk0 : hostof n (c_id c) = Some host).
    { rewrite <- Eh. apply hostof_get. unfold get_conn. now apply find_conn_in. }
    assert (H1 : obx n1 (c_id c) (o_hbh m) (o_e2e m)) by (eapply take_obx; eauto; reflexivity).
    destruct (is_ready_state (c_state c)); cbn [fst].
    + match goal with |- context [send_message ?N ?C ?M] => dpair (send_message N C M) end.
      match goal with |- context [settle_app' ?N ?D] => dpair (settle_app' N D) end. cbn [fst].
      pose proof (send_message_ZR n1 n1 (c_id c) m HZ1) as HS.
      pose proof (settle_app'_ZR n1 _ ds HS) as [HZ' HR]. split; [exact HZ'|].
      eapply ob_R; [apply (settle_app'_ZR _ _ ds (conj (proj1 HS) (R_refl _)))|].
      eapply obx_settled; [eapply obx_R; [exact (proj2 HS)|exact H1]|].
      left. now apply send_message_clean.
    + pose proof (drop_origin_ZR n1 n1 (c_id c) (o_hbh m) (o_e2e m) HZ1) as [HZ' HR]. split; [exact HZ'|].
      eapply obx_settled; [eapply obx_R; [exact HR|exact H1]|left; apply drop_origin_clean].
  - split; [exact HZ|]. intros k h1 e1 o Hin. change (List.In (k, h1, e1, o) (n_origin_waiting n)) in Hin.
    pose proof (H _ _ _ _ Hin) as Hb.
    destruct (take_bk n n1 host (o_hbh m) (o_e2e m) k h1 e1 Hh eq_refl Hb) as [A|A]; [|exact A].
    exfalso. apply hostof_some in A. destruct A as [c [Ec Eh]].
    pose proof (find_none _ _ Ef c (proj1 (get_conn_some _ _ _ Ec))) as C. cbn in C.
    rewrite Eh, String.eqb_refl in C. discriminate.
Qed.
Lemma Zob_ZR n n' : ZR n n' -> ob n -> Zob n'.
Proof. intros [A B] H. split; [exact A|eapply ob_R; eauto]. Qed.

Lemma step_ob n ds e : Good n -> ev_pre gm n ds e -> ans_ok e -> Zob n -> Zob (fst (step n ds e)).
Proof.
  intros HG Hpre Hok [HZ H0]. destruct e; try (now apply step_answer_ob).
  2: { (* ERecv *)
    unfold step. destruct (get_conn n cid); [|split; auto].
    dtriple (io_iteration n ds).
    match goal with |- context [dispatch_all ?N cid ms] => dpair (dispatch_all N cid ms) end.
    match goal with |- context [settle' ?N ?D] => dpair (settle' N D) end. cbn [fst].
    assert (Hr : ZR n (upd_last_read (fst (fst (io_iteration n ds))) cid)).
    { unfold upd_last_read. match goal with |- ZR _ (set_conns ?N _) => z_frs N end.
      apply io_iteration_ZR. split; [exact HZ|apply R_refl]. }
    assert (HGr : Good (upd_last_read (fst (fst (io_iteration n ds))) cid)).
    { eapply Good_trans; [|exact HG]. unfold upd_last_read. t_soft. apply io_iteration_t. constructor. }
    pose proof (dispatch_all_ob ms _ cid HGr Hpre (Zob_ZR _ _ Hr H0)) as [HZ3 H3].
    eapply Zob_ZR; [|exact H3]. apply settle'_ZR. split; [exact HZ3|apply R_refl]. }
  all: (eapply Zob_ZR; [|exact H0]); assert (H : ZR n n) by (split; [exact HZ|apply R_refl]); unfold step.
  - (* EAccept *)
    destruct (n_stopping n); cbn [fst]; [z_fr H|]. apply settle'_ZR.
    eapply Fr_ZR; [|exact H]. eapply Fr_new; try reflexivity. auto.
  - (* EPeerClose *)
    dpair (close_conn n cid R_GONE). match goal with |- context [settle' ?N ?D] => dpair (settle' N D) end. cbn [fst].
    apply settle'_ZR. now apply close_conn_ZR.
  - (* EReadErr *)
    match goal with |- context [let '(n1, o1) := ?X in _] => assert (H1 : ZR n (fst X)); [|dpair X] end.
    { destruct hard; auto. now apply close_conn_ZR. }
    match goal with |- context [settle' ?N ?D] => dpair (settle' N D) end. cbn [fst].
    now apply settle'_ZR.
  - (* EConnDone *)
    destruct (get_conn n cid) as [c|] eqn:Ec; auto. destruct (cstate_eqb (c_state c) SConnecting) eqn:Esc; auto.
    destruct ok.
    + cbv zeta.
      match goal with |- context [send_cer ?N cid] => assert (H1 : ZR n N); [|dpair (send_cer N cid)] end.
      { destruct (find_conn_peer _ c); z_fr H. }
      match goal with |- context [io_iteration ?N ?D] => dtriple (io_iteration N D) end.
      match goal with |- context [settle' ?N ?D] => dpair (settle' N D) end. cbn [fst].
      apply settle'_ZR. apply io_iteration_ZR. now apply send_cer_ZR.
    + dpair (close_conn n cid R_FAILED_CONNECT).
      match goal with |- context [settle' ?N ?D] => dpair (settle' N D) end. cbn [fst].
      apply settle'_ZR. now apply close_conn_ZR.
  - (* EStall *)
    destruct (get_conn n cid) as [c|]; auto. cbv zeta.
    match goal with |- context [settle' ?N ds] => assert (H1 : ZR n N) by (z_fr H) end.
    destruct b; auto. destruct (c_out c); auto. now apply settle'_ZR.
  - (* ETick *)
    exact (wake_ZR (n_now n + dt)%Z (S (Z.to_nat dt)) n n ds [] H).
  - (* EAppRequest *)
    match goal with |- context [let '(n0, e2e) := ?X in _] => assert (H1 : ZR n (fst X)); [|destruct X as [n1 e2e]; cbn [fst] in H1] end.
    { destruct (o_e2e m =? 0)%Z; cbn [fst]; [z_fr H|exact H]. }
    destruct (route_request n1 app realm) as [[|p0 l]|]; auto.
    match goal with |- context [match ?X with Some p => _ | None => (n1, [ONotRoutable]) end] => destruct X as [p|]; auto end.
    destruct (p_conn p) as [cid|]; auto. destruct (get_conn n1 cid) as [c|]; auto.
    match goal with |- context [let '(n1, hbh) := ?X in _] => assert (H2 : ZR n (fst X)); [|destruct X as [n2 hbh]; cbn [fst] in H2] end.
    { destruct (o_hbh m =? 0)%Z; cbn [fst]; [z_fr H1|exact H1]. }
    cbv zeta.
    match goal with |- context [send_message ?N ?C ?M] => dpair (send_message N C M) end.
    match goal with |- context [settle_app' ?N ?D] => dpair (settle_app' N D) end. cbn [fst].
    apply settle_app'_ZR. apply send_message_ZR. z_fr H2.
  - (* EStop *)
    cbv zeta. assert (H1 : ZR n (set_misc n true (n_next_cid n) (n_e2e n))) by (z_fr H).
    destruct force; auto.
    match goal with |- context [let '(n1, o1) := ?X in _] => assert (H2 : ZR n (fst X)); [|dpair X] end.
    { now apply stop_go_ZR. }
    match goal with |- context [settle' ?N ?D] => dpair (settle' N D) end. cbn [fst].
    now apply settle'_ZR.
  - (* EStopFinish *)
    cbv zeta.
    match goal with |- context [let '(n1, o1) := ?X in _] => assert (H2 : ZR n (fst X)); [|dpair X] end.
    { apply finish_go_ZR. z_fr H. }
    cbn [fst]. z_fr H2.
  - (* EStart *)
    match goal with |- ZR _ (fst (match ?X with _ => _ end)) => assert (H2 : ZR n (fst (fst X))); [|dtriple X] end.
    { now apply start_go_ZR. }
    match goal with |- context [settle' ?N ?D] => dpair (settle' N D) end. cbn [fst].
    now apply settle'_ZR.
Qed.

(* the precondition of a guarded event (as in step_guarded) *)
Lemma guard_ev_pre n ds e : W n -> ev_guard true true n ds e -> ev_pre gm n ds e \/ fst (step n ds e) = n.
Proof.
  intros HW Hg. destruct e; try (left; exact I).
  destruct (get_conn n cid) as [c|] eqn:Ec.
  2:{ right. unfold step. rewrite Ec. reflexivity. }
  left. cbn [ev_guard] in Hg. destruct (Hg c Ec) as [Hst Hid].
  destruct (get_conn_some _ _ _ Ec) as [Hin Eid].
  assert (Hlt : cid < n_next_cid n) by (destruct HW as [[_ Hlt] _]; apply Hlt in Hin; lia).
  cbn [ev_pre]. fold (read_state n ds cid) in *. set (n1 := read_state n ds cid) in *.
  apply (cers_ok_msgs_pre true); [|exact Hid]. intros G. eapply (trans_ncon gm cid n).
  - unfold n1, read_state, upd_last_read. t_soft. apply io_iteration_t. constructor.
  - split; [exact Hlt|]. intros c' E'. rewrite Ec in E'. inversion E'; subst c'. exact Hst.
Qed.

Definition ans_disc (evs : list (dials * event)) : Prop := Forall (fun de => ans_ok (snd de)) evs.

Lemma run_Zob evs : forall n, Good n -> ce_guard n evs -> ans_disc evs -> Zob n -> Zob (fst (run n evs)).
Proof.
  induction evs as [|de r IH]; intros n HG Hc Hd H; [exact H|].
  destruct Hc as [H1 H2]. inversion Hd; subst. rewrite run_cons.
  assert (HW : W n) by (destruct (GC_parts _ (proj1 HG)); assumption).
  apply IH; auto.
  - eapply Good_trans; [|exact HG]. apply (step_guarded true true); auto.
  - destruct (guard_ev_pre n (fst de) (snd de) HW H1) as [Hp|E]; [now apply step_ob|now rewrite E].
Qed.

(* C19: every entry (k, h, e, o) of the origin table is backed by the waiting table of ITS connection: connection k
   exists, has a host identity, and the (first) entry of _peer_waiting for that host lists the pair (h, e) *)
Definition origin_backed (n : node) : Prop :=
  forall k h e o, List.In (k, h, e, o) (n_origin_waiting n) ->
    exists c, get_conn n k = Some c /\ c_host c <> ""%string /\
              mem_zz (h, e) (pw_get (n_peer_waiting n) (c_host c)) = true.
(* the weaker form: some connection has the id, some entry of _peer_waiting lists the pair *)
Definition origin_backed_in (n : node) : Prop :=
  forall k h e o, List.In (k, h, e, o) (n_origin_waiting n) ->
    (exists c, List.In c (n_conns n) /\ c_id c = k) /\
    exists host l, List.In (host, l) (n_peer_waiting n) /\ mem_zz (h, e) l = true.

Lemma ob_origin_backed n : ob n -> origin_backed n.
Proof.
  intros H k h e o Hin. destruct (H _ _ _ _ Hin) as [host [A [B C]]].
  apply hostof_some in A. destruct A as [c [Ec Eh]]. subst host. eauto.
Qed.
Lemma origin_backed_weaken n : origin_backed n -> origin_backed_in n.
Proof.
  intros H k h e o Hin. destruct (H _ _ _ _ Hin) as [c [Ec [Hh Hb]]]. split.
  - exists c. now apply get_conn_some.
  - unfold pw_get in Hb. destruct (List.find _ (n_peer_waiting n)) as [[hs l]|] eqn:E; [|discriminate].
    apply find_some in E. destruct E as [E _]. eauto.
Qed.

(* reachable by a history in which Application.send_answer is only called with answers *)
Definition reach_a (n0 n : node) : Prop :=
  exists evs : list (dials * event), wf_init n0 /\ ans_disc evs /\ n = fst (run n0 evs).
Definition reach_ga (n0 n : node) : Prop :=
  exists evs : list (dials * event), wf_init_g n0 /\ ce_guard n0 evs /\ ans_disc evs /\ n = fst (run n0 evs).
Lemma reach_ga_reach_g n0 n : reach_ga n0 n -> reach_g n0 n.
Proof. intros [evs [A [B [_ C]]]]. exists evs. auto. Qed.
Lemma reach_ga_reach_a n0 n : reach_ga n0 n -> reach_a n0 n.
Proof. intros [evs [[A _] [_ [B C]]]]. exists evs. auto. Qed.
Lemma reach_a_reach n0 n : reach_a n0 n -> reach n0 n.
Proof. intros [evs [A [_ C]]]. exists evs. auto. Qed.

(* OLD (origin table keyed by the pair only): forall n0 n, reach_a n0 n -> origin_backed n, without any guard.
   With the table keyed by connection the entries of a connection leave with THAT connection only, so the
   statement needs "one connection per host identity" (Zo), i.e. the guards: without clause (iii) it is false even
   in the weak form (C19_origin_backed_unguarded_refuted). *)
Theorem C19_origin_backed : forall n0 n, reach_ga n0 n -> origin_backed n.
Proof.
  intros n0 n [evs [[Hw Hne] [Hg [Hd E]]]]. subst n. apply ob_origin_backed.
  apply run_Zob; auto.
  - split; [now apply GC_init|now apply NI_init].
  - destruct Hw as [Ec [_ [_ [_ [_ [Eo _]]]]]]. split.
    + intros k h Hk. unfold hostof, hostl in Hk. rewrite Ec in Hk. discriminate.
    + intros k h e o Hin. rewrite Eo in Hin. destruct Hin.
Qed.

Corollary C19_no_conns_no_origin : forall n0 n, reach_ga n0 n -> n_conns n = [] -> n_origin_waiting n = [].
Proof.
  intros n0 n H E. pose proof (C19_origin_backed _ _ H) as Hb.
  destruct (n_origin_waiting n) as [|[[[k h] e] o] l] eqn:Eo; auto.
  destruct (Hb k h e o) as [c [Ec _]]; [rewrite Eo; now left|].
  apply get_conn_some in Ec. rewrite E in Ec. destruct Ec as [[] _].
Qed.


(* ---------------------------------------------------------------------------------------- *)
(* 9. witnesses: the statements are not vacuous, and the unguarded ones are false             *)
(* ---------------------------------------------------------------------------------------- *)
Module Witness.
Definition mkpeer (nm : string) (addr : bool) : peer :=
  {| p_name := nm; p_realm := "r"%string; p_has_addr := addr; p_persistent := addr; p_always := false;
     p_cea := None; p_cer := None; p_dwa := None; p_idle := None; p_rwait := 30%Z;
     p_conn := None; p_reason := None; p_lastconn := None; p_lastdisc := None; p_reqs := 0%Z |}.
Definition cfg0 : cfg :=
  {| g_host := "me"%string; g_realm := "r"%string; g_cea := 4%Z; g_cer := 4%Z; g_dwa := 4%Z; g_idle := 30%Z;
     g_wakeup := 6%Z; g_rsize := 2; g_validate := false; g_state_id := 1%Z |}.
Definition app0 : Node.app := {| a_id := 4%Z; a_auth := true; a_acct := false; a_ready := false; a_waiting := [] |}.
(* one auth application (id 4) routed to every configured peer *)
Definition node0 (ps : list peer) : node :=
  {| n_cfg := cfg0; n_now := 0%Z; n_io_deadline := 6%Z; n_stopping := false; n_peers := ps; n_conns := [];
     n_next_cid := 0; n_half_ready := []; n_socket_peers := [];
     n_routes := [("r"%string, [(RApp 0, List.map p_name ps)])]; n_apps := [app0];
     n_app_waiting := []; n_peer_waiting := []; n_origin_waiting := []; n_sent_answers := []; n_e2e := 1%Z |}.
(* CER (req = true) / CEA with Result-Code 2001 from Origin-Host o, advertising the auth applications `auth` *)
Definition ce_apps (req : bool) (o : string) (hbh : Z) (auth : list Z) : msg :=
  {| m_cmd := CE; m_req := req; m_p := false; m_e := false; m_t := false; m_app := 0%Z; m_hbh := hbh; m_e2e := hbh;
     m_origin := Present o; m_drealm := Undeclared; m_result := (if req then Absent else Present 2001%Z);
     m_missing := []; m_has_failed_avp_slot := false; m_auth := auth; m_acct := []; m_tag := 0%Z |}.
(* ... advertising auth application 4 (the node's) *)
Definition ce (req : bool) (o : string) (hbh : Z) : msg := ce_apps req o hbh [4%Z].
Definition appreq (o : string) (hbh : Z) : msg :=
  {| m_cmd := App 272%Z; m_req := true; m_p := false; m_e := false; m_t := false; m_app := 4%Z; m_hbh := hbh; m_e2e := hbh;
     m_origin := Present o; m_drealm := Present "r"%string; m_result := Absent;
     m_missing := []; m_has_failed_avp_slot := false; m_auth := []; m_acct := []; m_tag := 0%Z |}.
Definition dpr (o : string) (hbh : Z) : msg :=
  {| m_cmd := DP; m_req := true; m_p := false; m_e := false; m_t := false; m_app := 0%Z; m_hbh := hbh; m_e2e := hbh;
     m_origin := Present o; m_drealm := Undeclared; m_result := Absent;
     m_missing := []; m_has_failed_avp_slot := false; m_auth := []; m_acct := []; m_tag := 0%Z |}.

Lemma wf_node0 ps : NoDup (List.map p_name ps) ->
  (forall p, List.In p ps -> p_conn p = None /\ p_reason p = None /\ p_lastdisc p = None) -> wf_init (node0 ps).
Proof. intros H1 H2. unfold wf_init. cbn. repeat (split; [solve [auto]|]). auto. Qed.

Ltac wf_tac :=
  apply wf_node0; [repeat constructor; cbn; intuition discriminate|
                   cbn; intros p Hp; repeat (destruct Hp as [Hp|Hp]; [subst p; cbn; auto|]); destruct Hp].
(* discharge ce_guard / cer_guard / conn_guard for a concrete history *)
Ltac cer_ok_tac :=
  intros;
  repeat match goal with
         | H : Some _ = Some _ |- _ => inversion H; clear H
         | H : Present _ = Present _ |- _ => inversion H; clear H
         end; subst;
  first [discriminate|cbn; auto].
Ltac ev_guard_tac :=
  match goal with
  | |- ev_guard _ _ _ _ (ERecv _ _) =>
      let c := fresh "c" in let Hc := fresh "Hc" in
      cbn [ev_guard snd fst]; intros c Hc; vm_compute in Hc; inversion Hc; subst c; clear Hc;
      split; [vm_compute; first [exact I|discriminate]|];
      vm_compute; repeat match goal with |- _ /\ _ => split end; first [exact I|cer_ok_tac]
  | |- ev_guard _ _ _ _ _ => exact I
  end.
Ltac ce_guard_tac := unfold ce_guard, cer_guard, conn_guard; cbn [guard_from];
                     repeat (split; [cbn [snd fst]; ev_guard_tac|]); try exact I.
End Witness.
Import Witness.

(* a reachable (even under the guards) state with two connections, one of them ready *)
Example reachable_two_conns :
  let n0 := node0 [mkpeer "a" true; mkpeer "b" false] in
  let evs := [([], EStart); ([], ERecv 0 [ce false "a" 1%Z]); ([], EAccept 1%Z)] in
  let n := fst (run n0 evs) in
  reach n0 n /\ reach_c n0 n /\ reach_nc n0 n /\ reach_g n0 n /\
  List.map (fun c => (c_id c, c_recv c, c_state c, c_node_name c, c_host c)) (n_conns n) =
    [(0, false, SReady, "a"%string, "a"%string); (1, true, SConnected, ""%string, ""%string)] /\
  List.map (fun p => (p_name p, p_conn p)) (n_peers n) = [("a"%string, Some 0); ("b"%string, None)] /\
  n_half_ready n = [1] /\ n_socket_peers n = [0; 1].
Proof.
  intros n0 evs n.
  assert (Hw : wf_init n0) by (subst n0; wf_tac).
  assert (Hg : reach_g n0 n).
  { exists evs. split; [split; [exact Hw|cbn; intuition discriminate]|]. split; [|reflexivity].
    subst n0 evs. ce_guard_tac. }
  split; [exists evs; auto|]. split; [now apply reach_g_reach_c|]. split; [now apply reach_g_reach_nc|].
  split; [exact Hg|]. vm_compute. auto.
Qed.

(* ---- the election (RFC 6733 5.6.4), guarded histories.  Peer "a" < local host "me": the second
   inbound connection of a wins, the first is closed (CLEAN), a.connection is the second.  Peer "p" >
   "me": the second connection is refused (4003, CLOSING), the first stays a.connection. ---- *)
Example election_won :
  let n0 := node0 [mkpeer "a" false] in
  let evs := [([], EAccept 1%Z); ([], ERecv 0 [ce true "a" 1%Z]); ([], EAccept 1%Z); ([], ERecv 1 [ce true "a" 1%Z])] in
  let n := fst (run n0 evs) in
  reach_g n0 n /\
  List.map (fun c => (c_id c, c_state c, c_node_name c, c_host c)) (n_conns n) = [(1, SReady, "a"%string, "a"%string)] /\
  List.map (fun p => (p_name p, p_conn p)) (n_peers n) = [("a"%string, Some 1)] /\
  List.filter (fun o => match o with OClose _ _ => true | _ => false end)
    (snd (step (fst (run n0 (List.firstn 3 evs))) [] (ERecv 1 [ce true "a" 1%Z]))) = [OClose 0 R_CLEAN].
Proof.
  intros n0 evs n. split.
  - exists evs. split; [split; [subst n0; wf_tac|cbn; intuition discriminate]|]. split; [|reflexivity].
    subst n0 evs. ce_guard_tac.
  - vm_compute. auto.
Qed.

Example election_lost :
  let n0 := node0 [mkpeer "p" false] in
  let evs := [([], EAccept 1%Z); ([], ERecv 0 [ce true "p" 1%Z]); ([], EAccept 1%Z); ([], ERecv 1 [ce true "p" 1%Z])] in
  let n := fst (run n0 evs) in
  reach_g n0 n /\
  List.map (fun c => (c_id c, c_state c, c_node_name c, c_host c)) (n_conns n) = [(0, SReady, "p"%string, "p"%string)] /\
  List.map (fun p => (p_name p, p_conn p)) (n_peers n) = [("p"%string, Some 0)] /\
  List.map (fun o => match o with OSend k m => Some (k, o_result m) | _ => None end)
    (List.filter (fun o => match o with OSend 1 _ => true | _ => false end)
       (snd (step (fst (run n0 (List.firstn 3 evs))) [] (ERecv 1 [ce true "p" 1%Z])))) = [Some (1, Some RC_ELECTION_LOST)].
Proof.
  intros n0 evs n. split.
  - exists evs. split; [split; [subst n0; wf_tac|cbn; intuition discriminate]|]. split; [|reflexivity].
    subst n0 evs. ce_guard_tac.
  - vm_compute. auto.
Qed.

(* ---- the repaired receive_cer: what used to be the counterexamples to C13 / C19 without clauses (i)
   and (ii) -- a second CER (other Origin-Host) on a READY inbound connection, a CER on a READY outbound
   connection -- is now ignored; the histories are guarded ---- *)
Example second_cer_ignored :
  let n0 := node0 [mkpeer "b" false; mkpeer "c" false] in
  let evs := [([], EAccept 1%Z); ([], ERecv 0 [ce true "b" 1%Z; appreq "b" 7%Z; ce true "c" 2%Z])] in
  let n := fst (run n0 evs) in
  reach_g n0 n /\
  List.map (fun c => (c_id c, c_state c, c_node_name c, c_host c)) (n_conns n) = [(0, SReady, "b"%string, "b"%string)] /\
  List.map (fun p => (p_name p, p_conn p)) (n_peers n) = [("b"%string, Some 0); ("c"%string, None)] /\
  n_peer_waiting n = [("b"%string, [(7%Z, 7%Z)])].
Proof.
  intros n0 evs n. split.
  - exists evs. split; [split; [subst n0; wf_tac|cbn; intuition discriminate]|]. split; [|reflexivity].
    subst n0 evs. ce_guard_tac.
  - vm_compute. auto.
Qed.

Example outbound_cer_ignored :
  let n0 := node0 [mkpeer "a" true; mkpeer "b" false] in
  let evs := [([], EStart); ([], ERecv 0 [ce false "a" 1%Z]); ([], ERecv 0 [ce true "b" 2%Z])] in
  let n := fst (run n0 evs) in
  reach_g n0 n /\
  List.map (fun c => (c_id c, c_state c, c_node_name c, c_host c)) (n_conns n) = [(0, SReady, "a"%string, "a"%string)] /\
  List.map (fun p => (p_name p, p_conn p)) (n_peers n) = [("a"%string, Some 0); ("b"%string, None)].
Proof.
  intros n0 evs n. split.
  - exists evs. split; [split; [subst n0; wf_tac|cbn; intuition discriminate]|]. split; [|reflexivity].
    subst n0 evs. ce_guard_tac.
  - vm_compute. auto.
Qed.

(* ---- the repaired receive_cea: the former counterexample to C13_peer_conn_live (CEA with a foreign
   Origin-Host on the dialled connection) closes the connection with CER_REJECTED; the history is
   guarded (answers are unrestricted) ---- *)
Example cea_foreign_identity_closed :
  let n0 := node0 [mkpeer "a" true; mkpeer "b" false] in
  let evs := [([], EStart); ([], ERecv 0 [ce false "b" 1%Z])] in
  let n := fst (run n0 evs) in
  reach_g n0 n /\ n_conns n = [] /\
  List.map (fun p => (p_name p, p_conn p, p_reason p)) (n_peers n) =
    [("a"%string, None, Some R_CER_REJECTED); ("b"%string, None, None)].
Proof.
  intros n0 evs n. split.
  - exists evs. split; [split; [subst n0; wf_tac|cbn; intuition discriminate]|]. split; [|reflexivity].
    subst n0 evs. ce_guard_tac.
  - vm_compute. auto.
Qed.

(* ---- FINDING (C13), clause (i') of the guard is needed.  A CER answered 5010 NO_COMMON_APPLICATION
   leaves the connection CONNECTED with its node name set.  Peers b, c; an accepted connection sends
   CER "b" advertising only application 5 (answer 5010), then CER "c" advertising application 4: the
   node name stays b (it is filled in only when empty), the election sees no rival named c, the host
   identity becomes c and _assign_peer_connection files the connection under c; when the connection
   closes remove_peer_connection looks the peer up by node name (b): c.connection dangles.  The
   history satisfies clause (iii). ---- *)
Theorem C13_cer_origin_change_refuted :
  exists n0 evs, wf_init_g n0 /\ conn_guard n0 evs /\
    let n := fst (run n0 evs) in
    exists p cid, List.In p (n_peers n) /\ p_conn p = Some cid /\
                  ~ List.In cid (List.map c_id (n_conns n)) /\ n_conns n = [].
Proof.
  exists (node0 [mkpeer "b" false; mkpeer "c" false]).
  exists [([], EAccept 1%Z); ([], ERecv 0 [ce_apps true "b" 1%Z [5%Z]; ce true "c" 2%Z]); ([], EPeerClose 0)].
  split; [split; [wf_tac|cbn; intuition discriminate]|]. split; [ce_guard_tac|].
  vm_compute. eexists. exists 0. split; [right; left; reflexivity|]. cbn. auto.
Qed.

(* ---- FINDING (C13, converse and host identities): without clause (i') the run-level converse and
   C06_ready_known_g fail as well: after CER "p" (5010), CER "q" on connection 0 (READY, node name p,
   host identity q, q.connection = 0) a first CER "q" on connection 1 finds no rival named q; connection 1
   is READY, named q, and q.connection is still 0. ---- *)
Theorem C13_peer_conn_exact_unguarded_refuted :
  exists n0 evs, wf_init_g n0 /\ conn_guard n0 evs /\
    let n := fst (run n0 evs) in
    (exists p c, List.In p (n_peers n) /\ List.In c (n_conns n) /\ c_node_name c = p_name p /\
                 is_ready_state (c_state c) = true /\ p_conn p <> Some (c_id c)) /\
    (exists c, List.In c (n_conns n) /\ is_ready_state (c_state c) = true /\ c_host c <> c_node_name c).
Proof.
  exists (node0 [mkpeer "p" false; mkpeer "q" false]).
  exists [([], EAccept 1%Z); ([], ERecv 0 [ce_apps true "p" 1%Z [5%Z]; ce true "q" 2%Z]); ([], EAccept 1%Z);
          ([], ERecv 1 [ce true "q" 1%Z])].
  split; [split; [wf_tac|cbn; intuition discriminate]|]. split; [ce_guard_tac|].
  vm_compute. split.
  - eexists. eexists. split; [right; left; reflexivity|]. split; [right; left; reflexivity|]. cbn.
    repeat split; auto. discriminate.
  - eexists. split; [left; reflexivity|]. cbn. split; auto. discriminate.
Qed.

(* ... and C13_one_conn_per_peer: an accepted connection is named p by a CER answered 5010; the node then
   dials p (p.connection is unset) and completes the exchange on connection 1; a CER "c" on connection 0
   makes it READY under its old node name: two READY connections named p. *)
Theorem C13_one_conn_per_peer_unguarded_refuted :
  exists n0 evs, wf_init_g n0 /\ conn_guard n0 evs /\
    let n := fst (run n0 evs) in
    exists c1 c2, List.In c1 (n_conns n) /\ List.In c2 (n_conns n) /\ c_node_name c1 = c_node_name c2 /\
                  is_ready_state (c_state c1) = true /\ is_ready_state (c_state c2) = true /\ c_id c1 <> c_id c2.
Proof.
  exists (node0 [mkpeer "p" true; mkpeer "c" false]).
  exists [([], EAccept 1%Z); ([], ERecv 0 [ce_apps true "p" 1%Z [5%Z]]); ([], EStart); ([], ERecv 1 [ce false "p" 1%Z]);
          ([], ERecv 0 [ce true "c" 2%Z])].
  split; [split; [wf_tac|cbn; intuition discriminate]|]. split; [ce_guard_tac|].
  vm_compute. eexists. eexists. split; [left; reflexivity|]. split; [right; left; reflexivity|]. cbn.
  repeat split; auto. discriminate.
Qed.

(* ---- clause (iii) of the guard is needed (not affected by the repairs): the gate of PeerConnection
   lets everything through in state CONNECTING; an application request read from a connection whose
   connect() is still in progress is filed under the empty host identity and is never dropped.  The
   history satisfies clause (i'). ---- *)
Theorem C19_connecting_read_refuted :
  exists n0 evs, wf_init_g n0 /\ cer_guard n0 evs /\
    let n := fst (run n0 evs) in
    n_conns n = [] /\ n_peer_waiting n = [(""%string, [(7%Z, 7%Z)])].
Proof.
  exists (node0 [mkpeer "a" true]).
  exists [([(1%Z, DialInProgress)], EStart); ([], ERecv 0 [appreq "a" 7%Z]); ([], EConnDone 0 true);
          ([], ERecv 0 [ce false "a" 1%Z]); ([], EPeerClose 0)].
  split; [split; [wf_tac|cbn; intuition discriminate]|]. split; [ce_guard_tac|].
  vm_compute. auto.
Qed.

(* ... and for C06_ready_known_g: a DPR read from a CONNECTING connection makes it DISCONNECTING without a
   host identity *)
Theorem C06_connecting_read_refuted :
  exists n0 evs, wf_init_g n0 /\ cer_guard n0 evs /\
    let n := fst (run n0 evs) in
    exists c, List.In c (n_conns n) /\ c_state c = SDisconnecting /\ c_host c <> c_node_name c.
Proof.
  exists (node0 [mkpeer "a" true]).
  exists [([(1%Z, DialInProgress)], EStart); ([], ERecv 0 [dpr "a" 7%Z])].
  split; [split; [wf_tac|cbn; intuition discriminate]|]. split; [ce_guard_tac|].
  vm_compute. eexists. split; [left; reflexivity|]. cbn. split; auto. discriminate.
Qed.

(* ---- FINDING: the hypothesis "no peer is named the empty string" is needed for C13 and C19.  The node
   dials the peer named ""; receive_cea accepts any Origin-Host on a connection without node name: the
   CEA of "q" files the connection under q; when it closes only the peer "" is cleared (C13).  With the
   CEA of "" the connection is READY without host identity and a request is filed under "" (C19).  Both
   histories satisfy (i') and (iii).  (C12 no longer needs the hypothesis: the former witness, a CER on a
   READY outbound connection, is ignored.) ---- *)
Theorem C13_empty_name_refuted :
  exists n0 evs, wf_init n0 /\ ce_guard n0 evs /\
    let n := fst (run n0 evs) in
    exists p cid, List.In p (n_peers n) /\ p_conn p = Some cid /\
                  ~ List.In cid (List.map c_id (n_conns n)) /\ n_conns n = [].
Proof.
  exists (node0 [mkpeer "" true; mkpeer "q" false]).
  exists [([], EStart); ([], ERecv 0 [ce false "q" 1%Z]); ([], EPeerClose 0)].
  split; [wf_tac|]. split; [ce_guard_tac|].
  vm_compute. eexists. exists 0. split; [right; left; reflexivity|]. cbn. auto.
Qed.

Theorem C19_empty_name_refuted :
  exists n0 evs, wf_init n0 /\ ce_guard n0 evs /\
    let n := fst (run n0 evs) in
    List.In ""%string (List.map fst (n_peer_waiting n)).
Proof.
  exists (node0 [mkpeer "" true]).
  exists [([], EStart); ([], ERecv 0 [ce false "" 1%Z]); ([], ERecv 0 [appreq "x" 7%Z])].
  split; [wf_tac|]. split; [ce_guard_tac|].
  vm_compute. auto.
Qed.

(* what the application hands to send_answer for the request with identifiers (hbh, hbh) *)
Definition app_ans (req : bool) (hbh : Z) : omsg :=
  {| o_cmd := App 272%Z; o_req := req; o_app := 4%Z; o_hbh := hbh; o_e2e := hbh; o_result := Some 2001%Z;
     o_failed := []; o_tag := 0%Z |}.

(* not vacuous: a request that is waiting for the application's answer is in both tables; the answer empties both *)
Example origin_backed_witness :
  let n0 := node0 [mkpeer "a" false] in
  let evs := [([], EAccept 1%Z); ([], ERecv 0 [ce true "a" 1%Z]); ([], ERecv 0 [appreq "a" 7%Z])] in
  let n := fst (run n0 evs) in
  let n' := fst (run n0 (evs ++ [([], EAppAnswer 0 (app_ans false 7%Z))])) in
  reach_ga n0 n /\ n_origin_waiting n = [(0, 7%Z, 7%Z, "a"%string)] /\ n_peer_waiting n = [("a"%string, [(7%Z, 7%Z)])] /\
  reach_ga n0 n' /\ n_origin_waiting n' = [] /\ n_peer_waiting n' = [("a"%string, [])].
Proof.
  cbv zeta. split; [|split; [vm_compute; reflexivity|split; [vm_compute; reflexivity|split; [|split; vm_compute; reflexivity]]]].
  - exists [([], EAccept 1%Z); ([], ERecv 0 [ce true "a" 1%Z]); ([], ERecv 0 [appreq "a" 7%Z])].
    split; [split; [wf_tac|cbn; intuition discriminate]|]. split; [ce_guard_tac|].
    split; [|reflexivity]. repeat constructor.
  - exists [([], EAccept 1%Z); ([], ERecv 0 [ce true "a" 1%Z]); ([], ERecv 0 [appreq "a" 7%Z]);
            ([], EAppAnswer 0 (app_ans false 7%Z))].
    split; [split; [wf_tac|cbn; intuition discriminate]|]. split; [ce_guard_tac|].
    split; [|reflexivity]. repeat constructor.
Qed.

(* ---- FINDING: the discipline is needed.  Application.send_answer called with a message whose request flag is
   set: route_answer takes the waiting entry, send_message treats the message as a request (no _record_answer),
   and the origin entry stays for ever although nothing backs it.  The history satisfies (i') and (iii). ---- *)
Theorem C19_origin_backed_request_flag_refuted :
  exists n0 evs, wf_init_g n0 /\ ce_guard n0 evs /\
    let n := fst (run n0 evs) in
    n_origin_waiting n = [(0, 7%Z, 7%Z, "a"%string)] /\ n_peer_waiting n = [("a"%string, [])] /\
    ~ origin_backed_in n /\ ~ origin_backed n.
Proof.
  exists (node0 [mkpeer "a" false]).
  exists [([], EAccept 1%Z); ([], ERecv 0 [ce true "a" 1%Z]); ([], ERecv 0 [appreq "a" 7%Z]);
          ([], EAppAnswer 0 (app_ans true 7%Z))].
  split; [split; [wf_tac|cbn; intuition discriminate]|]. split; [ce_guard_tac|].
  cbv zeta. split; [reflexivity|]. split; [reflexivity|].
  assert (Hn : ~ origin_backed_in (fst (run (node0 [mkpeer "a" false])
            [([], EAccept 1%Z); ([], ERecv 0 [ce true "a" 1%Z]); ([], ERecv 0 [appreq "a" 7%Z]);
             ([], EAppAnswer 0 (app_ans true 7%Z))]))).
  { intros H. destruct (H 0 7%Z 7%Z "a"%string) as [_ [host [l [Hin Hm]]]]; [vm_compute; auto|].
    vm_compute in Hin. destruct Hin as [E|[]]. inversion E; subst. discriminate Hm. }
  split; [exact Hn|]. intros H. apply Hn. now apply origin_backed_weaken.
Qed.

(* ---- clause (iii) of the guard is needed for C19_origin_backed (it was not while the origin table was keyed by
   the pair only: the old statement had no guard).  A request read from a connection whose connect() is still in
   progress is filed under the empty host identity; the entries of the origin table leave with THEIR connection
   only, but the waiting set of the empty host identity leaves with any connection that has no host identity
   yet: the origin entry of connection 0 stays, nothing backs it.  The history satisfies (i') and the
   discipline. ---- *)
Theorem C19_origin_backed_unguarded_refuted :
  exists n0 evs, wf_init_g n0 /\ cer_guard n0 evs /\ ans_disc evs /\
    let n := fst (run n0 evs) in
    reach_a n0 n /\ n_origin_waiting n = [(0, 7%Z, 7%Z, "a"%string)] /\ n_peer_waiting n = [] /\
    ~ origin_backed_in n /\ ~ origin_backed n.
Proof.
  exists (node0 [mkpeer "a" true]).
  exists [([(1%Z, DialInProgress)], EStart); ([], ERecv 0 [appreq "a" 7%Z]); ([], EAccept 1%Z); ([], EPeerClose 1)].
  split; [split; [wf_tac|cbn; intuition discriminate]|]. split; [ce_guard_tac|].
  split; [repeat constructor|]. cbv zeta.
  split; [eexists; split; [wf_tac|split; [|reflexivity]]; repeat constructor|].
  split; [reflexivity|]. split; [reflexivity|].
  assert (Hn : ~ origin_backed_in (fst (run (node0 [mkpeer "a" true])
            [([(1%Z, DialInProgress)], EStart); ([], ERecv 0 [appreq "a" 7%Z]); ([], EAccept 1%Z); ([], EPeerClose 1)]))).
  { intros H. destruct (H 0 7%Z 7%Z "a"%string) as [_ [host [l [Hin _]]]]; [vm_compute; auto|].
    vm_compute in Hin. destruct Hin. }
  split; [exact Hn|]. intros H. apply Hn. now apply origin_backed_weaken.
Qed.

(* ---------------------------------------------------------------------------------------- *)
(* 10. step-level facts: the ready flag of applications (C13_ready_flag_partial) and the       *)
(*     partial converse of C13                                                                *)
(* ---------------------------------------------------------------------------------------- *)
Lemma nth_map_combine_seq {A B} (f : nat * A -> B) (l : list A) : forall s i,
  List.nth_error (List.map f (List.combine (List.seq s (List.length l)) l)) i =
  option_map (fun a => f (s + i, a)) (List.nth_error l i).
Proof.
  induction l as [|a l IH]; intros s i; cbn.
  - destruct i; reflexivity.
  - destruct i as [|i]; cbn; [now rewrite Nat.add_0_r|]. rewrite IH. now rewrite Nat.add_succ_r.
Qed.

(* _flag_connection_as_ready makes ready every application one of whose routed peers is connected
   through this connection (and changes no other application) *)
Theorem C13_ready_flag_partial : forall n cid i a, List.nth_error (n_apps n) i = Some a ->
  List.nth_error (n_apps (flag_ready n cid)) i =
    Some (if List.existsb (fun nm => peer_has_conn n nm cid) (app_peers n i) then set_aready a true else a).
Proof.
  intros n cid i a H. unfold flag_ready. cbn [n_apps set_apps set_conns].
  rewrite (nth_map_combine_seq _ (n_apps n) 0 i). rewrite H. reflexivity.
Qed.

(* remove_peer_connection clears the ready flag of exactly the applications none of whose routed
   peers has a ready connection left (evaluated in the state after the removal) *)
Theorem C13_ready_flag_removed : forall n cid r c i a, get_conn n cid = Some c ->
  List.nth_error (n_apps n) i = Some a ->
  let n' := remove_conn n cid r in
  List.nth_error (n_apps n') i = Some (if any_peer_ready n' (app_peers n' i) then a else set_aready a false).
Proof.
  intros n cid r c i a Hg H. cbv zeta. unfold remove_conn. rewrite Hg.
  destruct (find_conn_peer n c) as [p|]; [destruct (p_conn p) as [k|]; [destruct (Nat.eqb k cid)|]|];
    cbn [n_apps set_apps set_conns set_peers set_waiting set_tables];
    rewrite (nth_map_combine_seq _ (n_apps n) 0 i); rewrite H; reflexivity.
Qed.

(* partial converse of C13 at the place where it is established: when the capabilities exchange of
   connection cid succeeds (assign + flag ready) and NO OTHER live connection carries the peer's
   name, the peer's connection IS cid afterwards.  (The election establishes the premise: see
   C13_election_clears_rivals; the run-level statement is C13_peer_conn_exact.) *)
Lemma assign_peers n cid c p : get_conn n cid = Some c -> c_host c <> ""%string -> get_peer n (c_host c) = Some p ->
  n_peers (assign_peer_conn n cid) =
  upd_peer (n_peers n) (c_host c) (assign_fn cid (fun p => if mem_nat cid (n_half_ready n) then Some (n_now n) else p_lastconn p)).
Proof.
  intros Hg Hh Hp. unfold assign_peer_conn. rewrite Hg. apply String.eqb_neq in Hh. rewrite Hh, Hp.
  destruct (mem_nat cid (n_half_ready n)); reflexivity.
Qed.

Theorem C13_peer_conn_converse_partial : forall n cid c p,
  P_ids n -> P_names n -> G_live n ->
  get_conn n cid = Some c -> List.In p (n_peers n) -> c_host c = p_name p -> p_name p <> ""%string ->
  (forall c', List.In c' (n_conns n) -> c_node_name c' = p_name p -> c_id c' = cid) ->
  let n' := flag_ready (assign_peer_conn n cid) cid in
  exists p', get_peer n' (p_name p) = Some p' /\ p_conn p' = Some cid /\
             exists c', get_conn n' cid = Some c' /\ c_state c' = SReady.
Proof.
  intros n cid c p Hi Hn Hl Hg Hp Eh Hne Hu n'.
  assert (Hgp : get_peer n (c_host c) = Some p) by (rewrite Eh; now apply get_peer_in).
  exists (assign_fn cid (fun p => if mem_nat cid (n_half_ready n) then Some (n_now n) else p_lastconn p) p).
  split; [|split].
  - subst n'. unfold get_peer, flag_ready. cbn [n_peers set_apps set_conns].
    erewrite assign_peers by (eauto; congruence). rewrite Eh. rewrite find_upd_peer by (intro; reflexivity).
    rewrite Eh in Hgp. unfold get_peer in Hgp. now rewrite Hgp.
  - unfold assign_fn. cbn. destruct (p_conn p) as [k|] eqn:Ek; auto.
    destruct (Hl p k Hp Ek) as [c' [Hin [Eid En]]]. f_equal. rewrite <- Eid. now apply Hu.
  - assert (Ec : n_conns (assign_peer_conn n cid) = n_conns n).
    { unfold assign_peer_conn. rewrite Hg. destruct (String.eqb (c_host c) ""); auto. rewrite Hgp.
      destruct (mem_nat cid (n_half_ready n)); reflexivity. }
    exists (set_cstate c SReady). split; auto. subst n'. unfold flag_ready, get_conn. cbn [n_conns set_apps set_conns].
    rewrite Ec. rewrite find_upd_conn by (intro; reflexivity). unfold get_conn in Hg. now rewrite Hg.
Qed.

(* the election, step level (no reachability needed): once the rivals are closed, connection cid is the
   only connection that carries the node name `host`; the rivals' ids are in none of the tables *)
Theorem C13_election_clears_rivals : forall n cid host r,
  let n' := fst (close_all n (election_rivals n cid host) r) in
  (forall c', List.In c' (n_conns n') -> c_node_name c' = host -> c_id c' = cid) /\
  (forall c, get_conn n cid = Some c -> List.In c (n_conns n')) /\
  (forall c', List.In c' (n_conns n') -> List.In c' (n_conns n)).
Proof.
  intros n cid host r n'. split; [|split].
  - intros c' Hin En. apply close_all_in in Hin. destruct Hin as [Hin Hnr].
    destruct (Nat.eq_dec (c_id c') cid) as [D|D]; auto. exfalso. apply Hnr.
    unfold election_rivals. apply in_map. apply filter_In. split; auto.
    apply andb_true_iff. split; [now apply negb_true_iff, Nat.eqb_neq|now apply String.eqb_eq].
  - intros c Hc. destruct (get_conn_some _ _ _ Hc) as [Hin Eid]. subst n'.
    assert (Hnr : ~ List.In cid (election_rivals n cid host)).
    { unfold election_rivals. intro H. apply in_map_iff in H. destruct H as [x [E H]]. apply filter_In in H.
      destruct H as [_ H]. apply andb_true_iff in H. destruct H as [H _]. apply negb_true_iff, Nat.eqb_neq in H. auto. }
    revert Hnr Hin. generalize (election_rivals n cid host). intros ks. clear Hc. revert n.
    induction ks as [|k ks IH]; intros n Hnr Hin; cbn [close_all fst]; auto.
    dpair (close_conn n k r). dpair (close_all (fst (close_conn n k r)) ks r). cbn [fst].
    apply IH; [intro; apply Hnr; now right|].
    unfold close_conn. destruct (get_conn n k) as [ck|] eqn:Ek; cbn [fst]; auto.
    erewrite rc_conns by eauto. apply filter_In. split; auto. apply negb_true_iff, Nat.eqb_neq.
    intro D. apply Hnr. left. congruence.
  - intros c' Hin. apply close_all_in in Hin. tauto.
Qed.

(* ---------------------------------------------------------------------------------------- *)
(* 11. assumptions                                                                            *)
(* ---------------------------------------------------------------------------------------- *)
Print Assumptions I_ids.
Print Assumptions C13_tables_subset.
Print Assumptions C13_closed_nowhere.
Print Assumptions C13_closed_stays_closed.
Print Assumptions C13_reason_set.
Print Assumptions remove_conn_sets_reason.
Print Assumptions C19_windows_bounded.
Print Assumptions C12_outbound_owned.
Print Assumptions C12_single_outbound.
Print Assumptions C06_ready_inbound_known.
Print Assumptions cer_guard_syn_sufficient.
Print Assumptions C13_peer_conn_live.
Print Assumptions C13_peer_conn_live_strong.
Print Assumptions C13_peer_conn_exact.
Print Assumptions C13_one_conn_per_peer.
Print Assumptions C13_no_conns_no_peer_conn.
Print Assumptions C19_waiting_hosts.
Print Assumptions C19_no_conns_no_waiting.
Print Assumptions C06_ready_known_g.
Print Assumptions C19_no_conns_no_tables.
Print Assumptions C19_origin_backed.
Print Assumptions C19_no_conns_no_origin.
Print Assumptions reachable_two_conns.
Print Assumptions election_won.
Print Assumptions election_lost.
Print Assumptions second_cer_ignored.
Print Assumptions outbound_cer_ignored.
Print Assumptions cea_foreign_identity_closed.
Print Assumptions C13_cer_origin_change_refuted.
Print Assumptions C13_peer_conn_exact_unguarded_refuted.
Print Assumptions C13_one_conn_per_peer_unguarded_refuted.
Print Assumptions C19_connecting_read_refuted.
Print Assumptions C06_connecting_read_refuted.
Print Assumptions C13_empty_name_refuted.
Print Assumptions C19_empty_name_refuted.
Print Assumptions origin_backed_witness.
Print Assumptions C19_origin_backed_request_flag_refuted.
Print Assumptions C19_origin_backed_unguarded_refuted.
Print Assumptions C13_ready_flag_partial.
Print Assumptions C13_ready_flag_removed.
Print Assumptions C13_peer_conn_converse_partial.
Print Assumptions C13_election_clears_rivals.
