From DV Require Import Prelude.Base Model.Node.
