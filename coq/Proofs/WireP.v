(* Lemmas and theorems about the Diameter AVP / message codec model (Model/Wire.v):
   C01 (AVP layout, round trips), C02 (header / message), C04 (decoder progress, totality). *)
From DV Require Import Prelude.Base Proofs.BaseP Proofs.IdsFmt Spec.Rfc6733 Model.Wire.

(* ====================================================================== *)
(* generic list / bytes helpers                                            *)
(* ====================================================================== *)
Lemma firstn_app_exact {A} (l1 l2 : list A) n : List.length l1 = n -> firstn n (l1 ++ l2) = l1.
Proof. intros <-. induction l1 as [|x l1 IH]; cbn [List.length firstn app]; [destruct l2; reflexivity|]. rewrite IH; reflexivity. Qed.

Lemma skipn_app_exact {A} (l1 l2 : list A) n : List.length l1 = n -> skipn n (l1 ++ l2) = l2.
Proof. intros <-. induction l1 as [|x l1 IH]; cbn [List.length skipn app]; [reflexivity|exact IH]. Qed.

Lemma blen_app a b : blen (a ++ b) = blen a + blen b.
Proof. unfold blen. rewrite app_length. lia. Qed.

Lemma blen_nonneg a : 0 <= blen a.
Proof. unfold blen. lia. Qed.

Lemma blen_nil : blen [] = 0.
Proof. reflexivity. Qed.

Lemma blen_cons x a : blen (x :: a) = 1 + blen a.
Proof. unfold blen. cbn [List.length]. lia. Qed.

Lemma blen_zeros n : 0 <= n -> blen (zeros n) = n.
Proof. intros Hn. unfold blen, zeros. rewrite repeat_length. lia. Qed.

Lemma blen_be_enc n x : blen (be_enc n x) = Z.of_nat n.
Proof. unfold blen. rewrite be_enc_length. reflexivity. Qed.

Lemma wf_zeros n : wf_bytes (zeros n).
Proof. unfold zeros, wf_bytes. apply Forall_forall. intros x Hx. apply repeat_spec in Hx. lia. Qed.

Lemma wf_app a b : wf_bytes a -> wf_bytes b -> wf_bytes (a ++ b).
Proof. intros Ha Hb. apply Forall_app; split; assumption. Qed.

Lemma wf_app_inv a b : wf_bytes (a ++ b) -> wf_bytes a /\ wf_bytes b.
Proof. intros H. apply Forall_app in H. exact H. Qed.

Lemma wf_cons_inv x a : wf_bytes (x :: a) -> 0 <= x < 256 /\ wf_bytes a.
Proof. intros H. inversion H; subst. split; assumption. Qed.

Lemma zeros_0 : zeros 0 = [].
Proof. reflexivity. Qed.

Lemma rfc_pad_bound n : 0 <= rfc_pad n < 4.
Proof. unfold rfc_pad. lia. Qed.

Lemma rfc_pad_round n : (n + 3) / 4 * 4 = n + rfc_pad n.
Proof. unfold rfc_pad. lia. Qed.

(* ---- bit facts about one byte, by exhaustive evaluation ----------------- *)
Lemma byte_cases (P : Z -> bool) :
  forallb P (map Z.of_nat (seq 0 256)) = true -> forall f, 0 <= f < 256 -> P f = true.
Proof.
  intros H f Hf. rewrite forallb_forall in H. apply H.
  replace f with (Z.of_nat (Z.to_nat f)) by lia. apply in_map. apply in_seq. lia.
Qed.

Lemma byte_bits f : 0 <= f < 256 ->
  Z.land f 128 = 128 * (f / 128) /\ Z.land f (Z.lnot 128) = f mod 128 /\ Z.lor f 128 = f mod 128 + 128.
Proof.
  intros Hf.
  pose proof (byte_cases (fun f => (Z.land f 128 =? 128 * (f / 128)) && (Z.land f (Z.lnot 128) =? f mod 128)
                                   && (Z.lor f 128 =? f mod 128 + 128))) as H.
  specialize (H ltac:(vm_compute; reflexivity) f Hf). cbv beta in H.
  apply andb_prop in H as [H H3]. apply andb_prop in H as [H1 H2].
  apply Z.eqb_eq in H1, H2, H3. auto.
Qed.

(* ---- splitting a 32-bit word into its top byte and low 24 bits ---------- *)
Lemma be_enc4_split len flags : 0 <= len < 16777216 ->
  be_enc 4 (len + flags * 16777216) = [flags mod 256] ++ be_enc 3 len.
Proof.
  intros Hl. change 4%nat with (1 + 3)%nat. rewrite (be_enc_split 1 3).
  change (256 ^ Z.of_nat 3) with 16777216. f_equal.
  - cbn [be_enc app]. f_equal. f_equal. lia.
  - rewrite <- (be_enc_mod 3 (len + flags * 16777216)). change (256 ^ Z.of_nat 3) with 16777216.
    f_equal. lia.
Qed.

Lemma word_hi len flags : 0 <= len < 16777216 -> Z.shiftr (len + flags * 16777216) 24 = flags.
Proof. intros Hl. rewrite shiftr_div by lia. change (2 ^ 24) with 16777216. lia. Qed.

Lemma word_lo len flags : 0 <= len < 16777216 -> Z.land (len + flags * 16777216) 16777215 = len.
Proof.
  intros Hl. change 16777215 with (2 ^ 24 - 1). rewrite land_ones_mod by lia.
  change (2 ^ 24) with 16777216. lia.
Qed.

Lemma lor_word len flags : 0 <= len < 16777216 ->
  Z.lor len (Z.shiftl flags 24) = len + flags * 16777216.
Proof. intros Hl. rewrite lor_shiftl_add by (change (2 ^ 24) with 16777216; lia). reflexivity. Qed.

Lemma be_dec4 a b c d : be_dec [a; b; c; d] = ((a * 256 + b) * 256 + c) * 256 + d.
Proof. unfold be_dec. cbn [fold_left]. lia. Qed.

Lemma be_dec3 b c d : be_dec [b; c; d] = (b * 256 + c) * 256 + d.
Proof. unfold be_dec. cbn [fold_left]. lia. Qed.

Lemma be_dec4_split a b c d : be_dec [a; b; c; d] = be_dec [b; c; d] + a * 16777216.
Proof. rewrite be_dec4, be_dec3. lia. Qed.

Lemma be_dec3_bound b c d : 0 <= b < 256 -> 0 <= c < 256 -> 0 <= d < 256 -> 0 <= be_dec [b; c; d] < 16777216.
Proof. intros. rewrite be_dec3. lia. Qed.

Lemma be_dec4_bound a b c d : 0 <= a < 256 -> 0 <= b < 256 -> 0 <= c < 256 -> 0 <= d < 256 ->
  0 <= be_dec [a; b; c; d] < 4294967296.
Proof. intros. rewrite be_dec4. lia. Qed.

Lemma be_enc_dec4 a b c d : wf_bytes [a; b; c; d] -> be_enc 4 (be_dec [a; b; c; d]) = [a; b; c; d].
Proof. intros H. exact (be_enc_dec [a; b; c; d] H). Qed.

Lemma be_enc_dec3 b c d : wf_bytes [b; c; d] -> be_enc 3 (be_dec [b; c; d]) = [b; c; d].
Proof. intros H. exact (be_enc_dec [b; c; d] H). Qed.

Lemma be_enc_dec_len n bs : wf_bytes bs -> List.length bs = n -> be_enc n (be_dec bs) = bs.
Proof. intros H <-. apply be_enc_dec. exact H. Qed.

(* ====================================================================== *)
(* packer / unpacker                                                       *)
(* ====================================================================== *)
Lemma pack_uint_ok x : 0 <= x < 4294967296 -> pack_uint x = Ok (be_enc 4 x).
Proof. intros Hx. unfold pack_uint. destruct ((0 <=? x) && (x <? 4294967296)) eqn:E; [reflexivity|lia]. Qed.

Lemma pack_uint_inv x b : pack_uint x = Ok b -> 0 <= x < 4294967296 /\ b = be_enc 4 x.
Proof.
  unfold pack_uint. destruct ((0 <=? x) && (x <? 4294967296)) eqn:E; intros H; [|discriminate].
  inversion H; subst. split; [lia|reflexivity].
Qed.

Lemma pack_fopaque_padded p : pack_fopaque ((blen p + 3) / 4 * 4) p = Ok (p ++ zeros (rfc_pad (blen p))).
Proof.
  unfold pack_fopaque. pose proof (blen_nonneg p) as Hp. pose proof (rfc_pad_round (blen p)) as Hr.
  pose proof (rfc_pad_bound (blen p)) as Hb.
  destruct ((blen p + 3) / 4 * 4 <? 0) eqn:E; [lia|].
  unfold btake. rewrite firstn_all2 by (unfold blen in *; lia).
  assert (E2 : ((blen p + 3) / 4 * 4 + 3) / 4 * 4 - blen p = rfc_pad (blen p)) by lia.
  rewrite E2. reflexivity.
Qed.

Lemma unpack_uint_cons4 a b c d r : unpack_uint (a :: b :: c :: d :: r) = Ok (be_dec [a; b; c; d], r).
Proof.
  unfold unpack_uint. destruct (4 <=? blen (a :: b :: c :: d :: r)) eqn:E; [reflexivity|].
  rewrite !blen_cons in E. pose proof (blen_nonneg r). lia.
Qed.

Lemma unpack_uint_inv bs x r : unpack_uint bs = Ok (x, r) ->
  exists a b c d, bs = a :: b :: c :: d :: r /\ x = be_dec [a; b; c; d].
Proof.
  intros H. destruct bs as [|a [|b [|c [|d r']]]]; try (vm_compute in H; discriminate).
  rewrite unpack_uint_cons4 in H. inversion H; subst. exists a, b, c, d. split; reflexivity.
Qed.

Lemma unpack_uint_err bs e : unpack_uint bs = Err e -> e = ConversionError.
Proof. unfold unpack_uint. destruct (4 <=? blen bs); intros H; inversion H; reflexivity. Qed.

Lemma unpack_uint_enc x r : 0 <= x < 4294967296 -> unpack_uint (be_enc 4 x ++ r) = Ok (x, r).
Proof.
  intros Hx. unfold unpack_uint. rewrite blen_app, blen_be_enc. pose proof (blen_nonneg r).
  destruct (4 <=? Z.of_nat 4 + blen r) eqn:E; [|lia].
  rewrite firstn_app_exact by apply be_enc_length. rewrite skipn_app_exact by apply be_enc_length.
  rewrite be_dec_enc by (change (256 ^ Z.of_nat 4) with 4294967296; lia). reflexivity.
Qed.

Lemma unpack_fopaque_err n bs e : unpack_fopaque n bs = Err e -> e = ConversionError.
Proof.
  unfold unpack_fopaque. destruct (n <? 0); [intros H; inversion H; reflexivity|].
  destruct (blen bs <? (n + 3) / 4 * 4); intros H; inversion H; reflexivity.
Qed.

Lemma unpack_fopaque_enc p r : unpack_fopaque (blen p) (p ++ zeros (rfc_pad (blen p)) ++ r) = Ok (p, r).
Proof.
  unfold unpack_fopaque. pose proof (blen_nonneg p) as Hp. pose proof (rfc_pad_bound (blen p)) as Hb.
  pose proof (rfc_pad_round (blen p)) as Hr. pose proof (blen_nonneg r) as Hrr.
  destruct (blen p <? 0) eqn:E; [lia|].
  rewrite !blen_app, blen_zeros by lia.
  destruct (blen p + (rfc_pad (blen p) + blen r) <? (blen p + 3) / 4 * 4) eqn:E2; [lia|].
  unfold btake, bdrop. rewrite firstn_app_exact by (unfold blen; lia).
  rewrite app_assoc. rewrite skipn_app_exact; [reflexivity|].
  rewrite app_length. unfold zeros. rewrite repeat_length. unfold blen in *. lia.
Qed.

Lemma unpack_fopaque_inv n bs p r : unpack_fopaque n bs = Ok (p, r) ->
  0 <= n /\ exists pad, bs = p ++ pad ++ r /\ blen p = n /\ blen pad = rfc_pad n.
Proof.
  unfold unpack_fopaque. destruct (n <? 0) eqn:E; [discriminate|].
  pose proof (rfc_pad_round n) as Hr. pose proof (rfc_pad_bound n) as Hb.
  destruct (blen bs <? (n + 3) / 4 * 4) eqn:E2; [discriminate|]. intros H. inversion H; subst; clear H.
  split; [lia|]. unfold btake, bdrop.
  set (j := (n + 3) / 4 * 4) in *.
  exists (skipn (Z.to_nat n) (firstn (Z.to_nat j) bs)).
  assert (Hf : firstn (Z.to_nat n) bs = firstn (Z.to_nat n) (firstn (Z.to_nat j) bs)).
  { rewrite firstn_firstn. f_equal. lia. }
  split; [|split].
  - rewrite app_assoc, Hf, firstn_skipn, firstn_skipn. reflexivity.
  - unfold blen in *. rewrite firstn_length. lia.
  - unfold blen in *. rewrite skipn_length, firstn_length. lia.
Qed.

(* ====================================================================== *)
(* AVP: well-formedness                                                    *)
(* ====================================================================== *)
(* well-formed AVP value: what Avp.new / the setters can produce *)
Definition wf_avp (a : avp) : Prop :=
  0 <= a_code a < 4294967296 /\ 0 <= a_flags a < 256 /\ 0 <= a_vendor a < 4294967296 /\
  (Z.land (a_flags a) 128 = 0 <-> a_vendor a = 0) /\
  wf_bytes (a_payload a) /\ 12 + blen (a_payload a) < 16777216.

(* The weakest condition under which the encoder is correct: the AVP length
   (8 or 12 + payload) fits the 24-bit field.  This, not wf_avp, is what the
   decoder guarantees of its result (see dec_avp_wf_partial). *)
Definition wf_avp' (a : avp) : Prop :=
  0 <= a_code a < 4294967296 /\ 0 <= a_flags a < 256 /\ 0 <= a_vendor a < 4294967296 /\
  (Z.land (a_flags a) 128 = 0 <-> a_vendor a = 0) /\
  wf_bytes (a_payload a) /\ avp_length a < 16777216.

Lemma wf_avp_weaken a : wf_avp a -> wf_avp' a.
Proof.
  intros (Hc & Hf & Hv & Hb & Hp & Hl). repeat split; try tauto; try lia.
  unfold avp_length. destruct (a_vendor a =? 0); lia.
Qed.

Lemma wf_avp_strengthen a : wf_avp' a -> 12 + blen (a_payload a) < 16777216 -> wf_avp a.
Proof. intros (Hc & Hf & Hv & Hb & Hp & Hl) H. repeat split; try tauto; lia. Qed.

Lemma Forall_wf_avp_weaken l : Forall wf_avp l -> Forall wf_avp' l.
Proof. intros H. eapply Forall_impl; [|exact H]. exact wf_avp_weaken. Qed.

Lemma avp_length_bound a : wf_avp' a -> 8 <= avp_length a < 16777216.
Proof.
  intros (Hc & Hf & Hv & Hb & Hp & Hl). split; [|exact Hl].
  unfold avp_length. pose proof (blen_nonneg (a_payload a)). destruct (a_vendor a =? 0); lia.
Qed.

(* ====================================================================== *)
(* AVP: encoding                                                           *)
(* ====================================================================== *)
(* the encoder's output, with the flags/length word not yet split *)
Definition avp_form (a : avp) : bytes :=
  be_enc 4 (a_code a) ++ be_enc 4 (avp_length a + a_flags a * 16777216)
  ++ (if a_vendor a =? 0 then [] else be_enc 4 (a_vendor a))
  ++ a_payload a ++ zeros (rfc_pad (blen (a_payload a))).

Lemma enc_avp_form a : wf_avp' a -> enc_avp a = Ok (avp_form a).
Proof.
  intros Hw. pose proof (avp_length_bound a Hw) as Hlen.
  destruct Hw as (Hc & Hf & Hv & Hb & Hp & Hl).
  unfold enc_avp, avp_form. rewrite pack_uint_ok by exact Hc. cbn [bind].
  rewrite lor_word by lia. rewrite pack_uint_ok by lia. cbn [bind].
  rewrite round4 by apply blen_nonneg. rewrite pack_fopaque_padded.
  destruct (a_vendor a =? 0) eqn:Ev.
  - cbn [bind]. reflexivity.
  - rewrite pack_uint_ok by exact Hv. cbn [bind]. reflexivity.
Qed.

Lemma avp_form_rfc a : wf_avp' a ->
  avp_form a = rfc_avp (a_code a) (a_flags a) (a_vendor a) (a_payload a).
Proof.
  intros Hw. pose proof (avp_length_bound a Hw) as Hlen.
  destruct Hw as (Hc & Hf & Hv & Hb & Hp & Hl).
  unfold avp_form, rfc_avp. rewrite be_enc4_split by lia.
  replace (a_flags a mod 256) with (a_flags a) by lia.
  unfold avp_length. rewrite <- !app_assoc. reflexivity.
Qed.

Theorem enc_avp_is_rfc' : forall a, wf_avp' a ->
  enc_avp a = Ok (rfc_avp (a_code a) (a_flags a) (a_vendor a) (a_payload a)).
Proof. intros a Hw. rewrite enc_avp_form by exact Hw. rewrite avp_form_rfc by exact Hw. reflexivity. Qed.

(* C01: encoding produces exactly the RFC 6733 layout *)
Theorem enc_avp_is_rfc : forall a, wf_avp a ->
  enc_avp a = Ok (rfc_avp (a_code a) (a_flags a) (a_vendor a) (a_payload a)).
Proof. intros a Hw. apply enc_avp_is_rfc'. apply wf_avp_weaken. exact Hw. Qed.

Lemma rfc_avp_length code flags vendor data :
  blen (rfc_avp code flags vendor data) =
  (if vendor =? 0 then 8 else 12) + blen data + rfc_pad (blen data).
Proof.
  unfold rfc_avp. pose proof (rfc_pad_bound (blen data)) as Hb.
  rewrite !blen_app, !blen_be_enc, blen_cons, blen_nil, blen_zeros by lia.
  destruct (vendor =? 0); [rewrite blen_nil|rewrite blen_be_enc]; lia.
Qed.

Theorem enc_avp_length' : forall a bs, wf_avp' a -> enc_avp a = Ok bs ->
  blen bs = (if a_vendor a =? 0 then 8 else 12) + blen (a_payload a) + rfc_pad (blen (a_payload a))
  /\ blen bs mod 4 = 0.
Proof.
  intros a bs Hw He. rewrite enc_avp_is_rfc' in He by exact Hw. inversion He; subst; clear He.
  rewrite rfc_avp_length. split; [reflexivity|].
  unfold rfc_pad. destruct (a_vendor a =? 0); lia.
Qed.

Theorem enc_avp_length : forall a bs, wf_avp a -> enc_avp a = Ok bs ->
  blen bs = (if a_vendor a =? 0 then 8 else 12) + blen (a_payload a) + rfc_pad (blen (a_payload a))
  /\ blen bs mod 4 = 0.
Proof. intros a bs Hw. apply enc_avp_length'. apply wf_avp_weaken. exact Hw. Qed.

Theorem enc_avp_wf_bytes' : forall a bs, wf_avp' a -> enc_avp a = Ok bs -> wf_bytes bs.
Proof.
  intros a bs Hw He. rewrite enc_avp_is_rfc' in He by exact Hw. inversion He; subst; clear He.
  destruct Hw as (Hc & Hf & Hv & Hb & Hp & Hl). unfold rfc_avp.
  apply wf_app; [apply be_enc_wf|]. apply wf_app; [constructor; [exact Hf|constructor]|].
  apply wf_app; [apply be_enc_wf|]. apply wf_app; [destruct (a_vendor a =? 0); [constructor|apply be_enc_wf]|].
  apply wf_app; [exact Hp|apply wf_zeros].
Qed.

Theorem enc_avp_wf_bytes : forall a bs, wf_avp a -> enc_avp a = Ok bs -> wf_bytes bs.
Proof. intros a bs Hw. apply enc_avp_wf_bytes'. apply wf_avp_weaken. exact Hw. Qed.

Lemma enc_avp_len8 a bs : wf_avp' a -> enc_avp a = Ok bs -> 8 <= blen bs.
Proof.
  intros Hw He. destruct (enc_avp_length' a bs Hw He) as [Hl _].
  pose proof (blen_nonneg (a_payload a)). pose proof (rfc_pad_bound (blen (a_payload a))).
  destruct (a_vendor a =? 0); lia.
Qed.

(* ====================================================================== *)
(* mk_avp                                                                  *)
(* ====================================================================== *)
Lemma mk_avp_flags_id flags vendor : 0 <= flags < 256 -> (Z.land flags 128 = 0 <-> vendor = 0) ->
  (if vendor =? 0 then Z.land flags (Z.lnot FLAG_V) else Z.lor flags FLAG_V) = flags.
Proof.
  intros Hf Hb. unfold FLAG_V. destruct (byte_bits flags Hf) as (H1 & H2 & H3).
  destruct (vendor =? 0) eqn:Ev.
  - assert (Hz : Z.land flags 128 = 0) by (apply Hb; lia). lia.
  - assert (Hz : Z.land flags 128 <> 0) by (intros Hz; apply Hb in Hz; lia). lia.
Qed.

(* mk_avp is the identity on consistent inputs and always yields consistent V bit *)
Theorem mk_avp_id : forall a, wf_avp a -> mk_avp (a_code a) (a_vendor a) (a_payload a) (a_flags a) = a.
Proof.
  intros [code flags vendor payload] (Hc & Hf & Hv & Hb & Hp & Hl). cbn [a_code a_flags a_vendor a_payload] in *.
  unfold mk_avp. rewrite mk_avp_flags_id by assumption. reflexivity.
Qed.

Lemma mk_avp_id' : forall a, wf_avp' a -> mk_avp (a_code a) (a_vendor a) (a_payload a) (a_flags a) = a.
Proof.
  intros [code flags vendor payload] (Hc & Hf & Hv & Hb & Hp & Hl). cbn [a_code a_flags a_vendor a_payload] in *.
  unfold mk_avp. rewrite mk_avp_flags_id by assumption. reflexivity.
Qed.

Theorem mk_avp_vbit : forall code vendor payload flags, 0 <= flags < 256 ->
  let a := mk_avp code vendor payload flags in
  0 <= a_flags a < 256 /\ (Z.land (a_flags a) 128 = 0 <-> vendor = 0).
Proof.
  intros code vendor payload flags Hf a. subst a. unfold mk_avp, FLAG_V. cbn [a_flags].
  destruct (byte_bits flags Hf) as (H1 & H2 & H3).
  destruct (vendor =? 0) eqn:Ev.
  - rewrite H2. assert (Hm : 0 <= flags mod 128 < 256) by lia.
    destruct (byte_bits _ Hm) as (H1' & _ & _). rewrite H1'. split; [lia|]. split; lia.
  - rewrite H3. assert (Hm : 0 <= flags mod 128 + 128 < 256) by lia.
    destruct (byte_bits _ Hm) as (H1' & _ & _). rewrite H1'. split; [lia|]. split; lia.
Qed.

(* ====================================================================== *)
(* AVP: decoding, stage by stage                                           *)
(* ====================================================================== *)
Definition dec_vendor (flags len : Z) (r2 : bytes) : result ((Z * Z) * bytes) :=
  if Z.land flags FLAG_V =? 0 then Ok ((0, len), r2)
  else let! (v, r) := unpack_uint r2 in Ok ((v, len - 4), r).

Definition dec_payload (len' : Z) (r3 : bytes) : result (bytes * bytes) :=
  if 0 <? len' then unpack_fopaque len' r3 else Ok ([], r3).

Lemma dec_avp_unfold bs : dec_avp bs =
  let! (code, r1) := unpack_uint bs in
  let! (fl, r2) := unpack_uint r1 in
  let! (vl, r3) := dec_vendor (Z.shiftr fl 24) (Z.land fl 16777215 - 8) r2 in
  let '(vendor, len') := vl in
  let! (payload, r4) := dec_payload len' r3 in
  Ok (mk_avp code vendor payload (Z.shiftr fl 24), r4).
Proof. reflexivity. Qed.

Lemma dec_vendor_err flags len r2 e : dec_vendor flags len r2 = Err e -> e = ConversionError.
Proof.
  unfold dec_vendor. destruct (Z.land flags FLAG_V =? 0); [discriminate|].
  destruct (unpack_uint r2) as [[v r]|e'] eqn:E; cbn [bind]; [discriminate|].
  intros H. inversion H; subst. eapply unpack_uint_err; exact E.
Qed.

Lemma dec_payload_err len' r3 e : dec_payload len' r3 = Err e -> e = ConversionError.
Proof. unfold dec_payload. destruct (0 <? len'); [apply unpack_fopaque_err|discriminate]. Qed.

(* vendor stage: vb is the (possibly empty) vendor field on the wire *)
Lemma dec_vendor_inv flags len r2 vendor len' r3 :
  dec_vendor flags len r2 = Ok ((vendor, len'), r3) ->
  exists vb, r2 = vb ++ r3 /\ len' = len - blen vb /\
    ((Z.land flags 128 = 0 /\ vb = [] /\ vendor = 0) \/
     (Z.land flags 128 <> 0 /\ List.length vb = 4%nat /\ vendor = be_dec vb)).
Proof.
  unfold dec_vendor, FLAG_V. destruct (Z.land flags 128 =? 0) eqn:EV.
  - intros H. inversion H; subst. exists []. split; [reflexivity|]. split; [rewrite blen_nil; lia|].
    left. repeat split; lia.
  - destruct (unpack_uint r2) as [[v r]|e'] eqn:E; cbn [bind]; [|discriminate].
    intros H. inversion H; subst.
    apply unpack_uint_inv in E as (a & b & c & d & -> & ->).
    exists [a; b; c; d]. split; [reflexivity|]. split; [reflexivity|].
    right. repeat split; lia.
Qed.

Lemma dec_payload_inv len' r3 payload r4 :
  dec_payload len' r3 = Ok (payload, r4) ->
  exists pad, r3 = payload ++ pad ++ r4 /\
    ((0 < len' /\ blen payload = len' /\ blen pad = rfc_pad len') \/
     (len' <= 0 /\ payload = [] /\ pad = [])).
Proof.
  unfold dec_payload. destruct (0 <? len') eqn:E.
  - intros H. apply unpack_fopaque_inv in H as (Hn & pad & Hbs & Hp & Hpad).
    exists pad. split; [exact Hbs|]. left. repeat split; [lia|exact Hp|exact Hpad].
  - intros H. inversion H; subst. exists []. split; [reflexivity|]. right. repeat split; lia.
Qed.

(* the parse of a successfully decoded AVP *)
Lemma dec_avp_inv bs a rest : dec_avp bs = Ok (a, rest) ->
  exists c0 c1 c2 c3 x0 x1 x2 x3 vb payload pad vendor,
    bs = [c0; c1; c2; c3] ++ [x0; x1; x2; x3] ++ vb ++ payload ++ pad ++ rest /\
    a = mk_avp (be_dec [c0; c1; c2; c3]) vendor payload (Z.shiftr (be_dec [x0; x1; x2; x3]) 24) /\
    ((Z.land (Z.shiftr (be_dec [x0; x1; x2; x3]) 24) 128 = 0 /\ vb = [] /\ vendor = 0) \/
     (Z.land (Z.shiftr (be_dec [x0; x1; x2; x3]) 24) 128 <> 0 /\ List.length vb = 4%nat /\ vendor = be_dec vb)) /\
    ((0 < Z.land (be_dec [x0; x1; x2; x3]) 16777215 - 8 - blen vb /\
      blen payload = Z.land (be_dec [x0; x1; x2; x3]) 16777215 - 8 - blen vb /\
      blen pad = rfc_pad (blen payload)) \/
     (Z.land (be_dec [x0; x1; x2; x3]) 16777215 - 8 - blen vb <= 0 /\ payload = [] /\ pad = [])).
Proof.
  rewrite dec_avp_unfold. intros H.
  destruct (unpack_uint bs) as [[code r1]|e] eqn:E1; cbn [bind] in H; [|discriminate].
  destruct (unpack_uint r1) as [[fl r2]|e] eqn:E2; cbn [bind] in H; [|discriminate].
  destruct (dec_vendor (Z.shiftr fl 24) (Z.land fl 16777215 - 8) r2) as [[[vendor len'] r3]|e] eqn:E3;
    cbn [bind] in H; [|discriminate].
  destruct (dec_payload len' r3) as [[payload r4]|e] eqn:E4; cbn [bind] in H; [|discriminate].
  inversion H; subst; clear H.
  apply unpack_uint_inv in E1 as (c0 & c1 & c2 & c3 & -> & ->).
  apply unpack_uint_inv in E2 as (x0 & x1 & x2 & x3 & -> & ->).
  apply dec_vendor_inv in E3 as (vb & -> & -> & Hv).
  apply dec_payload_inv in E4 as (pad & -> & Hp).
  exists c0, c1, c2, c3, x0, x1, x2, x3, vb, payload, pad, vendor.
  split; [reflexivity|]. split; [reflexivity|]. split; [exact Hv|].
  destruct Hp as [(Hp1 & Hp2 & Hp3)|(Hp1 & Hp2 & Hp3)].
  - left. repeat split; [exact Hp1|exact Hp2|rewrite Hp2; exact Hp3].
  - right. repeat split; assumption.
Qed.

Lemma dec_avp_err bs e : dec_avp bs = Err e -> e = ConversionError.
Proof.
  rewrite dec_avp_unfold. intros H.
  destruct (unpack_uint bs) as [[code r1]|e1] eqn:E1; cbn [bind] in H;
    [|inversion H; subst; eapply unpack_uint_err; exact E1].
  destruct (unpack_uint r1) as [[fl r2]|e2] eqn:E2; cbn [bind] in H;
    [|inversion H; subst; eapply unpack_uint_err; exact E2].
  destruct (dec_vendor (Z.shiftr fl 24) (Z.land fl 16777215 - 8) r2) as [[[vendor len'] r3]|e3] eqn:E3;
    cbn [bind] in H; [|inversion H; subst; eapply dec_vendor_err; exact E3].
  destruct (dec_payload len' r3) as [[payload r4]|e4] eqn:E4; cbn [bind] in H;
    [discriminate|inversion H; subst; eapply dec_payload_err; exact E4].
Qed.

(* C04: progress and no over-read: a successful decode consumes >= 8 bytes and returns a suffix *)
Theorem dec_avp_suffix : forall bs a rest, dec_avp bs = Ok (a, rest) ->
  exists pre, bs = pre ++ rest /\ 8 <= blen pre.
Proof.
  intros bs a rest H.
  apply dec_avp_inv in H as (c0 & c1 & c2 & c3 & x0 & x1 & x2 & x3 & vb & payload & pad & vendor & -> & _).
  exists ([c0; c1; c2; c3] ++ [x0; x1; x2; x3] ++ vb ++ payload ++ pad). split.
  - rewrite <- !app_assoc. reflexivity.
  - rewrite !blen_app, !blen_cons, blen_nil.
    pose proof (blen_nonneg vb). pose proof (blen_nonneg payload). pose proof (blen_nonneg pad). lia.
Qed.

(* C04: totality: the only error dec_avp can produce is ConversionError *)
Theorem dec_avp_total : forall bs, (exists a rest, dec_avp bs = Ok (a, rest)) \/ dec_avp bs = Err ConversionError.
Proof.
  intros bs. destruct (dec_avp bs) as [[a rest]|e] eqn:E.
  - left. exists a, rest. reflexivity.
  - right. f_equal. eapply dec_avp_err. exact E.
Qed.

(* ---- decoding what was encoded ------------------------------------------ *)
Lemma dec_avp_form a rest : wf_avp' a -> dec_avp (avp_form a ++ rest) = Ok (a, rest).
Proof.
  intros Hw. pose proof (avp_length_bound a Hw) as Hlen. pose proof (mk_avp_id' a Hw) as Hid.
  destruct Hw as (Hc & Hf & Hv & Hb & Hp & Hl).
  rewrite dec_avp_unfold. unfold avp_form. rewrite <- !app_assoc.
  rewrite unpack_uint_enc by exact Hc. cbn [bind].
  rewrite unpack_uint_enc by lia. cbn [bind].
  rewrite word_hi, word_lo by lia.
  unfold dec_vendor, FLAG_V, avp_length in *.
  destruct (a_vendor a =? 0) eqn:Ev.
  - assert (Hz : Z.land (a_flags a) 128 = 0) by (apply Hb; lia).
    rewrite Hz. cbn [Z.eqb bind app].
    replace (8 + blen (a_payload a) - 8) with (blen (a_payload a)) by lia.
    unfold dec_payload. destruct (0 <? blen (a_payload a)) eqn:E0.
    + rewrite unpack_fopaque_enc. cbn [bind]. replace (a_vendor a) with 0 in Hid by lia. rewrite Hid. reflexivity.
    + assert (Hnil : a_payload a = []).
      { destruct (a_payload a) as [|x p]; [reflexivity|]. rewrite blen_cons in E0. pose proof (blen_nonneg p). lia. }
      rewrite Hnil in *. cbn [bind app]. change (blen []) with 0. change (rfc_pad 0) with 0.
      rewrite zeros_0. cbn [app]. replace (a_vendor a) with 0 in Hid by lia. rewrite Hid. reflexivity.
  - assert (Hz : Z.land (a_flags a) 128 <> 0) by (intros Hz; apply Hb in Hz; lia).
    destruct (Z.land (a_flags a) 128 =? 0) eqn:Ez; [lia|].
    rewrite unpack_uint_enc by exact Hv. cbn [bind].
    replace (12 + blen (a_payload a) - 8 - 4) with (blen (a_payload a)) by lia.
    unfold dec_payload. destruct (0 <? blen (a_payload a)) eqn:E0.
    + rewrite unpack_fopaque_enc. cbn [bind]. rewrite Hid. reflexivity.
    + assert (Hnil : a_payload a = []).
      { destruct (a_payload a) as [|x p]; [reflexivity|]. rewrite blen_cons in E0. pose proof (blen_nonneg p). lia. }
      rewrite Hnil in *. cbn [bind app]. change (blen []) with 0. change (rfc_pad 0) with 0.
      rewrite zeros_0. cbn [app]. rewrite Hid. reflexivity.
Qed.

Theorem dec_enc_avp' : forall a bs rest, wf_avp' a -> enc_avp a = Ok bs ->
  dec_avp (bs ++ rest) = Ok (a, rest).
Proof.
  intros a bs rest Hw He. rewrite enc_avp_form in He by exact Hw. inversion He; subst.
  apply dec_avp_form. exact Hw.
Qed.

(* C01: decoding what was encoded, followed by arbitrary bytes *)
Theorem dec_enc_avp : forall a bs rest, wf_avp a -> enc_avp a = Ok bs ->
  dec_avp (bs ++ rest) = Ok (a, rest).
Proof. intros a bs rest Hw. apply dec_enc_avp'. apply wf_avp_weaken. exact Hw. Qed.

(* ====================================================================== *)
(* AVP: what the decoder guarantees of its result                          *)
(* ====================================================================== *)
Lemma mk_avp_code c v p f : a_code (mk_avp c v p f) = c.
Proof. reflexivity. Qed.
Lemma mk_avp_vendor c v p f : a_vendor (mk_avp c v p f) = v.
Proof. reflexivity. Qed.
Lemma mk_avp_payload c v p f : a_payload (mk_avp c v p f) = p.
Proof. reflexivity. Qed.
Lemma mk_avp_flags c v p f :
  a_flags (mk_avp c v p f) = if v =? 0 then Z.land f (Z.lnot 128) else Z.lor f 128.
Proof. reflexivity. Qed.

Lemma word_fields x0 x1 x2 x3 : wf_bytes [x0; x1; x2; x3] ->
  Z.shiftr (be_dec [x0; x1; x2; x3]) 24 = x0 /\
  Z.land (be_dec [x0; x1; x2; x3]) 16777215 = be_dec [x1; x2; x3] /\
  0 <= x0 < 256 /\ 0 <= be_dec [x1; x2; x3] < 16777216.
Proof.
  intros H. apply wf_cons_inv in H as [H0 H]. apply wf_cons_inv in H as [H1 H].
  apply wf_cons_inv in H as [H2 H]. apply wf_cons_inv in H as [H3 _].
  pose proof (be_dec3_bound x1 x2 x3 H1 H2 H3) as Hb.
  rewrite be_dec4_split. rewrite word_hi, word_lo by exact Hb. auto.
Qed.

(* dec_avp_wf AS REQUESTED IS FALSE for the last conjunct of wf_avp
   (12 + blen payload < 2^24): with the V bit clear the declared length may be
   up to 2^24-1, i.e. a payload of up to 2^24-9 bytes, and 12 + (2^24-9) >= 2^24.
   What does hold is wf_avp': header (8 or 12) + payload < 2^24, which is also
   exactly what the encoder needs. *)
Theorem dec_avp_wf_partial : forall bs a rest, wf_bytes bs -> dec_avp bs = Ok (a, rest) ->
  wf_avp' a /\ wf_bytes rest.
Proof.
  intros bs a rest Hwf H.
  apply dec_avp_inv in H as (c0 & c1 & c2 & c3 & x0 & x1 & x2 & x3 & vb & payload & pad & vendor
                             & -> & -> & Hv & Hp).
  apply wf_app_inv in Hwf as [Hc Hwf]. apply wf_app_inv in Hwf as [Hx Hwf].
  apply wf_app_inv in Hwf as [Hvb Hwf]. apply wf_app_inv in Hwf as [Hpl Hwf].
  apply wf_app_inv in Hwf as [Hpad Hrest].
  split; [|exact Hrest].
  destruct (word_fields x0 x1 x2 x3 Hx) as (Ehi & Elo & Hx0 & HL). rewrite Ehi, Elo in *.
  pose proof (mk_avp_vbit (be_dec [c0; c1; c2; c3]) vendor payload x0 Hx0) as Hvbit. cbv zeta in Hvbit.
  destruct Hvbit as [Hfl Hiff].
  pose proof (be_dec_bound _ Hc) as Hcode. cbn [List.length] in Hcode. change (256 ^ Z.of_nat 4) with 4294967296 in Hcode.
  assert (Hvend : 0 <= vendor < 4294967296).
  { destruct Hv as [(_ & _ & ->)|(_ & Hlen & ->)]; [lia|].
    pose proof (be_dec_bound _ Hvb) as Hb. rewrite Hlen in Hb. change (256 ^ Z.of_nat 4) with 4294967296 in Hb. exact Hb. }
  unfold wf_avp', avp_length. rewrite mk_avp_code, mk_avp_vendor, mk_avp_payload.
  split; [exact Hcode|]. split; [exact Hfl|]. split; [exact Hvend|]. split; [exact Hiff|]. split; [exact Hpl|].
  assert (Hvbl : vendor <> 0 -> blen vb = 4).
  { intros Hne. destruct Hv as [(_ & _ & ->)|(_ & Hlen & _)]; [lia|]. unfold blen. rewrite Hlen. reflexivity. }
  pose proof (blen_nonneg vb) as Hvb0.
  destruct (vendor =? 0) eqn:Ev.
  - destruct Hp as [(Hp1 & Hp2 & _)|(_ & -> & _)]; [lia|]. rewrite blen_nil. lia.
  - specialize (Hvbl ltac:(lia)).
    destruct Hp as [(Hp1 & Hp2 & _)|(_ & -> & _)]; [lia|]. rewrite blen_nil. lia.
Qed.

(* the requested statement does hold for any buffer shorter than 2^24 - 4 bytes *)
Theorem dec_avp_wf_small : forall bs a rest, wf_bytes bs -> blen bs < 16777212 -> dec_avp bs = Ok (a, rest) ->
  wf_avp a /\ wf_bytes rest.
Proof.
  intros bs a rest Hwf Hlen H. destruct (dec_avp_wf_partial bs a rest Hwf H) as [Hw Hr].
  split; [|exact Hr]. apply wf_avp_strengthen; [exact Hw|].
  apply dec_avp_inv in H as (c0 & c1 & c2 & c3 & x0 & x1 & x2 & x3 & vb & payload & pad & vendor
                             & -> & -> & _ & _).
  rewrite mk_avp_payload. rewrite !blen_app, !blen_cons, blen_nil in Hlen.
  pose proof (blen_nonneg vb). pose proof (blen_nonneg pad). pose proof (blen_nonneg rest). lia.
Qed.

(* ====================================================================== *)
(* AVP: re-encoding a decoded wire AVP                                     *)
(* ====================================================================== *)
Definition wire_ok (bs : bytes) : Prop :=
  match dec_avp bs with
  | Ok (a, rest) =>
      let consumed := firstn (List.length bs - List.length rest) bs in
      (* declared length equals header + payload *)
      be_dec (firstn 3 (skipn 5 bs)) = (if a_vendor a =? 0 then 8 else 12) + blen (a_payload a) /\
      (* V set on the wire implies non-zero vendor *)
      (Z.land (nth 4 bs 0) 128 <> 0 -> a_vendor a <> 0) /\
      (* zero padding *)
      skipn (Z.to_nat ((if a_vendor a =? 0 then 8 else 12) + blen (a_payload a))) consumed
        = zeros (rfc_pad (blen (a_payload a)))
  | Err _ => False
  end.

Lemma firstn_consumed (pre rest : bytes) :
  firstn (List.length (pre ++ rest) - List.length rest) (pre ++ rest) = pre.
Proof. apply firstn_app_exact. rewrite app_length. lia. Qed.

Theorem enc_dec_avp : forall bs a rest, wf_bytes bs -> dec_avp bs = Ok (a, rest) -> wire_ok bs ->
  exists pre, enc_avp a = Ok pre /\ pre ++ rest = bs.
Proof.
  intros bs a rest Hwf H Hok. unfold wire_ok in Hok. rewrite H in Hok. cbv zeta in Hok.
  destruct Hok as (Hlen & Hvne & Hpadz).
  destruct (dec_avp_wf_partial bs a rest Hwf H) as [Hw _].
  exists (rfc_avp (a_code a) (a_flags a) (a_vendor a) (a_payload a)).
  split; [apply enc_avp_is_rfc'; exact Hw|]. clear Hw.
  apply dec_avp_inv in H as (c0 & c1 & c2 & c3 & x0 & x1 & x2 & x3 & vb & payload & pad & vendor
                             & -> & -> & Hv & Hp).
  (* the consumed prefix *)
  rewrite !(app_assoc _ _ rest) in Hpadz. rewrite firstn_consumed in Hpadz.
  cbn [app firstn skipn nth] in Hlen, Hvne.
  apply wf_app_inv in Hwf as [Hc Hwf]. apply wf_app_inv in Hwf as [Hx Hwf].
  apply wf_app_inv in Hwf as [Hvb _].
  destruct (word_fields x0 x1 x2 x3 Hx) as (Ehi & Elo & Hx0 & HL). rewrite Ehi, Elo in *.
  rewrite ?mk_avp_code, ?mk_avp_vendor, ?mk_avp_payload, ?mk_avp_flags in *.
  assert (Hx123 : wf_bytes [x1; x2; x3]) by (apply wf_cons_inv in Hx as [_ Hx]; exact Hx).
  unfold rfc_avp. rewrite be_enc_dec4 by exact Hc. rewrite <- Hlen. rewrite be_enc_dec3 by exact Hx123.
  destruct Hv as [(Hz & -> & ->)|(Hnz & Hvbl & ->)].
  - (* no vendor field *)
    cbn [Z.eqb] in *. rewrite blen_nil in Hp.
    destruct (byte_bits x0 Hx0) as (H1 & H2 & H3). rewrite H2.
    replace (x0 mod 128) with x0 by lia.
    assert (Hpad : pad = zeros (rfc_pad (blen payload))).
    { rewrite <- Hpadz. symmetry.
      change ([c0; c1; c2; c3] ++ [x0; x1; x2; x3] ++ [] ++ payload ++ pad)
        with (([c0; c1; c2; c3; x0; x1; x2; x3] ++ payload) ++ pad).
      apply skipn_app_exact. rewrite app_length. cbn [List.length]. unfold blen. lia. }
    rewrite <- Hpad. rewrite <- !app_assoc. reflexivity.
  - (* vendor field present; wire_ok says it is non-zero *)
    specialize (Hvne Hnz).
    destruct (be_dec vb =? 0) eqn:Ev; [lia|].
    destruct (byte_bits x0 Hx0) as (H1 & H2 & H3). rewrite H3.
    replace (x0 mod 128 + 128) with x0 by lia.
    rewrite (be_enc_dec_len 4 vb Hvb Hvbl).
    assert (Hpad : pad = zeros (rfc_pad (blen payload))).
    { rewrite <- Hpadz. symmetry.
      rewrite !app_assoc. apply skipn_app_exact.
      rewrite !app_length. cbn [List.length]. rewrite Hvbl. unfold blen. lia. }
    rewrite <- Hpad. rewrite <- !app_assoc. reflexivity.
Qed.

(* ====================================================================== *)
(* lists of AVPs                                                           *)
(* ====================================================================== *)
Lemma dec_avps_fuel_nil fuel : dec_avps_fuel fuel [] = Ok [].
Proof. destruct fuel; reflexivity. Qed.

Lemma dec_avps_fuel_S f bs : bs <> [] ->
  dec_avps_fuel (S f) bs = let! (a, r) := dec_avp bs in let! l := dec_avps_fuel f r in Ok (a :: l).
Proof. intros Hne. destruct bs as [|x bs]; [contradiction|reflexivity]. Qed.

Lemma enc_avps_cons_inv a l bs : enc_avps (a :: l) = Ok bs ->
  exists b br, enc_avp a = Ok b /\ enc_avps l = Ok br /\ bs = b ++ br.
Proof.
  cbn [enc_avps]. destruct (enc_avp a) as [b|e]; cbn [bind]; [|discriminate].
  destruct (enc_avps l) as [br|e]; cbn [bind]; [|discriminate].
  intros H. inversion H; subst. exists b, br. repeat split; reflexivity.
Qed.

Lemma enc_avps_length l bs : Forall wf_avp' l -> enc_avps l = Ok bs -> 8 * Z.of_nat (List.length l) <= blen bs.
Proof.
  revert bs. induction l as [|a l IH]; intros bs Hw He.
  - cbn [List.length]. pose proof (blen_nonneg bs). lia.
  - inversion Hw as [|? ? Ha Hl]; subst.
    apply enc_avps_cons_inv in He as (b & br & Hb & Hbr & ->).
    specialize (IH br Hl Hbr). pose proof (enc_avp_len8 a b Ha Hb).
    rewrite blen_app. cbn [List.length]. lia.
Qed.

Lemma enc_avps_wf_bytes l bs : Forall wf_avp' l -> enc_avps l = Ok bs -> wf_bytes bs.
Proof.
  revert bs. induction l as [|a l IH]; intros bs Hw He.
  - inversion He; subst. constructor.
  - inversion Hw as [|? ? Ha Hl]; subst.
    apply enc_avps_cons_inv in He as (b & br & Hb & Hbr & ->).
    apply wf_app; [eapply enc_avp_wf_bytes'; eassumption|apply IH; assumption].
Qed.

Lemma dec_enc_avps_fuel l : forall bs fuel, Forall wf_avp' l -> enc_avps l = Ok bs ->
  (List.length l <= fuel)%nat -> dec_avps_fuel fuel bs = Ok l.
Proof.
  induction l as [|a l IH]; intros bs fuel Hw He Hf.
  - inversion He; subst. apply dec_avps_fuel_nil.
  - inversion Hw as [|? ? Ha Hl]; subst.
    apply enc_avps_cons_inv in He as (b & br & Hb & Hbr & ->).
    destruct fuel as [|f]; [cbn [List.length] in Hf; lia|].
    pose proof (enc_avp_len8 a b Ha Hb) as H8.
    rewrite dec_avps_fuel_S.
    2:{ destruct b as [|x b]; [rewrite blen_nil in H8; lia|discriminate]. }
    rewrite (dec_enc_avp' a b br Ha Hb). cbn [bind].
    rewrite (IH br f Hl Hbr) by (cbn [List.length] in Hf; lia). reflexivity.
Qed.

Theorem dec_enc_avps' : forall l bs, Forall wf_avp' l -> enc_avps l = Ok bs -> dec_avps bs = Ok l.
Proof.
  intros l bs Hw He. unfold dec_avps. apply dec_enc_avps_fuel; [exact Hw|exact He|].
  pose proof (enc_avps_length l bs Hw He) as H. unfold blen in H. lia.
Qed.

Theorem dec_enc_avps : forall l bs, Forall wf_avp l -> enc_avps l = Ok bs -> dec_avps bs = Ok l.
Proof. intros l bs Hw. apply dec_enc_avps'. apply Forall_wf_avp_weaken. exact Hw. Qed.

Lemma dec_avps_fuel_total fuel : forall bs, (List.length bs <= fuel)%nat ->
  (exists l, dec_avps_fuel fuel bs = Ok l) \/ dec_avps_fuel fuel bs = Err ConversionError.
Proof.
  induction fuel as [|f IH]; intros bs Hlen.
  - destruct bs as [|x bs]; [|cbn [List.length] in Hlen; lia]. left. exists []. reflexivity.
  - destruct bs as [|x bs]; [left; exists []; reflexivity|].
    rewrite dec_avps_fuel_S by discriminate.
    destruct (dec_avp (x :: bs)) as [[a r]|e] eqn:E; cbn [bind].
    + apply dec_avp_suffix in E as (pre & Hpre & H8).
      assert (Hr : (List.length r <= f)%nat).
      { apply (f_equal (@List.length Z)) in Hpre. rewrite app_length in Hpre. unfold blen in H8. lia. }
      destruct (IH r Hr) as [[l Hl]|Herr].
      * left. exists (a :: l). rewrite Hl. reflexivity.
      * right. rewrite Herr. reflexivity.
    + right. f_equal. eapply dec_avp_err. exact E.
Qed.

(* the fuel never runs out: OutOfFuel is unreachable, because each AVP consumes >= 8 bytes *)
Theorem dec_avps_total : forall bs, (exists l, dec_avps bs = Ok l) \/ dec_avps bs = Err ConversionError.
Proof. intros bs. unfold dec_avps. apply dec_avps_fuel_total. lia. Qed.

(* ====================================================================== *)
(* C02: message header                                                     *)
(* ====================================================================== *)
Definition wf_hdr (h : hdr) : Prop :=
  0 <= h_version h < 256 /\ 0 <= h_length h < 16777216 /\ 0 <= h_flags h < 256 /\
  0 <= h_code h < 16777216 /\ 0 <= h_app h < 4294967296 /\ 0 <= h_hbh h < 4294967296 /\ 0 <= h_e2e h < 4294967296.

Lemma lor_word' len v : 0 <= len < 16777216 -> Z.lor (Z.shiftl v 24) len = len + v * 16777216.
Proof. intros Hl. rewrite Z.lor_comm. apply lor_word. exact Hl. Qed.

(* the encoder's output, with the two packed words not yet split *)
Definition hdr_form (h : hdr) : bytes :=
  be_enc 4 (h_length h + h_version h * 16777216) ++ be_enc 4 (h_code h + h_flags h * 16777216)
  ++ be_enc 4 (h_app h) ++ be_enc 4 (h_hbh h) ++ be_enc 4 (h_e2e h).

Lemma enc_hdr_form h : wf_hdr h -> enc_hdr h = Ok (hdr_form h).
Proof.
  intros (Hv & Hl & Hf & Hc & Ha & Hh & He). unfold enc_hdr, hdr_form.
  rewrite !lor_word' by assumption.
  rewrite (pack_uint_ok (h_length h + _)) by lia. cbn [bind].
  rewrite (pack_uint_ok (h_code h + _)) by lia. cbn [bind].
  rewrite !pack_uint_ok by assumption. cbn [bind]. reflexivity.
Qed.

Lemma hdr_form_rfc h : wf_hdr h ->
  hdr_form h = rfc_hdr (h_version h) (h_length h) (h_flags h) (h_code h) (h_app h) (h_hbh h) (h_e2e h).
Proof.
  intros (Hv & Hl & Hf & Hc & Ha & Hh & He). unfold hdr_form, rfc_hdr.
  rewrite !be_enc4_split by assumption.
  replace (h_version h mod 256) with (h_version h) by lia.
  replace (h_flags h mod 256) with (h_flags h) by lia.
  rewrite <- !app_assoc. reflexivity.
Qed.

Theorem enc_hdr_is_rfc : forall h, wf_hdr h ->
  enc_hdr h = Ok (rfc_hdr (h_version h) (h_length h) (h_flags h) (h_code h) (h_app h) (h_hbh h) (h_e2e h)).
Proof. intros h Hw. rewrite enc_hdr_form by exact Hw. rewrite hdr_form_rfc by exact Hw. reflexivity. Qed.

Theorem enc_hdr_length : forall h bs, enc_hdr h = Ok bs -> blen bs = 20.
Proof.
  intros h bs. unfold enc_hdr.
  destruct (pack_uint (Z.lor (Z.shiftl (h_version h) 24) (h_length h))) as [b1|e] eqn:E1; cbn [bind]; [|discriminate].
  destruct (pack_uint (Z.lor (Z.shiftl (h_flags h) 24) (h_code h))) as [b2|e] eqn:E2; cbn [bind]; [|discriminate].
  destruct (pack_uint (h_app h)) as [b3|e] eqn:E3; cbn [bind]; [|discriminate].
  destruct (pack_uint (h_hbh h)) as [b4|e] eqn:E4; cbn [bind]; [|discriminate].
  destruct (pack_uint (h_e2e h)) as [b5|e] eqn:E5; cbn [bind]; [|discriminate].
  intros H. inversion H; subst; clear H.
  apply pack_uint_inv in E1 as [_ ->]. apply pack_uint_inv in E2 as [_ ->]. apply pack_uint_inv in E3 as [_ ->].
  apply pack_uint_inv in E4 as [_ ->]. apply pack_uint_inv in E5 as [_ ->].
  rewrite !blen_app, !blen_be_enc. reflexivity.
Qed.

Lemma dec_hdr_form h rest : wf_hdr h -> dec_hdr (hdr_form h ++ rest) = Ok (h, rest).
Proof.
  intros (Hv & Hl & Hf & Hc & Ha & Hh & He). unfold dec_hdr, hdr_form. rewrite <- !app_assoc.
  rewrite unpack_uint_enc by lia. cbn [bind].
  rewrite unpack_uint_enc by lia. cbn [bind].
  rewrite unpack_uint_enc by assumption. cbn [bind].
  rewrite unpack_uint_enc by assumption. cbn [bind].
  rewrite unpack_uint_enc by assumption. cbn [bind].
  rewrite !word_hi, !word_lo by assumption. destruct h; reflexivity.
Qed.

Theorem dec_enc_hdr : forall h bs rest, wf_hdr h -> enc_hdr h = Ok bs -> dec_hdr (bs ++ rest) = Ok (h, rest).
Proof.
  intros h bs rest Hw He. rewrite enc_hdr_form in He by exact Hw. inversion He; subst.
  apply dec_hdr_form. exact Hw.
Qed.

Theorem enc_dec_hdr : forall bs h rest, wf_bytes bs -> dec_hdr bs = Ok (h, rest) ->
  wf_hdr h /\ exists pre, enc_hdr h = Ok pre /\ pre ++ rest = bs.
Proof.
  intros bs h rest Hwf H. unfold dec_hdr in H.
  destruct (unpack_uint bs) as [[vl r1]|e] eqn:E1; cbn [bind] in H; [|discriminate].
  destruct (unpack_uint r1) as [[fc r2]|e] eqn:E2; cbn [bind] in H; [|discriminate].
  destruct (unpack_uint r2) as [[app r3]|e] eqn:E3; cbn [bind] in H; [|discriminate].
  destruct (unpack_uint r3) as [[hbh r4]|e] eqn:E4; cbn [bind] in H; [|discriminate].
  destruct (unpack_uint r4) as [[e2e r5]|e] eqn:E5; cbn [bind] in H; [|discriminate].
  inversion H; subst; clear H.
  apply unpack_uint_inv in E1 as (v0 & v1 & v2 & v3 & -> & ->).
  apply unpack_uint_inv in E2 as (f0 & f1 & f2 & f3 & -> & ->).
  apply unpack_uint_inv in E3 as (a0 & a1 & a2 & a3 & -> & ->).
  apply unpack_uint_inv in E4 as (h0 & h1 & h2 & h3 & -> & ->).
  apply unpack_uint_inv in E5 as (e0 & e1 & e2 & e3 & -> & ->).
  change (v0 :: v1 :: v2 :: v3 :: f0 :: f1 :: f2 :: f3 :: a0 :: a1 :: a2 :: a3
          :: h0 :: h1 :: h2 :: h3 :: e0 :: e1 :: e2 :: e3 :: rest)
    with ([v0; v1; v2; v3] ++ [f0; f1; f2; f3] ++ [a0; a1; a2; a3] ++ [h0; h1; h2; h3] ++ [e0; e1; e2; e3] ++ rest)
    in *.
  apply wf_app_inv in Hwf as [Hv Hwf]. apply wf_app_inv in Hwf as [Hf Hwf].
  apply wf_app_inv in Hwf as [Ha Hwf]. apply wf_app_inv in Hwf as [Hh Hwf].
  apply wf_app_inv in Hwf as [He _].
  destruct (word_fields _ _ _ _ Hv) as (Ev1 & Ev2 & Hv0 & Hvl).
  destruct (word_fields _ _ _ _ Hf) as (Ef1 & Ef2 & Hf0 & Hfl).
  rewrite Ev1, Ev2, Ef1, Ef2.
  pose proof (be_dec_bound _ Ha) as Hab. pose proof (be_dec_bound _ Hh) as Hhb. pose proof (be_dec_bound _ He) as Heb.
  cbn [List.length] in Hab, Hhb, Heb. change (256 ^ Z.of_nat 4) with 4294967296 in *.
  assert (Hw : wf_hdr {| h_version := v0; h_length := be_dec [v1; v2; v3]; h_flags := f0;
                         h_code := be_dec [f1; f2; f3]; h_app := be_dec [a0; a1; a2; a3];
                         h_hbh := be_dec [h0; h1; h2; h3]; h_e2e := be_dec [e0; e1; e2; e3] |}).
  { unfold wf_hdr. cbn [h_version h_length h_flags h_code h_app h_hbh h_e2e]. repeat split; lia. }
  split; [exact Hw|].
  eexists. split; [apply enc_hdr_is_rfc; exact Hw|].
  unfold rfc_hdr. cbn [h_version h_length h_flags h_code h_app h_hbh h_e2e].
  assert (Hv123 : wf_bytes [v1; v2; v3]) by (apply wf_cons_inv in Hv as [_ Hv]; exact Hv).
  assert (Hf123 : wf_bytes [f1; f2; f3]) by (apply wf_cons_inv in Hf as [_ Hf]; exact Hf).
  rewrite !be_enc_dec3 by assumption. rewrite !be_enc_dec4 by assumption.
  rewrite <- !app_assoc. reflexivity.
Qed.

(* ====================================================================== *)
(* C02: whole messages                                                     *)
(* ====================================================================== *)
Lemma wf_hdr_set_length h n : wf_hdr h -> 0 <= n < 16777216 -> wf_hdr (set_length h n).
Proof.
  intros (Hv & Hl & Hf & Hc & Ha & Hh & He) Hn. unfold wf_hdr, set_length.
  cbn [h_version h_length h_flags h_code h_app h_hbh h_e2e]. repeat split; lia.
Qed.

Lemma enc_msg_inv h l bs : enc_msg h l = Ok bs ->
  exists body hb, enc_avps l = Ok body /\ enc_hdr (set_length h (20 + blen body)) = Ok hb /\ bs = hb ++ body.
Proof.
  unfold enc_msg. destruct (enc_avps l) as [body|e]; cbn [bind]; [|discriminate].
  destruct (enc_hdr (set_length h (20 + blen body))) as [hb|e] eqn:E; cbn [bind]; [|discriminate].
  intros H. inversion H; subst. exists body, hb. split; [reflexivity|]. split; [exact E|reflexivity].
Qed.

Lemma enc_msg_blen h l bs : enc_msg h l = Ok bs ->
  exists body, enc_avps l = Ok body /\ blen bs = 20 + blen body.
Proof.
  intros H. apply enc_msg_inv in H as (body & hb & Hb & Hh & ->).
  exists body. split; [exact Hb|]. rewrite blen_app, (enc_hdr_length _ _ Hh). reflexivity.
Qed.

(* enc_msg_length_field and dec_enc_msg AS REQUESTED ARE FALSE: nothing bounds
   the total size of the AVP list, and Message.as_bytes does not check that the
   recomputed length fits 24 bits: it ORs it into the version/length word, and
   pack_uint accepts any word < 2^32.  For a message of 2^24 bytes or more the
   encoder therefore succeeds (enc_msg_succeeds) but the length field holds
   blen bs mod 2^24 and the excess bits are ORed into the version byte
   (enc_msg_length_field_overflow).  The true statements carry the extra
   hypothesis blen bs < 2^24. *)
Theorem enc_msg_length_field_partial : forall h l bs, wf_hdr h -> Forall wf_avp l -> enc_msg h l = Ok bs ->
  blen bs < 16777216 ->
  exists h' r, dec_hdr bs = Ok (h', r) /\ h_length h' = blen bs.
Proof.
  intros h l bs Hh Hl He Hlen. destruct (enc_msg_blen h l bs He) as (body' & _ & Hbl).
  apply enc_msg_inv in He as (body & hb & Hb & Hhb & ->).
  rewrite blen_app, (enc_hdr_length _ _ Hhb) in *. pose proof (blen_nonneg body) as Hb0.
  assert (Hw : wf_hdr (set_length h (20 + blen body))) by (apply wf_hdr_set_length; [exact Hh|lia]).
  exists (set_length h (20 + blen body)), body. split; [apply dec_enc_hdr; assumption|reflexivity].
Qed.

Theorem dec_enc_msg_partial : forall h l bs, wf_hdr h -> Forall wf_avp l -> enc_msg h l = Ok bs ->
  blen bs < 16777216 ->
  dec_msg bs = Ok (set_length h (blen bs), l).
Proof.
  intros h l bs Hh Hl He Hlen.
  apply enc_msg_inv in He as (body & hb & Hb & Hhb & ->).
  rewrite blen_app, (enc_hdr_length _ _ Hhb) in *. pose proof (blen_nonneg body) as Hb0.
  assert (Hw : wf_hdr (set_length h (20 + blen body))) by (apply wf_hdr_set_length; [exact Hh|lia]).
  unfold dec_msg. rewrite (dec_enc_hdr _ _ _ Hw Hhb). cbn [bind].
  rewrite (dec_enc_avps l body Hl Hb). cbn [bind]. reflexivity.
Qed.

(* why the unrestricted statements fail *)
Lemma dec_hdr_length_bound bs h r : dec_hdr bs = Ok (h, r) -> 0 <= h_length h < 16777216.
Proof.
  unfold dec_hdr.
  destruct (unpack_uint bs) as [[vl r1]|e]; cbn [bind]; [|discriminate].
  destruct (unpack_uint r1) as [[fc r2]|e]; cbn [bind]; [|discriminate].
  destruct (unpack_uint r2) as [[app r3]|e]; cbn [bind]; [|discriminate].
  destruct (unpack_uint r3) as [[hbh r4]|e]; cbn [bind]; [|discriminate].
  destruct (unpack_uint r4) as [[e2e r5]|e]; cbn [bind]; [|discriminate].
  intros H. inversion H; subst. cbn [h_length].
  change 16777215 with (2 ^ 24 - 1). rewrite land_ones_mod by lia. change (2 ^ 24) with 16777216. lia.
Qed.

Theorem enc_msg_length_field_overflow : forall h l bs, enc_msg h l = Ok bs -> 16777216 <= blen bs ->
  forall h' r, dec_hdr bs = Ok (h', r) -> h_length h' <> blen bs.
Proof. intros h l bs _ Hlen h' r Hd. pose proof (dec_hdr_length_bound bs h' r Hd). lia. Qed.

Lemma log2_lt_pow2' a n : 0 < n -> 0 <= a < 2 ^ n -> Z.log2 a < n.
Proof.
  intros Hn Ha. destruct (Z.eq_dec a 0) as [->|Hne]; [change (Z.log2 0) with 0; lia|].
  apply Z.log2_lt_pow2; lia.
Qed.

Lemma lor_lt_pow2 a b n : 0 < n -> 0 <= a < 2 ^ n -> 0 <= b < 2 ^ n -> 0 <= Z.lor a b < 2 ^ n.
Proof.
  intros Hn Ha Hb. assert (H0 : 0 <= Z.lor a b) by (apply Z.lor_nonneg; lia). split; [exact H0|].
  destruct (Z.eq_dec (Z.lor a b) 0) as [E|E]; [rewrite E; apply Z.pow_pos_nonneg; lia|].
  apply Z.log2_lt_pow2; [lia|]. rewrite Z.log2_lor by lia.
  pose proof (log2_lt_pow2' a n Hn Ha). pose proof (log2_lt_pow2' b n Hn Hb). lia.
Qed.

Theorem enc_msg_succeeds : forall h l body, wf_hdr h -> enc_avps l = Ok body ->
  20 + blen body < 4294967296 ->
  exists bs, enc_msg h l = Ok bs /\ blen bs = 20 + blen body.
Proof.
  intros h l body (Hv & Hl & Hf & Hc & Ha & Hh & He) Hb Hlen. pose proof (blen_nonneg body) as Hb0.
  unfold enc_msg. rewrite Hb. cbn [bind].
  assert (Hs : exists hb, enc_hdr (set_length h (20 + blen body)) = Ok hb).
  { unfold enc_hdr, set_length. cbn [h_version h_length h_flags h_code h_app h_hbh h_e2e].
    assert (Hw : 0 <= Z.lor (Z.shiftl (h_version h) 24) (20 + blen body) < 4294967296).
    { rewrite Z.shiftl_mul_pow2 by lia. change (2 ^ 24) with 16777216.
      change 4294967296 with (2 ^ 32). apply lor_lt_pow2; change (2 ^ 32) with 4294967296; lia. }
    rewrite (pack_uint_ok _ Hw). cbn [bind].
    rewrite lor_word' by assumption. rewrite (pack_uint_ok (h_code h + _)) by lia. cbn [bind].
    rewrite !pack_uint_ok by assumption. cbn [bind]. eexists. reflexivity. }
  destruct Hs as [hb Hhb]. rewrite Hhb. cbn [bind]. exists (hb ++ body). split; [reflexivity|].
  rewrite blen_app, (enc_hdr_length _ _ Hhb). reflexivity.
Qed.

(* ====================================================================== *)
Print Assumptions enc_avp_is_rfc.
Print Assumptions enc_avp_length.
Print Assumptions enc_avp_wf_bytes.
Print Assumptions mk_avp_id.
Print Assumptions mk_avp_vbit.
Print Assumptions dec_enc_avp.
Print Assumptions dec_avp_suffix.
Print Assumptions dec_avp_total.
Print Assumptions dec_avp_wf_partial.
Print Assumptions dec_avp_wf_small.
Print Assumptions enc_dec_avp.
Print Assumptions dec_enc_avps.
Print Assumptions dec_avps_total.
Print Assumptions enc_hdr_is_rfc.
Print Assumptions enc_hdr_length.
Print Assumptions dec_enc_hdr.
Print Assumptions enc_dec_hdr.
Print Assumptions enc_msg_length_field_partial.
Print Assumptions dec_enc_msg_partial.
Print Assumptions enc_msg_length_field_overflow.
Print Assumptions enc_msg_succeeds.
