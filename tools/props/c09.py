"""C09 — node-layer property; see tools/nodecheck.py and tools/nodeoracles.py."""
import nodecheck

PROFILE = dict(outbound=0.0, peers=3)
W = nodecheck.weights(request=9, app_answer=7, bad_app_answer=2, close=2, dpr=1.5, accept=4, cer=8)
N_QUICK, N_THOROUGH, LENGTH = 60, 1500, 20
THEMES = (("answers", 500, 0, None, 0), ("two_peers", 300, 0, None, 0), ("ready", 1, 30, 2, 500))
FILES = ["Props/C09.v"]


def known(v, k):
    if k["id"] == "C09-second-connection-same-peer":
        c = v["case"]
        return v["clause"] in ("answer-to-requester", "gone-is-not-routable") and bool(c.get("same_host_connections"))
    return False


def check(run):
    return nodecheck.run(run, "C09", FILES, PROFILE, W, N_QUICK, N_THOROUGH, LENGTH, themes=THEMES, known=known)


replay = nodecheck.replay_generic
