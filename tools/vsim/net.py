"""Virtual sockets, the virtual interrupt pipe, and select()."""
from __future__ import annotations

import errno
import os as _os
import socket as _rs
import struct
from collections import deque

from .core import HarnessError


def _oserr(code):
    return OSError(code, _os.strerror(code))


class VPipe:
    """One virtual pipe: a FIFO of bytes shared by a read fd and a write fd."""

    def __init__(self, sim):
        self.sim = sim
        self.rfd = sim._alloc_fd()
        self.wfd = sim._alloc_fd()
        self.buf = bytearray()
        self.r_closed = False
        self.w_closed = False
        self.written = 0


class VSocket:
    """The node-side socket object."""

    def __init__(self, sim, family=_rs.AF_INET, type=_rs.SOCK_STREAM,
                 proto=0, fileno=None):
        self.sim = sim
        self.family = family
        self.type = type
        self.proto = proto
        self._fd = sim._alloc_fd()
        self.orig_fileno = self._fd
        self.closed = False
        self.close_count = 0
        self.listening = False
        self.bound = None
        self.connected = False
        self.connecting = False
        self.connect_done = False
        self.connect_failed = False
        self.so_error = 0
        self.err_readable = False
        self.blocking = True
        self.accept_q = deque()
        self.rx = deque()           # bytes | ("eof",) | ("reset",) | ("err", n)
        self.peer_addr = None
        self.local_addr = None
        self.remote = None
        self.opts = {}
        self.linger = None
        self.send_script = deque()
        self.stalled = False
        sim.sockets.append(self)

    def __repr__(self):
        kind = "listener" if self.listening else "sock"
        return f"<VSocket {kind} fd={self.orig_fileno} closed={self.closed}>"

    # --- plumbing
    def _check_open(self):
        if self.closed:
            raise _oserr(errno.EBADF)

    def fileno(self):
        return -1 if self.closed else self._fd

    def setblocking(self, flag):
        self._check_open()
        self.blocking = bool(flag)

    def settimeout(self, t):
        self._check_open()
        self.blocking = t is None

    def setsockopt(self, level, opt, value, *rest):
        self._check_open()
        self.opts[(level, opt)] = value
        if level == _rs.SOL_SOCKET and opt == _rs.SO_LINGER:
            try:
                self.linger = struct.unpack("ii", value)
            except Exception:
                self.linger = value
            if self.remote is not None:
                self.remote.linger = self.linger

    def getsockopt(self, level, opt, *rest):
        self._check_open()
        if level == _rs.SOL_SOCKET and opt == _rs.SO_ERROR:
            e = self.so_error
            self.so_error = 0
            self.err_readable = False
            return e
        v = self.opts.get((level, opt), 0)
        return v

    def bind(self, addr):
        self._check_open()
        self.bound = tuple(addr)
        self.local_addr = tuple(addr)

    def listen(self, backlog=128):
        self._check_open()
        if not self.listening:
            self.listening = True
            self.sim.listeners.append(self)
            self.sim._note("listen", self.orig_fileno, self.bound)

    def getsockname(self):
        self._check_open()
        if self.local_addr is None:
            return ("0.0.0.0", 0)
        return self.local_addr

    def getpeername(self):
        self._check_open()
        if not self.connected:
            raise _oserr(errno.ENOTCONN)
        return self.peer_addr

    def accept(self):
        self._check_open()
        if not self.listening:
            raise _oserr(errno.EINVAL)
        if not self.accept_q:
            if self.blocking:
                self.sim._block(lambda: bool(self.accept_q) or self.closed,
                                None, "accept")
                self._check_open()
            else:
                raise _oserr(errno.EAGAIN)
        s = self.accept_q.popleft()
        self.sim._note("accept", self.orig_fileno, s.orig_fileno, s.peer_addr)
        return s, s.peer_addr

    def connect(self, addr):
        self._check_open()
        sim = self.sim
        addr = tuple(addr)
        outcome = sim._connect_script.pop(0) if sim._connect_script else "ok"
        self.peer_addr = addr
        port = sim._next_eport
        sim._next_eport += 1
        self.local_addr = (sim.local_ip, port)
        rem = Remote(sim, self, "out", addr)
        rem.connect_outcome = outcome
        sim.outbound.append(rem)
        sim.connect_calls.append((sim.now, addr, outcome))
        sim._note("connect", self.orig_fileno, addr, outcome)
        if outcome == "ok":
            self.connected = True
            rem.state = "connected"
            return
        if outcome == "refused":
            rem.state = "refused"
            raise _oserr(errno.ECONNREFUSED)
        if isinstance(outcome, tuple) and outcome[0] == "inprogress":
            self.connecting = True
            rem.state = "connecting"
            raise _oserr(errno.EINPROGRESS)
        if isinstance(outcome, tuple) and outcome[0] == "err":
            rem.state = "failed"
            raise _oserr(outcome[1])
        raise HarnessError(f"bad connect outcome {outcome!r}")

    def connect_ex(self, addr):
        try:
            self.connect(addr)
        except OSError as e:
            return e.errno
        return 0

    def recv(self, n, flags=0):
        self._check_open()
        if self.so_error and self.err_readable:
            e = self.so_error
            self.so_error = 0
            self.err_readable = False
            self.sim._note("recv_err", self.orig_fileno, e)
            raise _oserr(e)
        while not self.rx:
            if not self.blocking:
                self.sim._note("recv_eagain", self.orig_fileno)
                raise _oserr(errno.EAGAIN)
            self.sim._block(lambda: bool(self.rx) or self.closed, None, "recv")
            self._check_open()
        item = self.rx[0]
        if isinstance(item, (bytes, bytearray)):
            if len(item) <= n:
                self.rx.popleft()
                data = bytes(item)
            else:
                data = bytes(item[:n])
                self.rx[0] = item[n:]
            self.sim._note("recv", self.orig_fileno, len(data))
            return data
        kind = item[0]
        if kind == "eof":
            self.sim._note("recv_eof", self.orig_fileno)
            return b""
        if kind == "reset":
            self.sim._note("recv_err", self.orig_fileno, errno.ECONNRESET)
            self.was_reset = True             # the kernel has torn the connection down
            raise _oserr(errno.ECONNRESET)
        self.rx.popleft()                     # one-shot error
        self.sim._note("recv_err", self.orig_fileno, item[1])
        raise _oserr(item[1])

    def send(self, buf, flags=0):
        self._check_open()
        if not self.connected:
            raise _oserr(errno.ENOTCONN)
        item = self.send_script.popleft() if self.send_script else "all"
        if isinstance(item, tuple):
            self.sim._note("send_err", self.orig_fileno, item[1])
            raise _oserr(item[1])
        n = len(buf) if item == "all" else min(int(item), len(buf))
        rem = self.remote
        rem.sent += bytes(buf[:n])
        rem.total_sent += n
        rem.send_calls.append((self.sim.now - self.sim.t0, len(buf), n))
        self.sim._note("send", self.orig_fileno, len(buf), n)
        return n

    def sendall(self, buf, flags=0):
        view = bytes(buf)
        while view:
            n = self.send(view)
            view = view[n:]

    def shutdown(self, how):
        self._check_open()
        # as on Linux: shutdown() of a socket that is not connected (never was, or was reset by the peer) fails
        if not self.connected or getattr(self, "was_reset", False):
            raise _oserr(errno.ENOTCONN)
        self.opts["shutdown"] = how

    def close(self):
        self.close_count += 1
        if self.remote is not None:
            self.remote.close_count = self.close_count
        if self.closed:
            return
        self.closed = True
        self._fd = -1
        self.sim._free_fd(self.orig_fileno)
        self.sim._note("close", self.orig_fileno, self.linger)

    def detach(self):
        fd = self._fd
        self.closed = True
        self._fd = -1
        self.sim._free_fd(fd)
        return fd

    def __enter__(self):
        return self

    def __exit__(self, *a):
        self.close()

    # --- readiness
    def _readable(self):
        if self.closed:
            return False
        if self.listening:
            return bool(self.accept_q)
        return bool(self.rx) or (self.err_readable and self.so_error != 0)

    def _writable(self):
        if self.closed or self.listening:
            return False
        if self.connected:
            return not self.stalled
        return self.connect_done


class Remote:
    """Driver-side handle of the far end of a node socket."""

    def __init__(self, sim, sock, direction, addr):
        self.sim = sim
        self.sock = sock
        sock.remote = self
        self.direction = direction          # 'in' | 'out'
        self.addr = addr                    # far-end (ip, port)
        self.fileno = sock.orig_fileno      # node-side fileno (stable)
        self.index = len(sim.remotes)
        self.state = "connected"
        self.connect_outcome = None
        self.sent = bytearray()
        self.total_sent = 0
        self.send_calls = []                # (rel time, offered, accepted)
        self.close_count = 0
        self.linger = None
        sim.remotes.append(self)

    def __repr__(self):
        return (f"<Remote #{self.index} {self.direction} {self.addr} "
                f"fd={self.fileno} {self.state} closed_by_node="
                f"{self.closed_by_node}>")

    @property
    def closed_by_node(self):
        return self.sock.closed

    @property
    def pending_rx(self):
        """Number of queued items the node has not consumed yet."""
        return len(self.sock.rx)

    def feed(self, data):
        """Queue one chunk for the node's next recv()."""
        data = bytes(data)
        if not data:
            raise ValueError("feed() needs at least one byte; use close()")
        self.sock.rx.append(data)
        self.sim._note("feed", self.fileno, len(data))

    def close(self):
        """Orderly EOF after everything fed so far."""
        self.sock.rx.append(("eof",))
        self.state = "closed"
        self.sim._note("remote_close", self.fileno)

    def reset(self):
        """recv raises ECONNRESET (after everything fed so far)."""
        self.sock.rx.append(("reset",))
        self.state = "reset"
        self.sim._note("remote_reset", self.fileno)

    def inject_read_error(self, err, front=True):
        """One-shot OSError(err) raised by the next recv()."""
        if front:
            self.sock.rx.appendleft(("err", err))
        else:
            self.sock.rx.append(("err", err))
        self.sim._note("inject_read_error", self.fileno, err)

    def script_send(self, items):
        for it in items:
            if it == "all" or (isinstance(it, int) and it >= 1) or \
                    (isinstance(it, tuple) and it[0] == "err"):
                self.sock.send_script.append(it)
            else:
                raise ValueError(f"bad send script item {it!r}")

    def stall_writes(self, flag=True):
        self.sock.stalled = bool(flag)

    def take_sent(self):
        data = bytes(self.sent)
        del self.sent[:]
        return data

    def take_messages(self):
        """Decode and remove every complete Diameter message in `sent`."""
        from diameter.message import Message
        out = []
        buf = self.sent
        while len(buf) >= 20:
            ln = int.from_bytes(buf[1:4], "big")
            if ln < 20 or len(buf) < ln:
                break
            out.append(Message.from_bytes(bytes(buf[:ln])))
            del buf[:ln]
        return out

    def complete_connect(self, error=None, readable=False):
        """Finish a connect() that returned EINPROGRESS.  error=None uses the
        scripted outcome ('ok' -> 0, 'fail' -> ECONNREFUSED)."""
        s = self.sock
        if not s.connecting:
            raise HarnessError("complete_connect: socket is not connecting")
        if error is None:
            oc = self.connect_outcome
            error = 0 if (isinstance(oc, tuple) and len(oc) > 1
                          and oc[1] == "ok") else errno.ECONNREFUSED
        s.connecting = False
        s.connect_done = True
        if error == 0:
            s.connected = True
            self.state = "connected"
        else:
            s.connect_failed = True
            s.so_error = error
            s.err_readable = bool(readable)
            self.state = "failed"
        self.sim._note("complete_connect", self.fileno, error)


def connect_in(sim, listener_index=0, ip="10.1.0.1", port=40000):
    try:
        lst = sim.listeners[listener_index]
    except IndexError:
        raise HarnessError(
            f"no listener #{listener_index} (has node.start() been called "
            f"with ip_addresses and tcp_port?)") from None
    if lst.closed:
        raise HarnessError(f"listener #{listener_index} is closed")
    s = VSocket(sim)
    s.connected = True
    s.peer_addr = (ip, port)
    s.local_addr = lst.bound
    rem = Remote(sim, s, "in", (ip, port))
    sim.inbound.append(rem)
    lst.accept_q.append(s)
    sim._note("connect_in", lst.orig_fileno, s.orig_fileno, (ip, port))
    return rem


def make_select(sim):
    def _check(objs):
        for o in objs:
            if isinstance(o, int):
                p = sim.pipes.get(o)
                if p is None:
                    sim._anomaly("select_bad_fd", o)
                    raise _oserr(errno.EBADF)
            elif isinstance(o, VSocket):
                if o.closed:
                    sim._anomaly("select_closed_socket", o.orig_fileno)
                    raise ValueError(
                        "file descriptor cannot be a negative integer (-1)")
            else:
                sim._anomaly("select_foreign_object", repr(o))
                raise TypeError(
                    f"vsim select(): unsupported object {o!r}")

    def _r_ready(o):
        if isinstance(o, int):
            p = sim.pipes[o]
            return o == p.rfd and len(p.buf) > 0
        return o._readable()

    def _w_ready(o):
        if isinstance(o, int):
            p = sim.pipes[o]
            return o == p.wfd
        return o._writable()

    def select(rlist, wlist, xlist, timeout=None):
        rlist = list(rlist)
        wlist = list(wlist)
        _check(rlist)
        _check(wlist)
        _check(xlist)

        def ready():
            return ([o for o in rlist if _r_ready(o)],
                    [o for o in wlist if _w_ready(o)])

        def any_ready():
            for o in rlist:
                if _r_ready(o):
                    return True
            for o in wlist:
                if _w_ready(o):
                    return True
            return False

        if timeout is not None and timeout < 0:
            raise ValueError("timeout must be non-negative")
        if not any_ready() and (timeout is None or timeout > 0):
            sim._block(any_ready, timeout, "select")
        r, w = ready()
        return r, w, []

    return select
