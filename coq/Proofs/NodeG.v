(* C17 as a HISTORY property of the node model (Model/Node.v).

   The window of answered end-to-end identifiers that the node keeps per origin host
   (n_sent_answers) is compared with a ghost history computed from what the node RECEIVES
   (the frames that pass the connection's gate) and what it QUEUES (OQueue outputs carrying answers).

   Attribution of an answer to an origin host.  The ghost keeps a table of PENDING requests
   (hop-by-hop id, end-to-end id) -> origin host:
     - when a request with a declared Origin-Host attribute is received (it passes the gate of an existing
       connection), its pair is bound to its origin (an absent value counts as the origin "<none>", as in
       the implementation); an older pending request with the same pair is FORGOTTEN (the later
       request takes the pair over: this is what _receive_message does, so no distinctness hypothesis on
       the pairs of unanswered requests is needed; under that hypothesis nothing is ever forgotten);
     - when an answer is queued (OQueue cid a, o_req a = false), it is attributed to the origin bound to
       (o_hbh a, o_e2e a) in the table, the end-to-end id is appended to that origin's history and the
       binding is dropped; an answer whose pair is not pending is attributed to nobody.
   `answered n0 evs o` is the list of end-to-end ids attributed to o, oldest first.  The ghost never looks
   at n_origin_waiting or n_sent_answers: that its table coincides with n_origin_waiting is part of the
   invariant (C17_history_pending).  Of the node's state it reads only which frames pass the gate
   (`received`), frame by frame (a network read may hold several frames, and the gate of the second
   depends on what the first did): ghost_frames.  For every other event it reads the trace entry.
   recv_trace_answers / answered_from_trace tie the frame-by-frame outputs back to the trace.

   Results.
     trace_run                         the trace agrees with `run`
     C17_history_window (_gen)         window of o = last g_rsize elements of `answered n0 evs o`
     C17_history_pending               the ghost's pending table = n_origin_waiting
     C17_history_duplicate_rejected    T flag + end-to-end id in that tail => exactly one 5012 answer, no delivery
     C17_history_no_false_duplicate    no T flag, or id not in that tail => outputs of the routing function
                                       for the unflagged request (C08_route_refines)
     C17_history_flag_irrelevant       same premise, any command: the T flag changes nothing at all
     answered_from_trace               every element of the history is an answer queued in the trace
   Hypotheses.  wf_init n0 (only "n_origin_waiting and n_sent_answers start empty" is used for the window,
   see _gen; reachability gives the distinct origins of the table).  For the two step theorems the
   connection must exist when the bytes arrive (get_conn n cid) and be READY in the state in which the
   reader thread sees the frame (`read_state n ds cid`, NodeD): the I/O thread finishes its iteration first
   and may in that iteration close the connection on a watchdog timeout.  "Well-formed" (validation off or
   no missing AVP) is needed for the rejection and for flag_irrelevant, not for no_false_duplicate (the
   routing function covers the 5005 case).  No hypothesis on the distinctness of pairs (see above;
   ghost_request_fresh, C17_history_example_pair_reuse). *)
From DV Require Import Prelude.Base Model.Node Proofs.NodeB Proofs.NodeC Proofs.NodeD.
From Coq Require Import String.

(* ====================================================================== *)
(* 0. the trace of a run                                                   *)
(* ====================================================================== *)
Fixpoint trace (n : node) (evs : list (dials * event)) : list (event * list output) :=
  match evs with
  | [] => []
  | de :: r => (snd de, snd (step n (fst de) (snd de))) :: trace (fst (step n (fst de) (snd de))) r
  end.

Lemma run_fold evs : forall n acc,
  List.fold_left (fun acc de => let '(n, outs) := acc in
                                let '(n', o) := step n (fst de) (snd de) in (n', (outs ++ [o])%list)) evs (n, acc)
  = (fst (run n evs), (acc ++ List.map snd (trace n evs))%list).
Proof.
  induction evs as [|de r IH]; intros n acc.
  - cbn. rewrite List.app_nil_r. reflexivity.
  - rewrite run_cons. cbn [List.fold_left trace List.map snd].
    destruct (step n (fst de) (snd de)) as [n' o]. cbn [fst snd]. rewrite IH.
    rewrite <- List.app_assoc. reflexivity.
Qed.

(* the trace lists the events of the run, each with the outputs `run` reports for it *)
Theorem trace_run n evs :
  List.map snd (trace n evs) = snd (run n evs) /\ List.map fst (trace n evs) = List.map snd evs.
Proof.
  split.
  - unfold run at 1. rewrite run_fold. reflexivity.
  - revert n. induction evs as [|de r IH]; intros n; [reflexivity|].
    cbn [trace List.map fst]. rewrite IH. reflexivity.
Qed.

(* ====================================================================== *)
(* 1. what every function leaves alone                                     *)
(* ====================================================================== *)
Definition keeps (n n' : node) : Prop :=
  n_origin_waiting n' = n_origin_waiting n /\ n_sent_answers n' = n_sent_answers n /\ n_cfg n' = n_cfg n.

Lemma keeps_refl n : keeps n n.
Proof. repeat split. Qed.
Lemma keeps_trans a b c : keeps a b -> keeps b c -> keeps a c.
Proof. intros (A1 & A2 & A3) (B1 & B2 & B3). repeat split; congruence. Qed.

Ltac kp := solve [repeat split; reflexivity].

Lemma remove_conn_k n cid r : keeps n (remove_conn n cid r).
Proof.
  unfold remove_conn. destruct (get_conn n cid) as [c|]; [|apply keeps_refl].
  destruct (find_conn_peer n c) as [p|]; [|kp].
  destruct (p_conn p) as [k|]; [|kp]. destruct (Nat.eqb k cid); kp.
Qed.

Lemma close_conn_k n cid r : keeps n (fst (close_conn n cid r)).
Proof. unfold close_conn. destruct (get_conn n cid); cbn [fst]; [apply remove_conn_k|apply keeps_refl]. Qed.

Lemma close_all_k cids : forall n r, keeps n (fst (close_all n cids r)).
Proof.
  induction cids as [|k l IH]; intros n r; [apply keeps_refl|]. cbn [close_all].
  pose proof (close_conn_k n k r) as H1. destruct (close_conn n k r) as [n1 o1].
  pose proof (IH n1 r) as H2. destruct (close_all n1 l r) as [n2 o2].
  cbn [fst] in *. eapply keeps_trans; eassumption.
Qed.

Lemma send_req_k n cid m : o_req m = true -> keeps n (fst (send_message n cid m)).
Proof. intros H. unfold send_message, queue_out. rewrite H. kp. Qed.

Lemma own_request_k n cid c : keeps n (fst (own_request n cid c)).
Proof. unfold own_request. destruct (get_conn n cid); kp. Qed.

Lemma send_cer_k n cid : keeps n (fst (send_cer n cid)).
Proof.
  unfold send_cer. pose proof (own_request_k n cid CE) as K. pose proof (own_request_req n cid CE) as H.
  destruct (own_request n cid CE) as [n1 m]. cbn [fst snd] in *.
  eapply keeps_trans; [exact K|apply send_req_k; exact H].
Qed.
Lemma send_dwr_k n cid : keeps n (fst (send_dwr n cid)).
Proof.
  unfold send_dwr. pose proof (own_request_k n cid DW) as K. pose proof (own_request_req n cid DW) as H.
  destruct (own_request n cid DW) as [n1 m]. cbn [fst snd] in *.
  pose proof (send_req_k n1 cid m H) as K2. destruct (send_message n1 cid m) as [n2 o]. cbn [fst] in *.
  eapply keeps_trans; [exact K|]. eapply keeps_trans; [exact K2|kp].
Qed.
Lemma send_dpr_k n cid : keeps n (fst (send_dpr n cid)).
Proof.
  unfold send_dpr. pose proof (own_request_k n cid DP) as K. pose proof (own_request_req n cid DP) as H.
  destruct (own_request n cid DP) as [n1 m]. cbn [fst snd] in *. cbv zeta.
  eapply keeps_trans; [exact K|]. eapply keeps_trans; [|apply send_req_k; exact H]. kp.
Qed.

Lemma check_timers_k n cid : keeps n (fst (check_timers n cid)).
Proof.
  unfold check_timers. destruct (n_stopping n); [apply keeps_refl|].
  destruct (get_conn n cid) as [c|]; [|apply keeps_refl]. cbv zeta.
  destruct (c_state c); try apply keeps_refl;
    match goal with |- context [if ?b then _ else _] => destruct b end;
    first [apply keeps_refl | apply close_conn_k | apply send_dwr_k].
Qed.

Lemma timers_all_k cids : forall n, keeps n (fst (timers_all n cids)).
Proof.
  induction cids as [|cid r IH]; intros n; [apply keeps_refl|]. cbn [timers_all].
  pose proof (check_timers_k n cid) as H1. destruct (check_timers n cid) as [n1 o1].
  pose proof (IH n1) as H2. destruct (timers_all n1 r) as [n2 o2].
  cbn [fst] in *. eapply keeps_trans; eassumption.
Qed.

Lemma connect_to_peer_k n name h res : keeps n (fst (connect_to_peer n name h res)).
Proof.
  unfold connect_to_peer. destruct (get_peer n name) as [p|]; [|apply keeps_refl].
  destruct (p_conn p); [apply keeps_refl|].
  destruct (negb (p_has_addr p)); [apply keeps_refl|]. cbv zeta.
  destruct res.
  - match goal with |- context [send_cer ?a ?b] =>
      pose proof (send_cer_k a b) as Hc; destruct (send_cer a b) as [n5 o] end.
    cbn [fst] in *. eapply keeps_trans; [|exact Hc]. kp.
  - match goal with |- context [close_conn ?a ?b ?c] =>
      pose proof (close_conn_k a b c) as Hc; destruct (close_conn a b c) as [n4 o] end.
    cbn [fst] in *. eapply keeps_trans; [|exact Hc]. kp.
  - kp.
Qed.

Lemma reconnect_all_k names : forall n ds, keeps n (fst (fst (reconnect_all n names ds))).
Proof.
  induction names as [|nm r IH]; intros n ds; [apply keeps_refl|]. cbn [reconnect_all].
  destruct (get_peer n nm) as [p|]; [|apply IH].
  destruct (wants_reconnect n p && p_has_addr p); [|apply IH].
  destruct ds as [|[h0 res] dr].
  - pose proof (connect_to_peer_k n nm 0 DialOk) as H1. destruct (connect_to_peer n nm 0 DialOk) as [n1 o1].
    pose proof (IH n1 []) as H2. destruct (reconnect_all n1 r []) as [[n2 o2] d2].
    cbn [fst] in *. eapply keeps_trans; eassumption.
  - pose proof (connect_to_peer_k n nm h0 res) as H1. destruct (connect_to_peer n nm h0 res) as [n1 o1].
    pose proof (IH n1 dr) as H2. destruct (reconnect_all n1 r dr) as [[n2 o2] d2].
    cbn [fst] in *. eapply keeps_trans; eassumption.
Qed.

Lemma io_iteration_k n ds : keeps n (fst (fst (io_iteration n ds))).
Proof.
  unfold io_iteration.
  pose proof (timers_all_k (List.map c_id (n_conns n)) n) as H1.
  destruct (timers_all n (List.map c_id (n_conns n))) as [n1 o1].
  pose proof (reconnect_all_k (List.map p_name (n_peers n1)) n1 ds) as H2.
  destruct (reconnect_all n1 (List.map p_name (n_peers n1)) ds) as [[n2 o2] ds'].
  cbn [fst] in *. eapply keeps_trans; [exact H1|]. eapply keeps_trans; [exact H2|kp].
Qed.

Lemma flush_one_k n cid : keeps n (fst (flush_one n cid)).
Proof.
  unfold flush_one. destruct (get_conn n cid) as [c|]; [|apply keeps_refl].
  destruct (c_stalled c || negb (c_sock_open c)); [apply keeps_refl|]. cbv zeta.
  destruct (c_out c) as [|x l]; [kp|].
  destruct (cstate_eqb (c_state c) SClosing); [|kp].
  match goal with |- context [close_conn ?a ?b ?c] =>
    pose proof (close_conn_k a b c) as Hc; destruct (close_conn a b c) as [n'' oc] end.
  cbn [fst] in *. eapply keeps_trans; [|exact Hc]. kp.
Qed.

Lemma flush_conns_k cids : forall n, keeps n (fst (flush_conns n cids)).
Proof.
  induction cids as [|cid r IH]; intros n; [apply keeps_refl|].
  rewrite flush_conns_cons.
  pose proof (flush_one_k n cid) as H1. destruct (flush_one n cid) as [n1 o1].
  pose proof (IH n1) as H2. destruct (flush_conns n1 r) as [n2 o2].
  cbn [fst] in *. eapply keeps_trans; eassumption.
Qed.
Lemma flush_k n : keeps n (fst (flush n)).
Proof. apply flush_conns_k. Qed.

Lemma settle_k n ds : keeps n (fst (fst (settle n ds))).
Proof.
  unfold settle.
  pose proof (flush_k n) as H1. destruct (flush n) as [n1 o1].
  pose proof (io_iteration_k n1 ds) as H2. destruct (io_iteration n1 ds) as [[n2 o2] ds'].
  pose proof (flush_k n2) as H3. destruct (flush n2) as [n3 o3].
  cbn [fst] in *. eapply keeps_trans; [exact H1|]. eapply keeps_trans; eassumption.
Qed.
Lemma settle'_k n ds : keeps n (fst (settle' n ds)).
Proof.
  unfold settle'. pose proof (settle_k n ds) as H. destruct (settle n ds) as [[n1 o1] d]. exact H.
Qed.

Lemma k_then_settle (r : node * list output) n ds :
  keeps n (fst r) ->
  keeps n (fst (let '(n1, o1) := r in let '(n2, o2) := settle' n1 ds in (n2, (o1 ++ o2)%list))).
Proof.
  destruct r as [n1 o1]. intros H1. pose proof (settle'_k n1 ds) as H2.
  destruct (settle' n1 ds) as [n2 o2]. cbn [fst] in *. eapply keeps_trans; eassumption.
Qed.

Lemma settle_app_k n ds : keeps n (fst (fst (settle_app n ds))).
Proof.
  unfold settle_app.
  pose proof (io_iteration_k n ds) as H2. destruct (io_iteration n ds) as [[n2 o2] ds'].
  pose proof (flush_k n2) as H3. destruct (flush n2) as [n3 o3].
  cbn [fst] in *. eapply keeps_trans; eassumption.
Qed.
Lemma settle_app'_k n ds : keeps n (fst (settle_app' n ds)).
Proof.
  unfold settle_app'. pose proof (settle_app_k n ds) as H. destruct (settle_app n ds) as [[n1 o1] d]. exact H.
Qed.

Lemma k_then_settle_app (r : node * list output) n ds :
  keeps n (fst r) ->
  keeps n (fst (let '(n1, o1) := r in let '(n2, o2) := settle_app' n1 ds in (n2, (o1 ++ o2)%list))).
Proof.
  destruct r as [n1 o1]. intros H1. pose proof (settle_app'_k n1 ds) as H2.
  destruct (settle_app' n1 ds) as [n2 o2]. cbn [fst] in *. eapply keeps_trans; eassumption.
Qed.

Lemma wake_k target fuel : forall n0 n ds acc, keeps n0 n -> keeps n0 (fst (wake target fuel n ds acc)).
Proof.
  induction fuel as [|f IH]; intros n0 n ds acc K; cbn [wake].
  - cbn [fst]. eapply keeps_trans; [exact K|kp].
  - destruct (n_io_deadline n <=? target); [|cbn [fst]; eapply keeps_trans; [exact K|kp]].
    cbv zeta.
    match goal with |- context [settle ?a ?b] =>
      pose proof (settle_k a b) as H2; destruct (settle a b) as [[n2 o2] ds2] end.
    cbn [fst] in H2. apply IH. eapply keeps_trans; [exact K|]. eapply keeps_trans; [|exact H2]. kp.
Qed.

Lemma stop_go_k cids : forall n0 n acc, keeps n0 n -> keeps n0 (fst (stop_go cids n acc)).
Proof.
  induction cids as [|c r IH]; intros n0 n acc K; cbn [stop_go]; [exact K|].
  destruct (get_conn n c) as [cn|]; [|apply IH; exact K].
  destruct (is_ready_state (c_state cn)); [|apply IH; exact K].
  pose proof (send_dpr_k n c) as H2. destruct (send_dpr n c) as [n' o'].
  apply IH. eapply keeps_trans; eassumption.
Qed.

Lemma finish_go_k cids : forall n0 n acc, keeps n0 n -> keeps n0 (fst (finish_go cids n acc)).
Proof.
  induction cids as [|c r IH]; intros n0 n acc K; cbn [finish_go]; [exact K|].
  pose proof (close_conn_k n c R_SHUTDOWN) as H2. destruct (close_conn n c R_SHUTDOWN) as [n' o'].
  apply IH. eapply keeps_trans; eassumption.
Qed.

Lemma start_go_k names : forall n0 n ds acc, keeps n0 n -> keeps n0 (fst (fst (start_go names n ds acc))).
Proof.
  induction names as [|nm r IH]; intros n0 n ds acc K; cbn [start_go]; [exact K|].
  destruct (get_peer n nm) as [p|]; [|apply IH; exact K].
  destruct (p_persistent p); [|apply IH; exact K].
  destruct ds as [|[h0 res] dr].
  - pose proof (connect_to_peer_k n nm 0 DialOk) as H2. destruct (connect_to_peer n nm 0 DialOk) as [n1 o1].
    apply IH. eapply keeps_trans; eassumption.
  - pose proof (connect_to_peer_k n nm h0 res) as H2. destruct (connect_to_peer n nm h0 res) as [n1 o1].
    apply IH. eapply keeps_trans; eassumption.
Qed.

(* every event other than a network read and an application's answer leaves the table of pending
   requests, the windows and the configuration alone *)
Lemma step_k n ds e :
  (forall cid ms, e <> ERecv cid ms) -> (forall i m, e <> EAppAnswer i m) -> keeps n (fst (step n ds e)).
Proof.
  intros HnR HnA. destruct e as [hbh0|cid ms|cid|cid hard|cid ok|cid b|dt|i m|i m realm pick tmo|force|tclose tend|].
  - (* EAccept *)
    cbn [step]. destruct (n_stopping n); [kp|]. cbv zeta.
    eapply keeps_trans; [|apply settle'_k]. kp.
  - exfalso. exact (HnR _ _ eq_refl).
  - (* EPeerClose *)
    cbn [step]. apply k_then_settle. apply close_conn_k.
  - (* EReadErr *)
    cbn [step]. apply k_then_settle. destruct hard; [apply close_conn_k|apply keeps_refl].
  - (* EConnDone *)
    cbn [step]. destruct (get_conn n cid) as [c|]; [|apply keeps_refl].
    destruct (cstate_eqb (c_state c) SConnecting); [|apply keeps_refl].
    destruct ok.
    + cbv zeta.
      match goal with |- context [send_cer ?a ?b] =>
        assert (K2 : keeps n a);
        [|pose proof (send_cer_k a b) as H3; destruct (send_cer a b) as [n3 o3]] end.
      { match goal with |- context [find_conn_peer ?a ?b] => destruct (find_conn_peer a b) end; kp. }
      pose proof (io_iteration_k n3 ds) as H4. destruct (io_iteration n3 ds) as [[n4 o4] ds4].
      pose proof (settle'_k n4 ds4) as H5. destruct (settle' n4 ds4) as [n5 o5].
      cbn [fst] in *. eapply keeps_trans; [exact K2|]. eapply keeps_trans; [exact H3|].
      eapply keeps_trans; eassumption.
    + apply k_then_settle. apply close_conn_k.
  - (* EStall *)
    cbn [step]. destruct (get_conn n cid) as [c|]; [|apply keeps_refl]. cbv zeta.
    destruct b; [kp|]. destruct (c_out c); [kp|]. eapply keeps_trans; [|apply settle'_k]. kp.
  - (* ETick *)
    rewrite step_tick. apply wake_k. apply keeps_refl.
  - exfalso. exact (HnA _ _ eq_refl).
  - (* EAppRequest *)
    rewrite step_app_request.
    assert (K0 : keeps n (fst (e2e_prep n m))).
    { unfold e2e_prep. destruct (o_e2e m =? 0); kp. }
    generalize dependent (fst (e2e_prep n m)). intros n0 K0. generalize (snd (e2e_prep n m)). intros e2e.
    unfold req_core.
    destruct (route_request n0 i realm) as [usable|]; [|exact K0].
    destruct usable as [|p0 rest]; [exact K0|].
    destruct (choose (p0 :: rest) pick) as [p|]; [|exact K0].
    destruct (p_conn p) as [cid|]; [|exact K0].
    destruct (get_conn n0 cid) as [c|]; [|exact K0].
    assert (K1 : keeps n0 (fst (if o_hbh m =? 0
               then (set_conns n0 (upd_conn (n_conns n0) cid (fun c => set_chbh c (seq_next (c_hbh c)))), seq_next (c_hbh c))
               else (n0, o_hbh m)))) by (destruct (o_hbh m =? 0); kp).
    destruct (if o_hbh m =? 0 then _ else _) as [n1 hbh]. cbn [fst] in K1. cbv zeta.
    eapply keeps_trans; [exact K0|]. eapply keeps_trans; [exact K1|].
    apply k_then_settle_app. eapply keeps_trans; [|apply send_req_k; reflexivity]. kp.
  - (* EStop *)
    rewrite step_stop. cbv zeta. destruct force; [kp|].
    apply k_then_settle. apply stop_go_k. kp.
  - (* EStopFinish *)
    rewrite step_stop_finish. cbv zeta.
    match goal with |- context [finish_go ?l ?a ?b] =>
      pose proof (finish_go_k l n a b) as H1; destruct (finish_go l a b) as [n1 o1] end.
    cbn [fst] in *. eapply keeps_trans; [apply H1; kp|kp].
  - (* EStart *)
    rewrite step_start.
    pose proof (start_go_k (List.map p_name (n_peers n)) n n ds [] (keeps_refl n)) as H1.
    destruct (start_go (List.map p_name (n_peers n)) n ds []) as [[n1 o1] ds1]. cbn [fst] in H1.
    apply (k_then_settle (n1, o1)). exact H1.
Qed.

Lemma flag_ready_k n cid : keeps n (flag_ready n cid).
Proof. kp. Qed.
Lemma assign_peer_conn_k n cid : keeps n (assign_peer_conn n cid).
Proof.
  unfold assign_peer_conn. destruct (get_conn n cid) as [c|]; [|apply keeps_refl].
  destruct (String.eqb (c_host c) ""); [apply keeps_refl|].
  destruct (get_peer n (c_host c)) as [p|]; [|apply keeps_refl]. cbv zeta.
  destruct (mem_nat cid (n_half_ready n)); kp.
Qed.
Lemma route_answer_k n a : keeps n (snd (route_answer n a)).
Proof.
  unfold route_answer. destruct (List.find _ (n_peer_waiting n)) as [[host l]|]; [|apply keeps_refl]. cbv zeta.
  destruct (List.find _ _) as [c|]; [|kp]. destruct (is_ready_state (c_state c)); kp.
Qed.

(* ====================================================================== *)
(* 2. the ghost history                                                    *)
(* ====================================================================== *)
(* pending requests, and the answers attributed so far, oldest first: (origin host, end-to-end id) *)
Definition ghost : Type := (list (Z * Z * string) * list (string * Z))%type.
Definition ghost0 : ghost := ([], []).

(* a request is received: its pair is bound to its origin (replacing an older binding of the pair) *)
Definition ghost_request (g : ghost) (m : msg) : ghost :=
  if m_req m then
    match origin_key m with
    | Some o => ((ow_remove (fst g) (m_hbh m) (m_e2e m) ++ [(m_hbh m, m_e2e m, o)])%list, snd g)
    | None => g
    end
  else g.

(* an answer is queued: attributed to the origin its pair is bound to, if any *)
Definition ghost_answer (g : ghost) (a : omsg) : ghost :=
  match ow_get (fst g) (o_hbh a) (o_e2e a) with
  | Some o => (ow_remove (fst g) (o_hbh a) (o_e2e a), (snd g ++ [(o, o_e2e a)])%list)
  | None => g
  end.

Definition ghost_out (g : ghost) (o : output) : ghost :=
  match o with
  | OQueue _ a => if o_req a then g else ghost_answer g a
  | _ => g
  end.
Definition ghost_outs (g : ghost) (outs : list output) : ghost := List.fold_left ghost_out outs g.

(* the frame reaches Node._receive_message: its connection exists and the gate lets it through *)
Definition received (n : node) (cid : nat) (m : msg) : bool :=
  match get_conn n cid with Some c => gate_passes c m | None => false end.

(* the frames of one read, in order: each is received (or dropped by the gate), then the outputs the
   node produces for it are seen; n is the state in which the reader thread sees the frame *)
Fixpoint ghost_frames (n : node) (g : ghost) (cid : nat) (ms : list msg) : ghost :=
  match ms with
  | [] => g
  | m :: r =>
      let g1 := if received n cid m then ghost_request g m else g in
      ghost_frames (fst (dispatch n cid m)) (ghost_outs g1 (snd (dispatch n cid m))) cid r
  end.

(* one event.  A network read: the frames, one after the other, in the state in which the reader thread
   starts on them (`read_state`, NodeD).  Every other event: the outputs of the step (the trace entry). *)
Definition ghost_step (n : node) (ds : dials) (e : event) (g : ghost) : ghost :=
  match e with
  | ERecv cid ms =>
      match get_conn n cid with
      | None => g
      | Some _ => ghost_frames (read_state n ds cid) g cid ms
      end
  | _ => ghost_outs g (snd (step n ds e))
  end.

Fixpoint ghost_run (n : node) (g : ghost) (evs : list (dials * event)) : ghost :=
  match evs with
  | [] => g
  | de :: r => ghost_run (fst (step n (fst de) (snd de))) (ghost_step n (fst de) (snd de) g) r
  end.

Definition answers_of (h : list (string * Z)) (o : string) : list Z :=
  List.map snd (List.filter (fun p => String.eqb (fst p) o) h).

(* the end-to-end identifiers of the answers queued so far for received requests of origin o *)
Definition answered (n0 : node) (evs : list (dials * event)) (o : string) : list Z :=
  answers_of (snd (ghost_run n0 ghost0 evs)) o.
(* the requests received so far and not answered yet *)
Definition pending (n0 : node) (evs : list (dials * event)) : list (Z * Z * string) :=
  fst (ghost_run n0 ghost0 evs).

(* the last k elements *)
Definition lastn {A} (k : nat) (l : list A) : list A := List.skipn (List.length l - k) l.

(* under "unanswered requests have pairwise distinct pairs" the ghost never forgets a pending request:
   binding a pair that is not pending is a plain append *)
Lemma ow_remove_fresh ow h e : ow_get ow h e = None -> ow_remove ow h e = ow.
Proof.
  unfold ow_remove. induction ow as [|[[h' e'] o] r IH]; [reflexivity|].
  cbn [ow_get List.filter]. destruct ((h' =? h) && (e' =? e)); [discriminate|].
  intros H. cbn [negb]. f_equal. exact (IH H).
Qed.
Lemma ghost_request_fresh g m o :
  m_req m = true -> origin_key m = Some o -> ow_get (fst g) (m_hbh m) (m_e2e m) = None ->
  ghost_request g m = ((fst g ++ [(m_hbh m, m_e2e m, o)])%list, snd g).
Proof. intros Hr Ho Hf. unfold ghost_request. rewrite Hr, Ho, (ow_remove_fresh _ _ _ Hf). reflexivity. Qed.

(* ---- the ghost and the trace ------------------------------------------------------------- *)
Lemma ghost_outs_app g a b : ghost_outs g (a ++ b) = ghost_outs (ghost_outs g a) b.
Proof. apply List.fold_left_app. Qed.

Lemma ghost_outs_rq outs : rq outs -> forall g, ghost_outs g outs = g.
Proof.
  induction 1 as [|o l Ho _ IH]; intros g; [reflexivity|].
  cbn [ghost_outs List.fold_left]. fold (ghost_outs (ghost_out g o) l). rewrite IH.
  destruct o; try reflexivity. cbn in Ho. cbn [ghost_out]. rewrite Ho. reflexivity.
Qed.

(* only the queued answers of a list of outputs matter *)
Lemma ghost_outs_answers outs : forall g, ghost_outs g outs = ghost_outs g (List.filter is_answer_queue outs).
Proof.
  induction outs as [|o l IH]; intros g; [reflexivity|].
  cbn [List.filter]. destruct (is_answer_queue o) eqn:E.
  - cbn [ghost_outs List.fold_left]. apply IH.
  - cbn [ghost_outs List.fold_left]. fold (ghost_outs (ghost_out g o) l). rewrite <- IH.
    destruct o; try reflexivity. cbn in E. cbn [ghost_out]. destruct (o_req m); [reflexivity|discriminate E].
Qed.

Lemma rq_no_answers outs : rq outs -> List.filter is_answer_queue outs = [].
Proof.
  induction 1 as [|o l Ho _ IH]; [reflexivity|]. cbn [List.filter]. rewrite IH.
  destruct o; try reflexivity. cbn in Ho. cbn. rewrite Ho. reflexivity.
Qed.

Lemma step_recv_eq n ds cid ms c :
  get_conn n cid = Some c ->
  step n ds (ERecv cid ms) =
  (fst (settle' (fst (dispatch_all (read_state n ds cid) cid ms)) (snd (io_iteration n ds))),
   (snd (fst (io_iteration n ds)) ++ snd (dispatch_all (read_state n ds cid) cid ms)
      ++ snd (settle' (fst (dispatch_all (read_state n ds cid) cid ms)) (snd (io_iteration n ds))))%list).
Proof.
  intros H. cbn [step]. rewrite H. unfold read_state.
  destruct (io_iteration n ds) as [[n1 o1] ds1]. cbn [fst snd].
  destruct (dispatch_all (upd_last_read n1 cid) cid ms) as [n3 o3]. cbn [fst snd].
  destruct (settle' n3 ds1) as [n4 o4]. reflexivity.
Qed.

Lemma dispatch_all_cons n cid m r :
  dispatch_all n cid (m :: r) =
  (fst (dispatch_all (fst (dispatch n cid m)) cid r),
   (snd (dispatch n cid m) ++ snd (dispatch_all (fst (dispatch n cid m)) cid r))%list).
Proof.
  cbn [dispatch_all]. destruct (dispatch n cid m) as [n1 o1]. cbn [fst snd].
  destruct (dispatch_all n1 cid r) as [n2 o2]. reflexivity.
Qed.

(* the answers in the trace entry of a network read are those produced for its frames, frame by frame:
   the ghost sees every queued answer of the trace, in the order of the trace *)
Theorem recv_trace_answers n ds cid ms c :
  get_conn n cid = Some c ->
  List.filter is_answer_queue (snd (step n ds (ERecv cid ms)))
  = List.filter is_answer_queue (snd (dispatch_all (read_state n ds cid) cid ms)).
Proof.
  intros H. rewrite (step_recv_eq n ds cid ms c H). cbn [snd].
  rewrite !List.filter_app.
  rewrite (rq_no_answers _ (io_iteration_rq n ds)), (rq_no_answers _ (settle'_rq _ _)).
  rewrite List.app_nil_r. reflexivity.
Qed.

(* ====================================================================== *)
(* 3. window arithmetic                                                    *)
(* ====================================================================== *)
Lemma skipn_skipn' {A} (b : nat) : forall (a : nat) (l : list A), List.skipn a (List.skipn b l) = List.skipn (b + a) l.
Proof.
  induction b as [|b IH]; intros a l; [reflexivity|].
  destruct l as [|x l]; [cbn; apply List.skipn_nil|]. cbn [List.skipn Nat.add]. apply IH.
Qed.

(* appending to the window = taking the window of the extended history *)
Lemma bounded_append_lastn k l x : bounded_append k (lastn k l) x = lastn k (l ++ [x]).
Proof.
  destruct (bounded_append_spec k (lastn k l) x) as (E & _). rewrite E. clear E. unfold lastn.
  rewrite !List.app_length, List.skipn_length. cbn [List.length].
  rewrite !List.skipn_app, skipn_skipn', List.skipn_length. f_equal.
  - f_equal. lia.
  - f_equal. lia.
Qed.

Lemma lastn_nil {A} k : @lastn A k [] = [].
Proof. reflexivity. Qed.

Lemma answers_of_snoc h o e o' :
  answers_of (h ++ [(o, e)]) o' = if String.eqb o o' then (answers_of h o' ++ [e])%list else answers_of h o'.
Proof.
  unfold answers_of. rewrite List.filter_app, List.map_app. cbn [List.filter fst].
  destruct (String.eqb o o'); cbn [List.map snd]; [reflexivity|apply List.app_nil_r].
Qed.

(* ====================================================================== *)
(* 4. the invariant: the ghost's table IS n_origin_waiting, and every window is the tail of the    *)
(*    origin's history                                                                             *)
(* ====================================================================== *)
Definition Inv (n : node) (g : ghost) : Prop :=
  fst g = n_origin_waiting n /\
  forall o, sa_get (n_sent_answers n) o = lastn (g_rsize (n_cfg n)) (answers_of (snd g) o).

Lemma Inv_keeps n n' g : keeps n n' -> Inv n g -> Inv n' g.
Proof. intros (K1 & K2 & K3) [H1 H2]. unfold Inv. rewrite K1, K2, K3. split; assumption. Qed.

(* a node function result: the invariant is carried along its outputs *)
Definition tr (n : node) (r : node * list output) : Prop :=
  forall g, Inv n g -> Inv (fst r) (ghost_outs g (snd r)).

Lemma tr_quiet n n' outs : keeps n n' -> rq outs -> tr n (n', outs).
Proof. intros K R g H. cbn [fst snd]. rewrite (ghost_outs_rq _ R). eapply Inv_keeps; eassumption. Qed.
Lemma tr_nil n : tr n (n, []).
Proof. apply tr_quiet; [apply keeps_refl|apply rq_nil]. Qed.
Lemma tr_app n n1 o1 n2 o2 : tr n (n1, o1) -> tr n1 (n2, o2) -> tr n (n2, (o1 ++ o2)%list).
Proof. intros T1 T2 g H. cbn [fst snd]. rewrite ghost_outs_app. apply (T2 _ (T1 _ H)). Qed.
Lemma tr_pre n n0 r : keeps n n0 -> tr n0 r -> tr n r.
Proof. intros K T g H. apply T. eapply Inv_keeps; eassumption. Qed.
Lemma tr_post n n1 o n2 : tr n (n1, o) -> keeps n1 n2 -> tr n (n2, o).
Proof. intros T K g H. cbn [fst snd]. eapply Inv_keeps; [exact K|]. exact (T _ H). Qed.
Lemma tr_cons_other n n' x o : is_queue x = false -> tr n (n', o) -> tr n (n', x :: o).
Proof.
  intros Hx T g H. cbn [fst snd ghost_outs List.fold_left].
  replace (ghost_out g x) with g by (destruct x; try reflexivity; discriminate Hx). exact (T _ H).
Qed.

(* recording an answer in the node = attributing it in the ghost *)
Lemma Inv_record n g a :
  Inv n g -> Inv (record_answer n (o_hbh a) (o_e2e a)) (ghost_answer g a).
Proof.
  intros [Hp Hw]. rewrite record_answer_eq. unfold ghost_answer. rewrite Hp.
  destruct (ow_get (n_origin_waiting n) (o_hbh a) (o_e2e a)) as [o|]; [|split; assumption].
  split; cbn [fst snd set_waiting n_origin_waiting n_sent_answers n_cfg]; [reflexivity|].
  intros o'. destruct (C17_window (g_rsize (n_cfg n)) (n_sent_answers n) o (o_e2e a)) as [W1 W2].
  rewrite answers_of_snoc. destruct (String.eqb o o') eqn:E.
  - apply String.eqb_eq in E. subst o'. rewrite W1, Hw. apply bounded_append_lastn.
  - apply String.eqb_neq in E. rewrite W2 by (intros E'; apply E; symmetry; exact E'). apply Hw.
Qed.

Lemma send_answer_eq n cid a :
  o_req a = false ->
  exists n2, keeps n n2 /\ send_message n cid a = (record_answer n2 (o_hbh a) (o_e2e a), [OQueue cid a]).
Proof.
  intros H. unfold send_message, queue_out. rewrite H. eexists. split; [|reflexivity].
  destruct (get_conn n cid); kp.
Qed.

(* Node.send_message: a request leaves everything alone; an answer is recorded / attributed *)
Lemma tr_send n cid a : tr n (send_message n cid a).
Proof.
  destruct (o_req a) eqn:Hr.
  - rewrite send_message_pair. apply tr_quiet; [apply send_req_k; exact Hr|].
    constructor; [exact Hr|constructor].
  - destruct (send_answer_eq n cid a Hr) as (n2 & K & E). rewrite E. intros g H.
    cbn [fst snd ghost_outs List.fold_left ghost_out]. rewrite Hr.
    apply Inv_record. eapply Inv_keeps; eassumption.
Qed.

Lemma tr_close n cid r : tr n (close_conn n cid r).
Proof.
  pose proof (close_conn_k n cid r) as K. pose proof (close_conn_rq n cid r) as R.
  destruct (close_conn n cid r) as [n1 o1]. apply tr_quiet; assumption.
Qed.

Lemma only_close_rq outs : only_close outs -> rq outs.
Proof. apply Forall_impl. intros [] H; try contradiction H; exact I. Qed.

(* close some connections, then send one message from a state that differs from the result only in
   what `keeps` ignores *)
Lemma tr_then_send n n1 oel X cid a :
  keeps n n1 -> rq oel -> keeps n1 X ->
  tr n (let '(n2, o) := send_message X cid a in (n2, (oel ++ o)%list)).
Proof.
  intros K1 R K2. pose proof (tr_send X cid a) as T. destruct (send_message X cid a) as [n2 o].
  eapply tr_app; [apply tr_quiet; eassumption|]. eapply tr_pre; eassumption.
Qed.

Lemma tr_recv_cer n cid m : tr n (recv_cer n cid m).
Proof.
  unfold recv_cer.
  destruct (get_conn n cid) as [c0|]; [|apply tr_nil].
  destruct (negb (cstate_eqb (c_state c0) SConnected)); [apply tr_nil|].
  destruct (pres_get (m_origin m)) as [host|]; [|apply tr_nil].
  destruct (get_peer n host) as [p|]; [|eapply tr_pre; [|apply tr_send]; kp].
  cbv zeta.
  destruct (election_rivals _ cid host) as [|r0 rs];
    [|destruct (String.ltb host _); [|eapply tr_pre; [|apply tr_send]; kp]];
    (match goal with |- context [close_all ?a ?b ?c] =>
       pose proof (close_all_k b a c) as Hk; pose proof (only_close_rq _ (close_all_only_close b a c)) as Hq;
       assert (K0 : keeps n a) by kp;
       destruct (close_all a b c) as [n1 oel] end;
     cbn [fst snd] in Hk, Hq;
     destruct (inter_z _ (m_auth m)); destruct (inter_z _ (m_acct m));
       destruct (mem_z APP_RELAY (m_auth m) || mem_z APP_RELAY (m_acct m));
       (apply (tr_then_send n n1);
        [eapply keeps_trans; eassumption | exact Hq |
         first [apply keeps_refl
               | eapply keeps_trans; [|apply flag_ready_k]; eapply keeps_trans; [|apply assign_peer_conn_k]; kp]])).
Qed.

Lemma tr_recv_cea n cid m : tr n (recv_cea n cid m).
Proof.
  unfold recv_cea.
  destruct (get_conn n cid) as [c0|]; [|apply tr_nil].
  destruct (negb (cstate_eqb (c_state c0) SConnected)); [apply tr_nil|].
  apply (match_2001 (tr n)); [|apply tr_close].
  destruct (pres_get (m_origin m)) as [host|]; [|apply tr_nil].
  destruct (negb (String.eqb (c_node_name c0) "") && negb (String.eqb host (c_node_name c0)));
    [apply tr_close|].
  apply tr_quiet; [|apply rq_nil].
  eapply keeps_trans; [|apply flag_ready_k]. eapply keeps_trans; [|apply assign_peer_conn_k]. kp.
Qed.

Lemma tr_recv_dpr n cid m : tr n (recv_dpr n cid m).
Proof.
  unfold recv_dpr. cbv zeta. eapply tr_pre; [|apply tr_send].
  match goal with |- context [match get_conn ?a ?b with _ => _ end] => destruct (get_conn a b) as [c|] end; [|kp].
  match goal with |- context [match find_conn_peer ?a ?b with _ => _ end] => destruct (find_conn_peer a b) end; kp.
Qed.

Lemma tr_recv_dpa n cid : tr n (recv_dpa n cid).
Proof.
  unfold recv_dpa. cbv zeta.
  destruct (get_conn _ cid) as [c|]; [|apply tr_quiet; [kp|apply rq_nil]].
  destruct (c_out c); [|apply tr_quiet; [kp|apply rq_nil]].
  eapply tr_pre; [|apply tr_close]. kp.
Qed.

Lemma tr_recv_app_request n cid m : tr n (recv_app_request n cid m).
Proof.
  unfold recv_app_request.
  destruct (get_conn n cid) as [c|]; [|apply tr_nil]. cbv zeta.
  destruct (m_drealm m) as [| |realm]; try apply tr_send.
  destruct (route_lookup n realm) as [entries|]; [|apply tr_send].
  destruct (List.find _ entries) as [[[i|] names]|]; try apply tr_send.
  destruct (handler_raises m).
  - match goal with |- context [send_message ?x cid ?a] =>
      pose proof (tr_send x cid a) as T; assert (K : keeps n x) by kp; destruct (send_message x cid a) as [n2 o] end.
    apply tr_cons_other; [reflexivity|]. eapply tr_pre; eassumption.
  - apply tr_quiet; [kp|]. constructor; [exact I|constructor].
Qed.

Lemma tr_recv_app_answer n m : tr n (recv_app_answer n m).
Proof.
  unfold recv_app_answer.
  destruct (List.find _ (n_app_waiting n)) as [[[h e] i]|]; [|apply tr_nil].
  destruct (List.nth_error (n_apps n) i) as [a|]; [|apply tr_nil]. cbv zeta.
  destruct (mem_z (m_hbh m) (List.map fst (a_waiting a)));
    (apply tr_quiet; [kp|constructor; [exact I|constructor]]).
Qed.

Lemma tr_rm_handle n cid m : tr n (rm_handle n cid m).
Proof.
  unfold rm_handle. destruct (m_req m), (m_cmd m).
  - destruct (m_origin m); try apply tr_send. apply tr_recv_cer.
  - unfold recv_dwr. apply tr_send.
  - apply tr_recv_dpr.
  - apply tr_recv_app_request.
  - apply tr_recv_cea.
  - unfold recv_dwa. apply tr_quiet; [kp|apply rq_nil].
  - apply tr_recv_dpa.
  - apply tr_recv_app_answer.
Qed.

(* the origin bookkeeping of _receive_message = the ghost's binding of the request's pair *)
Lemma Inv_request n g m : Inv n g -> Inv (rm_n0 n m) (ghost_request g m).
Proof.
  intros [Hp Hw]. unfold rm_n0, rm_record, ghost_request, origin_key.
  destruct (m_origin m), (m_req m); try (split; assumption);
    (split; [cbn [fst set_waiting n_origin_waiting]; rewrite Hp; reflexivity|exact Hw]).
Qed.

Lemma receive_message_inv n cid m g :
  Inv n g -> Inv (fst (receive_message n cid m)) (ghost_outs (ghost_request g m) (snd (receive_message n cid m))).
Proof.
  intros H. apply (Inv_request n g m) in H. rewrite receive_message_unfold.
  revert H. generalize (ghost_request g m) as g0. generalize (rm_n0 n m) as n0. intros n0 g0 H.
  revert g0 H. change (tr n0 (match (if m_req m && g_validate (n_cfg n0) then m_missing m else []) with
                              | [] => if rm_dup n0 m then send_message n0 cid (answer_of m (Some RC_UNABLE) [])
                                      else rm_handle n0 cid m
                              | _ :: _ => send_message n0 cid
                                  (answer_of m (Some RC_MISSING_AVP) (if m_has_failed_avp_slot m then m_missing m else []))
                              end)).
  destruct (if m_req m && g_validate (n_cfg n0) then m_missing m else []); [|apply tr_send].
  destruct (rm_dup n0 m); [apply tr_send|apply tr_rm_handle].
Qed.

Lemma dispatch_inv n cid m g :
  Inv n g ->
  Inv (fst (dispatch n cid m))
      (ghost_outs (if received n cid m then ghost_request g m else g) (snd (dispatch n cid m))).
Proof.
  intros H. unfold dispatch, received. destruct (get_conn n cid) as [c|]; [|exact H].
  destruct (gate_passes c m); [apply receive_message_inv; exact H|exact H].
Qed.

Lemma frames_inv cid ms : forall n g,
  Inv n g -> Inv (fst (dispatch_all n cid ms)) (ghost_frames n g cid ms).
Proof.
  induction ms as [|m r IH]; intros n g H; [exact H|].
  rewrite dispatch_all_cons. cbn [fst ghost_frames]. apply IH. apply dispatch_inv. exact H.
Qed.

Lemma step_inv_g n ds e g : Inv n g -> Inv (fst (step n ds e)) (ghost_step n ds e g).
Proof.
  intros H.
  assert (Hother : (forall cid ms, e <> ERecv cid ms) -> (forall i m, e <> EAppAnswer i m) ->
                   Inv (fst (step n ds e)) (ghost_outs g (snd (step n ds e)))).
  { intros H1 H2. rewrite (ghost_outs_rq _ (step_rq n ds e H1 H2)).
    eapply Inv_keeps; [apply step_k; assumption|exact H]. }
  destruct e as [hbh0|cid ms|cid|cid hard|cid ok|cid b|dt|i m|i m realm pick tmo|force|tclose tend|];
    try (apply Hother; intros; discriminate).
  - (* ERecv *)
    cbn [ghost_step]. destruct (get_conn n cid) as [c|] eqn:Hc.
    + rewrite (step_recv_eq n ds cid ms c Hc). cbn [fst].
      eapply Inv_keeps; [apply settle'_k|]. apply frames_inv.
      eapply Inv_keeps; [|exact H]. unfold read_state.
      eapply keeps_trans; [apply io_iteration_k|]. kp.
    + cbn [step]. rewrite Hc. exact H.
  - (* EAppAnswer *)
    cbn [ghost_step]. clear Hother. revert g H. change (tr n (step n ds (EAppAnswer i m))). cbn [step].
    pose proof (route_answer_k n m) as K. destruct (route_answer n m) as [[cid|] n1]; cbn [snd] in K.
    + pose proof (tr_send n1 cid m) as T. destruct (send_message n1 cid m) as [n2 o2].
      pose proof (settle_app'_k n2 ds) as K3. pose proof (settle_app'_rq n2 ds) as R3.
      destruct (settle_app' n2 ds) as [n3 o3]. cbn [fst snd] in *.
      eapply tr_pre; [exact K|]. eapply tr_app; [exact T|]. apply tr_quiet; assumption.
    + apply tr_quiet; [exact K|]. constructor; [exact I|constructor].
Qed.

Lemma run_inv evs : forall n g, Inv n g -> Inv (fst (run n evs)) (ghost_run n g evs).
Proof.
  induction evs as [|de r IH]; intros n g H; [exact H|].
  rewrite run_cons. cbn [ghost_run]. apply IH. apply step_inv_g. exact H.
Qed.

Lemma run_cfg n evs : n_cfg (fst (run n evs)) = n_cfg n.
Proof.
  assert (T : trans MAny n (fst (run n evs))) by (apply run_t; [apply evs_pre_any|constructor]).
  apply trans_const in T. apply T.
Qed.

(* ====================================================================== *)
(* 5. C17: the window is the tail of the history                            *)
(* ====================================================================== *)
(* C17: from empty tables, the pending table of the ghost is n_origin_waiting and every origin's window is the last g_rsize answers attributed to it *)
Theorem C17_history_window_gen n0 evs :
  n_origin_waiting n0 = [] -> n_sent_answers n0 = [] ->
  pending n0 evs = n_origin_waiting (fst (run n0 evs))
  /\ forall o, sa_get (n_sent_answers (fst (run n0 evs))) o = lastn (g_rsize (n_cfg n0)) (answered n0 evs o).
Proof.
  intros H1 H2.
  assert (H0 : Inv n0 ghost0).
  { split; [cbn; symmetry; exact H1|]. intros o. rewrite H2. reflexivity. }
  destruct (run_inv evs n0 ghost0 H0) as [Hp Hw]. split; [exact Hp|].
  intros o. rewrite (Hw o), run_cfg. reflexivity.
Qed.

(* C17: in every run from a well-formed initial node, the window the node holds for an origin host is the last g_rsize end-to-end identifiers of the answers queued for received requests of that origin *)
Theorem C17_history_window n0 evs o :
  wf_init n0 ->
  sa_get (n_sent_answers (fst (run n0 evs))) o = lastn (g_rsize (n_cfg n0)) (answered n0 evs o).
Proof.
  intros (_ & _ & _ & _ & _ & H6 & H7 & _). apply (C17_history_window_gen n0 evs H6 H7).
Qed.

(* C17: the requests the ghost holds as received and not yet answered are exactly the node's n_origin_waiting *)
Theorem C17_history_pending n0 evs :
  wf_init n0 -> pending n0 evs = n_origin_waiting (fst (run n0 evs)).
Proof.
  intros (_ & _ & _ & _ & _ & H6 & H7 & _). apply (C17_history_window_gen n0 evs H6 H7).
Qed.

(* ====================================================================== *)
(* 6. one network read: what the I/O thread adds around the reader thread's outputs             *)
(* ====================================================================== *)
(* before the frames are handled the I/O thread finishes its iteration, afterwards it flushes and
   iterates once more: on its own it only closes, writes, dials persistent peers and queues its own CER / DWR
   (`sysout`, NodeC): never an answer, never a delivery *)
Lemma recv_io_sysout n ds cid ms :
  List.Forall (sysout (pmap n)) (snd (fst (io_iteration n ds)))
  /\ List.Forall (sysout (pmap n))
       (snd (settle' (fst (dispatch_all (read_state n ds cid) cid ms)) (snd (io_iteration n ds)))).
Proof.
  pose proof (io_iteration_g (sysout (pmap n)) (pmap n) n ds (sysP_sysout _) (dialP_sysout _) eq_refl) as G1.
  split; [apply G1|].
  pose proof (gres_pmap _ _ _ G1) as P1.
  pose proof (dispatch_all_d cid ms (read_state n ds cid)) as (F3 & _).
  assert (P3 : pmap (fst (dispatch_all (read_state n ds cid) cid ms)) = pmap n).
  { rewrite (proj1 F3). exact P1. }
  pose proof (settle'_sys (fst (dispatch_all (read_state n ds cid) cid ms)) (snd (io_iteration n ds))) as [_ G4].
  rewrite P3 in G4. exact G4.
Qed.

Lemma step_recv_one n ds cid m c0 :
  get_conn n cid = Some c0 ->
  exists pre post,
    snd (step n ds (ERecv cid [m])) = (pre ++ snd (dispatch (read_state n ds cid) cid m) ++ post)%list
    /\ List.Forall (sysout (pmap n)) pre /\ List.Forall (sysout (pmap n)) post.
Proof.
  intros H. rewrite (step_recv_eq n ds cid [m] c0 H). cbn [snd].
  destruct (recv_io_sysout n ds cid [m]) as [S1 S2].
  eexists. eexists. split; [|split; [exact S1|exact S2]].
  rewrite dispatch_all_cons. cbn [snd dispatch_all]. rewrite List.app_nil_r. reflexivity.
Qed.

Lemma sysout_no_deliver pm l : List.Forall (sysout pm) l -> forall i m, ~ List.In (ODeliver i m) l.
Proof. intros H i m Hin. rewrite List.Forall_forall in H. exact (H _ Hin). Qed.

Lemma sysout_clear pm l : List.Forall (sysout pm) l -> List.map out_clear_t l = l.
Proof.
  induction 1 as [|o l Ho _ IH]; [reflexivity|]. cbn [List.map]. rewrite IH.
  destruct o; try contradiction Ho; reflexivity.
Qed.

Lemma read_state_k n ds cid : keeps n (read_state n ds cid).
Proof. unfold read_state. eapply keeps_trans; [apply io_iteration_k|]. kp. Qed.

(* membership in the window the reader thread consults = membership in the tail of the history *)
Lemma window_mem n0 evs ds cid o e :
  wf_init n0 ->
  (sa_mem (n_sent_answers (read_state (fst (run n0 evs)) ds cid)) o e = true
   <-> List.In e (lastn (g_rsize (n_cfg n0)) (answered n0 evs o))).
Proof.
  intros Hw.
  assert (Hreach : reach n0 (fst (run n0 evs))) by (exists evs; split; [exact Hw|reflexivity]).
  destruct (C19_windows_bounded _ _ Hreach) as (_ & Hnd & _).
  destruct (read_state_k (fst (run n0 evs)) ds cid) as (_ & K2 & _). rewrite K2.
  rewrite (C17_sa_mem_get _ o e Hnd), (C17_history_window n0 evs o Hw). reflexivity.
Qed.

Lemma read_state_cfg n0 evs ds cid : n_cfg (read_state (fst (run n0 evs)) ds cid) = n_cfg n0.
Proof. destruct (read_state_k (fst (run n0 evs)) ds cid) as (_ & _ & K3). rewrite K3. apply run_cfg. Qed.

(* ====================================================================== *)
(* 7. C17: duplicates are rejected, nothing else is                         *)
(* ====================================================================== *)
(* C17: a T-flagged, well-formed request read from a ready connection whose end-to-end identifier is among the last g_rsize answers attributed to its origin host is answered 5012 on its connection and delivered to no application; everything else in the step is the I/O thread's own output *)
Theorem C17_history_duplicate_rejected n0 evs ds cid c0 c m o :
  wf_init n0 ->
  let n := fst (run n0 evs) in
  let rs := read_state n ds cid in
  get_conn n cid = Some c0 -> get_conn rs cid = Some c -> is_ready_state (c_state c) = true ->
  m_req m = true -> m_t m = true -> m_origin m = Present o ->
  g_validate (n_cfg n0) = false \/ m_missing m = [] ->
  List.In (m_e2e m) (lastn (g_rsize (n_cfg n0)) (answered n0 evs o)) ->
  exists pre post,
    snd (step n ds (ERecv cid [m])) = (pre ++ [OQueue cid (answer_of m (Some RC_UNABLE) [])] ++ post)%list
    /\ List.Forall (sysout (pmap n)) pre /\ List.Forall (sysout (pmap n)) post
    /\ forall i m', ~ List.In (ODeliver i m') (snd (step n ds (ERecv cid [m]))).
Proof.
  intros Hw n rs Hc0 Hc Hr Hreq Ht Ho Hval Hin.
  assert (Hmem : sa_mem (n_sent_answers rs) o (m_e2e m) = true) by (apply (window_mem n0 evs ds cid o _ Hw); exact Hin).
  assert (Hval' : g_validate (n_cfg rs) = false \/ m_missing m = []).
  { unfold rs, n. rewrite read_state_cfg. exact Hval. }
  destruct (C17_dup_iff rs cid m o Hreq Ho Hval') as [D _]. destruct (D (conj Ht Hmem)) as [Dout _].
  destruct (step_recv_one n ds cid m c0 Hc0) as (pre & post & E & Hpre & Hpost).
  fold rs in E. rewrite (C08_gate_then_route rs cid c m Hc Hr), Dout in E.
  exists pre, post. split; [exact E|]. split; [exact Hpre|]. split; [exact Hpost|].
  intros i m' Hd. rewrite E in Hd. apply List.in_app_or in Hd. destruct Hd as [Hd|Hd].
  - exact (sysout_no_deliver _ _ Hpre _ _ Hd).
  - apply List.in_app_or in Hd. destruct Hd as [[Hd|[]]|Hd]; [discriminate Hd|].
    exact (sysout_no_deliver _ _ Hpost _ _ Hd).
Qed.

Lemma spec_route_clear n c m :
  m_t m && already_answered n m = false -> spec_route n c m = spec_route n c (clear_t m).
Proof. intros H. unfold spec_route. rewrite H. reflexivity. Qed.

Lemma not_duplicate n0 evs ds cid m o :
  wf_init n0 -> m_origin m = Present o ->
  m_t m = false \/ ~ List.In (m_e2e m) (lastn (g_rsize (n_cfg n0)) (answered n0 evs o)) ->
  m_t m = false \/ sa_mem (n_sent_answers (read_state (fst (run n0 evs)) ds cid)) o (m_e2e m) = false.
Proof.
  intros Hw Ho [H|H]; [left; exact H|right].
  destruct (sa_mem _ o (m_e2e m)) eqn:E; [|reflexivity].
  exfalso. apply H. apply (window_mem n0 evs ds cid o _ Hw). exact E.
Qed.

(* C17: an application request read from a ready connection that does not carry the T flag, or whose end-to-end identifier is not among the last g_rsize answers attributed to its origin host, is never rejected as a duplicate: the routing function decides as it does for the same request without the flag, and the step outputs exactly what that decision prescribes (C08) *)
Theorem C17_history_no_false_duplicate n0 evs ds cid c0 c m o k :
  wf_init n0 ->
  let n := fst (run n0 evs) in
  let rs := read_state n ds cid in
  get_conn n cid = Some c0 -> get_conn rs cid = Some c -> is_ready_state (c_state c) = true ->
  m_req m = true -> m_cmd m = App k -> m_origin m = Present o ->
  m_t m = false \/ ~ List.In (m_e2e m) (lastn (g_rsize (n_cfg n0)) (answered n0 evs o)) ->
  spec_route rs c m = spec_route rs c (clear_t m)
  /\ exists pre post,
       snd (step n ds (ERecv cid [m])) = (pre ++ route_outputs cid m (spec_route rs c (clear_t m)) ++ post)%list
       /\ List.Forall (sysout (pmap n)) pre /\ List.Forall (sysout (pmap n)) post.
Proof.
  intros Hw n rs Hc0 Hc Hr Hreq Hcmd Ho Hno.
  assert (Hs : spec_route rs c m = spec_route rs c (clear_t m)).
  { apply spec_route_clear. unfold already_answered, origin_key. rewrite Ho.
    destruct (not_duplicate n0 evs ds cid m o Hw Ho Hno) as [H|H]; fold n in H; fold rs in H; rewrite H;
      [reflexivity|apply Bool.andb_false_r]. }
  split; [exact Hs|].
  destruct (step_recv_one n ds cid m c0 Hc0) as (pre & post & E & Hpre & Hpost).
  fold rs in E. rewrite (C08_gate_then_route rs cid c m Hc Hr), (C08_route_refines rs cid c m k Hc Hreq Hcmd), Hs in E.
  exists pre, post. split; [exact E|]. split; assumption.
Qed.

(* C17: for every kind of request (base protocol included) read from a ready connection: when it is well-formed and not a duplicate in the above sense, the T flag changes nothing: same next state, same outputs up to the flag of the message handed on *)
Theorem C17_history_flag_irrelevant n0 evs ds cid c0 c m o :
  wf_init n0 ->
  let n := fst (run n0 evs) in
  let rs := read_state n ds cid in
  get_conn n cid = Some c0 -> get_conn rs cid = Some c -> is_ready_state (c_state c) = true ->
  m_req m = true -> m_origin m = Present o ->
  g_validate (n_cfg n0) = false \/ m_missing m = [] ->
  m_t m = false \/ ~ List.In (m_e2e m) (lastn (g_rsize (n_cfg n0)) (answered n0 evs o)) ->
  step n ds (ERecv cid [clear_t m])
  = (fst (step n ds (ERecv cid [m])), List.map out_clear_t (snd (step n ds (ERecv cid [m])))).
Proof.
  intros Hw n rs Hc0 Hc Hr Hreq Ho Hval Hno.
  assert (Hval' : g_validate (n_cfg rs) = false \/ m_missing m = []).
  { unfold rs, n. rewrite read_state_cfg. exact Hval. }
  destruct (C17_dup_iff rs cid m o Hreq Ho Hval') as [_ D].
  pose proof (D (not_duplicate n0 evs ds cid m o Hw Ho Hno)) as E. clear D.
  assert (Ed : dispatch_all rs cid [clear_t m]
               = (fst (dispatch_all rs cid [m]), List.map out_clear_t (snd (dispatch_all rs cid [m])))).
  { rewrite !dispatch_all_cons. cbn [dispatch_all fst snd]. rewrite !List.app_nil_r.
    rewrite (C08_gate_then_route rs cid c m Hc Hr), (C08_gate_then_route rs cid c (clear_t m) Hc Hr), E.
    reflexivity. }
  destruct (recv_io_sysout n ds cid [m]) as [S1 S2]. fold rs in S2.
  rewrite (step_recv_eq n ds cid [clear_t m] c0 Hc0), (step_recv_eq n ds cid [m] c0 Hc0). fold rs.
  rewrite Ed. cbn [fst snd]. rewrite !List.map_app, (sysout_clear _ _ S1), (sysout_clear _ _ S2). reflexivity.
Qed.

(* ====================================================================== *)
(* 7b. the history holds nothing but end-to-end ids of answers that were queued in the trace     *)
(* ====================================================================== *)
Definition from_outs (outs : list output) (p : string * Z) : Prop :=
  exists cid a, List.In (OQueue cid a) outs /\ o_req a = false /\ o_e2e a = snd p.

Lemma from_outs_incl a b p : (forall x, List.In x a -> List.In x b) -> from_outs a p -> from_outs b p.
Proof. intros H (cid & x & Hin & Hr). exists cid, x. split; [apply H; exact Hin|exact Hr]. Qed.

Lemma ghost_outs_hist outs : forall g,
  exists added, snd (ghost_outs g outs) = (snd g ++ added)%list /\ List.Forall (from_outs outs) added.
Proof.
  induction outs as [|x l IH]; intros g.
  - exists []. split; [symmetry; apply List.app_nil_r|constructor].
  - cbn [ghost_outs List.fold_left]. fold (ghost_outs (ghost_out g x) l).
    destruct (IH (ghost_out g x)) as (ad & E & F).
    assert (H0 : exists ad0, snd (ghost_out g x) = (snd g ++ ad0)%list /\ List.Forall (from_outs (x :: l)) ad0).
    { assert (Hnil : exists ad0, snd g = (snd g ++ ad0)%list /\ List.Forall (from_outs (x :: l)) ad0)
        by (exists []; split; [symmetry; apply List.app_nil_r|constructor]).
      destruct x as [cid a| | | | | | |]; try exact Hnil. cbn [ghost_out].
      destruct (o_req a) eqn:Hr; [exact Hnil|]. unfold ghost_answer.
      destruct (ow_get (fst g) (o_hbh a) (o_e2e a)) as [o|]; [|exact Hnil].
      exists [(o, o_e2e a)]. split; [reflexivity|]. constructor; [|constructor].
      exists cid, a. split; [left; reflexivity|]. split; [exact Hr|reflexivity]. }
    destruct H0 as (ad0 & E0 & F0). exists (ad0 ++ ad)%list. split.
    + rewrite E, E0, List.app_assoc. reflexivity.
    + apply List.Forall_app. split; [exact F0|].
      eapply List.Forall_impl; [|exact F]. intros p. apply from_outs_incl. intros y Hy. right. exact Hy.
Qed.

Lemma ghost_request_hist g m : snd (ghost_request g m) = snd g.
Proof. unfold ghost_request. destruct (m_req m); [|reflexivity]. destruct (origin_key m); reflexivity. Qed.

Lemma ghost_frames_hist cid ms : forall n g,
  exists added, snd (ghost_frames n g cid ms) = (snd g ++ added)%list
                /\ List.Forall (from_outs (snd (dispatch_all n cid ms))) added.
Proof.
  induction ms as [|m r IH]; intros n g.
  - exists []. split; [symmetry; apply List.app_nil_r|constructor].
  - rewrite dispatch_all_cons. cbn [ghost_frames snd].
    set (g1 := if received n cid m then ghost_request g m else g).
    assert (E0 : snd g1 = snd g) by (unfold g1; destruct (received n cid m); [apply ghost_request_hist|reflexivity]).
    destruct (ghost_outs_hist (snd (dispatch n cid m)) g1) as (a1 & E1 & F1).
    destruct (IH (fst (dispatch n cid m)) (ghost_outs g1 (snd (dispatch n cid m)))) as (a2 & E2 & F2).
    exists (a1 ++ a2)%list. split.
    + rewrite E2, E1, E0, List.app_assoc. reflexivity.
    + apply List.Forall_app. split; (eapply List.Forall_impl; [|eassumption]); intros p; apply from_outs_incl;
        intros y Hy; apply List.in_or_app; [left|right]; exact Hy.
Qed.

Lemma ghost_step_hist n ds e g :
  exists added, snd (ghost_step n ds e g) = (snd g ++ added)%list
                /\ List.Forall (from_outs (snd (step n ds e))) added.
Proof.
  destruct e; try apply ghost_outs_hist.
  cbn [ghost_step]. destruct (get_conn n cid) as [c|] eqn:Hc.
  - destruct (ghost_frames_hist cid ms (read_state n ds cid) g) as (ad & E & F).
    exists ad. split; [exact E|]. rewrite (step_recv_eq n ds cid ms c Hc). cbn [snd].
    eapply List.Forall_impl; [|exact F]. intros p. apply from_outs_incl.
    intros y Hy. apply List.in_or_app. right. apply List.in_or_app. left. exact Hy.
  - exists []. split; [symmetry; apply List.app_nil_r|constructor].
Qed.

Lemma ghost_run_hist evs : forall n g,
  exists added, snd (ghost_run n g evs) = (snd g ++ added)%list
                /\ List.Forall (fun p => exists ev outs, List.In (ev, outs) (trace n evs) /\ from_outs outs p) added.
Proof.
  induction evs as [|de r IH]; intros n g.
  - exists []. split; [symmetry; apply List.app_nil_r|constructor].
  - cbn [ghost_run trace].
    destruct (ghost_step_hist n (fst de) (snd de) g) as (a1 & E1 & F1).
    destruct (IH (fst (step n (fst de) (snd de))) (ghost_step n (fst de) (snd de) g)) as (a2 & E2 & F2).
    exists (a1 ++ a2)%list. split; [rewrite E2, E1, List.app_assoc; reflexivity|].
    apply List.Forall_app. split.
    + eapply List.Forall_impl; [|exact F1]. intros p Hp.
      exists (snd de), (snd (step n (fst de) (snd de))). split; [left; reflexivity|exact Hp].
    + eapply List.Forall_impl; [|exact F2]. intros p (ev & outs & Hin & Hp).
      exists ev, outs. split; [right; exact Hin|exact Hp].
Qed.

(* C17: every end-to-end identifier in an origin's history is that of an answer the node queued in some step of the trace *)
Theorem answered_from_trace n0 evs o e :
  List.In e (answered n0 evs o) ->
  exists ev outs cid a, List.In (ev, outs) (trace n0 evs) /\ List.In (OQueue cid a) outs
                        /\ o_req a = false /\ o_e2e a = e.
Proof.
  unfold answered, answers_of. intros H.
  apply List.in_map_iff in H. destruct H as (p & Hp & Hin). apply List.filter_In in Hin. destruct Hin as [Hin _].
  destruct (ghost_run_hist evs n0 ghost0) as (ad & E & F). rewrite E in Hin. cbn [ghost0 snd List.app] in Hin.
  rewrite List.Forall_forall in F. destruct (F p Hin) as (ev & outs & Ht & cid & a & Ha & Hr & He).
  exists ev, outs, cid, a. repeat split; try assumption. rewrite He. exact Hp.
Qed.

(* ====================================================================== *)
(* 8. examples: window size 2, two origin hosts "p" and "q", one application (id 4) routed in realm "r" *)
(* ====================================================================== *)
Module HistoryExample.
Import Witness.
(* application request (command 272) from origin o *)
Definition hx_req (o : string) (hbh e2e : Z) (t : bool) : msg :=
  {| m_cmd := App 272; m_req := true; m_p := true; m_e := false; m_t := t; m_app := 4; m_hbh := hbh; m_e2e := e2e;
     m_origin := Present o; m_drealm := Present "r"%string; m_result := Absent;
     m_missing := []; m_has_failed_avp_slot := false; m_auth := []; m_acct := []; m_tag := 0 |}.
(* the application's answer to it *)
Definition hx_ans (hbh e2e : Z) : omsg :=
  {| o_cmd := App 272; o_req := false; o_app := 4; o_hbh := hbh; o_e2e := e2e; o_result := Some 2001;
     o_failed := []; o_tag := 0 |}.
Definition hx_5012 (hbh e2e : Z) : omsg :=
  {| o_cmd := App 272; o_req := false; o_app := 4; o_hbh := hbh; o_e2e := e2e; o_result := Some 5012;
     o_failed := []; o_tag := 0 |}.
Definition hx_n0 : node := node0 [mkpeer "p" false; mkpeer "q" false].
(* both peers connect and exchange capabilities (end-to-end ids 1 and 2); "p" sends three requests
   (end-to-end ids 101, 102, 103), each delivered to the application and answered by it *)
Definition hx_evs : list (dials * event) :=
  [([], EAccept 100); ([], ERecv 0 [ce true "p" 1]);
   ([], EAccept 200); ([], ERecv 1 [ce true "q" 2]);
   ([], ERecv 0 [hx_req "p" 11 101 false]); ([], EAppAnswer 0 (hx_ans 11 101));
   ([], ERecv 0 [hx_req "p" 12 102 false]); ([], EAppAnswer 0 (hx_ans 12 102));
   ([], ERecv 0 [hx_req "p" 13 103 false]); ([], EAppAnswer 0 (hx_ans 13 103))].
Definition hx_n : node := fst (run hx_n0 hx_evs).

Lemma hx_wf : wf_init hx_n0.
Proof.
  apply wf_node0.
  - repeat constructor; cbn; intuition discriminate.
  - cbn. intros p [Hp|[Hp|[]]]; subst p; cbn; auto.
Qed.

(* the history and the windows after hx_evs: the CEA counts as an answer to origin "p" / "q"; the window of "p" holds the last two of its four answers *)
Example C17_history_example_window :
  g_rsize (n_cfg hx_n0) = 2%nat
  /\ answered hx_n0 hx_evs "p"%string = [1; 101; 102; 103]
  /\ answered hx_n0 hx_evs "q"%string = [2]
  /\ pending hx_n0 hx_evs = []
  /\ lastn 2 (answered hx_n0 hx_evs "p"%string) = [102; 103]
  /\ n_sent_answers hx_n = [("p"%string, [102; 103]); ("q"%string, [2])]
  /\ List.map (fun c => (c_id c, c_state c, c_host c)) (n_conns hx_n)
     = [(0%nat, SReady, "p"%string); (1%nat, SReady, "q"%string)]
  /\ List.map snd (trace hx_n0 hx_evs) = snd (run hx_n0 hx_evs).
Proof. vm_compute. repeat split. Qed.

(* a T-flagged repeat of 103 from "p" is answered 5012 and not delivered; the evicted 101 is delivered again; 103 from the other origin "q" is delivered; 103 from "p" without the flag is delivered *)
Example C17_history_example_steps :
  snd (step hx_n [] (ERecv 0 [hx_req "p" 14 103 true])) = [OQueue 0%nat (hx_5012 14 103); OSend 0%nat (hx_5012 14 103)]
  /\ snd (step hx_n [] (ERecv 0 [hx_req "p" 15 101 true])) = [ODeliver 0%nat (hx_req "p" 15 101 true)]
  /\ snd (step hx_n [] (ERecv 1 [hx_req "q" 16 103 true])) = [ODeliver 0%nat (hx_req "q" 16 103 true)]
  /\ snd (step hx_n [] (ERecv 0 [hx_req "p" 14 103 false])) = [ODeliver 0%nat (hx_req "p" 14 103 false)]
  /\ answer_of (hx_req "p" 14 103 true) (Some RC_UNABLE) [] = hx_5012 14 103.
Proof. vm_compute. repeat split. Qed.

(* the hypotheses of C17_history_duplicate_rejected hold for the repeat of 103 (the theorem is not vacuous), and its conclusion read off for this history *)
Example C17_history_example_theorem :
  exists pre post,
    snd (step hx_n [] (ERecv 0 [hx_req "p" 14 103 true]))
    = (pre ++ [OQueue 0%nat (answer_of (hx_req "p" 14 103 true) (Some RC_UNABLE) [])] ++ post)%list
    /\ List.Forall (sysout (pmap hx_n)) pre /\ List.Forall (sysout (pmap hx_n)) post
    /\ forall i m', ~ List.In (ODeliver i m') (snd (step hx_n [] (ERecv 0 [hx_req "p" 14 103 true]))).
Proof.
  unfold hx_n.
  assert (Hc0 : exists c0, get_conn (fst (run hx_n0 hx_evs)) 0 = Some c0) by (vm_compute; eexists; reflexivity).
  assert (Hc : exists c, get_conn (read_state (fst (run hx_n0 hx_evs)) [] 0) 0 = Some c /\ is_ready_state (c_state c) = true)
    by (vm_compute; eexists; split; reflexivity).
  assert (Hin : List.In (m_e2e (hx_req "p" 14 103 true))
                  (lastn (g_rsize (n_cfg hx_n0)) (answered hx_n0 hx_evs "p"%string)))
    by (vm_compute; right; left; reflexivity).
  destruct Hc0 as [c0 Hc0]. destruct Hc as (c & Hc & Hr).
  exact (C17_history_duplicate_rejected hx_n0 hx_evs [] 0%nat c0 c (hx_req "p" 14 103 true) "p"%string hx_wf
           Hc0 Hc Hr eq_refl eq_refl eq_refl (or_introl eq_refl) Hin).
Qed.

(* the hypotheses of C17_history_no_false_duplicate hold for the T-flagged repeat of the evicted 101: the routing function, asked about the unflagged request, delivers to application 0, and so does the step *)
Example C17_history_example_theorem_evicted :
  exists c pre post,
    get_conn (read_state hx_n [] 0) 0 = Some c
    /\ spec_route (read_state hx_n [] 0) c (clear_t (hx_req "p" 15 101 true)) = Deliver 0
    /\ snd (step hx_n [] (ERecv 0 [hx_req "p" 15 101 true]))
       = (pre ++ route_outputs 0 (hx_req "p" 15 101 true)
                   (spec_route (read_state hx_n [] 0) c (clear_t (hx_req "p" 15 101 true))) ++ post)%list
    /\ List.Forall (sysout (pmap hx_n)) pre /\ List.Forall (sysout (pmap hx_n)) post.
Proof.
  unfold hx_n.
  assert (Hc0 : exists c0, get_conn (fst (run hx_n0 hx_evs)) 0 = Some c0) by (vm_compute; eexists; reflexivity).
  assert (Hc : exists c, get_conn (read_state (fst (run hx_n0 hx_evs)) [] 0) 0 = Some c /\ is_ready_state (c_state c) = true
                         /\ spec_route (read_state (fst (run hx_n0 hx_evs)) [] 0) c (clear_t (hx_req "p" 15 101 true)) = Deliver 0)
    by (vm_compute; eexists; repeat split; reflexivity).
  assert (Hnin : ~ List.In (m_e2e (hx_req "p" 15 101 true))
                   (lastn (g_rsize (n_cfg hx_n0)) (answered hx_n0 hx_evs "p"%string)))
    by (vm_compute; intros [H|[H|[]]]; discriminate H).
  destruct Hc0 as [c0 Hc0]. destruct Hc as (c & Hc & Hr & Hs).
  destruct (C17_history_no_false_duplicate hx_n0 hx_evs [] 0%nat c0 c (hx_req "p" 15 101 true) "p"%string 272 hx_wf
              Hc0 Hc Hr eq_refl eq_refl eq_refl (or_intror Hnin)) as (_ & pre & post & E & Hpre & Hpost).
  exists c, pre, post. repeat split; assumption.
Qed.

(* the attribution rule when a pair is reused: "p" and then "q" send a request with the same (hop-by-hop, end-to-end) pair (20, 200) before the first is answered; the application's answer goes out to "p" (connection 0) but is attributed to "q", by the ghost and by the node alike; afterwards a T-flagged repeat from "p" is delivered again and one from "q" is rejected.  Excluded by "unanswered requests have pairwise distinct pairs" *)
Definition hx_evs2 : list (dials * event) :=
  (hx_evs ++ [([], ERecv 0 [hx_req "p" 20 200 false]); ([], ERecv 1 [hx_req "q" 20 200 false]);
              ([], EAppAnswer 0 (hx_ans 20 200))])%list.
Example C17_history_example_pair_reuse :
  let n2 := fst (run hx_n0 hx_evs2) in
  List.nth 12 (List.map snd (trace hx_n0 hx_evs2)) [] = [OQueue 0%nat (hx_ans 20 200); OSend 0%nat (hx_ans 20 200)]
  /\ answered hx_n0 hx_evs2 "p"%string = [1; 101; 102; 103]
  /\ answered hx_n0 hx_evs2 "q"%string = [2; 200]
  /\ n_sent_answers n2 = [("p"%string, [102; 103]); ("q"%string, [2; 200])]
  /\ snd (step n2 [] (ERecv 0 [hx_req "p" 21 200 true])) = [ODeliver 0%nat (hx_req "p" 21 200 true)]
  /\ snd (step n2 [] (ERecv 1 [hx_req "q" 22 200 true])) = [OQueue 1%nat (hx_5012 22 200); OSend 1%nat (hx_5012 22 200)].
Proof. vm_compute. repeat split. Qed.
End HistoryExample.

(* ====================================================================== *)
Print Assumptions trace_run.
Print Assumptions recv_trace_answers.
Print Assumptions C17_history_window_gen.
Print Assumptions C17_history_window.
Print Assumptions C17_history_pending.
Print Assumptions C17_history_duplicate_rejected.
Print Assumptions C17_history_no_false_duplicate.
Print Assumptions C17_history_flag_irrelevant.
Print Assumptions answered_from_trace.
Print Assumptions HistoryExample.C17_history_example_window.
Print Assumptions HistoryExample.C17_history_example_steps.
Print Assumptions HistoryExample.C17_history_example_theorem.
Print Assumptions HistoryExample.C17_history_example_theorem_evicted.
Print Assumptions HistoryExample.C17_history_example_pair_reuse.
