"""C07 — node-layer property; see tools/nodecheck.py and tools/nodeoracles.py."""
import nodecheck

PROFILE = dict(outbound=0.3)
W = nodecheck.weights(stray_answer=4, bad_request=4, burst=2)
N_QUICK, N_THOROUGH, LENGTH = 60, 1500, 18
THEMES = (("ready", 2, 60, 2, 3000), ("answers", 300, 0, None, 0), ("partial_reads", None, 0, None, 0), ("handshake_in", 1, 20, 2, 200))
FILES = ["Props/C07.v"]


def check(run):
    return nodecheck.run(run, "C07", FILES, PROFILE, W, N_QUICK, N_THOROUGH, LENGTH, themes=THEMES)


replay = nodecheck.replay_generic
