(* C07 — every received request gets exactly one answer of the right kind; answers are never answered
   Statements copied from the proof files; each is closed by `exact`. *)
From DV Require Prelude.Base Model.Ids Proofs.IdsP Model.Node Proofs.NodeA Proofs.NodeB Proofs.NodeC Proofs.NodeD Proofs.NodeF Proofs.NodeE.
From Coq Require String List Lia Bool Arith ZArith.

Module FromNodeB.
Import DV.Prelude.Base DV.Model.Node DV.Proofs.NodeB.
Import Coq.Strings.String.

(* C07: send_message hands exactly the given message to the given connection *)
Theorem send_message_out n cid m : snd (send_message n cid m) = [OQueue cid m].
Proof. exact (@NodeB.send_message_out n cid m). Qed.

(* C07: one dispatched message yields at most one queued message; it is an answer, on the same
   connection, to a REQUEST, and carries that request's command, application id and identifiers *)
Theorem C07_dispatch_answers n cid m n' outs :
  dispatch n cid m = (n', outs) ->
  (forall cid' a, List.In (OQueue cid' a) outs ->
     cid' = cid /\ o_req a = false /\ m_req m = true /\
     o_cmd a = m_cmd m /\ o_app a = m_app m /\ o_hbh a = m_hbh m /\ o_e2e a = m_e2e m)
  /\ (List.length (List.filter is_queue outs) <= 1)%nat.
Proof. exact (@NodeB.C07_dispatch_answers n cid m n' outs). Qed.

(* C07: an answer is never answered: dispatching a non-request queues nothing *)
Theorem C07_no_answer_to_answer n cid m :
  m_req m = false -> forall cid' a, ~ List.In (OQueue cid' a) (snd (dispatch n cid m)).
Proof. exact (@NodeB.C07_no_answer_to_answer n cid m). Qed.

(* C07: every event other than a network read or an application's answer queues REQUESTS only
   (watchdog, capabilities exchange, disconnect, application requests): answers come from nowhere else *)
Theorem C07_answers_only_from n ds e :
  (forall cid ms, e <> ERecv cid ms) -> (forall i m, e <> EAppAnswer i m) ->
  forall cid a, List.In (OQueue cid a) (snd (step n ds e)) -> o_req a = true.
Proof. exact (@NodeB.C07_answers_only_from n ds e). Qed.

(* C07: every answer queued while a batch of frames is dispatched answers some request of the batch
   (same connection, same four fields); there are at most as many answers as requests *)
Theorem C07_dispatch_all_answers ms : forall n cid n' outs,
  dispatch_all n cid ms = (n', outs) ->
  (forall cid' a, List.In (OQueue cid' a) outs ->
     cid' = cid /\ o_req a = false /\
     exists m, List.In m ms /\ m_req m = true /\
       o_cmd a = m_cmd m /\ o_app a = m_app m /\ o_hbh a = m_hbh m /\ o_e2e a = m_e2e m)
  /\ (List.length (List.filter is_queue outs) <= List.length (List.filter m_req ms))%nat.
Proof. exact (@NodeB.C07_dispatch_all_answers ms). Qed.

(* C07: a request handed to an application whose handler does not raise is not also answered by the node *)
Theorem C07_delivered_not_answered n cid m i m' :
  handler_raises m = false ->
  List.In (ODeliver i m') (snd (dispatch n cid m)) ->
  forall cid' a, ~ List.In (OQueue cid' a) (snd (dispatch n cid m)).
Proof. exact (@NodeB.C07_delivered_not_answered n cid m i m'). Qed.

(* C07: when the node both hands a request to an application and answers it, the application's handler
   raised and the answer is UNABLE_TO_COMPLY (5012) to that request, on its connection, after the delivery *)
Theorem C07_delivered_answered_only_on_failure n cid m i m' cid' a :
  List.In (ODeliver i m') (snd (dispatch n cid m)) ->
  List.In (OQueue cid' a) (snd (dispatch n cid m)) ->
  handler_raises m = true /\ m' = m /\ cid' = cid /\ a = answer_of m (Some RC_UNABLE) []
  /\ snd (dispatch n cid m) = [ODeliver i m; OQueue cid (answer_of m (Some RC_UNABLE) [])].
Proof. exact (@NodeB.C07_delivered_answered_only_on_failure n cid m i m' cid' a). Qed.
End FromNodeB.

Module FromNodeE.
Import DV.Prelude.Base DV.Model.Node DV.Proofs.NodeC DV.Proofs.NodeF DV.Proofs.NodeE.
Import Coq.micromega.Lia.
Local Open Scope Z_scope.

(* A: a history without requests read and without application answers transmits no answer *)
Theorem C07_history_no_answer_to_answer n0 evs :
  (forall d i b, ~ List.In (d, EAppAnswer i b) evs) ->
  (forall d cid ms m, List.In (d, ERecv cid ms) evs -> List.In m ms -> m_req m = false) ->
  forall e outs cid a, List.In (e, outs) (trace n0 evs) -> List.In (OQueue cid a) outs -> o_req a = true.
Proof. exact (@NodeE.C07_history_no_answer_to_answer n0 evs). Qed.

(* B: node-generated answers are produced in the very step that reads the request, on the same
   connection, with the request's command, application id and identifiers (any history) *)
Theorem C07_history_node_answers n0 evs e outs cid a :
  List.In (e, outs) (trace n0 evs) -> (forall i b, e <> EAppAnswer i b) ->
  List.In (OQueue cid a) outs -> o_req a = false ->
  exists ms, e = ERecv cid ms /\ exists m, List.In m ms /\ m_req m = true /\
     o_cmd a = m_cmd m /\ o_app a = m_app m /\ o_hbh a = m_hbh m /\ o_e2e a = m_e2e m.
Proof. exact (@NodeE.C07_history_node_answers n0 evs e outs cid a). Qed.

(* C: under wf_init_g + ce_guard (= reach_g of NodeD: the hypotheses of C13_one_conn_per_peer, reach_c, and
   of C19_waiting_hosts, reach_nc, together), an answer that an application hands to the node goes out,
   unchanged, on the very connection from which a request with its (hop-by-hop, end-to-end) pair was read
   and delivered to an application earlier in the history *)
Theorem C07_history_app_answers n0 evs1 ds i a evs2 cid a' :
  NodeD.wf_init_g n0 -> NodeD.ce_guard n0 (evs1 ++ (ds, EAppAnswer i a) :: evs2)%list ->
  List.In (OQueue cid a') (snd (step (fst (run n0 evs1)) ds (EAppAnswer i a))) -> o_req a' = false ->
  a' = a /\
  exists ms outs j m,
    List.In (ERecv cid ms, outs) (trace n0 evs1) /\ List.In m ms /\ m_req m = true /\
    m_hbh m = o_hbh a /\ m_e2e m = o_e2e a /\ List.In (ODeliver j m) outs.
Proof. exact (@NodeE.C07_history_app_answers n0 evs1 ds i a evs2 cid a'). Qed.

(* D: under the guard of C, on every connection and for every (hop-by-hop, end-to-end) pair the node hands
   out no more answers than it has read requests with that pair from that connection *)
Theorem C07_history_answers_le_requests n0 evs cid k :
  NodeD.wf_init_g n0 -> NodeD.ce_guard n0 evs ->
  (qans cid k (trace n0 evs) <= qreq cid k (trace n0 evs))%nat.
Proof. exact (@NodeE.C07_history_answers_le_requests n0 evs cid k). Qed.

(* D: when the requests read from a connection carry pairwise distinct (hop-by-hop, end-to-end) pairs, the
   node hands that connection at most one answer per pair in the whole history *)
Theorem C07_history_at_most_once n0 evs cid k :
  NodeD.wf_init_g n0 -> NodeD.ce_guard n0 evs -> List.NoDup (req_keys_on cid evs) ->
  (qans cid k (trace n0 evs) <= 1)%nat.
Proof. exact (@NodeE.C07_history_at_most_once n0 evs cid k). Qed.
End FromNodeE.

Print Assumptions FromNodeB.send_message_out.
Print Assumptions FromNodeB.C07_dispatch_answers.
Print Assumptions FromNodeB.C07_no_answer_to_answer.
Print Assumptions FromNodeB.C07_answers_only_from.
Print Assumptions FromNodeB.C07_dispatch_all_answers.
Print Assumptions FromNodeB.C07_delivered_not_answered.
Print Assumptions FromNodeB.C07_delivered_answered_only_on_failure.
Print Assumptions FromNodeE.C07_history_no_answer_to_answer.
Print Assumptions FromNodeE.C07_history_node_answers.
Print Assumptions FromNodeE.C07_history_app_answers.
Print Assumptions FromNodeE.C07_history_answers_le_requests.
Print Assumptions FromNodeE.C07_history_at_most_once.
