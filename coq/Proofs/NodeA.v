(* Proofs about Model/Node.v: C06 (capabilities exchange gates all traffic), C11 (watchdog),
   C18 (shutdown).  Every theorem is closed under the global context (see the end). *)
From DV Require Import Prelude.Base Model.Node.
From Coq Require Import String.
Open Scope string_scope.
Open Scope list_scope.
Open Scope Z_scope.

(* ================================================================================== *)
(* Part 1: setters and getters                                                        *)
(* ================================================================================== *)

Definition idp (f : conn -> conn) : Prop := forall c, c_id (f c) = c_id c.

Lemma find_upd (l : list conn) (i j : nat) (f : conn -> conn) :
  idp f ->
  List.find (fun c => Nat.eqb (c_id c) j) (upd_conn l i f) =
  if Nat.eqb j i then option_map f (List.find (fun c => Nat.eqb (c_id c) j) l)
  else List.find (fun c => Nat.eqb (c_id c) j) l.
Proof.
  intros Hf. induction l as [|c r IH]; cbn [upd_conn List.find].
  - destruct (Nat.eqb j i); reflexivity.
  - destruct (Nat.eqb (c_id c) i) eqn:Eci.
    + apply Nat.eqb_eq in Eci. cbn [List.find]. rewrite Hf.
      destruct (Nat.eqb j i) eqn:Eji.
      * apply Nat.eqb_eq in Eji. subst. rewrite Nat.eqb_refl. reflexivity.
      * destruct (Nat.eqb (c_id c) j) eqn:Ecj; [|reflexivity].
        apply Nat.eqb_eq in Ecj. apply Nat.eqb_neq in Eji. congruence.
    + cbn [List.find]. destruct (Nat.eqb (c_id c) j) eqn:Ecj.
      * apply Nat.eqb_eq in Ecj. subst j. rewrite Eci. reflexivity.
      * exact IH.
Qed.

Lemma get_conn_set_conns n l i :
  get_conn (set_conns n l) i = List.find (fun c => Nat.eqb (c_id c) i) l.
Proof. reflexivity. Qed.

Lemma get_conn_upd n i j f :
  idp f ->
  get_conn (set_conns n (upd_conn (n_conns n) i f)) j =
  if Nat.eqb j i then option_map f (get_conn n j) else get_conn n j.
Proof. intros Hf. unfold get_conn. cbn [n_conns set_conns]. apply find_upd, Hf. Qed.

Lemma get_conn_upd_same n i f c :
  idp f -> get_conn n i = Some c ->
  get_conn (set_conns n (upd_conn (n_conns n) i f)) i = Some (f c).
Proof. intros Hf Hc. rewrite get_conn_upd by exact Hf. rewrite Nat.eqb_refl, Hc. reflexivity. Qed.

Lemma get_conn_upd_other n i j f :
  idp f -> j <> i ->
  get_conn (set_conns n (upd_conn (n_conns n) i f)) j = get_conn n j.
Proof.
  intros Hf Hne. rewrite get_conn_upd by exact Hf.
  apply Nat.eqb_neq in Hne. rewrite Hne. reflexivity.
Qed.

Lemma upd_conn_none l i f :
  List.find (fun c => Nat.eqb (c_id c) i) l = None -> upd_conn l i f = l.
Proof.
  induction l as [|c r IH]; cbn [upd_conn List.find]; [reflexivity|].
  destruct (Nat.eqb (c_id c) i); [discriminate|]. intros H. rewrite IH by exact H. reflexivity.
Qed.

Lemma get_conn_id n i c : get_conn n i = Some c -> c_id c = i.
Proof.
  unfold get_conn. intros H. apply List.find_some in H. destruct H as [_ H].
  apply Nat.eqb_eq in H. exact H.
Qed.

Lemma get_conn_in n i c : get_conn n i = Some c -> List.In c (n_conns n).
Proof. unfold get_conn. intros H. apply List.find_some in H. tauto. Qed.

Lemma find_filter_ne (l : list conn) i j :
  List.find (fun c => Nat.eqb (c_id c) j) (List.filter (fun x => negb (Nat.eqb (c_id x) i)) l) =
  if Nat.eqb j i then None else List.find (fun c => Nat.eqb (c_id c) j) l.
Proof.
  induction l as [|c r IH]; cbn [List.filter List.find].
  - destruct (Nat.eqb j i); reflexivity.
  - destruct (Nat.eqb (c_id c) i) eqn:Eci; cbn [negb List.find].
    + rewrite IH. destruct (Nat.eqb j i) eqn:Eji; [reflexivity|].
      destruct (Nat.eqb (c_id c) j) eqn:Ecj; [|reflexivity].
      apply Nat.eqb_eq in Ecj, Eci. apply Nat.eqb_neq in Eji. congruence.
    + destruct (Nat.eqb (c_id c) j) eqn:Ecj.
      * apply Nat.eqb_eq in Ecj. subst j. rewrite Eci. reflexivity.
      * exact IH.
Qed.

Lemma find_app_conn (l : list conn) c j :
  List.find (fun c => Nat.eqb (c_id c) j) (l ++ [c]) =
  match List.find (fun c => Nat.eqb (c_id c) j) l with
  | Some x => Some x
  | None => if Nat.eqb (c_id c) j then Some c else None
  end.
Proof.
  induction l as [|a r IH]; cbn [List.app List.find]; [reflexivity|].
  destruct (Nat.eqb (c_id a) j); [reflexivity|exact IH].
Qed.

(* the setters on connections preserve the id *)
Lemma idp_cstate s : idp (fun c => set_cstate c s).  Proof. intro; reflexivity. Qed.
Lemma idp_cout f : idp (fun c => set_cout c (f c)).  Proof. intro; reflexivity. Qed.
Lemma idp_ctimes f g : idp (fun c => set_ctimes c (f c) (g c)).  Proof. intro; reflexivity. Qed.
Lemma idp_chbh f : idp (fun c => set_chbh c (f c)).  Proof. intro; reflexivity. Qed.
#[local] Hint Resolve idp_cstate idp_cout idp_ctimes idp_chbh : idp.

(* ---- send_message ------------------------------------------------------------------ *)
Definition qout (m : omsg) : conn -> conn := fun c => set_cout c (c_out c ++ [m]).
Lemma idp_qout m : idp (qout m).  Proof. intro; reflexivity. Qed.
#[local] Hint Resolve idp_qout : idp.

Lemma send_message_spec n cid m :
  n_conns (fst (send_message n cid m)) = upd_conn (n_conns n) cid (qout m) /\
  n_peers (fst (send_message n cid m)) = n_peers n /\
  n_next_cid (fst (send_message n cid m)) = n_next_cid n /\
  n_stopping (fst (send_message n cid m)) = n_stopping n /\
  n_now (fst (send_message n cid m)) = n_now n /\
  n_cfg (fst (send_message n cid m)) = n_cfg n /\
  n_apps (fst (send_message n cid m)) = n_apps n /\
  n_e2e (fst (send_message n cid m)) = n_e2e n /\
  snd (send_message n cid m) = [OQueue cid m].
Proof.
  unfold send_message, queue_out, record_answer, qout.
  destruct (o_req m); [cbn; repeat split|].
  destruct (get_conn n cid); cbn [fst snd];
    match goal with |- context [List.find ?f ?l] => destruct (List.find f l) as [[[[? ?] ?] ?]|] end;
    cbn; repeat split.
Qed.

Lemma send_message_out n cid m : snd (send_message n cid m) = [OQueue cid m].
Proof. apply send_message_spec. Qed.

Lemma send_message_get n cid m j :
  get_conn (fst (send_message n cid m)) j =
  if Nat.eqb j cid then option_map (qout m) (get_conn n j) else get_conn n j.
Proof.
  unfold get_conn at 1. destruct (send_message_spec n cid m) as [H _]. rewrite H.
  apply find_upd. auto with idp.
Qed.

Ltac solve_idp :=
  let x := fresh "x" in
  intros x; repeat match goal with |- context [if ?b then _ else _] => destruct b end; reflexivity.

Lemma get_conn_ext n n' j : n_conns n = n_conns n' -> get_conn n j = get_conn n' j.
Proof. unfold get_conn. intros ->. reflexivity. Qed.

Lemma assign_peer_conn_conns n cid : n_conns (assign_peer_conn n cid) = n_conns n.
Proof.
  unfold assign_peer_conn. destruct (get_conn n cid) as [c|]; [|reflexivity].
  destruct (String.eqb (c_host c) ""); [reflexivity|].
  destruct (get_peer n (c_host c)); [|reflexivity].
  destruct (mem_nat cid (n_half_ready n)); reflexivity.
Qed.

Lemma flag_ready_conns n cid :
  n_conns (flag_ready n cid) = upd_conn (n_conns n) cid (fun c => set_cstate c SReady).
Proof. reflexivity. Qed.

(* ---- remove_conn / close_conn ------------------------------------------------------------ *)
Lemma filter_ne_none (l : list conn) i :
  List.find (fun c => Nat.eqb (c_id c) i) l = None ->
  List.filter (fun x => negb (Nat.eqb (c_id x) i)) l = l.
Proof.
  induction l as [|c r IH]; cbn [List.find List.filter]; [reflexivity|].
  destruct (Nat.eqb (c_id c) i); [discriminate|]. cbn [negb]. intros H. rewrite IH by exact H. reflexivity.
Qed.

Lemma upd_peer_names l nm f :
  (forall p, p_name (f p) = p_name p) -> List.map p_name (upd_peer l nm f) = List.map p_name l.
Proof.
  intros Hf. induction l as [|p r IH]; cbn [upd_peer List.map]; [reflexivity|].
  destruct (String.eqb (p_name p) nm); cbn [List.map]; [rewrite Hf; reflexivity|rewrite IH; reflexivity].
Qed.

Definition pnames (n : node) : list string := List.map p_name (n_peers n).

Lemma remove_conn_spec n cid r :
  n_conns (remove_conn n cid r) = List.filter (fun x => negb (Nat.eqb (c_id x) cid)) (n_conns n) /\
  pnames (remove_conn n cid r) = pnames n /\
  n_next_cid (remove_conn n cid r) = n_next_cid n /\
  n_stopping (remove_conn n cid r) = n_stopping n /\
  n_now (remove_conn n cid r) = n_now n /\
  n_cfg (remove_conn n cid r) = n_cfg n.
Proof.
  unfold remove_conn, pnames. destruct (get_conn n cid) as [c|] eqn:Hc.
  - destruct (find_conn_peer n c) as [p|]; [destruct (p_conn p) as [k|]; [destruct (Nat.eqb k cid)|]|];
      cbn; repeat split; try reflexivity.
    apply upd_peer_names. reflexivity.
  - repeat split; try reflexivity. symmetry. apply filter_ne_none. exact Hc.
Qed.

Lemma remove_conn_get n cid r j :
  get_conn (remove_conn n cid r) j = if Nat.eqb j cid then None else get_conn n j.
Proof.
  unfold get_conn at 1. destruct (remove_conn_spec n cid r) as [H _]. rewrite H. apply find_filter_ne.
Qed.

Lemma close_conn_get n cid r j :
  get_conn (fst (close_conn n cid r)) j = if Nat.eqb j cid then None else get_conn n j.
Proof.
  unfold close_conn. destruct (get_conn n cid) eqn:Hc; cbn [fst].
  - apply remove_conn_get.
  - destruct (Nat.eqb j cid) eqn:E; [|reflexivity]. apply Nat.eqb_eq in E. subst. exact Hc.
Qed.

Lemma close_conn_some n cid r c :
  get_conn n cid = Some c -> close_conn n cid r = (remove_conn n cid r, [OClose cid r]).
Proof. intros H. unfold close_conn. rewrite H. reflexivity. Qed.

Lemma close_conn_none n cid r : get_conn n cid = None -> close_conn n cid r = (n, []).
Proof. intros H. unfold close_conn. rewrite H. reflexivity. Qed.

(* removing a connection changes the readiness flag of applications only: the advertised ids are kept *)
Definition app_keep (F : nat * app -> app) : Prop :=
  forall ia, a_id (F ia) = a_id (snd ia) /\ a_auth (F ia) = a_auth (snd ia) /\ a_acct (F ia) = a_acct (snd ia).

Lemma remap_auth F (l : list app) : app_keep F -> forall s,
  List.map a_id (List.filter a_auth (List.map F (List.combine (List.seq s (List.length l)) l))) =
  List.map a_id (List.filter a_auth l).
Proof.
  intros HF. induction l as [|a r IH]; intros s; [reflexivity|].
  cbn [List.length List.seq List.combine List.map List.filter].
  destruct (HF (s, a)) as [H1 [H2 _]]. cbn [snd] in H1, H2. rewrite H2.
  destruct (a_auth a); cbn [List.map]; rewrite ?H1, IH; reflexivity.
Qed.

Lemma remap_acct F (l : list app) : app_keep F -> forall s,
  List.map a_id (List.filter a_acct (List.map F (List.combine (List.seq s (List.length l)) l))) =
  List.map a_id (List.filter a_acct l).
Proof.
  intros HF. induction l as [|a r IH]; intros s; [reflexivity|].
  cbn [List.length List.seq List.combine List.map List.filter].
  destruct (HF (s, a)) as [H1 [_ H3]]. cbn [snd] in H1, H3. rewrite H3.
  destruct (a_acct a); cbn [List.map]; rewrite ?H1, IH; reflexivity.
Qed.

Lemma remove_conn_ids n cid r :
  node_auth (remove_conn n cid r) = node_auth n /\ node_acct (remove_conn n cid r) = node_acct n.
Proof.
  unfold remove_conn, node_auth, node_acct. destruct (get_conn n cid) as [c|]; [|split; reflexivity].
  destruct (find_conn_peer n c) as [p|]; [destruct (p_conn p) as [k|]; [destruct (Nat.eqb k cid)|]|];
    cbn [n_apps set_apps set_tables set_waiting set_peers set_conns];
    (split; apply (f_equal dedup_z); [apply remap_auth|apply remap_acct]);
    intros [i a]; cbn [snd];
    match goal with |- context [if ?b then _ else _] => destruct b end; repeat split.
Qed.

Lemma close_conn_ids n cid r :
  node_auth (fst (close_conn n cid r)) = node_auth n /\ node_acct (fst (close_conn n cid r)) = node_acct n.
Proof.
  unfold close_conn. destruct (get_conn n cid); cbn [fst]; [apply remove_conn_ids|split; reflexivity].
Qed.

(* ---- close_all (the election's removal of the rival connections) ------------------------------- *)
Lemma mclose_all_cons n k l r :
  close_all n (k :: l) r =
  let '(n1, o1) := close_conn n k r in let '(n2, o2) := close_all n1 l r in (n2, o1 ++ o2).
Proof. reflexivity. Qed.

Lemma mclose_all_get l : forall n r j,
  get_conn (fst (close_all n l r)) j = if mem_nat j l then None else get_conn n j.
Proof.
  induction l as [|k l IH]; intros n r j; [reflexivity|].
  rewrite mclose_all_cons. pose proof (close_conn_get n k r j) as H1.
  destruct (close_conn n k r) as [n1 o1]. specialize (IH n1 r j). destruct (close_all n1 l r) as [n2 o2].
  cbn [fst] in *. rewrite IH, H1. unfold mem_nat. cbn [List.existsb].
  destruct (Nat.eqb j k); cbn [orb]; [|reflexivity]. destruct (List.existsb (Nat.eqb j) l); reflexivity.
Qed.

Lemma mem_nat_in x l : mem_nat x l = true <-> List.In x l.
Proof.
  unfold mem_nat. rewrite List.existsb_exists. split.
  - intros [y [Hin He]]. apply Nat.eqb_eq in He. subst. exact Hin.
  - intros Hin. exists x. split; [exact Hin|apply Nat.eqb_refl].
Qed.

Lemma mclose_all_get_in l n r j : List.In j l -> get_conn (fst (close_all n l r)) j = None.
Proof. intros H. rewrite mclose_all_get. apply mem_nat_in in H. rewrite H. reflexivity. Qed.

Lemma mclose_all_get_notin l n r j : ~ List.In j l -> get_conn (fst (close_all n l r)) j = get_conn n j.
Proof.
  intros H. rewrite mclose_all_get. destruct (mem_nat j l) eqn:E; [|reflexivity].
  apply mem_nat_in in E. contradiction.
Qed.

Lemma mclose_all_ids l : forall n r,
  node_auth (fst (close_all n l r)) = node_auth n /\ node_acct (fst (close_all n l r)) = node_acct n.
Proof.
  induction l as [|k l IH]; intros n r; [split; reflexivity|].
  rewrite mclose_all_cons. pose proof (close_conn_ids n k r) as [H1 H2].
  destruct (close_conn n k r) as [n1 o1]. destruct (IH n1 r) as [H3 H4]. destruct (close_all n1 l r) as [n2 o2].
  cbn [fst] in *. split; congruence.
Qed.

(* the outputs of close_all depend on the connection numbers only *)
Definition cids (n : node) : list nat := List.map c_id (n_conns n).

Fixpoint close_outs (ids l : list nat) (r : Z) : list output :=
  match l with
  | [] => []
  | k :: t => (if mem_nat k ids then [OClose k r] else []) ++ close_outs (remove_nat k ids) t r
  end.

Lemma mem_nat_cids n k : mem_nat k (cids n) = match get_conn n k with Some _ => true | None => false end.
Proof.
  unfold mem_nat, cids, get_conn. induction (n_conns n) as [|c l IH]; [reflexivity|].
  cbn [List.map List.existsb List.find]. rewrite (Nat.eqb_sym k (c_id c)).
  destruct (Nat.eqb (c_id c) k); [reflexivity|exact IH].
Qed.

Lemma close_conn_cids n k r : cids (fst (close_conn n k r)) = remove_nat k (cids n).
Proof.
  unfold cids. assert (H : n_conns (fst (close_conn n k r)) = List.filter (fun x => negb (Nat.eqb (c_id x) k)) (n_conns n)).
  { unfold close_conn. destruct (get_conn n k) eqn:Hc; cbn [fst]; [apply remove_conn_spec|].
    symmetry. apply filter_ne_none. exact Hc. }
  rewrite H. clear H. unfold remove_nat. induction (n_conns n) as [|c l IH]; [reflexivity|].
  cbn [List.map List.filter]. rewrite (Nat.eqb_sym k (c_id c)).
  destruct (Nat.eqb (c_id c) k); cbn [negb List.map]; rewrite IH; reflexivity.
Qed.

Lemma close_conn_out n k r : snd (close_conn n k r) = if mem_nat k (cids n) then [OClose k r] else [].
Proof. rewrite mem_nat_cids. unfold close_conn. destruct (get_conn n k); reflexivity. Qed.

Lemma mclose_all_outs l : forall n r, snd (close_all n l r) = close_outs (cids n) l r.
Proof.
  induction l as [|k l IH]; intros n r; [reflexivity|].
  rewrite mclose_all_cons. pose proof (close_conn_out n k r) as H1. pose proof (close_conn_cids n k r) as H2.
  destruct (close_conn n k r) as [n1 o1]. specialize (IH n1 r). destruct (close_all n1 l r) as [n2 o2].
  cbn [fst snd close_outs] in *. rewrite H1, IH, H2. reflexivity.
Qed.

Lemma upd_conn_cids n i f : idp f -> cids (set_conns n (upd_conn (n_conns n) i f)) = cids n.
Proof.
  intros Hf. unfold cids. cbn [n_conns set_conns]. induction (n_conns n) as [|c l IH]; [reflexivity|].
  cbn [upd_conn]. destruct (Nat.eqb (c_id c) i); cbn [List.map]; [rewrite Hf|rewrite IH]; reflexivity.
Qed.

(* every output of close_all is the closing of one of the listed connections ... *)
Lemma mclose_all_outs_in l : forall n r o,
  List.In o (snd (close_all n l r)) -> exists k, List.In k l /\ o = OClose k r.
Proof.
  induction l as [|k l IH]; intros n r o Ho; [destruct Ho|].
  rewrite mclose_all_cons in Ho. pose proof (close_conn_out n k r) as H1.
  destruct (close_conn n k r) as [n1 o1]. specialize (IH n1 r o). destruct (close_all n1 l r) as [n2 o2].
  cbn [fst snd] in *. apply List.in_app_or in Ho. destruct Ho as [Ho|Ho].
  - rewrite H1 in Ho. destruct (mem_nat k (cids n)); [|destruct Ho]. destruct Ho as [<-|[]].
    exists k. split; [left; reflexivity|reflexivity].
  - destruct (IH Ho) as [k' [Hin He]]. exists k'. split; [right; exact Hin|exact He].
Qed.

(* ... each listed connection that exists is closed ... *)
Lemma mclose_all_closes l : forall n r k,
  List.In k l -> get_conn n k <> None -> List.In (OClose k r) (snd (close_all n l r)).
Proof.
  induction l as [|a l IH]; intros n r k Hin Hk; [destruct Hin|].
  rewrite mclose_all_cons. pose proof (close_conn_get n a r k) as Hg.
  destruct (Nat.eq_dec a k) as [->|Hne].
  - destruct (get_conn n k) as [c|] eqn:Hc; [|congruence]. rewrite (close_conn_some n k r c Hc).
    destruct (close_all (remove_conn n k r) l r). cbn [snd]. left. reflexivity.
  - destruct (close_conn n a r) as [n1 o1]. specialize (IH n1 r k). destruct (close_all n1 l r) as [n2 o2].
    cbn [fst snd] in *. apply List.in_or_app. right. apply IH; [destruct Hin; [congruence|assumption]|].
    rewrite Hg. assert (E : Nat.eqb k a = false) by (apply Nat.eqb_neq; congruence). rewrite E. exact Hk.
Qed.

(* ... and with distinct, existing numbers the outputs are exactly one OClose per number, in order *)
Lemma mclose_all_outs_nodup l : forall n r,
  List.NoDup l -> (forall k, List.In k l -> get_conn n k <> None) ->
  snd (close_all n l r) = List.map (fun k => OClose k r) l.
Proof.
  induction l as [|a l IH]; intros n r Hnd Hex; [reflexivity|].
  inversion Hnd as [|? ? Hnotin Hnd']; subst.
  rewrite mclose_all_cons. destruct (get_conn n a) as [c|] eqn:Hc; [|exfalso; apply (Hex a); [left; reflexivity|exact Hc]].
  rewrite (close_conn_some n a r c Hc).
  assert (H1 : forall k, List.In k l -> get_conn (remove_conn n a r) k <> None).
  { intros k Hk. rewrite remove_conn_get. assert (E : Nat.eqb k a = false) by (apply Nat.eqb_neq; intros ->; contradiction).
    rewrite E. apply Hex. right. exact Hk. }
  specialize (IH (remove_conn n a r) r Hnd' H1). destruct (close_all (remove_conn n a r) l r) as [n2 o2].
  cbn [snd] in *. rewrite IH. reflexivity.
Qed.

(* ---- election_rivals ------------------------------------------------------------------------------ *)
Lemma election_rivals_upd n cid h f :
  idp f -> election_rivals (set_conns n (upd_conn (n_conns n) cid f)) cid h = election_rivals n cid h.
Proof.
  intros Hf. unfold election_rivals. cbn [n_conns set_conns].
  induction (n_conns n) as [|c r IH]; [reflexivity|].
  cbn [upd_conn]. destruct (Nat.eqb (c_id c) cid) eqn:E; cbn [List.filter].
  - rewrite Hf, E. reflexivity.
  - rewrite E. cbn [negb andb]. destruct (String.eqb (c_node_name c) h); cbn [List.map]; rewrite IH; reflexivity.
Qed.

Lemma find_in_some (l : list conn) c :
  List.In c l -> exists c', List.find (fun x => Nat.eqb (c_id x) (c_id c)) l = Some c'.
Proof.
  intros Hin. destruct (List.find (fun x => Nat.eqb (c_id x) (c_id c)) l) eqn:E; [eauto|].
  exfalso. apply (List.find_none _ _ E) in Hin. rewrite Nat.eqb_refl in Hin. discriminate.
Qed.

(* a rival is another existing connection whose node name is the CER's Origin-Host *)
Lemma election_rivals_in n cid h k :
  List.In k (election_rivals n cid h) <->
  exists c, List.In c (n_conns n) /\ c_id c = k /\ k <> cid /\ c_node_name c = h.
Proof.
  unfold election_rivals. rewrite List.in_map_iff. split.
  - intros [c [Hid Hin]]. apply List.filter_In in Hin. destruct Hin as [Hin Hf].
    apply Bool.andb_true_iff in Hf. destruct Hf as [H1 H2]. apply Bool.negb_true_iff, Nat.eqb_neq in H1.
    apply String.eqb_eq in H2. exists c. repeat split; congruence.
  - intros [c [Hin [Hid [Hne Hnm]]]]. exists c. split; [exact Hid|]. apply List.filter_In. split; [exact Hin|].
    apply Bool.andb_true_iff. split; [apply Bool.negb_true_iff, Nat.eqb_neq; congruence|apply String.eqb_eq, Hnm].
Qed.

Lemma election_rivals_exist n cid h k :
  List.In k (election_rivals n cid h) -> get_conn n k <> None /\ k <> cid.
Proof.
  intros H. apply election_rivals_in in H. destruct H as [c [Hin [Hid [Hne _]]]]. split; [|exact Hne].
  destruct (find_in_some _ c Hin) as [c' Hc']. unfold get_conn. rewrite <- Hid, Hc'. discriminate.
Qed.

Lemma election_rivals_nodup n cid h : List.NoDup (cids n) -> List.NoDup (election_rivals n cid h).
Proof.
  unfold cids, election_rivals. induction (n_conns n) as [|c l IH]; intros Hnd; [constructor|].
  cbn [List.map] in Hnd. inversion Hnd as [|? ? Hnotin Hnd']; subst. cbn [List.filter].
  destruct (negb (Nat.eqb (c_id c) cid) && String.eqb (c_node_name c) h); [|apply IH, Hnd'].
  cbn [List.map]. constructor; [|apply IH, Hnd']. intros Hin. apply Hnotin.
  apply List.in_map_iff in Hin. destruct Hin as [x [Hx Hin]]. apply List.filter_In in Hin.
  rewrite <- Hx. apply List.in_map. tauto.
Qed.

(* ================================================================================== *)
(* C06: capabilities exchange gates all traffic                                        *)
(* ================================================================================== *)

(* C06: a CONNECTED connection drops every message that is not the expected CER / CEA *)
Theorem C06_gate_connected n cid c m :
  get_conn n cid = Some c -> c_state c = SConnected ->
  (m_cmd m <> CE \/ (c_recv c = true /\ m_req m = false) \/ (c_recv c = false /\ m_req m = true)) ->
  dispatch n cid m = (n, []).
Proof.
  intros Hc Hs Hm. unfold dispatch. rewrite Hc. unfold gate_passes. rewrite Hs.
  destruct Hm as [Hm | [[Hr Hq] | [Hr Hq]]].
  - destruct (m_cmd m); try reflexivity. congruence.
  - rewrite Hr, Hq, Bool.andb_false_r. reflexivity.
  - rewrite Hr, Hq, Bool.andb_false_r. reflexivity.
Qed.

(* C06: a CLOSING or CLOSED connection drops every message *)
Theorem C06_gate_closing n cid c m :
  get_conn n cid = Some c -> (c_state c = SClosing \/ c_state c = SClosed) ->
  dispatch n cid m = (n, []).
Proof.
  intros Hc Hs. unfold dispatch. rewrite Hc. unfold gate_passes.
  destruct Hs as [-> | ->]; reflexivity.
Qed.

(* ---- recv_cer for a configured peer: the election, then the negotiation ---------------------------- *)
(* the connection takes the name of the peer if it has none (an accepted connection) *)
Definition cer_name (h : string) : conn -> conn :=
  fun c => if String.eqb (c_node_name c) "" then set_cident c h (c_host c) (c_auth c) (c_acct c) else c.
Lemma idp_cer_name h : idp (cer_name h).
Proof. intro c. unfold cer_name. destruct (String.eqb (c_node_name c) ""); reflexivity. Qed.
#[local] Hint Resolve idp_cer_name : idp.
Definition cer_named (n : node) (cid : nat) (h : string) : node :=
  set_conns n (upd_conn (n_conns n) cid (cer_name h)).

(* the negotiation of the applications (the part of receive_cer after the election) *)
Definition cer_negotiate (n1 : node) (cid : nat) (m : msg) (h : string) : node * list output :=
  let sup_auth := inter_z (node_auth n1) (m_auth m) in
  let sup_acct := inter_z (node_acct n1) (m_acct m) in
  let relay := mem_z APP_RELAY (m_auth m) || mem_z APP_RELAY (m_acct m) in
  match sup_auth, sup_acct, relay with
  | [], [], false => send_message n1 cid (answer_of m (Some RC_NO_COMMON_APP) [])
  | _, _, _ =>
      let n2 := set_conns n1 (upd_conn (n_conns n1) cid (fun c => set_cident c (c_node_name c) h sup_auth sup_acct)) in
      send_message (flag_ready (assign_peer_conn n2 cid) cid) cid (answer_of m (Some RC_SUCCESS) [])
  end.

Definition cer_lost (n : node) (cid : nat) (m : msg) (h : string) : node * list output :=
  let n0 := cer_named n cid h in
  send_message (set_conns n0 (upd_conn (n_conns n0) cid (fun c => set_cstate c SClosing))) cid
               (answer_of m (Some RC_ELECTION_LOST) []).

Definition cer_won (n : node) (cid : nat) (m : msg) (h : string) : node * list output :=
  let '(n1, oel) := close_all (cer_named n cid h) (election_rivals n cid h) R_CLEAN in
  let '(n2, o) := cer_negotiate n1 cid m h in (n2, oel ++ o).

Lemma recv_cer_known n cid c m h p :
  get_conn n cid = Some c -> c_state c = SConnected ->
  m_origin m = Present h -> get_peer n h = Some p ->
  recv_cer n cid m =
  match election_rivals n cid h with
  | [] => cer_won n cid m h
  | _ :: _ => if String.ltb h (g_host (n_cfg n)) then cer_won n cid m h else cer_lost n cid m h
  end.
Proof.
  intros Hc Hs Ho Hp. unfold recv_cer. rewrite Hc, Hs, Ho. cbn [cstate_eqb negb pres_get]. rewrite Hp. cbv zeta.
  pose proof (election_rivals_upd n cid h _ (idp_cer_name h)) as Hriv. unfold cer_name in Hriv. rewrite Hriv. clear Hriv.
  unfold cer_won, cer_lost, cer_named, cer_name. cbn [n_cfg set_conns].
  destruct (election_rivals n cid h) as [|k ks]; [|destruct (String.ltb h (g_host (n_cfg n))); [|reflexivity]];
    match goal with |- context [close_all ?a ?b ?c] => destruct (close_all a b c) as [n1 oel] end;
    unfold cer_negotiate;
    destruct (inter_z (node_auth n1) (m_auth m)); destruct (inter_z (node_acct n1) (m_acct m));
    destruct (mem_z APP_RELAY (m_auth m) || mem_z APP_RELAY (m_acct m)); reflexivity.
Qed.

Definition shares_app (n : node) (m : msg) : Prop :=
  inter_z (node_auth n) (m_auth m) <> [] \/ inter_z (node_acct n) (m_acct m) <> [] \/
  mem_z APP_RELAY (m_auth m) || mem_z APP_RELAY (m_acct m) = true.

Lemma cer_accept_get n1 cid c1 h sa sc a :
  get_conn n1 cid = Some c1 ->
  let n2 := set_conns n1 (upd_conn (n_conns n1) cid (fun c => set_cident c (c_node_name c) h sa sc)) in
  (exists c', get_conn (fst (send_message (flag_ready (assign_peer_conn n2 cid) cid) cid a)) cid = Some c'
             /\ c_state c' = SReady /\ c_host c' = h /\ c_recv c' = c_recv c1) /\
  (forall j, j <> cid ->
     get_conn (fst (send_message (flag_ready (assign_peer_conn n2 cid) cid) cid a)) j = get_conn n1 j).
Proof.
  intros Hc n2. split.
  - rewrite send_message_get, Nat.eqb_refl.
    unfold get_conn at 1. rewrite flag_ready_conns, assign_peer_conn_conns.
    rewrite find_upd by solve_idp. rewrite Nat.eqb_refl.
    fold (get_conn n2 cid). unfold n2. rewrite get_conn_upd by solve_idp.
    rewrite Nat.eqb_refl, Hc. cbn [option_map]. eexists. split; [reflexivity|].
    cbn. auto.
  - intros j Hne. apply Nat.eqb_neq in Hne. rewrite send_message_get, Hne.
    unfold get_conn at 1. rewrite flag_ready_conns, assign_peer_conn_conns.
    rewrite find_upd by solve_idp. rewrite Hne.
    fold (get_conn n2 j). unfold n2. rewrite get_conn_upd by solve_idp. rewrite Hne. reflexivity.
Qed.

(* the negotiation: a shared application (or relay) => 2001 and READY; otherwise 5010 and the state is kept *)
Lemma cer_negotiate_shared n1 cid c1 m h :
  get_conn n1 cid = Some c1 -> shares_app n1 m ->
  snd (cer_negotiate n1 cid m h) = [OQueue cid (answer_of m (Some 2001) [])] /\
  (exists c', get_conn (fst (cer_negotiate n1 cid m h)) cid = Some c' /\ c_state c' = SReady /\ c_host c' = h
              /\ c_recv c' = c_recv c1) /\
  (forall j, j <> cid -> get_conn (fst (cer_negotiate n1 cid m h)) j = get_conn n1 j).
Proof.
  intros Hc1 Hsh. unfold cer_negotiate, shares_app, RC_SUCCESS in *.
  destruct (inter_z (node_auth n1) (m_auth m)) as [|x xs] eqn:Ea;
  destruct (inter_z (node_acct n1) (m_acct m)) as [|y ys] eqn:Eb;
  destruct (mem_z APP_RELAY (m_auth m) || mem_z APP_RELAY (m_acct m)) eqn:Er;
  try (exfalso; destruct Hsh as [H|[H|H]]; congruence);
  (split; [apply send_message_out|]);
  match goal with |- context [set_cident _ _ h ?sa ?sc] =>
    exact (cer_accept_get n1 cid c1 h sa sc (answer_of m (Some 2001) []) Hc1) end.
Qed.

Lemma cer_negotiate_none n1 cid c1 m h :
  get_conn n1 cid = Some c1 ->
  inter_z (node_auth n1) (m_auth m) = [] -> inter_z (node_acct n1) (m_acct m) = [] ->
  mem_z APP_RELAY (m_auth m) || mem_z APP_RELAY (m_acct m) = false ->
  snd (cer_negotiate n1 cid m h) = [OQueue cid (answer_of m (Some 5010) [])] /\
  get_conn (fst (cer_negotiate n1 cid m h)) cid = Some (qout (answer_of m (Some 5010) []) c1) /\
  (forall j, j <> cid -> get_conn (fst (cer_negotiate n1 cid m h)) j = get_conn n1 j).
Proof.
  intros Hc1 Ha Hb Hr. unfold cer_negotiate. rewrite Ha, Hb, Hr. unfold RC_NO_COMMON_APP.
  split; [apply send_message_out|]. split.
  - rewrite send_message_get, Nat.eqb_refl, Hc1. reflexivity.
  - intros j Hne. apply Nat.eqb_neq in Hne. rewrite send_message_get, Hne. reflexivity.
Qed.

(* the node on which the negotiation runs once the election is won: the rivals are gone, the connection
   has its name, everything else is as before *)
Lemma cer_won_unfold n cid c m h :
  get_conn n cid = Some c ->
  let rivals := election_rivals n cid h in
  let n1 := fst (close_all (cer_named n cid h) rivals R_CLEAN) in
  cer_won n cid m h = (fst (cer_negotiate n1 cid m h),
                       snd (close_all n rivals R_CLEAN) ++ snd (cer_negotiate n1 cid m h)) /\
  get_conn n1 cid = Some (cer_name h c) /\
  (forall k, List.In k rivals -> get_conn n1 k = None) /\
  (forall j, j <> cid -> ~ List.In j rivals -> get_conn n1 j = get_conn n j) /\
  node_auth n1 = node_auth n /\ node_acct n1 = node_acct n.
Proof.
  intros Hc rivals n1.
  assert (Hnotin : ~ List.In cid rivals).
  { intros H. apply election_rivals_exist in H. destruct H as [_ H]. congruence. }
  split; [|split; [|split; [|split]]].
  - unfold cer_won. fold rivals.
    assert (Ho : snd (close_all (cer_named n cid h) rivals R_CLEAN) = snd (close_all n rivals R_CLEAN)).
    { rewrite !mclose_all_outs. unfold cer_named. rewrite upd_conn_cids by auto with idp. reflexivity. }
    unfold n1. destruct (close_all (cer_named n cid h) rivals R_CLEAN) as [n1' oel]. cbn [fst snd] in *.
    destruct (cer_negotiate n1' cid m h) as [n2 o]. cbn [fst snd]. rewrite Ho. reflexivity.
  - unfold n1. rewrite mclose_all_get_notin by exact Hnotin. unfold cer_named.
    apply get_conn_upd_same; [auto with idp|exact Hc].
  - intros k Hk. unfold n1. apply mclose_all_get_in, Hk.
  - intros j Hne Hj. unfold n1. rewrite mclose_all_get_notin by exact Hj. unfold cer_named.
    apply get_conn_upd_other; [auto with idp|exact Hne].
  - unfold n1. destruct (mclose_all_ids rivals (cer_named n cid h) R_CLEAN) as [H1 H2]. rewrite H1, H2.
    split; reflexivity.
Qed.

(* C06: a CER of a configured peer sharing an application, the election being decided for the new connection
   (no other connection towards that peer, or the local name is the greater one): the rivals are closed
   (CLEAN), the CER is answered 2001 and the connection becomes READY *)
Theorem C06_cer_known n cid c m h p :
  get_conn n cid = Some c -> c_state c = SConnected ->
  m_origin m = Present h -> get_peer n h = Some p ->
  (election_rivals n cid h = [] \/ String.ltb h (g_host (n_cfg n)) = true) ->
  (inter_z (node_auth n) (m_auth m) <> [] \/ inter_z (node_acct n) (m_acct m) <> [] \/
   mem_z APP_RELAY (m_auth m) || mem_z APP_RELAY (m_acct m) = true) ->
  snd (recv_cer n cid m) =
    snd (close_all n (election_rivals n cid h) R_CLEAN) ++ [OQueue cid (answer_of m (Some 2001) [])] /\
  (forall k, List.In k (election_rivals n cid h) ->
     List.In (OClose k R_CLEAN) (snd (recv_cer n cid m)) /\ get_conn (fst (recv_cer n cid m)) k = None) /\
  exists c', get_conn (fst (recv_cer n cid m)) cid = Some c' /\ c_state c' = SReady /\ c_host c' = h.
Proof.
  intros Hc Hs Ho Hp Hel Hsh. rewrite (recv_cer_known n cid c m h p Hc Hs Ho Hp).
  assert (E : match election_rivals n cid h with
              | [] => cer_won n cid m h
              | _ :: _ => if String.ltb h (g_host (n_cfg n)) then cer_won n cid m h else cer_lost n cid m h
              end = cer_won n cid m h).
  { destruct Hel as [->| ->]; [reflexivity|]. destruct (election_rivals n cid h); reflexivity. }
  rewrite E. clear E.
  destruct (cer_won_unfold n cid c m h Hc) as [Hw [Hc1 [Hriv [_ [Ha Hb]]]]]. cbv zeta in *.
  set (n1 := fst (close_all (cer_named n cid h) (election_rivals n cid h) R_CLEAN)) in *.
  assert (Hsh1 : shares_app n1 m) by (unfold shares_app; rewrite Ha, Hb; exact Hsh).
  destruct (cer_negotiate_shared n1 cid _ m h Hc1 Hsh1) as [Hout [[c' [Hc' [Hs' [Hh' _]]]] Hoth]].
  rewrite Hw. cbn [fst snd]. rewrite Hout. split; [reflexivity|]. split.
  - intros k Hk. destruct (election_rivals_exist n cid h k Hk) as [Hex Hne]. split.
    + apply List.in_or_app. left. apply mclose_all_closes; assumption.
    + rewrite Hoth by exact Hne. apply Hriv, Hk.
  - exists c'. auto.
Qed.

(* C06: ... with no other connection towards that peer the answer is the only output *)
Theorem C06_cer_known_no_rivals n cid c m h p :
  get_conn n cid = Some c -> c_state c = SConnected ->
  m_origin m = Present h -> get_peer n h = Some p ->
  election_rivals n cid h = [] ->
  (inter_z (node_auth n) (m_auth m) <> [] \/ inter_z (node_acct n) (m_acct m) <> [] \/
   mem_z APP_RELAY (m_auth m) || mem_z APP_RELAY (m_acct m) = true) ->
  snd (recv_cer n cid m) = [OQueue cid (answer_of m (Some 2001) [])] /\
  exists c', get_conn (fst (recv_cer n cid m)) cid = Some c' /\ c_state c' = SReady /\ c_host c' = h.
Proof.
  intros Hc Hs Ho Hp Hel Hsh.
  destruct (C06_cer_known n cid c m h p Hc Hs Ho Hp (or_introl Hel) Hsh) as [H1 [_ H2]].
  rewrite Hel in H1. split; [exact H1|exact H2].
Qed.

(* C06: the election is won (there are other connections towards the peer and the local name is the
   greater one): every rival is closed (CLEAN) and removed, then the CER is answered 2001, READY *)
Theorem C06_cer_election_won n cid c m h p :
  get_conn n cid = Some c -> c_state c = SConnected ->
  m_origin m = Present h -> get_peer n h = Some p ->
  election_rivals n cid h <> [] -> String.ltb h (g_host (n_cfg n)) = true ->
  (inter_z (node_auth n) (m_auth m) <> [] \/ inter_z (node_acct n) (m_acct m) <> [] \/
   mem_z APP_RELAY (m_auth m) || mem_z APP_RELAY (m_acct m) = true) ->
  (forall k, List.In k (election_rivals n cid h) ->
     List.In (OClose k R_CLEAN) (snd (recv_cer n cid m)) /\ get_conn (fst (recv_cer n cid m)) k = None) /\
  (exists oel, snd (recv_cer n cid m) = oel ++ [OQueue cid (answer_of m (Some 2001) [])] /\ oel <> [] /\
     forall o, List.In o oel -> exists k, List.In k (election_rivals n cid h) /\ o = OClose k R_CLEAN) /\
  (List.NoDup (cids n) ->
     snd (recv_cer n cid m) = List.map (fun k => OClose k R_CLEAN) (election_rivals n cid h)
                              ++ [OQueue cid (answer_of m (Some 2001) [])]) /\
  exists c', get_conn (fst (recv_cer n cid m)) cid = Some c' /\ c_state c' = SReady /\ c_host c' = h.
Proof.
  intros Hc Hs Ho Hp Hne Hlt Hsh.
  destruct (C06_cer_known n cid c m h p Hc Hs Ho Hp (or_intror Hlt) Hsh) as [H1 [H2 H3]].
  split; [exact H2|]. split; [|split; [|exact H3]].
  - exists (snd (close_all n (election_rivals n cid h) R_CLEAN)). split; [exact H1|]. split.
    + destruct (election_rivals n cid h) as [|k ks] eqn:E; [congruence|].
      intros Hnil. assert (Hin : List.In k (election_rivals n cid h)) by (rewrite E; left; reflexivity).
      destruct (election_rivals_exist n cid h k Hin) as [Hex _].
      pose proof (mclose_all_closes (k :: ks) n R_CLEAN k (or_introl eq_refl) Hex) as Hcl.
      rewrite Hnil in Hcl. destruct Hcl.
    + apply mclose_all_outs_in.
  - intros Hnd. rewrite H1. f_equal. apply mclose_all_outs_nodup.
    + apply election_rivals_nodup, Hnd.
    + intros k Hk. apply (election_rivals_exist n cid h k Hk).
Qed.

(* C06: the election is lost (there are other connections towards the peer and the local name is not the
   greater one): the CER is answered 4003, the connection is CLOSING, nothing else changes: in particular no
   connection becomes ready *)
Theorem C06_cer_election_lost n cid c m h p :
  get_conn n cid = Some c -> c_state c = SConnected ->
  m_origin m = Present h -> get_peer n h = Some p ->
  election_rivals n cid h <> [] -> String.ltb h (g_host (n_cfg n)) = false ->
  snd (recv_cer n cid m) = [OQueue cid (answer_of m (Some 4003) [])] /\
  (exists c', get_conn (fst (recv_cer n cid m)) cid = Some c' /\ c_state c' = SClosing) /\
  (forall j, j <> cid -> get_conn (fst (recv_cer n cid m)) j = get_conn n j) /\
  (forall j cj, get_conn (fst (recv_cer n cid m)) j = Some cj -> is_ready_state (c_state cj) = true ->
     exists cj0, get_conn n j = Some cj0 /\ is_ready_state (c_state cj0) = true).
Proof.
  intros Hc Hs Ho Hp Hne Hlt. rewrite (recv_cer_known n cid c m h p Hc Hs Ho Hp), Hlt.
  destruct (election_rivals n cid h) as [|k ks]; [congruence|]. unfold cer_lost, RC_ELECTION_LOST.
  set (n0 := cer_named n cid h).
  assert (Hc0 : get_conn n0 cid = Some (cer_name h c))
    by (apply get_conn_upd_same; [auto with idp|exact Hc]).
  assert (Hcid : get_conn (fst (send_message (set_conns n0 (upd_conn (n_conns n0) cid (fun c => set_cstate c SClosing))) cid
                                 (answer_of m (Some 4003) []))) cid =
                 Some (qout (answer_of m (Some 4003) []) (set_cstate (cer_name h c) SClosing))).
  { rewrite send_message_get, Nat.eqb_refl, get_conn_upd by solve_idp. rewrite Nat.eqb_refl, Hc0. reflexivity. }
  assert (Hoth : forall j, j <> cid ->
            get_conn (fst (send_message (set_conns n0 (upd_conn (n_conns n0) cid (fun c => set_cstate c SClosing))) cid
                                 (answer_of m (Some 4003) []))) j = get_conn n j).
  { intros j Hj. apply Nat.eqb_neq in Hj. rewrite send_message_get, Hj, get_conn_upd by solve_idp. rewrite Hj.
    unfold n0, cer_named. rewrite get_conn_upd by auto with idp. rewrite Hj. reflexivity. }
  split; [apply send_message_out|]. split; [|split; [exact Hoth|]].
  - eexists. split; [exact Hcid|reflexivity].
  - intros j cj Hj Hr. destruct (Nat.eq_dec j cid) as [->|Hjne].
    + rewrite Hcid in Hj. inversion Hj; subst cj. discriminate Hr.
    + rewrite Hoth in Hj by exact Hjne. exists cj. auto.
Qed.

(* C06: a CER of an unknown peer is answered 3010 and the connection is CLOSING *)
Theorem C06_cer_unknown n cid c m h :
  get_conn n cid = Some c -> c_state c = SConnected -> m_origin m = Present h -> get_peer n h = None ->
  snd (recv_cer n cid m) = [OQueue cid (answer_of m (Some 3010) [])] /\
  exists c', get_conn (fst (recv_cer n cid m)) cid = Some c' /\ c_state c' = SClosing.
Proof.
  intros Hc Hs Ho Hp. unfold recv_cer. rewrite Hc, Hs, Ho. cbn [cstate_eqb negb pres_get]. rewrite Hp.
  split; [apply send_message_out|].
  rewrite send_message_get, Nat.eqb_refl, get_conn_upd by solve_idp.
  rewrite Nat.eqb_refl, Hc. cbn [option_map]. eexists. split; [reflexivity|reflexivity].
Qed.

(* C06: a CER is ignored unless the connection exists and is CONNECTED (the CER is awaited): a second CER, or a
   CER on an established, disconnecting or closing connection, is not answered and changes nothing except that
   the request, which will never be answered, leaves the origin table (drop_origin touches n_origin_waiting only) *)
Lemma drop_origin_fields n k0 h e :
  n_cfg (drop_origin n k0 h e) = n_cfg n /\ n_now (drop_origin n k0 h e) = n_now n /\
  n_io_deadline (drop_origin n k0 h e) = n_io_deadline n /\ n_stopping (drop_origin n k0 h e) = n_stopping n /\
  n_peers (drop_origin n k0 h e) = n_peers n /\ n_conns (drop_origin n k0 h e) = n_conns n /\
  n_next_cid (drop_origin n k0 h e) = n_next_cid n /\ n_half_ready (drop_origin n k0 h e) = n_half_ready n /\
  n_socket_peers (drop_origin n k0 h e) = n_socket_peers n /\ n_routes (drop_origin n k0 h e) = n_routes n /\
  n_apps (drop_origin n k0 h e) = n_apps n /\ n_app_waiting (drop_origin n k0 h e) = n_app_waiting n /\
  n_peer_waiting (drop_origin n k0 h e) = n_peer_waiting n /\ n_sent_answers (drop_origin n k0 h e) = n_sent_answers n /\
  n_e2e (drop_origin n k0 h e) = n_e2e n /\
  n_origin_waiting (drop_origin n k0 h e) =
    List.filter (fun x => negb (ow_key k0 h e x)) (n_origin_waiting n).
Proof. repeat split. Qed.
Lemma drop_origin_get_conn n k0 h e k : get_conn (drop_origin n k0 h e) k = get_conn n k.
Proof. reflexivity. Qed.
Lemma drop_origin_get_peer n k0 h e p : get_peer (drop_origin n k0 h e) p = get_peer n p.
Proof. reflexivity. Qed.
Lemma drop_origin_pnames n k0 h e : pnames (drop_origin n k0 h e) = pnames n.
Proof. reflexivity. Qed.

Theorem C06_cer_ignored_unless_connected n cid m :
  (forall c, get_conn n cid = Some c -> c_state c <> SConnected) ->
  recv_cer n cid m =
  (match get_conn n cid with Some _ => drop_origin n cid (m_hbh m) (m_e2e m) | None => n end, []).
Proof.
  intros H. unfold recv_cer. destruct (get_conn n cid) as [c0|]; [|reflexivity].
  specialize (H c0 eq_refl). destruct (c_state c0); try reflexivity. congruence.
Qed.

(* C06: a CER of a configured peer with no common application, the election being decided for the new
   connection: the rivals are closed, the CER is answered 5010; the state is unchanged *)
Theorem C06_cer_no_common n cid c m h p :
  get_conn n cid = Some c -> c_state c = SConnected ->
  m_origin m = Present h -> get_peer n h = Some p ->
  (election_rivals n cid h = [] \/ String.ltb h (g_host (n_cfg n)) = true) ->
  inter_z (node_auth n) (m_auth m) = [] -> inter_z (node_acct n) (m_acct m) = [] ->
  mem_z APP_RELAY (m_auth m) || mem_z APP_RELAY (m_acct m) = false ->
  snd (recv_cer n cid m) =
    snd (close_all n (election_rivals n cid h) R_CLEAN) ++ [OQueue cid (answer_of m (Some 5010) [])] /\
  (forall k, List.In k (election_rivals n cid h) ->
     List.In (OClose k R_CLEAN) (snd (recv_cer n cid m)) /\ get_conn (fst (recv_cer n cid m)) k = None) /\
  exists c', get_conn (fst (recv_cer n cid m)) cid = Some c' /\ c_state c' = c_state c.
Proof.
  intros Hc Hs Ho Hp Hel Ha Hb Hr. rewrite (recv_cer_known n cid c m h p Hc Hs Ho Hp).
  assert (E : match election_rivals n cid h with
              | [] => cer_won n cid m h
              | _ :: _ => if String.ltb h (g_host (n_cfg n)) then cer_won n cid m h else cer_lost n cid m h
              end = cer_won n cid m h).
  { destruct Hel as [->| ->]; [reflexivity|]. destruct (election_rivals n cid h); reflexivity. }
  rewrite E. clear E.
  destruct (cer_won_unfold n cid c m h Hc) as [Hw [Hc1 [Hriv [_ [Ha1 Hb1]]]]]. cbv zeta in *.
  set (n1 := fst (close_all (cer_named n cid h) (election_rivals n cid h) R_CLEAN)) in *.
  rewrite <- Ha1 in Ha. rewrite <- Hb1 in Hb.
  destruct (cer_negotiate_none n1 cid _ m h Hc1 Ha Hb Hr) as [Hout [Hc' Hoth]].
  rewrite Hw. cbn [fst snd]. rewrite Hout. split; [reflexivity|]. split.
  - intros k Hk. destruct (election_rivals_exist n cid h k Hk) as [Hex Hne]. split.
    + apply List.in_or_app. left. apply mclose_all_closes; assumption.
    + rewrite Hoth by exact Hne. apply Hriv, Hk.
  - eexists. split; [exact Hc'|]. unfold cer_name. cbn.
    destruct (String.eqb (c_node_name c) ""); reflexivity.
Qed.

(* C06: ... with no other connection towards that peer the 5010 answer is the only output *)
Theorem C06_cer_no_common_no_rivals n cid c m h p :
  get_conn n cid = Some c -> c_state c = SConnected ->
  m_origin m = Present h -> get_peer n h = Some p ->
  election_rivals n cid h = [] ->
  inter_z (node_auth n) (m_auth m) = [] -> inter_z (node_acct n) (m_acct m) = [] ->
  mem_z APP_RELAY (m_auth m) || mem_z APP_RELAY (m_acct m) = false ->
  snd (recv_cer n cid m) = [OQueue cid (answer_of m (Some 5010) [])] /\
  exists c', get_conn (fst (recv_cer n cid m)) cid = Some c' /\ c_state c' = c_state c.
Proof.
  intros Hc Hs Ho Hp Hel Ha Hb Hr.
  destruct (C06_cer_no_common n cid c m h p Hc Hs Ho Hp (or_introl Hel) Ha Hb Hr) as [H1 [_ H2]].
  rewrite Hel in H1. split; [exact H1|exact H2].
Qed.

(* ---- flush ---------------------------------------------------------------------------------- *)
Definition flush_one (n : node) (cid : nat) : node * list output :=
  match get_conn n cid with
  | None => (n, [])
  | Some c =>
      if c_stalled c || negb (c_sock_open c) then (n, [])
      else
        let outs := List.map (OSend cid) (c_out c) in
        let n' := set_conns n (upd_conn (n_conns n) cid (fun c => set_cout c [])) in
        match c_out c with
        | [] => (n', [])
        | _ => if cstate_eqb (c_state c) SClosing
               then let '(n'', oc) := close_conn n' cid R_CLEAN in (n'', (outs ++ oc)%list)
               else (n', outs)
        end
  end.

Lemma flush_conns_cons n cid r :
  flush_conns n (cid :: r) =
  let '(n1, o1) := flush_one n cid in let '(n2, o2) := flush_conns n1 r in (n2, o1 ++ o2).
Proof. reflexivity. Qed.

Lemma flush_one_other n j i : i <> j -> get_conn (fst (flush_one n j)) i = get_conn n i.
Proof.
  intros Hne. unfold flush_one. destruct (get_conn n j) as [c|] eqn:Hc; [|reflexivity].
  destruct (c_stalled c || negb (c_sock_open c)); [reflexivity|].
  assert (Hu : get_conn (set_conns n (upd_conn (n_conns n) j (fun c => set_cout c []))) i = get_conn n i)
    by (apply get_conn_upd_other; [solve_idp|exact Hne]).
  destruct (c_out c); [exact Hu|].
  destruct (cstate_eqb (c_state c) SClosing); [|exact Hu].
  destruct (close_conn _ j R_CLEAN) as [n'' oc] eqn:Ecl. cbn [fst].
  change n'' with (fst (n'', oc)). rewrite <- Ecl, close_conn_get.
  apply Nat.eqb_neq in Hne. rewrite Hne. exact Hu.
Qed.

Lemma flush_one_none n j i : get_conn n i = None -> get_conn (fst (flush_one n j)) i = None.
Proof.
  intros Hn. destruct (Nat.eq_dec i j) as [->|Hne].
  - unfold flush_one. rewrite Hn. exact Hn.
  - rewrite flush_one_other by exact Hne. exact Hn.
Qed.

Lemma flush_conns_none l : forall n i, get_conn n i = None -> get_conn (fst (flush_conns n l)) i = None.
Proof.
  induction l as [|j r IH]; intros n i Hn; [exact Hn|].
  rewrite flush_conns_cons. destruct (flush_one n j) as [n1 o1] eqn:E1.
  destruct (flush_conns n1 r) as [n2 o2] eqn:E2. cbn [fst].
  change n2 with (fst (n2, o2)). rewrite <- E2. apply IH.
  change n1 with (fst (n1, o1)). rewrite <- E1. apply flush_one_none, Hn.
Qed.

Lemma flush_one_closing n cid c :
  get_conn n cid = Some c -> c_state c = SClosing -> c_stalled c = false -> c_sock_open c = true ->
  c_out c <> [] ->
  snd (flush_one n cid) = List.map (OSend cid) (c_out c) ++ [OClose cid R_CLEAN] /\
  get_conn (fst (flush_one n cid)) cid = None.
Proof.
  intros Hc Hs Hst Hso Hout. unfold flush_one. rewrite Hc, Hst, Hso, Hs. cbn [orb negb cstate_eqb].
  destruct (c_out c) as [|o os] eqn:Eo; [congruence|].
  erewrite close_conn_some by (apply get_conn_upd_same; [solve_idp|exact Hc]).
  cbn [fst snd]. split; [reflexivity|]. rewrite remove_conn_get, Nat.eqb_refl. reflexivity.
Qed.

Lemma flush_conns_closing cid c l : forall n,
  List.In cid l ->
  get_conn n cid = Some c -> c_state c = SClosing -> c_stalled c = false -> c_sock_open c = true ->
  c_out c <> [] ->
  (exists pre post, snd (flush_conns n l) = pre ++ List.map (OSend cid) (c_out c) ++ [OClose cid R_CLEAN] ++ post) /\
  get_conn (fst (flush_conns n l)) cid = None.
Proof.
  induction l as [|j r IH]; intros n Hin Hc Hs Hst Hso Hout; [destruct Hin|].
  rewrite flush_conns_cons. destruct (flush_one n j) as [n1 o1] eqn:E1.
  destruct (flush_conns n1 r) as [n2 o2] eqn:E2. cbn [fst snd].
  destruct (Nat.eq_dec j cid) as [->|Hne].
  - destruct (flush_one_closing n cid c Hc Hs Hst Hso Hout) as [Ho Hg]. rewrite E1 in Ho, Hg. cbn [fst snd] in Ho, Hg.
    split.
    + exists [], o2. rewrite Ho, <- List.app_assoc. reflexivity.
    + change n2 with (fst (n2, o2)). rewrite <- E2. apply flush_conns_none, Hg.
  - assert (Hin' : List.In cid r) by (destruct Hin; [congruence|assumption]).
    assert (Hc1 : get_conn n1 cid = Some c).
    { change n1 with (fst (n1, o1)). rewrite <- E1, flush_one_other by congruence. exact Hc. }
    destruct (IH n1 Hin' Hc1 Hs Hst Hso Hout) as [[pre [post Hp]] Hg]. rewrite E2 in Hp, Hg. cbn [fst snd] in Hp, Hg.
    split; [|exact Hg]. exists (o1 ++ pre), post. rewrite Hp, <- List.app_assoc. reflexivity.
Qed.

(* C06: the I/O thread writes the buffered answer of a CLOSING connection, then closes it (CLEAN) and removes it *)
Theorem C06_unknown_then_closed n cid c :
  get_conn n cid = Some c -> c_state c = SClosing -> c_stalled c = false -> c_sock_open c = true ->
  c_out c <> [] ->
  (exists pre post, snd (flush n) = pre ++ List.map (OSend cid) (c_out c) ++ [OClose cid R_CLEAN] ++ post) /\
  get_conn (fst (flush n)) cid = None.
Proof.
  intros Hc. unfold flush. apply flush_conns_closing; [|exact Hc].
  rewrite <- (get_conn_id n cid c Hc). apply List.in_map, (get_conn_in n cid), Hc.
Qed.

(* ---- frames: what an operation leaves alone ------------------------------------------------ *)
Definition frame (n n' : node) : Prop :=
  n_peers n' = n_peers n /\ n_next_cid n' = n_next_cid n /\ n_stopping n' = n_stopping n /\
  n_now n' = n_now n /\ n_cfg n' = n_cfg n.

Lemma frame_refl n : frame n n.
Proof. repeat split. Qed.
Lemma frame_trans a b c : frame a b -> frame b c -> frame a c.
Proof. unfold frame. intros [? [? [? [? ?]]]] [? [? [? [? ?]]]]. repeat split; congruence. Qed.

Lemma send_message_frame n cid m : frame n (fst (send_message n cid m)).
Proof. destruct (send_message_spec n cid m) as [_ [? [? [? [? [? _]]]]]]. repeat split; assumption. Qed.

(* the connection-wise effect of an operation: connection i is mapped by F, the others are kept *)
Definition cupd (n n' : node) (i : nat) (F : conn -> conn) : Prop :=
  forall j, get_conn n' j = if Nat.eqb j i then option_map F (get_conn n j) else get_conn n j.

Lemma cupd_trans a b c i F G : cupd a b i F -> cupd b c i G -> cupd a c i (fun x => G (F x)).
Proof.
  intros H1 H2 j. unfold cupd in H1, H2. rewrite H2, !H1. destruct (Nat.eqb j i); [|reflexivity].
  destruct (get_conn a j); reflexivity.
Qed.

Lemma cupd_upd n i F : idp F -> cupd n (set_conns n (upd_conn (n_conns n) i F)) i F.
Proof. intros HF j. apply get_conn_upd, HF. Qed.

Lemma cupd_ext n n' i F G c :
  get_conn n i = Some c -> F c = G c -> cupd n n' i F -> cupd n n' i G.
Proof.
  intros Hc HFG H j. rewrite H. destruct (Nat.eqb j i) eqn:E; [|reflexivity].
  apply Nat.eqb_eq in E. subst j. rewrite Hc. cbn. rewrite HFG. reflexivity.
Qed.

Lemma cupd_none n n' i F G : get_conn n i = None -> cupd n n' i F -> cupd n n' i G.
Proof.
  intros Hc H j. rewrite H. destruct (Nat.eqb j i) eqn:E; [|reflexivity].
  apply Nat.eqb_eq in E. subst j. rewrite Hc. reflexivity.
Qed.

Lemma cupd_id n i : cupd n n i (fun c => c).
Proof. intros j. destruct (Nat.eqb j i); [|reflexivity]. destruct (get_conn n j); reflexivity. Qed.

Lemma send_message_cupd n cid m : cupd n (fst (send_message n cid m)) cid (qout m).
Proof. intros j. apply send_message_get. Qed.

(* ---- node originated requests ------------------------------------------------------------------- *)
Definition bump (c : conn) : conn := set_chbh c (seq_next (c_hbh c)).

Lemma own_request_spec n cid k :
  cupd n (fst (own_request n cid k)) cid bump /\
  frame n (fst (own_request n cid k)) /\
  o_cmd (snd (own_request n cid k)) = k /\ o_req (snd (own_request n cid k)) = true.
Proof.
  unfold own_request. destruct (get_conn n cid) as [cn|] eqn:Hc; cbn [fst snd o_cmd o_req].
  - split; [|repeat split].
    apply (cupd_ext _ _ _ (fun c => set_chbh c (seq_next (c_hbh cn))) bump cn Hc); [reflexivity|].
    intros j. change (get_conn (set_misc ?a _ _ _) j) with (get_conn a j).
    apply get_conn_upd. solve_idp.
  - split; [|repeat split]. apply (cupd_none _ _ _ (fun c => c)); [exact Hc|apply cupd_id].
Qed.

Lemma send_cer_spec n cid :
  exists m, snd (send_cer n cid) = [OQueue cid m] /\ o_cmd m = CE /\ o_req m = true /\
            cupd n (fst (send_cer n cid)) cid (fun c => qout m (bump c)) /\
            frame n (fst (send_cer n cid)).
Proof.
  unfold send_cer. destruct (own_request_spec n cid CE) as [Hu [Hf [Hk Hr]]].
  destruct (own_request n cid CE) as [n1 m]. cbn [fst snd] in *.
  exists m. split; [apply send_message_out|]. split; [exact Hk|]. split; [exact Hr|]. split.
  - eapply cupd_trans; [exact Hu|apply send_message_cupd].
  - eapply frame_trans; [exact Hf|apply send_message_frame].
Qed.

Definition wdmark (now : Z) (c : conn) : conn :=
  set_ctimes (if is_ready_state (c_state c) then set_cstate c SReadyWaitDwa else c) (c_last_read c) now.

Lemma send_dwr_spec n cid :
  exists m, snd (send_dwr n cid) = [OQueue cid m] /\ o_cmd m = DW /\ o_req m = true /\
            cupd n (fst (send_dwr n cid)) cid (fun c => wdmark (n_now n) (qout m (bump c))) /\
            frame n (fst (send_dwr n cid)).
Proof.
  unfold send_dwr. destruct (own_request_spec n cid DW) as [Hu [Hf [Hk Hr]]].
  destruct (own_request n cid DW) as [n1 m]. cbn [fst snd] in *.
  pose proof (send_message_out n1 cid m) as Ho.
  pose proof (send_message_cupd n1 cid m) as Hu2.
  pose proof (send_message_frame n1 cid m) as Hf2.
  destruct (send_message n1 cid m) as [n2 o]. cbn [fst snd] in *.
  exists m. split; [exact Ho|]. split; [exact Hk|]. split; [exact Hr|].
  assert (Hnow : n_now n2 = n_now n).
  { destruct Hf as [_ [_ [_ [H1 _]]]], Hf2 as [_ [_ [_ [H2 _]]]]. congruence. }
  split.
  - rewrite <- Hnow.
    apply (cupd_trans n n2 _ cid (fun c => qout m (bump c)) (wdmark (n_now n2))).
    + eapply cupd_trans; [exact Hu|exact Hu2].
    + apply cupd_upd. unfold wdmark. solve_idp.
  - eapply frame_trans; [exact Hf|]. eapply frame_trans; [exact Hf2|]. repeat split.
Qed.

Lemma send_dpr_spec n cid :
  exists m, snd (send_dpr n cid) = [OQueue cid m] /\ o_cmd m = DP /\ o_req m = true /\
            cupd n (fst (send_dpr n cid)) cid (fun c => qout m (set_cstate (bump c) SDisconnecting)) /\
            frame n (fst (send_dpr n cid)).
Proof.
  unfold send_dpr. destruct (own_request_spec n cid DP) as [Hu [Hf [Hk Hr]]].
  destruct (own_request n cid DP) as [n1 m]. cbn [fst snd] in *.
  exists m. split; [apply send_message_out|]. split; [exact Hk|]. split; [exact Hr|]. split.
  - eapply (cupd_trans _ _ _ cid (fun c => set_cstate (bump c) SDisconnecting) (qout m)); [|apply send_message_cupd].
    eapply (cupd_trans _ _ _ cid bump (fun c => set_cstate c SDisconnecting)); [exact Hu|].
    apply cupd_upd. solve_idp.
  - eapply frame_trans; [exact Hf|]. eapply frame_trans; [|apply send_message_frame]. repeat split.
Qed.

(* C06: the first thing queued on an outbound connection is a CER; the connection is CONNECTED and outbound *)
Theorem C06_outbound_first_is_cer n name h0 p :
  get_peer n name = Some p -> p_conn p = None -> p_has_addr p = true ->
  get_conn n (n_next_cid n) = None ->
  exists cer c',
    snd (connect_to_peer n name h0 DialOk) = [ODial name; OQueue (n_next_cid n) cer] /\
    o_cmd cer = CE /\ o_req cer = true /\
    get_conn (fst (connect_to_peer n name h0 DialOk)) (n_next_cid n) = Some c' /\
    c_state c' = SConnected /\ c_recv c' = false.
Proof.
  intros Hp Hpc Ha Hfresh. unfold connect_to_peer. rewrite Hp, Hpc, Ha. cbn [negb].
  set (cid := n_next_cid n).
  set (c := new_conn cid false SConnecting name (n_now n) h0).
  match goal with |- context [send_cer ?x cid] => set (n4 := x) end.
  assert (H4 : get_conn n4 cid = Some (set_cstate c SConnected)).
  { unfold n4. apply (get_conn_upd_same _ cid (fun x => set_cstate x SConnected) c); [solve_idp|].
    unfold get_conn. cbn [n_conns set_peers set_tables set_misc set_conns].
    rewrite find_app_conn. unfold get_conn in Hfresh. fold cid in Hfresh. rewrite Hfresh. cbn [c_id c new_conn].
    rewrite Nat.eqb_refl. reflexivity. }
  destruct (send_cer_spec n4 cid) as [m [Ho [Hk [Hr [Hu _]]]]].
  destruct (send_cer n4 cid) as [n5 o]. cbn [fst snd] in *. subst o.
  exists m. eexists. split; [reflexivity|]. split; [exact Hk|]. split; [exact Hr|].
  split; [rewrite Hu, Nat.eqb_refl, H4; reflexivity|]. split; reflexivity.
Qed.

(* ---- receive_cea ---------------------------------------------------------------------------------- *)
Lemma cea_result_other {A} (r : pres Z) (a b : A) :
  r <> Present 2001 -> match r with Present 2001 => a | _ => b end = b.
Proof.
  intros Hr. destruct r as [| |z]; try reflexivity.
  destruct z as [|q|q]; try reflexivity.
  do 11 (try (destruct q as [q|q|]; try reflexivity)). congruence.
Qed.

(* the result of receive_cea with the new identity and the negotiated applications stored *)
Definition cea_accept (n : node) (cid : nat) (m : msg) (host : string) : node :=
  let n1 := set_conns n (upd_conn (n_conns n) cid (fun c =>
              set_cident c (c_node_name c) host (inter_z (node_auth n) (m_auth m)) (inter_z (node_acct n) (m_acct m)))) in
  flag_ready (assign_peer_conn n1 cid) cid.

Lemma recv_cea_cases n cid m :
  recv_cea n cid m = (n, []) \/
  recv_cea n cid m = close_conn n cid R_CER_REJECTED \/
  exists c0 host,
    get_conn n cid = Some c0 /\ c_state c0 = SConnected /\ m_result m = Present 2001 /\
    m_origin m = Present host /\ (c_node_name c0 = "" \/ host = c_node_name c0) /\
    recv_cea n cid m = (cea_accept n cid m host, []).
Proof.
  unfold recv_cea. destruct (get_conn n cid) as [c0|] eqn:Hc0; [|left; reflexivity].
  destruct (c_state c0) eqn:Hs; cbn [cstate_eqb negb]; try (left; reflexivity).
  destruct (m_result m) as [| |z] eqn:Er; try (right; left; reflexivity).
  destruct (Z.eq_dec z 2001) as [->|Hne].
  - cbv iota. destruct (m_origin m) as [| |host] eqn:Eo; cbn [pres_get]; try (left; reflexivity).
    destruct (negb (String.eqb (c_node_name c0) "") && negb (String.eqb host (c_node_name c0))) eqn:Eid;
      [right; left; reflexivity|].
    right. right. exists c0, host.
    refine (conj eq_refl (conj Hs (conj eq_refl (conj eq_refl (conj _ eq_refl))))).
    apply Bool.andb_false_iff in Eid. destruct Eid as [E|E]; apply Bool.negb_false_iff, String.eqb_eq in E; auto.
  - right. left. apply (cea_result_other (Present z)). congruence.
Qed.

(* C06: a CEA is ignored unless the connection exists and is CONNECTED (the answer is awaited) *)
Theorem C06_cea_ignored_unless_connected n cid m :
  (forall c, get_conn n cid = Some c -> c_state c <> SConnected) -> recv_cea n cid m = (n, []).
Proof.
  intros H. unfold recv_cea. destruct (get_conn n cid) as [c0|]; [|reflexivity].
  specialize (H c0 eq_refl). destruct (c_state c0); try reflexivity. congruence.
Qed.

Lemma close_conn_closed n cid c r :
  get_conn n cid = Some c ->
  snd (close_conn n cid r) = [OClose cid r] /\ get_conn (fst (close_conn n cid r)) cid = None.
Proof.
  intros Hc. split; [rewrite (close_conn_some n cid r c Hc); reflexivity|].
  rewrite close_conn_get, Nat.eqb_refl. reflexivity.
Qed.

(* C06: a CEA whose Result-Code is not 2001, arriving on a CONNECTED connection, closes it (CER_REJECTED) *)
Theorem C06_cea_rejected n cid c m :
  get_conn n cid = Some c -> c_state c = SConnected ->
  m_result m <> Present 2001 ->
  recv_cea n cid m = close_conn n cid R_CER_REJECTED /\
  snd (recv_cea n cid m) = [OClose cid R_CER_REJECTED] /\
  get_conn (fst (recv_cea n cid m)) cid = None.
Proof.
  intros Hc Hs Hr.
  assert (H : recv_cea n cid m = close_conn n cid R_CER_REJECTED).
  { unfold recv_cea. rewrite Hc, Hs. cbn [cstate_eqb negb]. apply cea_result_other, Hr. }
  split; [exact H|]. rewrite H. apply (close_conn_closed n cid c), Hc.
Qed.

(* C06: a CEA 2001 whose Origin-Host is not the peer that was dialled closes the connection (CER_REJECTED) *)
Theorem C06_cea_wrong_identity n cid c m h :
  get_conn n cid = Some c -> c_state c = SConnected ->
  m_result m = Present 2001 -> m_origin m = Present h ->
  c_node_name c <> "" -> h <> c_node_name c ->
  recv_cea n cid m = close_conn n cid R_CER_REJECTED /\
  snd (recv_cea n cid m) = [OClose cid R_CER_REJECTED] /\
  get_conn (fst (recv_cea n cid m)) cid = None.
Proof.
  intros Hc Hs Hr Ho Hnm Hh.
  assert (H : recv_cea n cid m = close_conn n cid R_CER_REJECTED).
  { unfold recv_cea. rewrite Hc, Hs, Hr, Ho. cbn [cstate_eqb negb pres_get]. cbv iota.
    apply String.eqb_neq in Hnm, Hh. rewrite Hnm, Hh. reflexivity. }
  split; [exact H|]. rewrite H. apply (close_conn_closed n cid c), Hc.
Qed.

(* C06: a CEA 2001 without Origin-Host changes nothing (no partial update of the connection) *)
Theorem C06_cea_without_origin n cid m :
  m_result m = Present 2001 -> pres_get (m_origin m) = None -> recv_cea n cid m = (n, []).
Proof.
  intros Hr Ho. unfold recv_cea. destruct (get_conn n cid) as [c0|]; [|reflexivity].
  destruct (negb (cstate_eqb (c_state c0) SConnected)); [reflexivity|]. rewrite Hr, Ho. reflexivity.
Qed.

(* C06: a CEA 2001 of the dialled peer, arriving on a CONNECTED connection, makes it READY; nothing is sent *)
Theorem C06_cea_accepted n cid c m h :
  get_conn n cid = Some c -> c_state c = SConnected ->
  m_result m = Present 2001 -> m_origin m = Present h ->
  (c_node_name c = "" \/ h = c_node_name c) ->
  snd (recv_cea n cid m) = [] /\
  exists c', get_conn (fst (recv_cea n cid m)) cid = Some c' /\ c_state c' = SReady /\ c_host c' = h /\
             c_node_name c' = c_node_name c /\
             c_auth c' = inter_z (node_auth n) (m_auth m) /\ c_acct c' = inter_z (node_acct n) (m_acct m).
Proof.
  intros Hc Hs Hr Ho Hid.
  assert (H : recv_cea n cid m = (cea_accept n cid m h, [])).
  { unfold recv_cea. rewrite Hc, Hs, Hr, Ho. cbn [cstate_eqb negb pres_get]. cbv iota.
    assert (E : negb (String.eqb (c_node_name c) "") && negb (String.eqb h (c_node_name c)) = false).
    { apply Bool.andb_false_iff. destruct Hid as [E|E]; [left|right]; apply Bool.negb_false_iff, String.eqb_eq, E. }
    rewrite E. reflexivity. }
  rewrite H. cbn [fst snd]. split; [reflexivity|]. unfold cea_accept.
  unfold get_conn at 1. rewrite flag_ready_conns, assign_peer_conn_conns.
  rewrite find_upd by solve_idp. rewrite Nat.eqb_refl.
  match goal with |- context [List.find _ (n_conns ?x)] => fold (get_conn x cid) end.
  rewrite get_conn_upd by solve_idp. rewrite Nat.eqb_refl, Hc. cbn [option_map].
  eexists. split; [reflexivity|]. cbn. repeat split; reflexivity.
Qed.

(* ---- effective timers -------------------------------------------------------------------------- *)
Definition eff (n : node) (c : conn) (sel : peer -> option Z) (d : cfg -> Z) : Z :=
  match find_conn_peer n c with
  | Some p => opt_or (sel p) (d (n_cfg n))
  | None => d (n_cfg n)
  end.
Definition eff_idle n c := eff n c p_idle g_idle.
Definition eff_dwa n c := eff n c p_dwa g_dwa.
Definition eff_cea n c := eff n c p_cea g_cea.
Definition eff_cer n c := eff n c p_cer g_cer.

(* C11: the definitional case analysis of check_timers with the effective timer values named *)
Theorem check_timers_unfold n cid c :
  n_stopping n = false -> get_conn n cid = Some c ->
  check_timers n cid =
  match c_state c with
  | SConnected =>
      if (negb (c_recv c) && (eff_cea n c <? n_now n - c_last_read c))
         || (c_recv c && (eff_cer n c <? n_now n - c_last_read c))
      then close_conn n cid R_FAILED_CE else (n, [])
  | SReadyWaitDwa =>
      if eff_dwa n c <? n_now n - c_last_dwr c then close_conn n cid R_DWA_TIMEOUT else (n, [])
  | SReady => if eff_idle n c <? n_now n - c_last_read c then send_dwr n cid else (n, [])
  | _ => (n, [])
  end.
Proof.
  intros Hs Hc. unfold check_timers, eff_idle, eff_dwa, eff_cea, eff_cer, eff. rewrite Hs, Hc.
  destruct (find_conn_peer n c); reflexivity.
Qed.

(* C11: the peer's own timer values (when set and non-zero) override the node's *)
Theorem C11_peer_overrides n c :
  (forall p, find_conn_peer n c = Some p ->
     eff_idle n c = opt_or (p_idle p) (g_idle (n_cfg n)) /\
     eff_dwa n c = opt_or (p_dwa p) (g_dwa (n_cfg n)) /\
     eff_cea n c = opt_or (p_cea p) (g_cea (n_cfg n)) /\
     eff_cer n c = opt_or (p_cer p) (g_cer (n_cfg n))) /\
  (find_conn_peer n c = None ->
     eff_idle n c = g_idle (n_cfg n) /\ eff_dwa n c = g_dwa (n_cfg n) /\
     eff_cea n c = g_cea (n_cfg n) /\ eff_cer n c = g_cer (n_cfg n)).
Proof.
  unfold eff_idle, eff_dwa, eff_cea, eff_cer, eff. split.
  - intros p ->. repeat split.
  - intros ->. repeat split.
Qed.

Lemma check_timers_stopping n cid : n_stopping n = true -> check_timers n cid = (n, []).
Proof. intros H. unfold check_timers. rewrite H. reflexivity. Qed.

Lemma check_timers_none n cid : get_conn n cid = None -> check_timers n cid = (n, []).
Proof. intros H. unfold check_timers. rewrite H. destruct (n_stopping n); reflexivity. Qed.

(* C06: a CONNECTED connection whose CER / CEA does not arrive within the effective timeout is closed (FAILED_CE) *)
Theorem C06_timeout n cid c :
  n_stopping n = false -> get_conn n cid = Some c -> c_state c = SConnected ->
  let t := if c_recv c then eff_cer n c else eff_cea n c in
  (t < n_now n - c_last_read c -> check_timers n cid = close_conn n cid R_FAILED_CE) /\
  (n_now n - c_last_read c <= t -> check_timers n cid = (n, [])).
Proof.
  intros Hs Hc Hst t. rewrite (check_timers_unfold n cid c Hs Hc), Hst. subst t.
  destruct (c_recv c); cbn [negb andb orb]; split; intros H.
  - apply Z.ltb_lt in H. rewrite H. reflexivity.
  - apply Z.ltb_ge in H. rewrite H. reflexivity.
  - apply Z.ltb_lt in H. rewrite H. reflexivity.
  - apply Z.ltb_ge in H. rewrite H. reflexivity.
Qed.

(* ================================================================================== *)
(* C11: watchdog                                                                      *)
(* ================================================================================== *)

(* C11: an idle READY connection gets exactly one DWR and becomes READY_WAITING_DWA, last_dwr = now *)
Theorem C11_idle_sends_one n cid c :
  n_stopping n = false -> get_conn n cid = Some c -> c_state c = SReady ->
  eff_idle n c < n_now n - c_last_read c ->
  exists dwr c',
    snd (check_timers n cid) = [OQueue cid dwr] /\ o_cmd dwr = DW /\ o_req dwr = true /\
    get_conn (fst (check_timers n cid)) cid = Some c' /\
    c_state c' = SReadyWaitDwa /\ c_last_dwr c' = n_now n.
Proof.
  intros Hs Hc Hst Hidle. rewrite (check_timers_unfold n cid c Hs Hc), Hst.
  apply Z.ltb_lt in Hidle. rewrite Hidle.
  destruct (send_dwr_spec n cid) as [m [Ho [Hk [Hr [Hu _]]]]].
  exists m. eexists. split; [exact Ho|]. split; [exact Hk|]. split; [exact Hr|].
  split; [rewrite Hu, Nat.eqb_refl, Hc; reflexivity|].
  unfold wdmark. cbn. rewrite Hst. cbn. split; reflexivity.
Qed.

(* C11: while the DWA is awaited and its timeout has not expired nothing more is sent *)
Theorem C11_no_second_dwr n cid c :
  get_conn n cid = Some c -> c_state c = SReadyWaitDwa ->
  n_now n - c_last_dwr c <= eff_dwa n c ->
  check_timers n cid = (n, []).
Proof.
  intros Hc Hst Hd. destruct (n_stopping n) eqn:Hs; [apply check_timers_stopping, Hs|].
  rewrite (check_timers_unfold n cid c Hs Hc), Hst. apply Z.ltb_ge in Hd. rewrite Hd. reflexivity.
Qed.

(* C11: a DWA turns READY_WAITING_DWA back into READY and clears last_dwr; nothing is sent *)
Theorem C11_dwa_restores n cid c :
  get_conn n cid = Some c -> c_state c = SReadyWaitDwa ->
  snd (recv_dwa n cid) = [] /\
  exists c', get_conn (fst (recv_dwa n cid)) cid = Some c' /\ c_state c' = SReady /\ c_last_dwr c' = 0.
Proof.
  intros Hc Hst. split; [reflexivity|]. unfold recv_dwa. cbn [fst].
  rewrite get_conn_upd by solve_idp. rewrite Nat.eqb_refl, Hc. cbn [option_map].
  eexists. split; [reflexivity|]. rewrite Hst. cbn. split; reflexivity.
Qed.

(* C11: no DWA within the effective DWA timeout closes the connection (DWA_TIMEOUT) *)
Theorem C11_silence_closes n cid c :
  n_stopping n = false -> get_conn n cid = Some c -> c_state c = SReadyWaitDwa ->
  eff_dwa n c < n_now n - c_last_dwr c ->
  check_timers n cid = close_conn n cid R_DWA_TIMEOUT /\
  snd (check_timers n cid) = [OClose cid R_DWA_TIMEOUT].
Proof.
  intros Hs Hc Hst Hd. rewrite (check_timers_unfold n cid c Hs Hc), Hst.
  apply Z.ltb_lt in Hd. rewrite Hd. split; [reflexivity|].
  rewrite (close_conn_some n cid _ c Hc). reflexivity.
Qed.

(* C11: a READY connection that was read from recently gets no DWR *)
Theorem C11_no_dwr_while_busy n cid c :
  get_conn n cid = Some c -> c_state c = SReady ->
  n_now n - c_last_read c <= eff_idle n c ->
  check_timers n cid = (n, []).
Proof.
  intros Hc Hst Hd. destruct (n_stopping n) eqn:Hs; [apply check_timers_stopping, Hs|].
  rewrite (check_timers_unfold n cid c Hs Hc), Hst. apply Z.ltb_ge in Hd. rewrite Hd. reflexivity.
Qed.

(* C11: a DWR arriving on a ready connection is answered with exactly one DWA 2001 *)
Theorem C11_dwr_answered n cid c m :
  get_conn n cid = Some c -> (c_state c = SReady \/ c_state c = SReadyWaitDwa) ->
  m_cmd m = DW -> m_req m = true -> m_missing m = [] -> m_t m = false ->
  snd (dispatch n cid m) = [OQueue cid (answer_of m (Some 2001) [])].
Proof.
  intros Hc Hst Hk Hr Hmi Ht. unfold dispatch. rewrite Hc.
  assert (Hg : gate_passes c m = true) by (unfold gate_passes; destruct Hst as [-> | ->]; reflexivity).
  rewrite Hg. unfold receive_message. rewrite Hr, Hmi, Ht, Hk.
  match goal with |- context [if ?b then [] else []] => destruct b end;
  destruct (m_origin m); cbn [andb]; unfold recv_dwr, RC_SUCCESS; apply send_message_out.
Qed.

(* C11: a second timer check at the same instant produces nothing *)
Theorem C11_timers_idempotent n cid n1 o1 :
  (forall c, get_conn n cid = Some c -> 0 <= eff_dwa n c) ->
  check_timers n cid = (n1, o1) -> snd (check_timers n1 cid) = [].
Proof.
  intros Hdwa H.
  assert (Hsame : check_timers n cid = (n, []) -> snd (check_timers n1 cid) = []).
  { intros E. rewrite E in H. inversion H; subst. rewrite E. reflexivity. }
  assert (Hclose : forall r, check_timers n cid = close_conn n cid r -> snd (check_timers n1 cid) = []).
  { intros r E. rewrite check_timers_none; [reflexivity|].
    change n1 with (fst (n1, o1)). rewrite <- H, E, close_conn_get, Nat.eqb_refl. reflexivity. }
  destruct (n_stopping n) eqn:Hs; [apply Hsame, check_timers_stopping, Hs|].
  destruct (get_conn n cid) as [c|] eqn:Hc; [|apply Hsame, check_timers_none, Hc].
  pose proof (check_timers_unfold n cid c Hs Hc) as Hu.
  destruct (c_state c) eqn:Hst; try (apply Hsame; exact Hu).
  - (* CONNECTED *)
    match type of Hu with _ = if ?b then _ else _ => destruct b end;
      [eapply Hclose; exact Hu|apply Hsame; exact Hu].
  - (* READY *)
    destruct (eff_idle n c <? n_now n - c_last_read c); [|apply Hsame; exact Hu].
    destruct (send_dwr_spec n cid) as [m [_ [_ [_ [Hcu Hfr]]]]].
    rewrite <- Hu, H in Hcu, Hfr. cbn [fst] in Hcu, Hfr.
    destruct Hfr as [Hp [_ [Hstop [Hnow Hcfg]]]].
    pose proof (Hcu cid) as H1. rewrite Nat.eqb_refl, Hc in H1. cbn [option_map] in H1.
    assert (Hs1 : n_stopping n1 = false) by congruence.
    rewrite (check_timers_unfold n1 cid _ Hs1 H1).
    unfold wdmark at 1. cbn [c_state set_ctimes qout set_cout bump set_chbh]. rewrite Hst.
    cbn [is_ready_state c_state set_cstate].
    assert (Heff : eff_dwa n1 (wdmark (n_now n) (qout m (bump c))) = eff_dwa n c).
    { unfold eff_dwa, eff, find_conn_peer, get_peer, wdmark. rewrite Hp, Hcfg. cbn [c_state qout bump set_cout set_chbh]. rewrite Hst. reflexivity. }
    rewrite Heff. unfold wdmark. cbn [c_last_dwr set_ctimes]. rewrite Hnow.
    specialize (Hdwa c eq_refl).
    destruct (eff_dwa n c <? n_now n - n_now n) eqn:E; [lia|reflexivity].
  - (* READY_WAITING_DWA *)
    destruct (eff_dwa n c <? n_now n - c_last_dwr c);
      [eapply Hclose; exact Hu|apply Hsame; exact Hu].
Qed.

(* ================================================================================== *)
(* C18: shutdown                                                                      *)
(* ================================================================================== *)

(* weak frame: peers keep their names; counters, clock, flag and configuration are kept *)
Definition wframe (n n' : node) : Prop :=
  pnames n' = pnames n /\ n_next_cid n' = n_next_cid n /\ n_stopping n' = n_stopping n /\
  n_now n' = n_now n /\ n_cfg n' = n_cfg n.
Lemma wframe_refl n : wframe n n.
Proof. repeat split. Qed.
Lemma wframe_trans a b c : wframe a b -> wframe b c -> wframe a c.
Proof. unfold wframe. intros [? [? [? [? ?]]]] [? [? [? [? ?]]]]. repeat split; congruence. Qed.
Lemma frame_wframe a b : frame a b -> wframe a b.
Proof. unfold frame, wframe, pnames. intros [-> [? [? [? ?]]]]. repeat split; assumption. Qed.

Lemma remove_conn_wframe n cid r : wframe n (remove_conn n cid r).
Proof. destruct (remove_conn_spec n cid r) as [_ [? [? [? [? ?]]]]]. repeat split; assumption. Qed.

Lemma close_conn_wframe n cid r : wframe n (fst (close_conn n cid r)).
Proof.
  unfold close_conn. destruct (get_conn n cid); cbn [fst]; [apply remove_conn_wframe|apply wframe_refl].
Qed.

Lemma close_conn_conns n cid r :
  n_conns (fst (close_conn n cid r)) = List.filter (fun x => negb (Nat.eqb (c_id x) cid)) (n_conns n).
Proof.
  unfold close_conn. destruct (get_conn n cid) eqn:Hc; cbn [fst].
  - apply remove_conn_spec.
  - symmetry. apply filter_ne_none. exact Hc.
Qed.

(* the OQueue outputs of an output list *)
Definition queued (l : list output) : list (nat * omsg) :=
  List.flat_map (fun o => match o with OQueue c m => [(c, m)] | _ => [] end) l.
Lemma queued_app a b : queued (a ++ b) = queued a ++ queued b.
Proof. apply List.flat_map_app. Qed.
Lemma queued_sends cid l : queued (List.map (OSend cid) l) = [].
Proof. induction l; [reflexivity|exact IHl]. Qed.

Definition dials_of (l : list output) : list string :=
  List.flat_map (fun o => match o with ODial p => [p] | _ => [] end) l.

Lemma flush_one_wframe n j : wframe n (fst (flush_one n j)).
Proof.
  unfold flush_one. destruct (get_conn n j) as [c|]; [|apply wframe_refl].
  destruct (c_stalled c || negb (c_sock_open c)); [apply wframe_refl|].
  destruct (c_out c); [repeat split|].
  destruct (cstate_eqb (c_state c) SClosing); [|repeat split].
  match goal with |- context [close_conn ?a ?b ?r] =>
    pose proof (close_conn_wframe a b r) as H; destruct (close_conn a b r) end.
  cbn [fst] in *. eapply wframe_trans; [|exact H]. repeat split.
Qed.

Lemma flush_one_queued n j : queued (snd (flush_one n j)) = [].
Proof.
  unfold flush_one. destruct (get_conn n j) as [c|]; [|reflexivity].
  destruct (c_stalled c || negb (c_sock_open c)); [reflexivity|].
  destruct (c_out c) as [|o os] eqn:Eo; [reflexivity|].
  destruct (cstate_eqb (c_state c) SClosing); [|apply queued_sends].
  unfold close_conn. match goal with |- context [get_conn ?a ?b] => destruct (get_conn a b) end;
    cbn [snd]; rewrite queued_app, queued_sends; reflexivity.
Qed.

Lemma flush_conns_wframe l : forall n, wframe n (fst (flush_conns n l)).
Proof.
  induction l as [|j r IH]; intros n; [apply wframe_refl|].
  rewrite flush_conns_cons. pose proof (flush_one_wframe n j) as H1.
  destruct (flush_one n j) as [n1 o1]. specialize (IH n1).
  destruct (flush_conns n1 r) as [n2 o2]. cbn [fst] in *. eapply wframe_trans; eassumption.
Qed.

Lemma flush_conns_queued l : forall n, queued (snd (flush_conns n l)) = [].
Proof.
  induction l as [|j r IH]; intros n; [reflexivity|].
  rewrite flush_conns_cons. pose proof (flush_one_queued n j) as H1.
  destruct (flush_one n j) as [n1 o1]. specialize (IH n1).
  destruct (flush_conns n1 r) as [n2 o2]. cbn [fst snd] in *. rewrite queued_app, H1, IH. reflexivity.
Qed.

Lemma timers_all_stopping l : forall n, n_stopping n = true -> timers_all n l = (n, []).
Proof.
  induction l as [|j r IH]; intros n Hs; [reflexivity|].
  cbn [timers_all]. rewrite (check_timers_stopping n j Hs), (IH n Hs). reflexivity.
Qed.

Lemma reconnect_all_stopping names : forall n ds, n_stopping n = true -> reconnect_all n names ds = (n, [], ds).
Proof.
  induction names as [|nm r IH]; intros n ds Hs; [reflexivity|].
  cbn [reconnect_all]. destruct (get_peer n nm) as [p|]; [|apply IH, Hs].
  unfold wants_reconnect. rewrite Hs. cbn [negb andb]. apply IH, Hs.
Qed.

Lemma io_iteration_stopping n ds :
  n_stopping n = true ->
  io_iteration n ds = (set_time n (n_now n) (n_now n + g_wakeup (n_cfg n)), [], ds).
Proof.
  intros Hs. unfold io_iteration. rewrite (timers_all_stopping _ n Hs), (reconnect_all_stopping _ n ds Hs).
  reflexivity.
Qed.

(* C18: while the node is stopping no timer fires, nobody is dialled, the I/O iteration outputs nothing *)
Theorem C18_quiet_while_stopping n :
  n_stopping n = true ->
  (forall cid, check_timers n cid = (n, [])) /\
  (forall names ds, dials_of (snd (fst (reconnect_all n names ds))) = [] /\
                    snd (fst (reconnect_all n names ds)) = []) /\
  (forall ds, snd (fst (io_iteration n ds)) = []).
Proof.
  intros Hs. split; [intros cid; apply check_timers_stopping, Hs|]. split.
  - intros names ds. rewrite (reconnect_all_stopping names n ds Hs). split; reflexivity.
  - intros ds. rewrite (io_iteration_stopping n ds Hs). reflexivity.
Qed.

(* C18: a connection accepted while stopping is closed at once and not registered *)
Theorem C18_newcomers_refused n ds h :
  n_stopping n = true ->
  n_conns (fst (step n ds (EAccept h))) = n_conns n /\
  snd (step n ds (EAccept h)) = [OClose (n_next_cid n) R_SHUTDOWN].
Proof. intros Hs. cbn [step]. rewrite Hs. split; reflexivity. Qed.

(* ---- EStopFinish ------------------------------------------------------------------------------ *)
Fixpoint shutdown_all (cids : list nat) (n : node) (acc : list output) : node * list output :=
  match cids with
  | [] => (n, acc)
  | c :: r => let '(n', o') := close_conn n c R_SHUTDOWN in shutdown_all r n' (acc ++ o')%list
  end.

Lemma step_stop_finish n ds tc te :
  step n ds (EStopFinish tc te) =
  let n0 := set_time n tc (n_io_deadline n) in
  let '(n1, o1) := shutdown_all (List.map c_id (n_conns n0)) n0 [] in
  (set_time (set_apps n1 (List.map (fun a => set_awaiting a []) (n_apps n1))) te (n_io_deadline n1), o1).
Proof. reflexivity. Qed.

Lemma shutdown_all_conns cids : forall n acc x,
  List.In x (n_conns (fst (shutdown_all cids n acc))) -> List.In x (n_conns n) /\ ~ List.In (c_id x) cids.
Proof.
  induction cids as [|a r IH]; intros n acc x Hx; [cbn in Hx; tauto|].
  cbn [shutdown_all] in Hx. pose proof (close_conn_conns n a R_SHUTDOWN) as Hc.
  destruct (close_conn n a R_SHUTDOWN) as [n' o']. cbn [fst] in Hc.
  apply IH in Hx. destruct Hx as [Hin Hnr]. rewrite Hc in Hin. apply List.filter_In in Hin.
  destruct Hin as [Hin Hne]. split; [exact Hin|]. intros [Ha|Hr]; [|tauto].
  subst a. rewrite Nat.eqb_refl in Hne. discriminate.
Qed.

Lemma shutdown_all_acc cids : forall n acc x, List.In x acc -> List.In x (snd (shutdown_all cids n acc)).
Proof.
  induction cids as [|a r IH]; intros n acc x Hx; [exact Hx|].
  cbn [shutdown_all]. destruct (close_conn n a R_SHUTDOWN) as [n' o']. apply IH.
  apply List.in_or_app. left. exact Hx.
Qed.

Lemma shutdown_all_out cids : forall n acc c,
  List.In (c_id c) cids -> List.In c (n_conns n) ->
  List.In (OClose (c_id c) R_SHUTDOWN) (snd (shutdown_all cids n acc)).
Proof.
  induction cids as [|a r IH]; intros n acc c Hj Hc; [destruct Hj|].
  cbn [shutdown_all]. pose proof (close_conn_conns n a R_SHUTDOWN) as Hcc.
  destruct (Nat.eq_dec a (c_id c)) as [->|Hne].
  - destruct (find_in_some _ c Hc) as [c' Hc']. rewrite (close_conn_some n _ _ c' Hc').
    apply shutdown_all_acc. apply List.in_or_app. right. left. reflexivity.
  - destruct (close_conn n a R_SHUTDOWN) as [n' o']. cbn [fst] in Hcc. apply IH.
    + destruct Hj; [congruence|assumption].
    + rewrite Hcc. apply List.filter_In. split; [exact Hc|].
      apply Bool.negb_true_iff, Nat.eqb_neq. congruence.
Qed.

(* C18: when stop() finishes no connection is left and each one was closed with NODE_SHUTDOWN *)
Theorem C18_all_closed n ds tc te :
  n_conns (fst (step n ds (EStopFinish tc te))) = [] /\
  (forall c, List.In c (n_conns n) -> List.In (OClose (c_id c) R_SHUTDOWN) (snd (step n ds (EStopFinish tc te)))).
Proof.
  rewrite step_stop_finish. cbn zeta.
  set (n0 := set_time n tc (n_io_deadline n)).
  pose proof (shutdown_all_conns (List.map c_id (n_conns n0)) n0 []) as H1.
  pose proof (shutdown_all_out (List.map c_id (n_conns n0)) n0 []) as H2.
  destruct (shutdown_all (List.map c_id (n_conns n0)) n0 []) as [n1 o1]. cbn [fst snd] in *.
  cbn [fst snd n_conns set_time set_apps]. split.
  - destruct (n_conns n1) as [|x xs] eqn:E; [reflexivity|]. exfalso.
    destruct (H1 x (or_introl eq_refl)) as [Hin Hnot]. apply Hnot, List.in_map, Hin.
  - intros c Hc. apply H2; [apply List.in_map|]; exact Hc.
Qed.

(* C18: a DPA closes the connection at once (CLEAN) if nothing is buffered; otherwise the connection is
   CLOSING and the next flush that the socket accepts closes it *)
Theorem C18_close_after_dpa n cid c :
  get_conn n cid = Some c ->
  (c_out c = [] -> snd (recv_dpa n cid) = [OClose cid R_CLEAN] /\ get_conn (fst (recv_dpa n cid)) cid = None) /\
  (c_out c <> [] ->
     snd (recv_dpa n cid) = [] /\
     get_conn (fst (recv_dpa n cid)) cid = Some (set_cstate c SClosing) /\
     (c_stalled c = false -> c_sock_open c = true ->
      (exists pre post, snd (flush (fst (recv_dpa n cid))) =
                        pre ++ List.map (OSend cid) (c_out c) ++ [OClose cid R_CLEAN] ++ post) /\
      get_conn (fst (flush (fst (recv_dpa n cid)))) cid = None)).
Proof.
  intros Hc. unfold recv_dpa.
  pose proof (get_conn_upd_same n cid (fun x => set_cstate x SClosing) c (idp_cstate _) Hc) as H1.
  rewrite H1. cbn [c_out set_cstate]. split; intros Ho.
  - rewrite Ho. rewrite (close_conn_some _ cid _ _ H1). cbn [fst snd]. split; [reflexivity|].
    rewrite remove_conn_get, Nat.eqb_refl. reflexivity.
  - destruct (c_out c) as [|o os] eqn:Eo; [congruence|]. cbn [fst snd].
    split; [reflexivity|]. split; [exact H1|]. intros Hst Hso.
    pose proof (C06_unknown_then_closed _ cid _ H1 eq_refl Hst Hso) as HH.
    cbn [c_out set_cstate] in HH. rewrite Eo in HH. apply HH. discriminate.
Qed.

(* ---- EStop --------------------------------------------------------------------------------------- *)
Fixpoint dpr_all (cids : list nat) (n : node) (acc : list output) : node * list output :=
  match cids with
  | [] => (n, acc)
  | c :: r => match get_conn n c with
              | Some cn => if is_ready_state (c_state cn)
                           then let '(n', o') := send_dpr n c in dpr_all r n' (acc ++ o')%list
                           else dpr_all r n acc
              | None => dpr_all r n acc
              end
  end.

Lemma step_stop n ds force :
  step n ds (EStop force) =
  let n0 := set_misc n true (n_next_cid n) (n_e2e n) in
  if force then (n0, [])
  else let '(n1, o1) := dpr_all (List.map c_id (n_conns n0)) n0 [] in
       let '(n2, o2) := settle' n1 ds in (n2, (o1 ++ o2)%list).
Proof. reflexivity. Qed.

Definition readyb (n : node) (j : nat) : bool :=
  match get_conn n j with Some c => is_ready_state (c_state c) | None => false end.
Definition isdpr (cm : nat * omsg) : Prop := o_cmd (snd cm) = DP /\ o_req (snd cm) = true.

Lemma dpr_all_spec cids : forall n acc,
  List.NoDup cids ->
  List.map fst (queued (snd (dpr_all cids n acc))) = List.map fst (queued acc) ++ List.filter (readyb n) cids /\
  (List.Forall isdpr (queued acc) -> List.Forall isdpr (queued (snd (dpr_all cids n acc)))) /\
  n_stopping (fst (dpr_all cids n acc)) = n_stopping n.
Proof.
  induction cids as [|a r IH]; intros n acc Hnd.
  - cbn [dpr_all snd fst List.filter]. rewrite List.app_nil_r. auto.
  - inversion Hnd as [|? ? Hnotin Hnd']; subst. cbn [dpr_all List.filter]. unfold readyb at 1.
    destruct (get_conn n a) as [cn|] eqn:Hc; [|apply IH, Hnd'].
    destruct (is_ready_state (c_state cn)) eqn:Hr; [|apply IH, Hnd'].
    destruct (send_dpr_spec n a) as [m [Ho [Hk [Hq [Hcu Hfr]]]]].
    destruct (send_dpr n a) as [n' o']. cbn [fst snd] in *. subst o'.
    destruct (IH n' (acc ++ [OQueue a m]) Hnd') as [H1 [H2 H3]].
    assert (Hfilt : List.filter (readyb n') r = List.filter (readyb n) r).
    { apply List.filter_ext_in. intros j Hj. unfold readyb. rewrite Hcu.
      destruct (Nat.eqb j a) eqn:E; [|reflexivity]. apply Nat.eqb_eq in E. subst. contradiction. }
    split; [|split].
    + rewrite H1, Hfilt, queued_app, List.map_app, <- List.app_assoc. reflexivity.
    + intros HF. apply H2. rewrite queued_app. apply List.Forall_app. split; [exact HF|].
      constructor; [split; assumption|constructor].
    + rewrite H3. apply Hfr.
Qed.

Lemma nodup_get_conn n c :
  List.NoDup (List.map c_id (n_conns n)) -> List.In c (n_conns n) -> get_conn n (c_id c) = Some c.
Proof.
  unfold get_conn. induction (n_conns n) as [|x l IH]; intros Hnd Hin; [destruct Hin|].
  cbn [List.map] in Hnd. inversion Hnd as [|? ? Hnotin Hnd']; subst. cbn [List.find].
  destruct Hin as [->|Hin]; [rewrite Nat.eqb_refl; reflexivity|].
  destruct (Nat.eqb (c_id x) (c_id c)) eqn:E; [|apply IH; assumption].
  apply Nat.eqb_eq in E. exfalso. apply Hnotin. rewrite E. apply List.in_map, Hin.
Qed.

Lemma filter_readyb n l :
  (forall c, List.In c l -> get_conn n (c_id c) = Some c) ->
  List.filter (readyb n) (List.map c_id l) = List.map c_id (List.filter (fun c => is_ready_state (c_state c)) l).
Proof.
  induction l as [|x l IH]; intros H; [reflexivity|].
  cbn [List.map List.filter]. unfold readyb at 1. rewrite (H x (or_introl eq_refl)).
  rewrite IH by (intros c Hc; apply H; right; exact Hc).
  destruct (is_ready_state (c_state x)); reflexivity.
Qed.

Lemma settle'_stopping n ds :
  n_stopping n = true ->
  queued (snd (settle' n ds)) = [] /\ n_stopping (fst (settle' n ds)) = true.
Proof.
  intros Hs. unfold settle', settle, flush.
  pose proof (flush_conns_wframe (List.map c_id (n_conns n)) n) as Hw1.
  pose proof (flush_conns_queued (List.map c_id (n_conns n)) n) as Hq1.
  destruct (flush_conns n (List.map c_id (n_conns n))) as [n1 o1]. cbn [fst snd] in *.
  assert (Hs1 : n_stopping n1 = true) by (destruct Hw1 as [_ [_ [H _]]]; congruence).
  rewrite (io_iteration_stopping n1 ds Hs1).
  set (n2 := set_time n1 _ _).
  pose proof (flush_conns_wframe (List.map c_id (n_conns n2)) n2) as Hw2.
  pose proof (flush_conns_queued (List.map c_id (n_conns n2)) n2) as Hq2.
  destruct (flush_conns n2 (List.map c_id (n_conns n2))) as [n3 o3]. cbn [fst snd] in *.
  split.
  - cbn [List.app]. rewrite queued_app, Hq1, Hq2. reflexivity.
  - destruct Hw2 as [_ [_ [H _]]]. rewrite H. exact Hs1.
Qed.

(* C18: stop() queues exactly one DPR for each ready connection, in connection order, and nothing else;
   a forced stop sends nothing; the node is stopping afterwards *)
Theorem C18_dpr_to_ready n ds :
  List.NoDup (List.map c_id (n_conns n)) ->
  (List.map fst (queued (snd (step n ds (EStop false)))) =
     List.map c_id (List.filter (fun c => is_ready_state (c_state c)) (n_conns n)) /\
   List.Forall isdpr (queued (snd (step n ds (EStop false)))) /\
   n_stopping (fst (step n ds (EStop false))) = true) /\
  (snd (step n ds (EStop true)) = [] /\ n_stopping (fst (step n ds (EStop true))) = true).
Proof.
  intros Hnd. split; [|rewrite step_stop; split; reflexivity].
  rewrite step_stop. cbn zeta. cbv iota.
  set (n0 := set_misc n true (n_next_cid n) (n_e2e n)).
  destruct (dpr_all_spec (List.map c_id (n_conns n0)) n0 [] Hnd) as [H1 [H2 H3]].
  destruct (dpr_all (List.map c_id (n_conns n0)) n0 []) as [n1 o1]. cbn [fst snd] in *.
  destruct (settle'_stopping n1 ds H3) as [Hq Hs].
  destruct (settle' n1 ds) as [n2 o2]. cbn [fst snd] in *.
  rewrite queued_app, Hq, List.app_nil_r. split; [|split].
  - rewrite H1. cbn [queued List.flat_map List.map List.app].
    apply (filter_readyb n0 (n_conns n)). intros c Hc. apply (nodup_get_conn n c Hnd Hc).
  - apply H2. constructor.
  - exact Hs.
Qed.

(* ================================================================================== *)
(* C06_ready_only_by_ce: a relation between a node and its successors                  *)
(* ================================================================================== *)

(* the states in which no capabilities exchange is awaited or completed *)
Definition inert (s : cstate) : bool :=
  match s with SConnecting | SDisconnecting | SClosing | SClosed => true | _ => false end.

(* per connection: the direction is kept; it is ready afterwards only if it was ready before (escape P);
   a CONNECTED connection stays CONNECTED (escape Q); an inert connection stays inert (escape R) *)
Definition crel (P Q R : nat -> Prop) (j : nat) (c c' : conn) : Prop :=
  c_recv c' = c_recv c /\
  (is_ready_state (c_state c') = true -> is_ready_state (c_state c) = true \/ P j) /\
  (c_state c = SConnected -> c_state c' = SConnected \/ Q j) /\
  (inert (c_state c) = true -> inert (c_state c') = true \/ R j).

(* peers keep their names, connection numbers only grow, and every connection afterwards is either new
   (numbered from the old counter on) or related by crel to the connection of that number before *)
Definition evolves (P Q R : nat -> Prop) (n n' : node) : Prop :=
  pnames n' = pnames n /\ (n_next_cid n <= n_next_cid n')%nat /\
  forall j c', get_conn n' j = Some c' ->
    (n_next_cid n <= j < n_next_cid n')%nat \/ exists c, get_conn n j = Some c /\ crel P Q R j c c'.

Definition NoP : nat -> Prop := fun _ => False.
Notation ev0 := (evolves NoP NoP NoP).

Lemma crel_refl P Q R j c : crel P Q R j c c.
Proof. unfold crel. auto. Qed.

Lemma crel_trans P Q R j a b c : crel P Q R j a b -> crel P Q R j b c -> crel P Q R j a c.
Proof.
  unfold crel. intros [H1 [H2 [H3 H4]]] [G1 [G2 [G3 G4]]]. split; [congruence|]. split; [|split].
  - intros Hr. destruct (G2 Hr) as [Hb|Hp]; [apply H2, Hb|right; exact Hp].
  - intros Hs. destruct (H3 Hs) as [Hb|Hq]; [apply G3, Hb|right; exact Hq].
  - intros Hs. destruct (H4 Hs) as [Hb|Hq]; [apply G4, Hb|right; exact Hq].
Qed.

Lemma crel_weaken (P Q R P' Q' R' : nat -> Prop) j a b :
  (forall j, P j -> P' j) -> (forall j, Q j -> Q' j) -> (forall j, R j -> R' j) ->
  crel P Q R j a b -> crel P' Q' R' j a b.
Proof.
  unfold crel. intros HP HQ HR [H1 [H2 [H3 H4]]]. split; [exact H1|]. split; [|split].
  - intros Hr. destruct (H2 Hr); auto.
  - intros Hs. destruct (H3 Hs); auto.
  - intros Hs. destruct (H4 Hs); auto.
Qed.

Lemma ev_refl P Q R n : evolves P Q R n n.
Proof.
  split; [reflexivity|]. split; [lia|]. intros j c' H. right. exists c'. split; [exact H|apply crel_refl].
Qed.

Lemma ev_trans P Q R a b c : evolves P Q R a b -> evolves P Q R b c -> evolves P Q R a c.
Proof.
  intros [H1 [H2 H3]] [G1 [G2 G3]]. split; [congruence|]. split; [lia|].
  intros j c'' Hc. destruct (G3 j c'' Hc) as [Hle|[c' [Hc' Hr']]]; [left; lia|].
  destruct (H3 j c' Hc') as [Hle|[c0 [Hc0 Hr0]]]; [left; lia|].
  right. exists c0. split; [exact Hc0|]. eapply crel_trans; eassumption.
Qed.

Lemma ev_weaken (P Q R P' Q' R' : nat -> Prop) a b :
  (forall j, P j -> P' j) -> (forall j, Q j -> Q' j) -> (forall j, R j -> R' j) ->
  evolves P Q R a b -> evolves P' Q' R' a b.
Proof.
  intros HP HQ HR [H1 [H2 H3]]. split; [exact H1|]. split; [exact H2|].
  intros j c' Hc. destruct (H3 j c' Hc) as [Hle|[c [Hc0 Hr]]]; [left; exact Hle|].
  right. exists c. split; [exact Hc0|]. eapply crel_weaken; eassumption.
Qed.

Lemma ev0_any P Q R a b : ev0 a b -> evolves P Q R a b.
Proof. apply ev_weaken; intros j []. Qed.

Lemma ev_same P Q R n n' :
  n_conns n' = n_conns n -> pnames n' = pnames n -> (n_next_cid n <= n_next_cid n')%nat -> evolves P Q R n n'.
Proof.
  intros Hc Hp Hn. split; [exact Hp|]. split; [exact Hn|]. intros j c' H. right. exists c'.
  split; [|apply crel_refl]. rewrite <- H. apply get_conn_ext. symmetry. exact Hc.
Qed.

Lemma ev_cupd P Q R n n' i F :
  pnames n' = pnames n -> (n_next_cid n <= n_next_cid n')%nat -> cupd n n' i F ->
  (forall c, get_conn n i = Some c -> crel P Q R i c (F c)) -> evolves P Q R n n'.
Proof.
  intros Hp Hn Hu HF. split; [exact Hp|]. split; [exact Hn|]. intros j c' H. right.
  rewrite Hu in H. destruct (Nat.eqb j i) eqn:E.
  - apply Nat.eqb_eq in E. subst j. destruct (get_conn n i) as [c|] eqn:Hc; [|discriminate].
    cbn in H. inversion H; subst. exists c. split; [reflexivity|]. apply HF. reflexivity.
  - exists c'. split; [exact H|apply crel_refl].
Qed.

Lemma ev_wframe_cupd P Q R n n' i F :
  wframe n n' -> cupd n n' i F ->
  (forall c, get_conn n i = Some c -> crel P Q R i c (F c)) -> evolves P Q R n n'.
Proof. intros [Hp [Hn _]] Hu HF. eapply ev_cupd; [exact Hp|lia|exact Hu|exact HF]. Qed.

Lemma ev_close P Q R n cid r : evolves P Q R n (fst (close_conn n cid r)).
Proof.
  destruct (close_conn_wframe n cid r) as [Hp [Hn _]]. split; [exact Hp|]. split; [lia|].
  intros j c' H. rewrite close_conn_get in H. destruct (Nat.eqb j cid); [discriminate|].
  right. exists c'. split; [exact H|apply crel_refl].
Qed.

Ltac solve_crel :=
  let c := fresh "c" in let H := fresh "H" in let E := fresh "E" in
  intros c H; unfold crel, wdmark, qout, bump; cbn;
  destruct (c_state c) eqn:E; cbn; rewrite ?E; cbn; repeat split; auto; try (intros; discriminate).

Lemma ev_upd P Q R n i F :
  idp F -> (forall c, get_conn n i = Some c -> crel P Q R i c (F c)) ->
  evolves P Q R n (set_conns n (upd_conn (n_conns n) i F)).
Proof. intros HF HR. eapply ev_cupd; [reflexivity|apply Nat.le_refl|apply cupd_upd, HF|exact HR]. Qed.

Lemma ev_send_message P Q R n cid m : evolves P Q R n (fst (send_message n cid m)).
Proof.
  eapply ev_wframe_cupd; [apply frame_wframe, send_message_frame|apply send_message_cupd|]. solve_crel.
Qed.

Lemma ev_send_cer P Q R n cid : evolves P Q R n (fst (send_cer n cid)).
Proof.
  destruct (send_cer_spec n cid) as [m [_ [_ [_ [Hu Hf]]]]].
  eapply ev_wframe_cupd; [apply frame_wframe, Hf|exact Hu|]. solve_crel.
Qed.

Lemma ev_send_dwr P Q R n cid : evolves P Q R n (fst (send_dwr n cid)).
Proof.
  destruct (send_dwr_spec n cid) as [m [_ [_ [_ [Hu Hf]]]]].
  eapply ev_wframe_cupd; [apply frame_wframe, Hf|exact Hu|]. solve_crel.
Qed.

Lemma ev_send_dpr P Q R n cid c :
  get_conn n cid = Some c -> is_ready_state (c_state c) = true -> evolves P Q R n (fst (send_dpr n cid)).
Proof.
  intros Hc Hr. destruct (send_dpr_spec n cid) as [m [_ [_ [_ [Hu Hf]]]]].
  eapply ev_wframe_cupd; [apply frame_wframe, Hf|exact Hu|].
  intros c0 Hc0. rewrite Hc in Hc0. inversion Hc0; subst c0. unfold crel, qout, bump. cbn.
  split; [reflexivity|]. split; [discriminate|]. split; [|intros _; left; reflexivity].
  intros Hs. rewrite Hs in Hr. discriminate.
Qed.

Lemma ev_flush_one n j : ev0 n (fst (flush_one n j)).
Proof.
  unfold flush_one. destruct (get_conn n j) as [c|]; [|apply ev_refl].
  destruct (c_stalled c || negb (c_sock_open c)); [apply ev_refl|].
  assert (H1 : ev0 n (set_conns n (upd_conn (n_conns n) j (fun c => set_cout c []))))
    by (apply ev_upd; [solve_idp|solve_crel]).
  destruct (c_out c); [exact H1|].
  destruct (cstate_eqb (c_state c) SClosing); [|exact H1].
  match goal with |- context [close_conn ?a ?b ?r] =>
    pose proof (ev_close NoP NoP NoP a b r) as H2; destruct (close_conn a b r) end.
  cbn [fst] in *. eapply ev_trans; eassumption.
Qed.

Lemma ev_flush_conns l : forall n, ev0 n (fst (flush_conns n l)).
Proof.
  induction l as [|j r IH]; intros n; [apply ev_refl|].
  rewrite flush_conns_cons. pose proof (ev_flush_one n j) as H1.
  destruct (flush_one n j) as [n1 o1]. specialize (IH n1).
  destruct (flush_conns n1 r) as [n2 o2]. cbn [fst] in *. eapply ev_trans; eassumption.
Qed.

Lemma ev_flush n : ev0 n (fst (flush n)).
Proof. apply ev_flush_conns. Qed.

Lemma ev_check_timers n cid : ev0 n (fst (check_timers n cid)).
Proof.
  unfold check_timers. destruct (n_stopping n); [apply ev_refl|].
  destruct (get_conn n cid) as [c|]; [|apply ev_refl].
  destruct (c_state c); try apply ev_refl.
  - match goal with |- context [if ?b then _ else _] => destruct b end; [apply ev_close|apply ev_refl].
  - match goal with |- context [if ?b then _ else _] => destruct b end; [apply ev_send_dwr|apply ev_refl].
  - match goal with |- context [if ?b then _ else _] => destruct b end; [apply ev_close|apply ev_refl].
Qed.

Lemma ev_timers_all l : forall n, ev0 n (fst (timers_all n l)).
Proof.
  induction l as [|j r IH]; intros n; [apply ev_refl|].
  cbn [timers_all]. pose proof (ev_check_timers n j) as H1.
  destruct (check_timers n j) as [n1 o1]. specialize (IH n1).
  destruct (timers_all n1 r) as [n2 o2]. cbn [fst] in *. eapply ev_trans; eassumption.
Qed.

Lemma ev_add P Q R n n' c :
  n_conns n' = n_conns n ++ [c] -> c_id c = n_next_cid n -> n_next_cid n' = S (n_next_cid n) ->
  pnames n' = pnames n -> evolves P Q R n n'.
Proof.
  intros Hc Hid Hn Hp. split; [exact Hp|]. split; [lia|]. intros j c' H.
  unfold get_conn in H. rewrite Hc, find_app_conn in H. fold (get_conn n j) in H.
  destruct (get_conn n j) as [x|] eqn:Hx.
  - right. exists x. split; [reflexivity|]. inversion H; subst. apply crel_refl.
  - left. destruct (Nat.eqb (c_id c) j) eqn:E; [|discriminate]. apply Nat.eqb_eq in E. lia.
Qed.

(* an update of a connection numbered from the old counter on *)
Lemma ev_fresh_upd P Q R n n3 i F :
  evolves P Q R n n3 -> (n_next_cid n <= i < n_next_cid n3)%nat -> idp F ->
  evolves P Q R n (set_conns n3 (upd_conn (n_conns n3) i F)).
Proof.
  intros [H1 [H2 H3]] Hi HF. split; [exact H1|]. split; [exact H2|]. intros j c' Hc'.
  destruct (Nat.eq_dec j i) as [->|Hne]; [left; exact Hi|].
  rewrite get_conn_upd_other in Hc' by assumption. apply H3, Hc'.
Qed.

Lemma ev_connect_to_peer n name h0 res : ev0 n (fst (connect_to_peer n name h0 res)).
Proof.
  unfold connect_to_peer. destruct (get_peer n name) as [p|]; [|apply ev_refl].
  destruct (p_conn p); [apply ev_refl|]. destruct (negb (p_has_addr p)); [apply ev_refl|].
  set (cid := n_next_cid n). set (c := new_conn cid false SConnecting name (n_now n) h0).
  match goal with |- context [close_conn ?x cid R_SOCKET_FAIL] => set (n3 := x) end.
  assert (H3 : ev0 n n3).
  { apply (ev_add _ _ _ n n3 c); try reflexivity. unfold pnames, n3. cbn [n_peers set_peers].
    apply upd_peer_names. reflexivity. }
  destruct res.
  - assert (H4 : ev0 n (set_conns n3 (upd_conn (n_conns n3) cid (fun c => set_cstate c SConnected))))
      by (apply ev_fresh_upd; [exact H3|cbn; unfold cid; lia|solve_idp]).
    match goal with |- context [send_cer ?x cid] => pose proof (ev_send_cer NoP NoP NoP x cid) as H5;
      destruct (send_cer x cid) as [n5 o] end.
    cbn [fst] in *. eapply ev_trans; eassumption.
  - pose proof (ev_close NoP NoP NoP n3 cid R_SOCKET_FAIL) as H4.
    destruct (close_conn n3 cid R_SOCKET_FAIL) as [n4 o]. cbn [fst] in *. eapply ev_trans; eassumption.
  - exact H3.
Qed.

Lemma ev_reconnect_all names : forall n ds, ev0 n (fst (fst (reconnect_all n names ds))).
Proof.
  induction names as [|nm r IH]; intros n ds; [apply ev_refl|].
  cbn [reconnect_all]. destruct (get_peer n nm) as [p|]; [|apply IH].
  destruct (wants_reconnect n p && p_has_addr p); [|apply IH].
  destruct ds as [|[h0 res] dr].
  - pose proof (ev_connect_to_peer n nm 0 DialOk) as H1.
    destruct (connect_to_peer n nm 0 DialOk) as [n1 o1]. specialize (IH n1 []).
    destruct (reconnect_all n1 r []) as [[n2 o2] d2]. cbn [fst] in *. eapply ev_trans; eassumption.
  - pose proof (ev_connect_to_peer n nm h0 res) as H1.
    destruct (connect_to_peer n nm h0 res) as [n1 o1]. specialize (IH n1 dr).
    destruct (reconnect_all n1 r dr) as [[n2 o2] d2]. cbn [fst] in *. eapply ev_trans; eassumption.
Qed.

Lemma ev_io_iteration n ds : ev0 n (fst (fst (io_iteration n ds))).
Proof.
  unfold io_iteration. pose proof (ev_timers_all (List.map c_id (n_conns n)) n) as H1.
  destruct (timers_all n (List.map c_id (n_conns n))) as [n1 o1].
  pose proof (ev_reconnect_all (List.map p_name (n_peers n1)) n1 ds) as H2.
  destruct (reconnect_all n1 (List.map p_name (n_peers n1)) ds) as [[n2 o2] ds']. cbn [fst] in *.
  eapply ev_trans; [exact H1|]. eapply ev_trans; [exact H2|]. apply ev_same; reflexivity.
Qed.

Lemma ev_settle n ds : ev0 n (fst (fst (settle n ds))).
Proof.
  unfold settle. pose proof (ev_flush n) as H1. destruct (flush n) as [n1 o1].
  pose proof (ev_io_iteration n1 ds) as H2. destruct (io_iteration n1 ds) as [[n2 o2] ds'].
  pose proof (ev_flush n2) as H3. destruct (flush n2) as [n3 o3]. cbn [fst] in *.
  eapply ev_trans; [exact H1|]. eapply ev_trans; eassumption.
Qed.

Lemma ev_settle' n ds : ev0 n (fst (settle' n ds)).
Proof.
  unfold settle'. pose proof (ev_settle n ds) as H. destruct (settle n ds) as [[n1 o1] d]. exact H.
Qed.

Lemma ev_settle_app n ds : ev0 n (fst (fst (settle_app n ds))).
Proof.
  unfold settle_app.
  pose proof (ev_io_iteration n ds) as H2. destruct (io_iteration n ds) as [[n2 o2] ds'].
  pose proof (ev_flush n2) as H3. destruct (flush n2) as [n3 o3]. cbn [fst] in *.
  eapply ev_trans; eassumption.
Qed.

Lemma ev_settle_app' n ds : ev0 n (fst (settle_app' n ds)).
Proof.
  unfold settle_app'. pose proof (ev_settle_app n ds) as H. destruct (settle_app n ds) as [[n1 o1] d]. exact H.
Qed.

(* ---- handlers ------------------------------------------------------------------------------------ *)
Definition Qc (cid : nat) : nat -> Prop := fun j => j = cid.

(* a CER of a configured peer, or a CEA with Result-Code 2001 *)
Definition ce_any (pn : list string) (m : msg) : Prop :=
  m_cmd m = CE /\
  ((m_req m = true /\ exists h, m_origin m = Present h /\ List.In h pn) \/
   (m_req m = false /\ m_result m = Present 2001)).
(* the same with the direction fixed: CER on an inbound (b = true), CEA on an outbound connection *)
Definition ce_ok (pn : list string) (b : bool) (m : msg) : Prop :=
  m_cmd m = CE /\
  if b then m_req m = true /\ exists h, m_origin m = Present h /\ List.In h pn
  else m_req m = false /\ m_result m = Present 2001.
Definition PA (cid : nat) (pn : list string) (ms : list msg) : nat -> Prop :=
  fun j => j = cid /\ exists m, List.In m ms /\ ce_any pn m.

Lemma ce_ok_any pn b m : ce_ok pn b m -> ce_any pn m.
Proof. unfold ce_ok, ce_any. intros [H1 H2]. split; [exact H1|]. destruct b; auto. Qed.

Lemma get_peer_in n h p : get_peer n h = Some p -> List.In h (pnames n).
Proof.
  unfold get_peer, pnames. intros H. apply List.find_some in H. destruct H as [Hin He].
  apply String.eqb_eq in He. subst h. apply List.in_map, Hin.
Qed.

Lemma in_pnames_get_peer n h : List.In h (pnames n) -> get_peer n h <> None.
Proof.
  unfold pnames, get_peer. intros Hin Hn. apply List.in_map_iff in Hin. destruct Hin as [p [Hp Hin]].
  apply (List.find_none _ _ Hn) in Hin. subst h. rewrite String.eqb_refl in Hin. discriminate.
Qed.

Lemma ev_upd_keep P Q R n i F :
  idp F -> (forall c, c_recv (F c) = c_recv c /\ c_state (F c) = c_state c) ->
  evolves P Q R n (set_conns n (upd_conn (n_conns n) i F)).
Proof.
  intros HF HK. apply ev_upd; [exact HF|]. intros c _. destruct (HK c) as [H1 H2].
  unfold crel. rewrite H1, H2. auto.
Qed.

Lemma ev_upd_escape (P Q R : nat -> Prop) n i F :
  idp F -> (forall c, c_recv (F c) = c_recv c) -> P i -> Q i -> R i ->
  evolves P Q R n (set_conns n (upd_conn (n_conns n) i F)).
Proof.
  intros HF HK HP HQ HR. apply ev_upd; [exact HF|]. intros c _. unfold crel. rewrite HK. auto.
Qed.

Lemma ev_assign P Q R n cid : evolves P Q R n (assign_peer_conn n cid).
Proof.
  unfold assign_peer_conn. destruct (get_conn n cid) as [c|]; [|apply ev_refl].
  destruct (String.eqb (c_host c) ""); [apply ev_refl|].
  destruct (get_peer n (c_host c)); [|apply ev_refl].
  destruct (mem_nat cid (n_half_ready n)); (apply ev_same; [reflexivity| |apply Nat.le_refl]);
    unfold pnames; cbn [n_peers set_peers set_tables]; apply upd_peer_names; reflexivity.
Qed.

Lemma ev_flag_ready (P Q R : nat -> Prop) n cid : P cid -> Q cid -> R cid -> evolves P Q R n (flag_ready n cid).
Proof.
  intros HP HQ HR. unfold flag_ready.
  eapply ev_trans; [apply (ev_upd_escape P Q R n cid (fun c => set_cstate c SReady)); auto; solve_idp|].
  apply ev_same; reflexivity.
Qed.

Lemma ev_recv_dwa n cid : ev0 n (fst (recv_dwa n cid)).
Proof. unfold recv_dwa. cbn [fst]. apply ev_upd; [solve_idp|solve_crel]. Qed.

Lemma ev_recv_dpr P R n cid m : evolves P (Qc cid) R n (fst (recv_dpr n cid m)).
Proof.
  unfold recv_dpr. eapply ev_trans; [|apply ev_send_message].
  set (n1 := set_conns n _).
  assert (H1 : evolves P (Qc cid) R n n1).
  { apply ev_upd; [solve_idp|]. intros c _. unfold crel. cbn. split; [reflexivity|].
    split; [discriminate|]. split; [intros _; right; reflexivity|intros _; left; reflexivity]. }
  eapply ev_trans; [exact H1|].
  destruct (get_conn n1 cid) as [c|]; [|apply ev_refl].
  destruct (find_conn_peer n1 c); [|apply ev_refl].
  apply ev_same; [reflexivity| |apply Nat.le_refl].
  unfold pnames. cbn [n_peers set_peers]. apply upd_peer_names. reflexivity.
Qed.

Lemma ev_recv_dpa P R n cid : evolves P (Qc cid) R n (fst (recv_dpa n cid)).
Proof.
  unfold recv_dpa. set (n1 := set_conns n _).
  assert (H1 : evolves P (Qc cid) R n n1).
  { apply ev_upd; [solve_idp|]. intros c _. unfold crel. cbn. split; [reflexivity|].
    split; [discriminate|]. split; [intros _; right; reflexivity|intros _; left; reflexivity]. }
  destruct (get_conn n1 cid) as [c|]; [|exact H1].
  destruct (c_out c); [|exact H1]. eapply ev_trans; [exact H1|apply ev_close].
Qed.

Lemma ev_recv_app_request P Q R n cid m : evolves P Q R n (fst (recv_app_request n cid m)).
Proof.
  unfold recv_app_request. destruct (get_conn n cid) as [c|]; [|apply ev_refl].
  destruct (m_drealm m); try apply ev_send_message.
  destruct (route_lookup n a); [|apply ev_send_message].
  match goal with |- context [List.find ?f l] => destruct (List.find f l) as [[[i|] ?]|] end;
    try apply ev_send_message.
  match goal with |- context [send_message ?x cid ?a] => set (n1 := x); set (ans := a) end.
  assert (H1 : evolves P Q R n n1) by (apply ev_same; reflexivity).
  destruct (handler_raises m); [|exact H1].
  pose proof (ev_send_message P Q R n1 cid ans) as H2. destruct (send_message n1 cid ans) as [n2 o].
  cbn [fst] in *. exact (ev_trans _ _ _ _ _ _ H1 H2).
Qed.

Lemma ev_recv_app_answer P Q R n m : evolves P Q R n (fst (recv_app_answer n m)).
Proof.
  unfold recv_app_answer.
  match goal with |- context [List.find ?f ?l] => destruct (List.find f l) as [[[? ?] i]|] end;
    [|apply ev_refl].
  destruct (List.nth_error (n_apps n) i) as [a|]; [|apply ev_refl].
  destruct (mem_z (m_hbh m) (List.map fst (a_waiting a))); cbn [fst]; apply ev_same; reflexivity.
Qed.

Lemma ev_mclose_all P Q R l : forall n r, evolves P Q R n (fst (close_all n l r)).
Proof.
  induction l as [|k l IH]; intros n r; [apply ev_refl|].
  rewrite mclose_all_cons. pose proof (ev_close P Q R n k r) as H1.
  destruct (close_conn n k r) as [n1 o1]. specialize (IH n1 r). destruct (close_all n1 l r) as [n2 o2].
  cbn [fst] in *. eapply ev_trans; eassumption.
Qed.

Lemma ev_cer_named P Q R n cid h : evolves P Q R n (cer_named n cid h).
Proof.
  unfold cer_named, cer_name. apply ev_upd_keep; [solve_idp|].
  intros c. destruct (String.eqb (c_node_name c) ""); split; reflexivity.
Qed.

Lemma ev_cer_negotiate (P Q R : nat -> Prop) n1 cid m h :
  P cid -> Q cid -> R cid -> evolves P Q R n1 (fst (cer_negotiate n1 cid m h)).
Proof.
  intros HP HQ HR. unfold cer_negotiate.
  destruct (inter_z (node_auth n1) (m_auth m)); destruct (inter_z (node_acct n1) (m_acct m));
    destruct (mem_z APP_RELAY (m_auth m) || mem_z APP_RELAY (m_acct m));
    try apply ev_send_message;
    (eapply ev_trans; [|apply ev_send_message]);
    (eapply ev_trans; [|apply ev_flag_ready; [exact HP|exact HQ|exact HR]]);
    (eapply ev_trans; [|apply ev_assign]);
    (apply ev_upd_keep; [solve_idp|intros c; split; reflexivity]).
Qed.

Lemma ev_cer_won (P Q R : nat -> Prop) n cid m h :
  P cid -> Q cid -> R cid -> evolves P Q R n (fst (cer_won n cid m h)).
Proof.
  intros HP HQ HR. unfold cer_won.
  pose proof (ev_mclose_all P Q R (election_rivals n cid h) (cer_named n cid h) R_CLEAN) as H1.
  destruct (close_all (cer_named n cid h) (election_rivals n cid h) R_CLEAN) as [n1 oel].
  pose proof (ev_cer_negotiate P Q R n1 cid m h HP HQ HR) as H2.
  destruct (cer_negotiate n1 cid m h) as [n2 o]. cbn [fst] in *.
  eapply ev_trans; [apply ev_cer_named|]. eapply ev_trans; eassumption.
Qed.

Lemma ev_closing (P Q R : nat -> Prop) n cid :
  Q cid -> evolves P Q R n (set_conns n (upd_conn (n_conns n) cid (fun c => set_cstate c SClosing))).
Proof.
  intros HQ. apply ev_upd; [solve_idp|]. intros c _. unfold crel. cbn. split; [reflexivity|].
  split; [discriminate|]. split; [intros _; right; exact HQ|intros _; left; reflexivity].
Qed.

Lemma ev_cer_lost (P Q R : nat -> Prop) n cid m h : Q cid -> evolves P Q R n (fst (cer_lost n cid m h)).
Proof.
  intros HQ. unfold cer_lost. cbv zeta. eapply ev_trans; [|apply ev_send_message].
  eapply ev_trans; [apply ev_cer_named|]. apply ev_closing, HQ.
Qed.

(* an escape from "inert stays inert" that is offered only to a connection that is not inert can be dropped *)
Lemma ev_drop_R (P Q R : nat -> Prop) n n' cid c0 :
  get_conn n cid = Some c0 -> inert (c_state c0) = false ->
  evolves P Q (Qc cid) n n' -> evolves P Q R n n'.
Proof.
  intros Hc0 Hi [H1 [H2 H3]]. split; [exact H1|]. split; [exact H2|]. intros j c' Hc'.
  destruct (H3 j c' Hc') as [Hle|[c [Hc [G1 [G2 [G3 G4]]]]]]; [left; exact Hle|].
  right. exists c. split; [exact Hc|]. split; [exact G1|]. split; [exact G2|]. split; [exact G3|].
  intros Hin. destruct (G4 Hin) as [H|Hj]; [left; exact H|]. unfold Qc in Hj. subst j.
  rewrite Hc0 in Hc. inversion Hc; subst c. congruence.
Qed.

Lemma cstate_eqb_eq a b : cstate_eqb a b = true -> a = b.
Proof. destruct a, b; cbn; congruence. Qed.

(* receive_cer acts on a CONNECTED connection only: an inert connection stays inert (no escape R is needed) *)
Lemma ev_recv_cer (Q R : nat -> Prop) n cid m :
  m_cmd m = CE -> m_req m = true -> Q cid ->
  evolves (PA cid (pnames n) [m]) Q R n (fst (recv_cer n cid m)).
Proof.
  intros Hk Hr HQ.
  destruct (get_conn n cid) as [c0|] eqn:Hc0; [|unfold recv_cer; rewrite Hc0; apply ev_refl].
  destruct (cstate_eqb (c_state c0) SConnected) eqn:Hs0;
    [|unfold recv_cer; rewrite Hc0, Hs0; apply ev_same; reflexivity].
  assert (Hs : c_state c0 = SConnected) by (apply cstate_eqb_eq, Hs0).
  apply (ev_drop_R _ _ R n _ cid c0 Hc0); [rewrite Hs; reflexivity|].
  destruct (m_origin m) as [| |host] eqn:Ho;
    try (unfold recv_cer; rewrite Hc0, Hs0, Ho; apply ev_refl).
  destruct (get_peer n host) as [p|] eqn:Hp.
  - assert (HP : PA cid (pnames n) [m] cid).
    { split; [reflexivity|]. exists m. split; [left; reflexivity|]. split; [exact Hk|]. left.
      split; [exact Hr|]. exists host. split; [exact Ho|]. eapply get_peer_in, Hp. }
    assert (HR : Qc cid cid) by reflexivity.
    rewrite (recv_cer_known n cid c0 m host p Hc0 Hs Ho Hp).
    destruct (election_rivals n cid host); [apply ev_cer_won; assumption|].
    destruct (String.ltb host (g_host (n_cfg n))); [apply ev_cer_won; assumption|apply ev_cer_lost, HQ].
  - unfold recv_cer. rewrite Hc0, Hs0, Ho. cbn [negb pres_get]. rewrite Hp.
    eapply ev_trans; [|apply ev_send_message]. apply ev_closing, HQ.
Qed.

Lemma cea_accept_cupd n cid m host :
  cupd n (cea_accept n cid m host) cid
       (fun c => set_cstate (set_cident c (c_node_name c) host (inter_z (node_auth n) (m_auth m))
                                        (inter_z (node_acct n) (m_acct m))) SReady).
Proof.
  intros j. unfold cea_accept. unfold get_conn at 1. rewrite flag_ready_conns, assign_peer_conn_conns.
  rewrite find_upd by solve_idp.
  match goal with |- context [List.find _ (n_conns ?x)] => fold (get_conn x j) end.
  rewrite get_conn_upd by solve_idp.
  destruct (Nat.eqb j cid); [|reflexivity]. destruct (get_conn n j); reflexivity.
Qed.

Lemma ev_recv_cea (Q R : nat -> Prop) n cid m :
  m_cmd m = CE -> m_req m = false -> Q cid ->
  evolves (PA cid (pnames n) [m]) Q R n (fst (recv_cea n cid m)).
Proof.
  intros Hk Hr HQ.
  destruct (recv_cea_cases n cid m) as [E|[E|[c0 [host [Hc0 [Hs0 [Er [Eo [_ E]]]]]]]]]; rewrite E; cbn [fst].
  - apply ev_refl.
  - apply ev_close.
  - assert (HP : PA cid (pnames n) [m] cid).
    { split; [reflexivity|]. exists m. split; [left; reflexivity|]. split; [exact Hk|]. right. auto. }
    eapply ev_cupd; [| |apply cea_accept_cupd|].
    + unfold cea_accept. cbv zeta.
      match goal with |- pnames (flag_ready (assign_peer_conn ?x cid) cid) = _ =>
        destruct (ev_assign NoP NoP NoP x cid) as [Hpn _]; exact Hpn end.
    + unfold cea_accept. cbv zeta.
      match goal with |- (_ <= n_next_cid (flag_ready (assign_peer_conn ?x cid) cid))%nat =>
        destruct (ev_assign NoP NoP NoP x cid) as [_ [Hn _]]; exact Hn end.
    + intros c Hc. rewrite Hc0 in Hc. inversion Hc; subst c. unfold crel. cbn. rewrite Hs0.
      split; [reflexivity|]. split; [intros _; right; exact HP|]. split; [intros _; right; exact HQ|].
      intros H; discriminate H.
Qed.

Lemma ev_receive_message (R : nat -> Prop) n cid m :
  evolves (PA cid (pnames n) [m]) (Qc cid) R n (fst (receive_message n cid m)).
Proof.
  unfold receive_message. cbv zeta.
  match goal with |- context [send_message ?x cid (answer_of m (Some RC_MISSING_AVP) _)] => set (n0 := x) end.
  assert (H0 : ev0 n n0).
  { unfold n0. destruct (m_origin m); destruct (m_req m); try apply ev_refl; apply ev_same; reflexivity. }
  assert (Hpn : pnames n0 = pnames n) by apply H0.
  clearbody n0. eapply ev_trans; [apply ev0_any, H0|]. rewrite <- Hpn.
  match goal with |- context [match ?l with [] => _ | _ :: _ => _ end] => destruct l end;
    [|apply ev_send_message].
  match goal with |- context [if ?b then send_message _ _ _ else _] => destruct b end;
    [apply ev_send_message|].
  destruct (m_req m) eqn:Hr; destruct (m_cmd m) eqn:Hk.
  - destruct (m_origin m); try apply ev_send_message. apply ev_recv_cer; auto. reflexivity.
  - apply ev_send_message.
  - apply ev_recv_dpr.
  - apply ev_recv_app_request.
  - apply ev_recv_cea; auto. reflexivity.
  - apply ev0_any, ev_recv_dwa.
  - apply ev_recv_dpa.
  - apply ev_recv_app_answer.
Qed.

Lemma ev_dispatch (R : nat -> Prop) n cid m :
  evolves (PA cid (pnames n) [m]) (Qc cid) R n (fst (dispatch n cid m)).
Proof.
  unfold dispatch. destruct (get_conn n cid) as [c|]; [|apply ev_refl].
  destruct (gate_passes c m); [apply ev_receive_message|apply ev_refl].
Qed.

Lemma PA_weaken cid pn ms ms' j : (forall m, List.In m ms -> List.In m ms') -> PA cid pn ms j -> PA cid pn ms' j.
Proof. intros Hsub [Hj [m [Hin Hm]]]. split; [exact Hj|]. exists m. split; [apply Hsub, Hin|exact Hm]. Qed.

Lemma ev_dispatch_all (R : nat -> Prop) ms : forall n cid,
  evolves (PA cid (pnames n) ms) (Qc cid) R n (fst (dispatch_all n cid ms)).
Proof.
  induction ms as [|m r IH]; intros n cid; [apply ev_refl|].
  cbn [dispatch_all]. pose proof (ev_dispatch R n cid m) as H1.
  destruct (dispatch n cid m) as [n1 o1]. specialize (IH n1 cid).
  destruct (dispatch_all n1 cid r) as [n2 o2]. cbn [fst] in *.
  assert (Hpn : pnames n1 = pnames n) by apply H1. rewrite Hpn in IH.
  eapply ev_trans.
  - eapply ev_weaken; [| | |exact H1]; [|auto|auto]; intros j;
      apply PA_weaken; intros x [->|[]]; left; reflexivity.
  - eapply ev_weaken; [| | |exact IH]; [|auto|auto]; intros j;
      apply PA_weaken; intros x Hx; right; exact Hx.
Qed.

(* ---- what one frame can do to a CONNECTED connection ---------------------------------------------- *)
Definition conn_outcome (n' : node) (cid : nat) (b : bool) (pn : list string) (m : msg) : Prop :=
  get_conn n' cid = None \/
  (exists c', get_conn n' cid = Some c' /\ c_recv c' = b /\ (c_state c' = SConnected \/ c_state c' = SClosing)) \/
  ce_ok pn b m.

Lemma co_send n0 cid c a b pn m :
  get_conn n0 cid = Some c -> c_recv c = b -> (c_state c = SConnected \/ c_state c = SClosing) ->
  conn_outcome (fst (send_message n0 cid a)) cid b pn m.
Proof.
  intros Hc Hb Hs. right. left. exists (qout a c).
  split; [rewrite send_message_get, Nat.eqb_refl, Hc; reflexivity|]. split; [exact Hb|exact Hs].
Qed.

Lemma co_recv_cer n0 cid c m host :
  get_conn n0 cid = Some c -> c_state c = SConnected -> c_recv c = true ->
  m_cmd m = CE -> m_req m = true -> m_origin m = Present host ->
  conn_outcome (fst (recv_cer n0 cid m)) cid true (pnames n0) m.
Proof.
  intros Hc Hs Hb Hk Hr Ho. unfold recv_cer. rewrite Hc, Hs, Ho. cbn [cstate_eqb negb pres_get].
  destruct (get_peer n0 host) as [p|] eqn:Hp.
  - right. right. split; [exact Hk|]. split; [exact Hr|]. exists host. split; [exact Ho|].
    eapply get_peer_in, Hp.
  - eapply co_send.
    + apply (get_conn_upd_same n0 cid (fun x => set_cstate x SClosing) c); [solve_idp|exact Hc].
    + exact Hb.
    + right. reflexivity.
Qed.

Lemma co_recv_cea n0 cid c pn m :
  get_conn n0 cid = Some c -> c_state c = SConnected -> c_recv c = false ->
  m_cmd m = CE -> m_req m = false ->
  conn_outcome (fst (recv_cea n0 cid m)) cid false pn m.
Proof.
  intros Hc Hs Hb Hk Hr.
  destruct (recv_cea_cases n0 cid m) as [E|[E|[c0 [host [_ [_ [Er _]]]]]]].
  - rewrite E. right. left. exists c. auto.
  - rewrite E. left. rewrite close_conn_get, Nat.eqb_refl. reflexivity.
  - right. right. split; [exact Hk|]. split; [exact Hr|exact Er].
Qed.

Lemma co_dispatch n cid c m :
  get_conn n cid = Some c -> c_state c = SConnected ->
  conn_outcome (fst (dispatch n cid m)) cid (c_recv c) (pnames n) m.
Proof.
  intros Hc Hs. unfold dispatch. rewrite Hc. unfold gate_passes. rewrite Hs.
  assert (Hstay : conn_outcome n cid (c_recv c) (pnames n) m).
  { right. left. exists c. auto. }
  destruct (m_cmd m) eqn:Hk; cbn [cmd_eqb andb fst]; try exact Hstay.
  destruct (c_recv c) eqn:Hb; destruct (m_req m) eqn:Hr; cbn [negb fst]; try exact Hstay.
  - (* inbound, CER *)
    unfold receive_message. cbv zeta. rewrite Hr, Hk.
    assert (Hsm : forall n0 a, get_conn n0 cid = Some c ->
                   conn_outcome (fst (send_message n0 cid a)) cid true (pnames n) m)
      by (intros n0 a H0; eapply co_send; [exact H0|exact Hb|left; exact Hs]).
    destruct (m_origin m) as [| |host] eqn:Ho;
      (match goal with |- context [match ?l with [] => _ | _ :: _ => _ end] => destruct l end;
       [|apply Hsm; exact Hc]);
      cbv iota; try (apply Hsm; exact Hc);
      (match goal with |- context [if ?b then send_message _ _ _ else _] => destruct b end;
       cbv iota; try (apply Hsm; exact Hc)).
    match goal with |- conn_outcome (fst (recv_cer ?n0 _ _)) _ _ _ _ => change (pnames n) with (pnames n0) end.
    apply (co_recv_cer _ cid c m host); auto.
  - (* outbound, CEA *)
    unfold receive_message. cbv zeta. rewrite Hr, Hk. cbn [andb].
    destruct (m_origin m); apply (co_recv_cea _ cid c); auto.
Qed.

Lemma dispatch_all_dead ms : forall n cid,
  (get_conn n cid = None \/ exists c, get_conn n cid = Some c /\ c_state c = SClosing) ->
  dispatch_all n cid ms = (n, []).
Proof.
  induction ms as [|m r IH]; intros n cid H; [reflexivity|].
  cbn [dispatch_all].
  assert (Hd : dispatch n cid m = (n, [])).
  { destruct H as [H|[c [Hc Hs]]]; [unfold dispatch; rewrite H; reflexivity|].
    apply (C06_gate_closing n cid c m Hc). left. exact Hs. }
  rewrite Hd, (IH n cid H). reflexivity.
Qed.

Lemma co_dispatch_all ms : forall n cid c,
  get_conn n cid = Some c -> c_state c = SConnected ->
  get_conn (fst (dispatch_all n cid ms)) cid = None \/
  (exists c', get_conn (fst (dispatch_all n cid ms)) cid = Some c' /\
              (c_state c' = SConnected \/ c_state c' = SClosing)) \/
  exists m, List.In m ms /\ ce_ok (pnames n) (c_recv c) m.
Proof.
  induction ms as [|m r IH]; intros n cid c Hc Hs.
  - right. left. exists c. auto.
  - cbn [dispatch_all]. pose proof (co_dispatch n cid c m Hc Hs) as H1.
    pose proof (ev_dispatch NoP n cid m) as He.
    destruct (dispatch n cid m) as [n1 o1]. cbn [fst] in H1, He.
    assert (Hpn : pnames n1 = pnames n) by apply He.
    destruct H1 as [Hnone|[[c1 [Hc1 [Hb1 [Hs1|Hs1]]]]|Hok]].
    + rewrite (dispatch_all_dead r n1 cid) by (left; exact Hnone). cbn [fst]. left. exact Hnone.
    + specialize (IH n1 cid c1 Hc1 Hs1). destruct (dispatch_all n1 cid r) as [n2 o2]. cbn [fst] in *.
      destruct IH as [H|[H|[m' [Hin Hm']]]]; [left; exact H|right; left; exact H|].
      right. right. exists m'. split; [right; exact Hin|]. rewrite <- Hpn, <- Hb1. exact Hm'.
    + rewrite (dispatch_all_dead r n1 cid) by (right; exists c1; auto). cbn [fst].
      right. left. exists c1. auto.
    + right. right. exists m. split; [left; reflexivity|exact Hok].
Qed.

(* ---- events other than ERecv never make a connection ready --------------------------------------- *)
Ltac ev_chain := repeat (first [eassumption | apply ev_refl | (eapply ev_trans; [eassumption|])]).

Lemma ev_step_accept n ds h : ev0 n (fst (step n ds (EAccept h))).
Proof.
  cbn [step]. destruct (n_stopping n).
  - cbn [fst]. apply ev_same; [reflexivity|reflexivity|cbn; lia].
  - match goal with |- context [settle' ?x ds] => set (n2 := x) end.
    assert (H1 : ev0 n n2) by (eapply ev_add; reflexivity).
    pose proof (ev_settle' n2 ds) as H2. ev_chain.
Qed.

Lemma ev_step_peer_close n ds cid : ev0 n (fst (step n ds (EPeerClose cid))).
Proof.
  cbn [step]. pose proof (ev_close NoP NoP NoP n cid R_GONE) as H1. destruct (close_conn n cid R_GONE) as [n1 o1].
  pose proof (ev_settle' n1 ds) as H2. destruct (settle' n1 ds) as [n2 o2]. cbn [fst] in *. ev_chain.
Qed.

Lemma ev_step_read_err n ds cid hard : ev0 n (fst (step n ds (EReadErr cid hard))).
Proof.
  cbn [step].
  assert (H1 : ev0 n (fst (if hard then close_conn n cid R_SOCKET_FAIL else (n, []))))
    by (destruct hard; [apply ev_close|apply ev_refl]).
  destruct (if hard then close_conn n cid R_SOCKET_FAIL else (n, [])) as [n1 o1].
  pose proof (ev_settle' n1 ds) as H2. destruct (settle' n1 ds) as [n2 o2]. cbn [fst] in *. ev_chain.
Qed.

Lemma ev_step_conn_done n ds cid ok : evolves NoP NoP (Qc cid) n (fst (step n ds (EConnDone cid ok))).
Proof.
  cbn [step]. destruct (get_conn n cid) as [c|]; [|apply ev_refl].
  destruct (cstate_eqb (c_state c) SConnecting); [|apply ev_refl]. destruct ok.
  - set (n1 := set_conns n _).
    assert (H1 : evolves NoP NoP (Qc cid) n n1).
    { apply ev_upd; [solve_idp|]. intros x _. unfold crel. cbn. split; [reflexivity|].
      split; [discriminate|]. split; [auto|]. intros _. right. reflexivity. }
    match goal with |- context [send_cer ?x cid] => set (n2 := x) end.
    assert (H2 : ev0 n1 n2).
    { unfold n2. destruct (find_conn_peer n1 c); [|apply ev_refl].
      apply ev_same; [reflexivity| |apply Nat.le_refl].
      unfold pnames. cbn [n_peers set_peers]. apply upd_peer_names. reflexivity. }
    clearbody n2. pose proof (ev_send_cer NoP NoP NoP n2 cid) as H3. destruct (send_cer n2 cid) as [n3 o3].
    pose proof (ev_io_iteration n3 ds) as H4. destruct (io_iteration n3 ds) as [[n4 o4] ds4].
    pose proof (ev_settle' n4 ds4) as H5. destruct (settle' n4 ds4) as [n5 o5]. cbn [fst] in *.
    apply (ev0_any NoP NoP (Qc cid)) in H2, H3, H4, H5. ev_chain.
  - apply ev0_any. pose proof (ev_close NoP NoP NoP n cid R_FAILED_CONNECT) as H1.
    destruct (close_conn n cid R_FAILED_CONNECT) as [n1 o1].
    pose proof (ev_settle' n1 ds) as H2. destruct (settle' n1 ds) as [n2 o2]. cbn [fst] in *. ev_chain.
Qed.

Lemma ev_step_stall n ds cid b : ev0 n (fst (step n ds (EStall cid b))).
Proof.
  cbn [step]. destruct (get_conn n cid) as [c|]; [|apply ev_refl].
  set (n1 := set_conns n _).
  assert (H1 : ev0 n n1) by (apply ev_upd_keep; [solve_idp|intros x; split; reflexivity]).
  destruct b; [exact H1|]. destruct (c_out c); [exact H1|].
  pose proof (ev_settle' n1 ds) as H2. ev_chain.
Qed.

Definition expire (target : Z) (n : node) : node :=
  set_apps n (List.map (fun a => set_awaiting a (List.filter (fun w => target <? snd w) (a_waiting a))) (n_apps n)).

Definition wake (target : Z) : nat -> node -> dials -> list output -> node * list output :=
  fix wake (fuel : nat) (n : node) (ds : dials) (acc : list output) : node * list output :=
    let expire := fun (n : node) =>
      set_apps n (List.map (fun a => set_awaiting a (List.filter (fun w => target <? snd w) (a_waiting a))) (n_apps n)) in
    match fuel with
    | O => (expire (set_time n target (n_io_deadline n)), acc)
    | S f =>
        if n_io_deadline n <=? target then
          let n1 := set_time n (n_io_deadline n) (n_io_deadline n) in
          let '(n2, o2, ds2) := settle n1 ds in
          wake f n2 ds2 (acc ++ o2)%list
        else (expire (set_time n target (n_io_deadline n)), acc)
    end.

Lemma step_tick n ds dt : step n ds (ETick dt) = wake (n_now n + dt) (S (Z.to_nat dt)) n ds [].
Proof. reflexivity. Qed.

Lemma wake_O target n ds acc :
  wake target O n ds acc = (expire target (set_time n target (n_io_deadline n)), acc).
Proof. reflexivity. Qed.

Lemma wake_S target f n ds acc :
  wake target (S f) n ds acc =
  if n_io_deadline n <=? target then
    let '(n2, o2, ds2) := settle (set_time n (n_io_deadline n) (n_io_deadline n)) ds in
    wake target f n2 ds2 (acc ++ o2)%list
  else (expire target (set_time n target (n_io_deadline n)), acc).
Proof. reflexivity. Qed.

Lemma ev_wake target fuel : forall n ds acc, ev0 n (fst (wake target fuel n ds acc)).
Proof.
  induction fuel as [|f IH]; intros n ds acc.
  - rewrite wake_O. cbn [fst]. apply ev_same; reflexivity.
  - rewrite wake_S. destruct (n_io_deadline n <=? target); [|cbn [fst]; apply ev_same; reflexivity].
    set (n1 := set_time n (n_io_deadline n) (n_io_deadline n)).
    assert (H1 : ev0 n n1) by (apply ev_same; reflexivity).
    pose proof (ev_settle n1 ds) as H2. destruct (settle n1 ds) as [[n2 o2] ds2]. cbn [fst] in H2.
    specialize (IH n2 ds2 (acc ++ o2)). ev_chain.
Qed.

Lemma ev_step_tick n ds dt : ev0 n (fst (step n ds (ETick dt))).
Proof. rewrite step_tick. apply ev_wake. Qed.

Lemma ev_step_app_answer n ds i m : ev0 n (fst (step n ds (EAppAnswer i m))).
Proof.
  cbn [step].
  assert (H0 : ev0 n (snd (route_answer n m))).
  { unfold route_answer.
    match goal with |- context [List.find ?f ?l] => destruct (List.find f l) as [[host ?]|] end;
      [|apply ev_refl].
    match goal with |- context [List.find ?f ?l] => destruct (List.find f l) as [c|] end;
      [destruct (is_ready_state (c_state c))|]; cbn [snd]; apply ev_same; reflexivity. }
  destruct (route_answer n m) as [[cid|] n1]; cbn [snd] in H0; [|exact H0].
  pose proof (ev_send_message NoP NoP NoP n1 cid m) as H1. destruct (send_message n1 cid m) as [n2 o2].
  pose proof (ev_settle_app' n2 ds) as H2. destruct (settle_app' n2 ds) as [n3 o3]. cbn [fst] in *. ev_chain.
Qed.

Lemma ev_step_app_request n ds i m realm pick tmo : ev0 n (fst (step n ds (EAppRequest i m realm pick tmo))).
Proof.
  cbn [step].
  match goal with |- context [let '(n0, e2e) := ?r in _] => set (r0 := r) end.
  assert (H0 : ev0 n (fst r0)) by (unfold r0; destruct (o_e2e m =? 0); [apply ev_same; reflexivity|apply ev_refl]).
  destruct r0 as [n0 e2e]. cbn [fst] in H0.
  destruct (route_request n0 i realm) as [[|p0 us]|]; try exact H0.
  match goal with |- context [match ?ch with Some _ => _ | None => (n0, [ONotRoutable]) end] => destruct ch as [p|] end;
    [|exact H0].
  destruct (p_conn p) as [k|]; [|exact H0].
  destruct (get_conn n0 k) as [c|]; [|exact H0].
  match goal with |- context [let '(n1, hbh) := ?r in _] => set (r1 := r) end.
  assert (H1 : ev0 n0 (fst r1)).
  { unfold r1. destruct (o_hbh m =? 0); [|apply ev_refl]. cbn [fst].
    apply ev_upd_keep; [solve_idp|intros x; split; reflexivity]. }
  destruct r1 as [n1 hbh]. cbn [fst] in H1.
  match goal with |- context [send_message ?x k ?mm] => set (n3 := x); set (m' := mm) end.
  assert (H3 : ev0 n1 n3) by (apply ev_same; reflexivity).
  clearbody n3 m'.
  pose proof (ev_send_message NoP NoP NoP n3 k m') as H4. destruct (send_message n3 k m') as [n4 o4].
  pose proof (ev_settle_app' n4 ds) as H5. destruct (settle_app' n4 ds) as [n5 o5]. cbn [fst] in *. ev_chain.
Qed.

Lemma ev_dpr_all cids : forall n acc, ev0 n (fst (dpr_all cids n acc)).
Proof.
  induction cids as [|a r IH]; intros n acc; [apply ev_refl|].
  cbn [dpr_all]. destruct (get_conn n a) as [cn|] eqn:Hc; [|apply IH].
  destruct (is_ready_state (c_state cn)) eqn:Hr; [|apply IH].
  pose proof (ev_send_dpr NoP NoP NoP n a cn Hc Hr) as H1. destruct (send_dpr n a) as [n' o'].
  specialize (IH n' (acc ++ o')). cbn [fst] in *. ev_chain.
Qed.

Lemma ev_step_stop n ds force : ev0 n (fst (step n ds (EStop force))).
Proof.
  rewrite step_stop. cbv zeta. set (n0 := set_misc n true (n_next_cid n) (n_e2e n)).
  assert (H0 : ev0 n n0) by (apply ev_same; reflexivity).
  destruct force; [exact H0|].
  pose proof (ev_dpr_all (List.map c_id (n_conns n0)) n0 []) as H1.
  destruct (dpr_all (List.map c_id (n_conns n0)) n0 []) as [n1 o1].
  pose proof (ev_settle' n1 ds) as H2. destruct (settle' n1 ds) as [n2 o2]. cbn [fst] in *. ev_chain.
Qed.

Lemma ev_shutdown_all cids : forall n acc, ev0 n (fst (shutdown_all cids n acc)).
Proof.
  induction cids as [|a r IH]; intros n acc; [apply ev_refl|].
  cbn [shutdown_all]. pose proof (ev_close NoP NoP NoP n a R_SHUTDOWN) as H1.
  destruct (close_conn n a R_SHUTDOWN) as [n' o']. specialize (IH n' (acc ++ o')). cbn [fst] in *. ev_chain.
Qed.

Lemma ev_step_stop_finish n ds tc te : ev0 n (fst (step n ds (EStopFinish tc te))).
Proof.
  rewrite step_stop_finish. cbv zeta. set (n0 := set_time n tc (n_io_deadline n)).
  assert (H0 : ev0 n n0) by (apply ev_same; reflexivity).
  pose proof (ev_shutdown_all (List.map c_id (n_conns n0)) n0 []) as H1.
  destruct (shutdown_all (List.map c_id (n_conns n0)) n0 []) as [n1 o1]. cbn [fst] in *.
  eapply ev_trans; [exact H0|]. eapply ev_trans; [exact H1|]. apply ev_same; reflexivity.
Qed.

Fixpoint start_all (names : list string) (n : node) (ds : dials) (acc : list output) : node * list output * dials :=
  match names with
  | [] => (n, acc, ds)
  | nm :: r =>
      match get_peer n nm with
      | Some p =>
          if p_persistent p then
            match ds with
            | (h0, res) :: dr => let '(n1, o1) := connect_to_peer n nm h0 res in start_all r n1 dr (acc ++ o1)%list
            | [] => let '(n1, o1) := connect_to_peer n nm 0 DialOk in start_all r n1 [] (acc ++ o1)%list
            end
          else start_all r n ds acc
      | None => start_all r n ds acc
      end
  end.

Lemma step_start n ds :
  step n ds EStart =
  let '(n1, o1, ds1) := start_all (List.map p_name (n_peers n)) n ds [] in
  let '(n2, o2) := settle' n1 ds1 in (n2, (o1 ++ o2)%list).
Proof. reflexivity. Qed.

Lemma ev_start_all names : forall n ds acc, ev0 n (fst (fst (start_all names n ds acc))).
Proof.
  induction names as [|nm r IH]; intros n ds acc; [apply ev_refl|].
  cbn [start_all]. destruct (get_peer n nm) as [p|]; [|apply IH].
  destruct (p_persistent p); [|apply IH]. destruct ds as [|[h0 res] dr].
  - pose proof (ev_connect_to_peer n nm 0 DialOk) as H1. destruct (connect_to_peer n nm 0 DialOk) as [n1 o1].
    specialize (IH n1 [] (acc ++ o1)). cbn [fst] in *. ev_chain.
  - pose proof (ev_connect_to_peer n nm h0 res) as H1. destruct (connect_to_peer n nm h0 res) as [n1 o1].
    specialize (IH n1 dr (acc ++ o1)). cbn [fst] in *. ev_chain.
Qed.

Lemma ev_step_start n ds : ev0 n (fst (step n ds EStart)).
Proof.
  rewrite step_start. pose proof (ev_start_all (List.map p_name (n_peers n)) n ds []) as H1.
  destruct (start_all (List.map p_name (n_peers n)) n ds []) as [[n1 o1] ds1].
  pose proof (ev_settle' n1 ds1) as H2. destruct (settle' n1 ds1) as [n2 o2]. cbn [fst] in *. ev_chain.
Qed.

(* ---- ERecv ------------------------------------------------------------------------------------------ *)
Lemma ev_upd_last_read n cid : ev0 n (upd_last_read n cid).
Proof. unfold upd_last_read. apply ev_upd_keep; [solve_idp|intros x; split; reflexivity]. Qed.

Lemma ev_step_recv (R : nat -> Prop) n ds cid ms :
  evolves (PA cid (pnames n) ms) (Qc cid) R n (fst (step n ds (ERecv cid ms))).
Proof.
  cbn [step]. destruct (get_conn n cid); [|apply ev_refl].
  pose proof (ev_io_iteration n ds) as H1. destruct (io_iteration n ds) as [[n1 o1] ds1]. cbn [fst] in H1.
  pose proof (ev_upd_last_read n1 cid) as H2. set (n2 := upd_last_read n1 cid) in *.
  assert (H12 : ev0 n n2) by (eapply ev_trans; eassumption).
  pose proof (ev_dispatch_all R ms n2 cid) as H3. destruct (dispatch_all n2 cid ms) as [n3 o3].
  pose proof (ev_settle' n3 ds1) as H4. destruct (settle' n3 ds1) as [n4 o4]. cbn [fst] in *.
  assert (Hpn : pnames n2 = pnames n) by apply H12. rewrite Hpn in H3.
  eapply ev_trans; [apply ev0_any, H12|]. eapply ev_trans; [exact H3|apply ev0_any, H4].
Qed.

(* every step: numbers of connections stay below the counter *)
Definition conns_fresh (n : node) : Prop := forall j c, get_conn n j = Some c -> (j < n_next_cid n)%nat.

Lemma ev_step n ds e : exists P Q R, evolves P Q R n (fst (step n ds e)).
Proof.
  destruct e.
  - exists NoP, NoP, NoP. apply ev_step_accept.
  - eexists _, _, NoP. apply ev_step_recv.
  - exists NoP, NoP, NoP. apply ev_step_peer_close.
  - exists NoP, NoP, NoP. apply ev_step_read_err.
  - eexists _, _, _. apply ev_step_conn_done.
  - exists NoP, NoP, NoP. apply ev_step_stall.
  - exists NoP, NoP, NoP. apply ev_step_tick.
  - exists NoP, NoP, NoP. apply ev_step_app_answer.
  - exists NoP, NoP, NoP. apply ev_step_app_request.
  - exists NoP, NoP, NoP. apply ev_step_stop.
  - exists NoP, NoP, NoP. apply ev_step_stop_finish.
  - exists NoP, NoP, NoP. apply ev_step_start.
Qed.

(* freshness of connection numbers is an invariant of step (it holds for a node without connections) *)
Theorem conns_fresh_step n ds e : conns_fresh n -> conns_fresh (fst (step n ds e)).
Proof.
  intros Hf j c' Hc'. destruct (ev_step n ds e) as [P [Q [R [_ [Hn H]]]]].
  destruct (H j c' Hc') as [Hle|[c [Hc _]]]; [lia|]. apply Hf in Hc. lia.
Qed.

Lemma ev_at P Q R n n' cid c c' :
  evolves P Q R n n' -> (cid < n_next_cid n)%nat -> get_conn n cid = Some c -> get_conn n' cid = Some c' ->
  crel P Q R cid c c'.
Proof.
  intros [_ [_ H]] Hlt Hc Hc'. destruct (H cid c' Hc') as [Hle|[c0 [Hc0 Hr]]]; [lia|].
  rewrite Hc in Hc0. inversion Hc0; subst. exact Hr.
Qed.

Lemma ev_at_none P Q R n n' cid :
  evolves P Q R n n' -> (cid < n_next_cid n)%nat -> get_conn n cid = None -> get_conn n' cid = None.
Proof.
  intros [_ [_ H]] Hlt Hc. destruct (get_conn n' cid) as [c'|] eqn:Hc'; [|reflexivity].
  destruct (H cid c' Hc') as [Hle|[c0 [Hc0 Hr]]]; [lia|congruence].
Qed.

(* the statements about frames, in terms of the node's configured peers *)
Definition is_good_cer (n : node) (m : msg) : Prop :=
  m_cmd m = CE /\ m_req m = true /\ exists h, m_origin m = Present h /\ get_peer n h <> None.
Definition is_good_cea (m : msg) : Prop :=
  m_cmd m = CE /\ m_req m = false /\ m_result m = Present 2001.

Lemma ce_any_good n m : ce_any (pnames n) m -> is_good_cer n m \/ is_good_cea m.
Proof.
  intros [Hk [[Hr [h [Ho Hin]]]|[Hr He]]]; [left|right]; split; auto. split; [exact Hr|].
  exists h. split; [exact Ho|apply in_pnames_get_peer, Hin].
Qed.

Lemma ce_ok_good n b m : ce_ok (pnames n) b m -> if b then is_good_cer n m else is_good_cea m.
Proof.
  intros [Hk H]. destruct b.
  - destruct H as [Hr [h [Ho Hin]]]. split; [exact Hk|]. split; [exact Hr|].
    exists h. split; [exact Ho|apply in_pnames_get_peer, Hin].
  - destruct H as [Hr He]. split; auto.
Qed.

Lemma ready_not_inert s : is_ready_state s = true -> inert s = false.
Proof. destruct s; cbn; congruence. Qed.

Lemma not_ready_cases s : is_ready_state s = false -> s = SConnected \/ inert s = true.
Proof. destruct s; cbn; auto; discriminate. Qed.

(* C06, per event kind: no event other than a network read makes a connection ready *)
Lemma C06_ready_only_by_ce_other (Q R : nat -> Prop) n ds e cid c c' :
  evolves NoP Q R n (fst (step n ds e)) ->
  (cid < n_next_cid n)%nat -> get_conn n cid = Some c -> is_ready_state (c_state c) = false ->
  get_conn (fst (step n ds e)) cid = Some c' -> is_ready_state (c_state c') = true -> False.
Proof.
  intros Hev Hlt Hc Hnr Hc' Hr. destruct (ev_at _ _ _ _ _ cid c c' Hev Hlt Hc Hc') as [_ [H _]].
  destruct (H Hr) as [H1|[]]. congruence.
Qed.

(* C06, network read: the read is on that connection, which was CONNECTED, and the frames contain a CER of a
   configured peer or a CEA 2001 *)
Lemma C06_ready_only_by_ce_recv n ds cid0 ms cid c c' :
  (cid < n_next_cid n)%nat -> get_conn n cid = Some c -> is_ready_state (c_state c) = false ->
  get_conn (fst (step n ds (ERecv cid0 ms))) cid = Some c' -> is_ready_state (c_state c') = true ->
  cid0 = cid /\ c_state c = SConnected /\ (exists m, List.In m ms /\ (is_good_cer n m \/ is_good_cea m)).
Proof.
  intros Hlt Hc Hnr Hc' Hr.
  destruct (ev_at _ _ _ _ _ cid c c' (ev_step_recv NoP n ds cid0 ms) Hlt Hc Hc') as [_ [H [_ H4]]].
  destruct (H Hr) as [H1|[Hj [m [Hin Hm]]]]; [congruence|]. split; [congruence|]. split.
  - destruct (not_ready_cases _ Hnr) as [Hs|Hi]; [exact Hs|]. exfalso.
    destruct (H4 Hi) as [Hi'|[]]. rewrite (ready_not_inert _ Hr) in Hi'. discriminate.
  - exists m. split; [exact Hin|apply ce_any_good, Hm].
Qed.

(* C06, network read on a CONNECTED connection: the direction of the CE message matches the connection *)
Lemma C06_ready_only_by_ce_recv_connected n ds cid ms c c' :
  (cid < n_next_cid n)%nat -> get_conn n cid = Some c -> c_state c = SConnected ->
  get_conn (fst (step n ds (ERecv cid ms))) cid = Some c' -> is_ready_state (c_state c') = true ->
  exists m, List.In m ms /\ if c_recv c then is_good_cer n m else is_good_cea m.
Proof.
  intros Hlt Hc Hs Hc' Hr. cbn [step] in Hc'. rewrite Hc in Hc'.
  pose proof (ev_io_iteration n ds) as H1. destruct (io_iteration n ds) as [[n1 o1] ds1]. cbn [fst] in H1.
  pose proof (ev_upd_last_read n1 cid) as H2. set (n2 := upd_last_read n1 cid) in *.
  assert (H12 : ev0 n n2) by (eapply ev_trans; eassumption).
  pose proof (ev_dispatch_all NoP ms n2 cid) as H3.
  pose proof (co_dispatch_all ms n2 cid) as Hco.
  pose proof (dispatch_all_dead ms n2 cid) as Hdead.
  destruct (dispatch_all n2 cid ms) as [n3 o3].
  pose proof (ev_settle' n3 ds1) as H4. destruct (settle' n3 ds1) as [n4 o4]. cbn [fst] in *.
  assert (Hpn : pnames n2 = pnames n) by apply H12.
  assert (Hlt2 : (cid < n_next_cid n2)%nat) by (destruct H12 as [_ [Hn _]]; lia).
  assert (Hlt3 : (cid < n_next_cid n3)%nat) by (destruct H3 as [_ [Hn _]]; lia).
  assert (Hnone : get_conn n3 cid = None -> False).
  { intros Hn3. rewrite (ev_at_none _ _ _ n3 n4 cid H4 Hlt3 Hn3) in Hc'. discriminate. }
  assert (Hdull : forall c3, get_conn n3 cid = Some c3 -> c_state c3 = SConnected \/ c_state c3 = SClosing -> False).
  { intros c3 Hc3 Hs3. destruct (ev_at _ _ _ _ _ cid c3 c' H4 Hlt3 Hc3 Hc') as [_ [H _]].
    destruct (H Hr) as [Hr3|[]]. destruct Hs3 as [E|E]; rewrite E in Hr3; discriminate. }
  destruct (get_conn n2 cid) as [c2|] eqn:Hc2.
  - destruct (ev_at _ _ _ _ _ cid c c2 H12 Hlt Hc Hc2) as [Hb2 [_ [Hs2 _]]].
    destruct (Hs2 Hs) as [Hs2'|[]].
    destruct (Hco c2 eq_refl Hs2') as [Hn3|[[c3 [Hc3 Hs3]]|[m [Hin Hm]]]].
    + destruct (Hnone Hn3).
    + destruct (Hdull c3 Hc3 Hs3).
    + exists m. split; [exact Hin|]. rewrite Hpn, Hb2 in Hm. apply ce_ok_good, Hm.
  - exfalso. apply Hnone. assert (E : (n3, o3) = (n2, [])) by (apply Hdead; left; reflexivity).
    inversion E; subst. exact Hc2.
Qed.

(* C06: a connection becomes ready only from CONNECTED.  A connection that was not ready and is ready after a
   step was CONNECTED (one that is CONNECTING, DISCONNECTING, CLOSING or CLOSED never becomes ready, whatever
   happens), the step was a network read on that connection, and its frames contain the capabilities-exchange
   message of the connection's direction: a CER of a configured peer on an inbound connection, a CEA 2001 on
   an outbound one *)
Theorem C06_ready_only_from_connected n ds e cid c c' :
  get_conn n cid = Some c -> (cid < n_next_cid n)%nat -> is_ready_state (c_state c) = false ->
  get_conn (fst (step n ds e)) cid = Some c' -> is_ready_state (c_state c') = true ->
  c_state c = SConnected /\
  exists ms, e = ERecv cid ms /\
    exists m, List.In m ms /\ if c_recv c then is_good_cer n m else is_good_cea m.
Proof.
  intros Hc Hlt Hnr Hc' Hr.
  destruct e as [h|cid0 ms|k|k hard|k ok|k b|dt|i m|i m realm pick tmo|force|tc te|];
    try (exfalso;
         match type of Hc' with get_conn (fst (step n ds ?e)) _ = _ => eapply (C06_ready_only_by_ce_other _ _ n ds e) end;
         [first [apply ev_step_accept | apply ev_step_peer_close | apply ev_step_read_err
                | apply ev_step_conn_done | apply ev_step_stall | apply ev_step_tick
                | apply ev_step_app_answer | apply ev_step_app_request | apply ev_step_stop
                | apply ev_step_stop_finish | apply ev_step_start]
         |exact Hlt|exact Hc|exact Hnr|exact Hc'|exact Hr]).
  destruct (C06_ready_only_by_ce_recv n ds cid0 ms cid c c' Hlt Hc Hnr Hc' Hr) as [-> [Hs _]].
  split; [exact Hs|]. exists ms. split; [reflexivity|].
  eapply C06_ready_only_by_ce_recv_connected; eassumption.
Qed.

(* C06: a connection that was not ready and is ready after a step: the step was a network read on that
   connection, the connection was CONNECTED, and the frames contain a CER of a configured peer or a CEA 2001,
   namely the one of the connection's direction (CER on an inbound, CEA on an outbound connection) *)
Theorem C06_ready_only_by_ce n ds e cid c c' :
  (cid < n_next_cid n)%nat ->
  get_conn n cid = Some c -> is_ready_state (c_state c) = false ->
  get_conn (fst (step n ds e)) cid = Some c' -> is_ready_state (c_state c') = true ->
  exists ms, e = ERecv cid ms /\ c_state c = SConnected /\
    (exists m, List.In m ms /\ (is_good_cer n m \/ is_good_cea m)) /\
    (exists m, List.In m ms /\ if c_recv c then is_good_cer n m else is_good_cea m).
Proof.
  intros Hlt Hc Hnr Hc' Hr.
  destruct (C06_ready_only_from_connected n ds e cid c c' Hc Hlt Hnr Hc' Hr) as [Hs [ms [He [m [Hin Hm]]]]].
  exists ms. split; [exact He|]. split; [exact Hs|]. split; exists m; (split; [exact Hin|]); [|exact Hm].
  destruct (c_recv c); [left|right]; exact Hm.
Qed.

(* C06: the direction of the capabilities exchange.  A connection becomes ready only while it is CONNECTED and
   only by (a) a CEA 2001 if it is outbound, (b) a CER of a configured peer if it is inbound *)
Theorem C06_direction n ds e cid c c' :
  (cid < n_next_cid n)%nat ->
  get_conn n cid = Some c -> is_ready_state (c_state c) = false ->
  get_conn (fst (step n ds e)) cid = Some c' -> is_ready_state (c_state c') = true ->
  exists ms, e = ERecv cid ms /\ c_state c = SConnected /\
    ((c_recv c = false /\ exists m, List.In m ms /\ is_good_cea m) \/
     (c_recv c = true /\ exists m, List.In m ms /\ is_good_cer n m)).
Proof.
  intros Hlt Hc Hnr Hc' Hr.
  destruct (C06_ready_only_from_connected n ds e cid c c' Hc Hlt Hnr Hc' Hr) as [Hs [ms [He [m [Hin Hm]]]]].
  exists ms. split; [exact He|]. split; [exact Hs|].
  destruct (c_recv c); [right|left]; (split; [reflexivity|]); exists m; auto.
Qed.

(* C06: an outbound CONNECTED connection becomes ready only by a CEA 2001 *)
Corollary C06_direction_outbound n ds e cid c c' :
  (cid < n_next_cid n)%nat ->
  get_conn n cid = Some c -> c_state c = SConnected -> c_recv c = false ->
  get_conn (fst (step n ds e)) cid = Some c' -> is_ready_state (c_state c') = true ->
  exists ms, e = ERecv cid ms /\ exists m, List.In m ms /\ is_good_cea m.
Proof.
  intros Hlt Hc Hs Hb Hc' Hr.
  assert (Hnr : is_ready_state (c_state c) = false) by (rewrite Hs; reflexivity).
  destruct (C06_direction n ds e cid c c' Hlt Hc Hnr Hc' Hr) as [ms [He [_ [[_ H]|[H _]]]]].
  - exists ms. auto.
  - congruence.
Qed.

(* C06: an inbound CONNECTED connection becomes ready only by a CER of a configured peer *)
Corollary C06_direction_inbound n ds e cid c c' :
  (cid < n_next_cid n)%nat ->
  get_conn n cid = Some c -> c_state c = SConnected -> c_recv c = true ->
  get_conn (fst (step n ds e)) cid = Some c' -> is_ready_state (c_state c') = true ->
  exists ms, e = ERecv cid ms /\ exists m, List.In m ms /\ is_good_cer n m.
Proof.
  intros Hlt Hc Hs Hb Hc' Hr.
  assert (Hnr : is_ready_state (c_state c) = false) by (rewrite Hs; reflexivity).
  destruct (C06_direction n ds e cid c c' Hlt Hc Hnr Hc' Hr) as [ms [He [_ [[H _]|[_ H]]]]].
  - congruence.
  - exists ms. auto.
Qed.

(* C06: nothing revives a connection: one that is CONNECTING, DISCONNECTING, CLOSING or CLOSED is not ready
   after the step, whatever the event is and whatever is received (neither a CEA nor a CER) *)
Theorem C06_cea_never_revives n ds e cid c c' :
  (cid < n_next_cid n)%nat ->
  get_conn n cid = Some c ->
  (c_state c = SConnecting \/ c_state c = SDisconnecting \/ c_state c = SClosing \/ c_state c = SClosed) ->
  get_conn (fst (step n ds e)) cid = Some c' ->
  is_ready_state (c_state c') = false.
Proof.
  intros Hlt Hc Hst Hc'.
  assert (Hnr : is_ready_state (c_state c) = false) by (destruct Hst as [E|[E|[E|E]]]; rewrite E; reflexivity).
  assert (Hns : c_state c <> SConnected) by (destruct Hst as [E|[E|[E|E]]]; rewrite E; discriminate).
  destruct (is_ready_state (c_state c')) eqn:Hr; [|reflexivity]. exfalso.
  destruct (C06_ready_only_from_connected n ds e cid c c' Hc Hlt Hnr Hc' Hr) as [Hs _]. contradiction.
Qed.

(* ================================================================================== *)
(* Examples on a concrete node: one peer "p", one application (id 4), one connection    *)
(* ================================================================================== *)
Definition ex_cfg : cfg :=
  {| g_host := "n"; g_realm := "r"; g_cea := 4; g_cer := 4; g_dwa := 4; g_idle := 20; g_wakeup := 6;
     g_rsize := 10%nat; g_validate := true; g_state_id := 1 |}.
Definition ex_peer : peer :=
  {| p_name := "p"; p_realm := "r"; p_has_addr := true; p_persistent := false; p_always := false;
     p_cea := None; p_cer := None; p_dwa := None; p_idle := Some 10; p_rwait := 30;
     p_conn := None; p_reason := None; p_lastconn := None; p_lastdisc := None; p_reqs := 0 |}.
Definition ex_app : app := {| a_id := 4; a_auth := true; a_acct := false; a_ready := false; a_waiting := [] |}.
Definition ex_node (now : Z) (c : conn) : node :=
  {| n_cfg := ex_cfg; n_now := now; n_io_deadline := now + 6; n_stopping := false;
     n_peers := [ex_peer]; n_conns := [c]; n_next_cid := 1%nat; n_half_ready := []; n_socket_peers := [0%nat];
     n_routes := [("r", [(RApp 0, ["p"])])]; n_apps := [ex_app];
     n_app_waiting := []; n_peer_waiting := []; n_origin_waiting := []; n_sent_answers := []; n_e2e := 1 |}.
Definition ex_conn (recv : bool) (st : cstate) (host : string) : conn :=
  {| c_id := 0%nat; c_recv := recv; c_state := st; c_node_name := host; c_host := host; c_last_read := 0;
     c_last_dwr := 0; c_auth := []; c_acct := []; c_hbh := 100; c_sock_open := true; c_stalled := false;
     c_out := []; c_workers := true |}.
Definition ex_msg (k : cmd) (req : bool) (result : pres Z) : msg :=
  {| m_cmd := k; m_req := req; m_p := false; m_e := false; m_t := false; m_app := 0; m_hbh := 7; m_e2e := 8;
     m_origin := Present "p"; m_drealm := Undeclared; m_result := result; m_missing := [];
     m_has_failed_avp_slot := true; m_auth := [4]; m_acct := []; m_tag := 0 |}.
Definition ex_cer : msg := ex_msg CE true Absent.
Definition ex_cea : msg := ex_msg CE false (Present 2001).
Definition ex_dwr : msg := ex_msg DW true Absent.

(* C06: the hypotheses of C06_cer_known / C06_ready_only_by_ce hold and the conclusions compute *)
Example C06_example :
  let n := ex_node 0 (ex_conn true SConnected "") in
  (0 < n_next_cid n)%nat /\
  election_rivals n 0%nat "p" = [] /\
  option_map c_state (get_conn n 0%nat) = Some SConnected /\
  (exists p, get_peer n "p" = Some p) /\
  inter_z (node_auth n) (m_auth ex_cer) = [4] /\
  snd (recv_cer n 0%nat ex_cer) = [OQueue 0%nat (answer_of ex_cer (Some 2001) [])] /\
  option_map c_state (get_conn (fst (recv_cer n 0%nat ex_cer)) 0%nat) = Some SReady /\
  option_map c_host (get_conn (fst (recv_cer n 0%nat ex_cer)) 0%nat) = Some "p" /\
  option_map c_state (get_conn (fst (step n [] (ERecv 0%nat [ex_cer]))) 0%nat) = Some SReady /\
  snd (step n [] (ERecv 0%nat [ex_dwr; ex_cer])) =
    [OQueue 0%nat (answer_of ex_cer (Some 2001) []); OSend 0%nat (answer_of ex_cer (Some 2001) [])] /\
  dispatch n 0%nat ex_dwr = (n, []).
Proof. vm_compute. repeat split; try reflexivity; try lia. eexists; reflexivity. Qed.

(* C06: a CEA acts on a CONNECTED connection only: an inbound connection in DISCONNECTING is left alone by a
   CEA 2001 (the gate passes it, the handler ignores it); on an outbound CONNECTED connection the CEA 2001 of
   the dialled peer makes it READY, the CEA 2001 of somebody else closes it (CER_REJECTED) *)
Definition ex_cea_q : msg :=
  {| m_cmd := CE; m_req := false; m_p := false; m_e := false; m_t := false; m_app := 0; m_hbh := 7; m_e2e := 8;
     m_origin := Present "q"; m_drealm := Undeclared; m_result := Present 2001; m_missing := [];
     m_has_failed_avp_slot := true; m_auth := [4]; m_acct := []; m_tag := 0 |}.
Example C06_cea_example :
  let n := ex_node 0 (ex_conn true SDisconnecting "p") in
  let k := ex_node 0 (ex_conn false SConnected "p") in
  option_map c_recv (get_conn n 0%nat) = Some true /\
  option_map c_state (get_conn n 0%nat) = Some SDisconnecting /\
  recv_cea n 0%nat ex_cea = (n, []) /\
  option_map c_state (get_conn (fst (step n [] (ERecv 0%nat [ex_cea]))) 0%nat) = Some SDisconnecting /\
  m_req ex_cea = false /\
  option_map c_state (get_conn (fst (recv_cea k 0%nat ex_cea)) 0%nat) = Some SReady /\
  option_map c_state (get_conn (fst (step k [] (ERecv 0%nat [ex_cea]))) 0%nat) = Some SReady /\
  recv_cea k 0%nat ex_cea_q = close_conn k 0%nat R_CER_REJECTED /\
  snd (step k [] (ERecv 0%nat [ex_cea_q])) = [OClose 0%nat R_CER_REJECTED] /\
  get_conn (fst (step k [] (ERecv 0%nat [ex_cea_q]))) 0%nat = None.
Proof. vm_compute. repeat split; reflexivity. Qed.

(* C06: a CER acts on a CONNECTED connection only.  On a READY connection the CER of the (configured, application
   sharing) peer passes the gate but is ignored by the handler: nothing is sent, the connection stays READY and
   keeps its identity (no second negotiation).  On an inbound DISCONNECTING connection it is ignored as well: the
   connection does not become ready again.  The hypothesis of C06_cer_ignored_unless_connected holds in both *)
Example C06_cer_ignored_example :
  let n := ex_node 0 (ex_conn true SReady "p") in
  let d := ex_node 0 (ex_conn true SDisconnecting "p") in
  (0 < n_next_cid n)%nat /\
  option_map c_state (get_conn n 0%nat) = Some SReady /\
  (exists p, get_peer n "p" = Some p) /\
  inter_z (node_auth n) (m_auth ex_cer) = [4] /\
  election_rivals n 0%nat "p" = [] /\
  option_map (fun c => gate_passes c ex_cer) (get_conn n 0%nat) = Some true /\
  recv_cer n 0%nat ex_cer = (n, []) /\
  snd (dispatch n 0%nat ex_cer) = [] /\
  snd (step n [] (ERecv 0%nat [ex_cer])) = [] /\
  option_map c_state (get_conn (fst (step n [] (ERecv 0%nat [ex_cer]))) 0%nat) = Some SReady /\
  option_map c_host (get_conn (fst (step n [] (ERecv 0%nat [ex_cer]))) 0%nat) = Some "p" /\
  option_map c_auth (get_conn (fst (step n [] (ERecv 0%nat [ex_cer]))) 0%nat) = Some [] /\
  option_map c_state (get_conn d 0%nat) = Some SDisconnecting /\
  option_map (fun c => gate_passes c ex_cer) (get_conn d 0%nat) = Some true /\
  recv_cer d 0%nat ex_cer = (d, []) /\
  snd (step d [] (ERecv 0%nat [ex_cer])) = [] /\
  option_map c_state (get_conn (fst (step d [] (ERecv 0%nat [ex_cer; ex_cea]))) 0%nat) = Some SDisconnecting.
Proof. vm_compute. repeat split; try reflexivity; try lia. eexists; reflexivity. Qed.

(* C06: the election.  Connection 0 was dialled towards "p" and awaits the CEA; "p" connects (connection 1)
   and sends its CER.  With the local name "n" < "p" the election is lost: 4003, connection 1 is CLOSING,
   connection 0 is kept.  With the local name "z" > "p" it is won: connection 0 is closed (CLEAN) before the
   CER is answered 2001, connection 1 is READY *)
Definition ex_cfg_named (host : string) : cfg :=
  {| g_host := host; g_realm := "r"; g_cea := 4; g_cer := 4; g_dwa := 4; g_idle := 20; g_wakeup := 6;
     g_rsize := 10%nat; g_validate := true; g_state_id := 1 |}.
Definition ex_conn_id (i : nat) (recv : bool) (st : cstate) (name host : string) : conn :=
  {| c_id := i; c_recv := recv; c_state := st; c_node_name := name; c_host := host; c_last_read := 0;
     c_last_dwr := 0; c_auth := []; c_acct := []; c_hbh := 100; c_sock_open := true; c_stalled := false;
     c_out := []; c_workers := true |}.
Definition ex_node2 (host : string) : node :=
  {| n_cfg := ex_cfg_named host; n_now := 0; n_io_deadline := 6; n_stopping := false;
     n_peers := [ex_peer];
     n_conns := [ex_conn_id 0 false SConnected "p" ""; ex_conn_id 1 true SConnected "" ""];
     n_next_cid := 2%nat; n_half_ready := [1%nat]; n_socket_peers := [0%nat; 1%nat];
     n_routes := [("r", [(RApp 0, ["p"])])]; n_apps := [ex_app];
     n_app_waiting := []; n_peer_waiting := []; n_origin_waiting := []; n_sent_answers := []; n_e2e := 1 |}.
Example C06_election_example :
  let n := ex_node2 "n" in
  let z := ex_node2 "z" in
  election_rivals n 1%nat "p" = [0%nat] /\
  (exists p, get_peer n "p" = Some p) /\
  inter_z (node_auth n) (m_auth ex_cer) = [4] /\
  String.ltb "p" (g_host (n_cfg n)) = false /\
  snd (recv_cer n 1%nat ex_cer) = [OQueue 1%nat (answer_of ex_cer (Some 4003) [])] /\
  option_map c_state (get_conn (fst (recv_cer n 1%nat ex_cer)) 1%nat) = Some SClosing /\
  option_map c_state (get_conn (fst (recv_cer n 1%nat ex_cer)) 0%nat) = Some SConnected /\
  snd (step n [] (ERecv 1%nat [ex_cer])) =
    [OQueue 1%nat (answer_of ex_cer (Some 4003) []); OSend 1%nat (answer_of ex_cer (Some 4003) []);
     OClose 1%nat R_CLEAN] /\
  election_rivals z 1%nat "p" = [0%nat] /\
  String.ltb "p" (g_host (n_cfg z)) = true /\
  snd (recv_cer z 1%nat ex_cer) = [OClose 0%nat R_CLEAN; OQueue 1%nat (answer_of ex_cer (Some 2001) [])] /\
  get_conn (fst (recv_cer z 1%nat ex_cer)) 0%nat = None /\
  option_map c_state (get_conn (fst (recv_cer z 1%nat ex_cer)) 1%nat) = Some SReady /\
  option_map c_host (get_conn (fst (recv_cer z 1%nat ex_cer)) 1%nat) = Some "p" /\
  snd (step z [] (ERecv 1%nat [ex_cer])) =
    [OClose 0%nat R_CLEAN; OQueue 1%nat (answer_of ex_cer (Some 2001) []);
     OSend 1%nat (answer_of ex_cer (Some 2001) [])].
Proof. vm_compute. repeat split; try reflexivity. eexists; reflexivity. Qed.

(* C11: an idle READY connection (peer idle timer 10 overrides the node's 20) gets one DWR; a DWA restores READY *)
Example C11_example :
  let n := ex_node 15 (ex_conn true SReady "p") in
  let n1 := fst (check_timers n 0%nat) in
  n_stopping n = false /\
  option_map (eff_idle n) (get_conn n 0%nat) = Some 10 /\
  snd (check_timers n 0%nat) =
    [OQueue 0%nat {| o_cmd := DW; o_req := true; o_app := 0; o_hbh := 101; o_e2e := 2;
                     o_result := None; o_failed := []; o_tag := 0 |}] /\
  option_map c_state (get_conn n1 0%nat) = Some SReadyWaitDwa /\
  option_map c_last_dwr (get_conn n1 0%nat) = Some 15 /\
  snd (check_timers n1 0%nat) = [] /\
  option_map c_state (get_conn (fst (recv_dwa n1 0%nat)) 0%nat) = Some SReady /\
  snd (check_timers (set_time n1 20 26) 0%nat) = [OClose 0%nat R_DWA_TIMEOUT] /\
  snd (dispatch n 0%nat ex_dwr) = [OQueue 0%nat (answer_of ex_dwr (Some 2001) [])].
Proof. vm_compute. repeat split; reflexivity. Qed.

(* C18: stop() sends one DPR to the ready connection; finishing the stop closes it with NODE_SHUTDOWN *)
Example C18_example :
  let n := ex_node 0 (ex_conn true SReady "p") in
  let n1 := fst (step n [] (EStop false)) in
  List.NoDup (List.map c_id (n_conns n)) /\
  queued (snd (step n [] (EStop false))) =
    [(0%nat, {| o_cmd := DP; o_req := true; o_app := 0; o_hbh := 101; o_e2e := 2;
                o_result := None; o_failed := []; o_tag := 0 |})] /\
  n_stopping n1 = true /\
  snd (step n [] (EStop true)) = [] /\
  snd (step n1 [] (EAccept 5)) = [OClose 1%nat R_SHUTDOWN] /\
  snd (step n1 [] (EStopFinish 1 2)) = [OClose 0%nat R_SHUTDOWN] /\
  n_conns (fst (step n1 [] (EStopFinish 1 2))) = [].
Proof. vm_compute. repeat split; try reflexivity. repeat constructor. intros []. Qed.

(* ================================================================================== *)
Print Assumptions C06_gate_connected.
Print Assumptions C06_gate_closing.
Print Assumptions C06_cer_known.
Print Assumptions C06_cer_known_no_rivals.
Print Assumptions C06_cer_election_won.
Print Assumptions C06_cer_election_lost.
Print Assumptions C06_cer_unknown.
Print Assumptions C06_cer_ignored_unless_connected.
Print Assumptions C06_unknown_then_closed.
Print Assumptions C06_cer_no_common.
Print Assumptions C06_cer_no_common_no_rivals.
Print Assumptions C06_ready_only_by_ce_other.
Print Assumptions C06_ready_only_by_ce_recv.
Print Assumptions C06_ready_only_by_ce_recv_connected.
Print Assumptions C06_ready_only_from_connected.
Print Assumptions C06_ready_only_by_ce.
Print Assumptions C06_direction.
Print Assumptions C06_direction_outbound.
Print Assumptions C06_direction_inbound.
Print Assumptions C06_cea_never_revives.
Print Assumptions conns_fresh_step.
Print Assumptions C06_outbound_first_is_cer.
Print Assumptions C06_cea_ignored_unless_connected.
Print Assumptions C06_cea_rejected.
Print Assumptions C06_cea_wrong_identity.
Print Assumptions C06_cea_without_origin.
Print Assumptions C06_cea_accepted.
Print Assumptions C06_timeout.
Print Assumptions check_timers_unfold.
Print Assumptions C11_idle_sends_one.
Print Assumptions C11_no_second_dwr.
Print Assumptions C11_dwa_restores.
Print Assumptions C11_silence_closes.
Print Assumptions C11_no_dwr_while_busy.
Print Assumptions C11_peer_overrides.
Print Assumptions C11_dwr_answered.
Print Assumptions C11_timers_idempotent.
Print Assumptions C18_dpr_to_ready.
Print Assumptions C18_quiet_while_stopping.
Print Assumptions C18_newcomers_refused.
Print Assumptions C18_all_closed.
Print Assumptions C18_close_after_dpa.
Print Assumptions mclose_all_outs_in.
Print Assumptions mclose_all_closes.
Print Assumptions mclose_all_outs_nodup.
Print Assumptions election_rivals_in.
Print Assumptions election_rivals_nodup.
Print Assumptions C06_example.
Print Assumptions C06_cea_example.
Print Assumptions C06_cer_ignored_example.
Print Assumptions C06_election_example.
Print Assumptions C11_example.
Print Assumptions C18_example.
