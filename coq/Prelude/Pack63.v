(* Compact byte literals for the correspondence files: 7 bytes per primitive 63-bit
   integer (one kernel node each) instead of ~18 nodes per byte for a hex string.
   Used only by generated case files, never by theorems. *)
From DV Require Import Prelude.Base.
From Coq Require Import Uint63.

Definition byte_at (w : int) (sh : int) : Z := Uint63.to_Z (Uint63.land (Uint63.lsr w sh) 255%uint63).
Definition bytes7 (w : int) : bytes :=
  [byte_at w 48%uint63; byte_at w 40%uint63; byte_at w 32%uint63; byte_at w 24%uint63;
   byte_at w 16%uint63; byte_at w 8%uint63; byte_at w 0%uint63].
Fixpoint unpack63_words (ws : list int) : bytes :=
  match ws with
  | [] => []
  | w :: r => bytes7 w ++ unpack63_words r
  end.
(* n bytes from the 7-byte big-endian words (the last word is zero padded on the right) *)
Definition unp (n : Z) (ws : list int) : bytes := firstn (Z.to_nat n) (unpack63_words ws).
