(* C19 — per-transaction and per-connection state is released; nothing grows with use
   Statements copied from the proof files; each is closed by `exact`. *)
From DV Require Prelude.Base Model.Ids Proofs.IdsP Model.Node Proofs.NodeD Proofs.NodeC.
From Coq Require String List Lia Bool Arith ZArith.

Module FromNodeD.
Import DV.Prelude.Base DV.Model.Node DV.Proofs.NodeD.
Import Coq.Strings.String.
Import Coq.Lists.List Coq.micromega.Lia Coq.Bool.Bool Coq.Arith.Arith.
Import ListNotations.
Open Scope nat_scope.

(* ---- invariant 7 (C19: retransmission windows) ---- *)
Theorem C19_windows_bounded : forall n0 n, reach n0 n ->
  (forall o l, List.In (o, l) (n_sent_answers n) -> List.length l <= g_rsize (n_cfg n)) /\
  NoDup (List.map fst (n_sent_answers n)) /\
  n_cfg n = n_cfg n0.
Proof. exact NodeD.C19_windows_bounded. Qed.

(* ---- invariant 6 (C19), under conn_guard alone (no peer named "", clause iii): every key of
   _peer_waiting is the host identity of a live connection.  No condition on capabilities-exchange
   messages is needed: a host identity is written only while the connection is CONNECTED, requests are
   filed only for connections past that state, and remove_peer_connection drops the entries of the host
   identity the connection has at that time. ---- *)
Theorem C19_waiting_hosts : forall n0 n, reach_nc n0 n ->
  forall h, List.In h (List.map fst (n_peer_waiting n)) ->
  h <> ""%string /\ exists c, List.In c (n_conns n) /\ c_host c = h.
Proof. exact NodeD.C19_waiting_hosts. Qed.

Theorem C19_no_conns_no_waiting : forall n0 n, reach_nc n0 n -> n_conns n = [] ->
  n_half_ready n = [] /\ n_socket_peers n = [] /\ n_peer_waiting n = [].
Proof. exact NodeD.C19_no_conns_no_waiting. Qed.

(* with the peers' connections: ce_guard *)
Theorem C19_no_conns_no_tables : forall n0 n, reach_g n0 n -> n_conns n = [] ->
  n_half_ready n = [] /\ n_socket_peers n = [] /\ n_peer_waiting n = [] /\
  (forall p, List.In p (n_peers n) -> p_conn p = None).
Proof. exact NodeD.C19_no_conns_no_tables. Qed.

(* OLD (origin table keyed by the pair only): forall n0 n, reach_a n0 n -> origin_backed n, without any guard.
   With the table keyed by connection the entries of a connection leave with THAT connection only, so the
   statement needs "one connection per host identity" (Zo), i.e. the guards: without clause (iii) it is false even
   in the weak form (C19_origin_backed_unguarded_refuted). *)
Theorem C19_origin_backed : forall n0 n, reach_ga n0 n -> origin_backed n.
Proof. exact NodeD.C19_origin_backed. Qed.

Theorem C19_no_conns_no_origin : forall n0 n, reach_ga n0 n -> n_conns n = [] -> n_origin_waiting n = [].
Proof. exact NodeD.C19_no_conns_no_origin. Qed.

Theorem C13_closed_stays_closed : forall n0 n cid r c evs, reach n0 n -> get_conn n cid = Some c ->
  let n' := fst (run (fst (close_conn n cid r)) evs) in
  ~ List.In cid (List.map c_id (n_conns n')) /\ ~ List.In cid (n_half_ready n') /\ ~ List.In cid (n_socket_peers n').
Proof. exact NodeD.C13_closed_stays_closed. Qed.

(* ---- clause (iii) of the guard is needed (not affected by the repairs): the gate of PeerConnection
   lets everything through in state CONNECTING; an application request read from a connection whose
   connect() is still in progress is filed under the empty host identity and is never dropped.  The
   history satisfies clause (i'). ---- *)
Theorem C19_connecting_read_refuted :
  exists n0 evs, wf_init_g n0 /\ cer_guard n0 evs /\
    let n := fst (run n0 evs) in
    n_conns n = [] /\ n_peer_waiting n = [(""%string, [(7%Z, 7%Z)])].
Proof. exact NodeD.C19_connecting_read_refuted. Qed.

Theorem C19_empty_name_refuted :
  exists n0 evs, wf_init n0 /\ ce_guard n0 evs /\
    let n := fst (run n0 evs) in
    List.In ""%string (List.map fst (n_peer_waiting n)).
Proof. exact NodeD.C19_empty_name_refuted. Qed.

(* ---- FINDING: the discipline is needed.  Application.send_answer called with a message whose request flag is
   set: route_answer takes the waiting entry, send_message treats the message as a request (no _record_answer),
   and the origin entry stays for ever although nothing backs it.  The history satisfies (i') and (iii). ---- *)
Theorem C19_origin_backed_request_flag_refuted :
  exists n0 evs, wf_init_g n0 /\ ce_guard n0 evs /\
    let n := fst (run n0 evs) in
    n_origin_waiting n = [(0, 7%Z, 7%Z, "a"%string)] /\ n_peer_waiting n = [("a"%string, [])] /\
    ~ origin_backed_in n /\ ~ origin_backed n.
Proof. exact NodeD.C19_origin_backed_request_flag_refuted. Qed.

(* ---- clause (iii) of the guard is needed for C19_origin_backed (it was not while the origin table was keyed by
   the pair only: the old statement had no guard).  A request read from a connection whose connect() is still in
   progress is filed under the empty host identity; the entries of the origin table leave with THEIR connection
   only, but the waiting set of the empty host identity leaves with any connection that has no host identity
   yet: the origin entry of connection 0 stays, nothing backs it.  The history satisfies (i') and the
   discipline. ---- *)
Theorem C19_origin_backed_unguarded_refuted :
  exists n0 evs, wf_init_g n0 /\ cer_guard n0 evs /\ ans_disc evs /\
    let n := fst (run n0 evs) in
    reach_a n0 n /\ n_origin_waiting n = [(0, 7%Z, 7%Z, "a"%string)] /\ n_peer_waiting n = [] /\
    ~ origin_backed_in n /\ ~ origin_backed n.
Proof. exact NodeD.C19_origin_backed_unguarded_refuted. Qed.
End FromNodeD.

Module FromNodeC.
Import DV.Prelude.Base DV.Model.Ids DV.Proofs.IdsP DV.Model.Node DV.Proofs.NodeC.
Local Open Scope Z_scope.

(* C09: closing a connection drops every waiting list filed under its host identity *)
Theorem C09_removed_on_close n cid r c :
  get_conn n cid = Some c ->
  forall l, ~ List.In (c_host c, l) (n_peer_waiting (remove_conn n cid r)).
Proof. exact (@NodeC.C09_removed_on_close n cid r c). Qed.

(* C09 (old statement, origin table keyed by the pair only; false for the table keyed by connection,
   see ex_C09_unroutable_releases_origin_refuted below):
     fst (route_answer n m) = None ->
     List.find (fun e => mem_zz (o_hbh m, o_e2e m) (snd e)) (n_peer_waiting n) <> None ->
     forall h e x, List.In (h, e, x) (n_origin_waiting (snd (route_answer n m))) ->
                   ~ (h = o_hbh m /\ e = o_e2e m).
   New: an answer that cannot be routed although a host was waiting for its pair AND a connection
   with that host identity exists (which then is not ready) releases that connection's entry for
   the pair; every other entry of the origin table stays. *)
Theorem C09_unroutable_releases_origin n m host l c :
  List.find (fun e => mem_zz (o_hbh m, o_e2e m) (snd e)) (n_peer_waiting n) = Some (host, l) ->
  List.find (fun c => String.eqb (c_host c) host) (n_conns n) = Some c ->
  fst (route_answer n m) = None ->
  is_ready_state (c_state c) = false /\
  (forall k h e x, List.In (k, h, e, x) (n_origin_waiting (snd (route_answer n m))) ->
                   ~ (k = c_id c /\ h = o_hbh m /\ e = o_e2e m)) /\
  (forall k h e x, List.In (k, h, e, x) (n_origin_waiting n) ->
                   ~ (k = c_id c /\ h = o_hbh m /\ e = o_e2e m) ->
                   List.In (k, h, e, x) (n_origin_waiting (snd (route_answer n m)))).
Proof. exact (@NodeC.C09_unroutable_releases_origin n m host l c). Qed.

(* C10: an answer is handed to the blocked caller of the application that sent the request
   (and to no other application), or reported as unexpected to that application when nobody is
   blocked on it any more; an answer nobody asked for produces nothing.  In the first two
   cases the record is dropped. *)
Theorem C10_correlation n m :
  (forall i a, aw_lookup n m = Some i -> List.nth_error (n_apps n) i = Some a ->
     (mem_z (m_hbh m) (List.map fst (a_waiting a)) = true ->
      exists n', recv_app_answer n m = (n', [OAnswerTo i m]) /\ aw_lookup n' m = None /\
                 (exists a', List.nth_error (n_apps n') i = Some a' /\
                             mem_z (m_hbh m) (List.map fst (a_waiting a')) = false) /\
                 (forall j, j <> i -> List.nth_error (n_apps n') j = List.nth_error (n_apps n) j)) /\
     (mem_z (m_hbh m) (List.map fst (a_waiting a)) = false ->
      exists n', recv_app_answer n m = (n', [OUnexpected i m]) /\ aw_lookup n' m = None /\
                 n_apps n' = n_apps n)) /\
  (aw_lookup n m = None -> recv_app_answer n m = (n, [])).
Proof. exact (@NodeC.C10_correlation n m). Qed.

(* C10: a second copy of an answer is ignored *)
Theorem C10_duplicate_ignored n m i a n1 o1 :
  aw_lookup n m = Some i -> List.nth_error (n_apps n) i = Some a ->
  recv_app_answer n m = (n1, o1) ->
  (o1 = [OAnswerTo i m] \/ o1 = [OUnexpected i m]) /\ recv_app_answer n1 m = (n1, []).
Proof. exact (@NodeC.C10_duplicate_ignored n m i a n1 o1). Qed.

(* C09: once submitted, the pair is gone from that host's list, immediately and after the step *)
Theorem C09_second_fails n a cid n1 :
  route_answer n a = (Some cid, n1) ->
  exists c, List.In c (n_conns n) /\ c_id c = cid /\
            (forall l, List.In (c_host c, l) (n_peer_waiting n1) -> mem_zz (o_hbh a, o_e2e a) l = false) /\
            forall ds i n' outs, step n ds (EAppAnswer i a) = (n', outs) ->
                                 ~ pw_has (n_peer_waiting n') (c_host c) (o_hbh a, o_e2e a).
Proof. exact (@NodeC.C09_second_fails n a cid n1). Qed.
End FromNodeC.

Print Assumptions FromNodeD.C19_windows_bounded.
Print Assumptions FromNodeD.C19_waiting_hosts.
Print Assumptions FromNodeD.C19_no_conns_no_waiting.
Print Assumptions FromNodeD.C19_no_conns_no_tables.
Print Assumptions FromNodeD.C19_origin_backed.
Print Assumptions FromNodeD.C19_no_conns_no_origin.
Print Assumptions FromNodeD.C13_closed_stays_closed.
Print Assumptions FromNodeD.C19_connecting_read_refuted.
Print Assumptions FromNodeD.C19_empty_name_refuted.
Print Assumptions FromNodeD.C19_origin_backed_request_flag_refuted.
Print Assumptions FromNodeD.C19_origin_backed_unguarded_refuted.
Print Assumptions FromNodeC.C09_removed_on_close.
Print Assumptions FromNodeC.C09_unroutable_releases_origin.
Print Assumptions FromNodeC.C10_correlation.
Print Assumptions FromNodeC.C10_duplicate_ignored.
Print Assumptions FromNodeC.C09_second_fails.
