(* Table obligations over the regenerated registry (exhaustive: every class the library defines). *)
From DV Require Import Prelude.Base Model.Wire Model.Msg Spec.MsgSpec Proofs.MsgP Gen.GenRegistry.

Lemma registry_masks_ok : forallb (fun r => answer_mask_ok class_rows (c_name r)) class_rows = true.
Proof. vm_compute. reflexivity. Qed.
Lemma registry_dispatch_ok : forallb (dispatch_row_ok class_rows) registry_rows = true.
Proof. vm_compute. reflexivity. Qed.
Lemma registry_answer_class_ok : forallb (answer_row_ok class_rows) class_rows = true.
Proof. vm_compute. reflexivity. Qed.
Lemma registry_answer_code_ok : forallb (answer_code_ok class_rows) class_rows = true.
Proof. vm_compute. reflexivity. Qed.
Lemma registry_class_names_unique : NoDup (map c_name class_rows).
Proof.
  assert (H : forall l, (fix nd (l : list String.string) : bool :=
             match l with [] => true | x :: r => negb (existsb (String.eqb x) r) && nd r end) l = true -> NoDup l).
  { induction l as [|x r IH]; intros H; [constructor|]. apply andb_true_iff in H as [H1 H2]. constructor; [|apply IH, H2].
    intros Hin. apply negb_true_iff in H1. assert (existsb (String.eqb x) r = true); [|congruence].
    apply existsb_exists. exists x. split; [exact Hin|apply String.eqb_refl]. }
  apply H. vm_compute. reflexivity.
Qed.

(* C20 for every class of the library and every header *)
Theorem C20_every_library_class : forall r h, In r class_rows ->
  (c_code r = -1 \/ c_code r = h_code h) ->
  let '(a, h') := to_answer class_rows (c_name r) h in
  a = answer_class class_rows (c_name r) /\ answer_row_ok class_rows r = true /\
  h_version h' = h_version h /\ h_code h' = h_code h /\ h_app h' = h_app h /\
  h_hbh h' = h_hbh h /\ h_e2e h' = h_e2e h /\ h_flags h' = Z.land (h_flags h) HF_P.
Proof.
  intros r h Hin Hcode.
  pose proof registry_masks_ok as Hm. rewrite forallb_forall in Hm. specialize (Hm r Hin).
  pose proof registry_answer_class_ok as Ha. rewrite forallb_forall in Ha. specialize (Ha r Hin).
  pose proof registry_answer_code_ok as Hc. rewrite forallb_forall in Hc. specialize (Hc r Hin).
  pose proof (to_answer_header class_rows (c_name r) h) as Hh.
  pose proof (to_answer_flags class_rows (c_name r) h Hm) as Hf.
  assert (Hcc : code_consistent class_rows (c_name r) h).
  { unfold code_consistent. unfold answer_code_ok in Hc.
    destruct (cls_lookup class_rows (answer_class class_rows (c_name r))) as [a|]; [|exact I].
    apply orb_true_iff in Hc as [H|H]; apply Z.eqb_eq in H; [left; exact H|].
    destruct Hcode as [Hx|Hx]; [left|right]; congruence. }
  pose proof (to_answer_code class_rows (c_name r) h Hcc) as Hk.
  destruct (to_answer class_rows (c_name r) h) as [a h'] eqn:E.
  assert (Ea : a = answer_class class_rows (c_name r)) by (unfold to_answer in E; injection E as <- _; reflexivity).
  cbn [snd] in *. destruct Hh as (H1 & H2 & H3 & H4 & H5). repeat split; assumption.
Qed.

(* C02: for every registered command code the class chosen follows the <Base>Request / <Base>Answer rule *)
Theorem C02_dispatch_every_code : forall r, In r registry_rows -> dispatch_row_ok class_rows r = true.
Proof. intros r H. pose proof registry_dispatch_ok as Hd. rewrite forallb_forall in Hd. exact (Hd r H). Qed.
