(* C18 — graceful shutdown: DPR to ready peers, drain, refuse newcomers, close everything
   Statements copied from the proof files; each is closed by `exact`. *)
From DV Require Prelude.Base Model.Ids Proofs.IdsP Model.Node Proofs.NodeA Proofs.NodeB Proofs.NodeC Proofs.NodeD Proofs.NodeF Proofs.NodeG Proofs.NodeH.
From Coq Require String List Lia Bool Arith ZArith.

Module FromNodeA.
Import DV.Prelude.Base DV.Model.Node DV.Proofs.NodeA.
Import Coq.Strings.String.
Open Scope string_scope.
Open Scope list_scope.
Open Scope Z_scope.

(* C18: stop() queues exactly one DPR for each ready connection, in connection order, and nothing else;
   a forced stop sends nothing; the node is stopping afterwards *)
Theorem C18_dpr_to_ready n ds :
  List.NoDup (List.map c_id (n_conns n)) ->
  (List.map fst (queued (snd (step n ds (EStop false)))) =
     List.map c_id (List.filter (fun c => is_ready_state (c_state c)) (n_conns n)) /\
   List.Forall isdpr (queued (snd (step n ds (EStop false)))) /\
   n_stopping (fst (step n ds (EStop false))) = true) /\
  (snd (step n ds (EStop true)) = [] /\ n_stopping (fst (step n ds (EStop true))) = true).
Proof. exact (@NodeA.C18_dpr_to_ready n ds). Qed.

(* C18: while the node is stopping no timer fires, nobody is dialled, the I/O iteration outputs nothing *)
Theorem C18_quiet_while_stopping n :
  n_stopping n = true ->
  (forall cid, check_timers n cid = (n, [])) /\
  (forall names ds, dials_of (snd (fst (reconnect_all n names ds))) = [] /\
                    snd (fst (reconnect_all n names ds)) = []) /\
  (forall ds, snd (fst (io_iteration n ds)) = []).
Proof. exact (@NodeA.C18_quiet_while_stopping n). Qed.

(* C18: a connection accepted while stopping is closed at once and not registered *)
Theorem C18_newcomers_refused n ds h :
  n_stopping n = true ->
  n_conns (fst (step n ds (EAccept h))) = n_conns n /\
  snd (step n ds (EAccept h)) = [OClose (n_next_cid n) R_SHUTDOWN].
Proof. exact (@NodeA.C18_newcomers_refused n ds h). Qed.

(* C18: when stop() finishes no connection is left and each one was closed with NODE_SHUTDOWN *)
Theorem C18_all_closed n ds tc te :
  n_conns (fst (step n ds (EStopFinish tc te))) = [] /\
  (forall c, List.In c (n_conns n) -> List.In (OClose (c_id c) R_SHUTDOWN) (snd (step n ds (EStopFinish tc te)))).
Proof. exact (@NodeA.C18_all_closed n ds tc te). Qed.

(* C18: a DPA closes the connection at once (CLEAN) if nothing is buffered; otherwise the connection is
   CLOSING and the next flush that the socket accepts closes it *)
Theorem C18_close_after_dpa n cid c :
  get_conn n cid = Some c ->
  (c_out c = [] -> snd (recv_dpa n cid) = [OClose cid R_CLEAN] /\ get_conn (fst (recv_dpa n cid)) cid = None) /\
  (c_out c <> [] ->
     snd (recv_dpa n cid) = [] /\
     get_conn (fst (recv_dpa n cid)) cid = Some (set_cstate c SClosing) /\
     (c_stalled c = false -> c_sock_open c = true ->
      (exists pre post, snd (flush (fst (recv_dpa n cid))) =
                        pre ++ List.map (OSend cid) (c_out c) ++ [OClose cid R_CLEAN] ++ post) /\
      get_conn (fst (flush (fst (recv_dpa n cid)))) cid = None)).
Proof. exact (@NodeA.C18_close_after_dpa n cid c). Qed.
End FromNodeA.

Module FromNodeH.
Import DV.Prelude.Base DV.Model.Node DV.Proofs.NodeA DV.Proofs.NodeC DV.Proofs.NodeH.
Local Open Scope Z_scope.

(* C18: every step keeps the stop flag once it is set *)
Theorem C18_step_keeps_stopping n ds e : n_stopping n = true -> n_stopping (fst (step n ds e)) = true.
Proof. exact (@NodeH.C18_step_keeps_stopping n ds e). Qed.

(* C18: Node.stop() sets the stop flag *)
Theorem C18_stop_sets_flag n ds f : n_stopping (fst (step n ds (EStop f))) = true.
Proof. exact (@NodeH.C18_stop_sets_flag n ds f). Qed.

(* C18: once stop() has been called, the stop flag is set in every later state of the run *)
Theorem C18_history_stopping_is_forever n0 evs pre n1 f outs post :
  strace n0 evs = (pre ++ (n1, (EStop f, outs)) :: post)%list ->
  (forall nk e o, List.In (nk, (e, o)) post -> n_stopping nk = true) /\
  n_stopping (fst (run n0 evs)) = true.
Proof. exact (@NodeH.C18_history_stopping_is_forever n0 evs pre n1 f outs post). Qed.

(* C18: a step of a stopping node dials nobody and queues no DWR and no CER *)
Theorem C18_step_quiet n ds e :
  n_stopping n = true -> benign e -> List.Forall calm (snd (step n ds e)).
Proof. exact (@NodeH.C18_step_quiet n ds e). Qed.

(* C18: the step of stop() itself queues DPRs but dials nobody and queues no DWR and no CER *)
Theorem C18_stop_step_quiet n ds f : List.Forall calm (snd (step n ds (EStop f))).
Proof. exact (@NodeH.C18_stop_step_quiet n ds f). Qed.

(* C18: after stop() has been called, no later (benign) event of the history dials a peer or queues a DWR or a
   CER: answers (DWA, DPA, 5012, ...), DPRs and application requests are all that is still queued *)
Theorem C18_history_quiet n0 evs pre n1 f outs post :
  strace n0 evs = (pre ++ (n1, (EStop f, outs)) :: post)%list ->
  List.Forall calm outs /\
  forall nk e o, List.In (nk, (e, o)) post -> benign e ->
    (forall p, ~ List.In (ODial p) o) /\
    (forall cid m, List.In (OQueue cid m) o -> o_req m = true -> o_cmd m <> DW /\ o_cmd m <> CE).
Proof. exact (@NodeH.C18_history_quiet n0 evs pre n1 f outs post). Qed.

(* C18: every connection attempt after stop() is closed at once (NODE_SHUTDOWN) and registers nothing *)
Theorem C18_history_newcomers_refused n0 evs pre n1 f outs post nk h o :
  strace n0 evs = (pre ++ (n1, (EStop f, outs)) :: post)%list ->
  List.In (nk, (EAccept h, o)) post ->
  o = [OClose (n_next_cid nk) R_SHUTDOWN] /\ forall ds, n_conns (fst (step nk ds (EAccept h))) = n_conns nk.
Proof. exact (@NodeH.C18_history_newcomers_refused n0 evs pre n1 f outs post nk h o). Qed.

(* B refuted for EStart: Node.start() on a stopping node dials the persistent peers and sends them a CER *)
Theorem C18_history_quiet_start_refuted :
  ~ (forall n ds, n_stopping n = true -> List.Forall calm (snd (step n ds EStart))).
Proof. exact NodeH.Examples.C18_history_quiet_start_refuted. Qed.

(* B refuted for EConnDone: a connect() that completes while the node is stopping is followed by a CER *)
Theorem C18_history_quiet_conn_done_refuted :
  ~ (forall n ds k, n_stopping n = true -> List.Forall calm (snd (step n ds (EConnDone k true)))).
Proof. exact NodeH.Examples.C18_history_quiet_conn_done_refuted. Qed.
End FromNodeH.

Print Assumptions FromNodeA.C18_dpr_to_ready.
Print Assumptions FromNodeA.C18_quiet_while_stopping.
Print Assumptions FromNodeA.C18_newcomers_refused.
Print Assumptions FromNodeA.C18_all_closed.
Print Assumptions FromNodeA.C18_close_after_dpa.
Print Assumptions FromNodeH.C18_step_keeps_stopping.
Print Assumptions FromNodeH.C18_stop_sets_flag.
Print Assumptions FromNodeH.C18_history_stopping_is_forever.
Print Assumptions FromNodeH.C18_step_quiet.
Print Assumptions FromNodeH.C18_stop_step_quiet.
Print Assumptions FromNodeH.C18_history_quiet.
Print Assumptions FromNodeH.C18_history_newcomers_refused.
Print Assumptions FromNodeH.C18_history_quiet_start_refuted.
Print Assumptions FromNodeH.C18_history_quiet_conn_done_refuted.
